(* Facts over the finite byte domain proved by complete enumeration:
   [forallb P all_bytes = true] by vm_compute, lifted to every c < 256. *)
From Tabula Require Import base.Val.
From Coq Require Import Lia.
Open Scope N_scope.

Definition all_bytes : list N := map N.of_nat (seq 0 256).

Lemma in_all_bytes c : c < 256 -> In c all_bytes.
Proof.
  intro H. unfold all_bytes. apply in_map_iff. exists (N.to_nat c). split.
  - apply N2Nat.id.
  - apply in_seq. lia.
Qed.

Lemma byte_forall (P : N -> bool) :
  forallb P all_bytes = true -> forall c, c < 256 -> P c = true.
Proof.
  intros H c Hc. rewrite forallb_forall in H. apply H. apply in_all_bytes. exact Hc.
Qed.

Lemma bytes_ok_app a b : bytes_ok (a ++ b) <-> bytes_ok a /\ bytes_ok b.
Proof. unfold bytes_ok. apply Forall_app. Qed.

Lemma bytes_ok_cons c s : bytes_ok (c :: s) <-> c < 256 /\ bytes_ok s.
Proof. unfold bytes_ok, byte_ok. split; intro H. inversion H; auto. destruct H; constructor; auto. Qed.
