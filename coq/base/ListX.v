(* small list utilities shared by the models *)
From Tabula Require Import base.Val.
From Coq Require Import Lia.

Fixpoint upd_nth {A} (n : nat) (f : A -> A) (l : list A) : list A :=
  match l, n with
  | [], _ => []
  | x :: l', O => f x :: l'
  | x :: l', S n' => x :: upd_nth n' f l'
  end.

Lemma upd_nth_length {A} n (f : A -> A) l : length (upd_nth n f l) = length l.
Proof. revert n; induction l as [|x l IH]; intros [|n]; cbn; auto. Qed.

Lemma nth_error_upd_same {A} n (f : A -> A) l x :
  nth_error l n = Some x -> nth_error (upd_nth n f l) n = Some (f x).
Proof.
  revert n; induction l as [|y l IH]; intros [|n] H; cbn in *; try discriminate.
  - inversion H; reflexivity.
  - apply IH; exact H.
Qed.

Lemma nth_error_upd_other {A} n m (f : A -> A) l :
  n <> m -> nth_error (upd_nth n f l) m = nth_error l m.
Proof.
  revert n m; induction l as [|y l IH]; intros [|n] [|m] H; cbn; auto; try congruence.
Qed.

Lemma nth_error_upd_none {A} n (f : A -> A) l :
  nth_error l n = None -> upd_nth n f l = l.
Proof.
  revert n; induction l as [|y l IH]; intros [|n] H; cbn in *; try discriminate; auto.
  f_equal. apply IH. exact H.
Qed.

(* join with a separator *)
Fixpoint join (sep : bytes) (l : list bytes) : bytes :=
  match l with
  | [] => []
  | [x] => x
  | x :: l' => x ++ sep ++ join sep l'
  end.

Definition zmax (a b : Z) : Z := if Z.ltb a b then b else a.
