(* UTF-8 well-formedness (Unicode table 3-7) and the boundary lemmas used by
   C13 and C07. *)
From Tabula Require Import base.Val.
From Coq Require Import Lia ZifyN ZifyNat ZifyBool.
Open Scope N_scope.

Definition is_cont (b : N) : bool := (128 <=? b) && (b <=? 191).

(* one well-formed UTF-8 encoded scalar value *)
Inductive uchar : bytes -> Prop :=
| U1 a : a < 128 -> uchar [a]
| U2 a b : 194 <= a <= 223 -> is_cont b = true -> uchar [a; b]
| U3a b c : 160 <= b <= 191 -> is_cont c = true -> uchar [224; b; c]
| U3b a b c : (225 <= a <= 236 \/ 238 <= a <= 239) -> is_cont b = true -> is_cont c = true -> uchar [a; b; c]
| U3c b c : 128 <= b <= 159 -> is_cont c = true -> uchar [237; b; c]
| U4a b c d : 144 <= b <= 191 -> is_cont c = true -> is_cont d = true -> uchar [240; b; c; d]
| U4b a b c d : 241 <= a <= 243 -> is_cont b = true -> is_cont c = true -> is_cont d = true -> uchar [a; b; c; d]
| U4c b c d : 128 <= b <= 143 -> is_cont c = true -> is_cont d = true -> uchar [244; b; c; d].

Inductive valid_utf8 : bytes -> Prop :=
| V_nil : valid_utf8 []
| V_app c s : uchar c -> valid_utf8 s -> valid_utf8 (c ++ s).

(* a position is a boundary when what follows does not begin with a continuation byte *)
Definition starts_at_boundary (b : bytes) : Prop :=
  match b with [] => True | x :: _ => is_cont x = false end.

Lemma uchar_shape c : uchar c ->
  exists h t, c = h :: t /\ is_cont h = false /\ Forall (fun x => is_cont x = true) t.
Proof.
  intro H. destruct H; eexists; eexists; (split; [reflexivity|]); unfold is_cont in *;
    (split; [lia | repeat constructor; try assumption; try lia]).
Qed.

Lemma valid_app a b : valid_utf8 a -> valid_utf8 b -> valid_utf8 (a ++ b).
Proof.
  induction 1 as [|c s Hc Hs IH]; intro Hb; [exact Hb|]. rewrite <- app_assoc. constructor; auto.
Qed.

Lemma app_eq_app_split {A} (c s a b : list A) : c ++ s = a ++ b ->
  (exists a', a = c ++ a' /\ s = a' ++ b) \/ (exists c2, c2 <> [] /\ c = a ++ c2 /\ b = c2 ++ s).
Proof.
  revert a. induction c as [|x c IH]; intros a H; cbn in H.
  - left. exists a. split; auto.
  - destruct a as [|y a]; cbn in H.
    + right. exists (x :: c). split; [discriminate|]. split; auto.
    + inversion H; subst. destruct (IH a H2) as [[a' [E1 E2]]|[c2 [N [E1 E2]]]].
      * left. exists a'. subst. split; reflexivity.
      * right. exists c2. subst. split; [exact N|]. split; reflexivity.
Qed.

(* cutting a valid string at a boundary gives two valid strings *)
Lemma valid_split s : valid_utf8 s -> forall a b, s = a ++ b -> starts_at_boundary b ->
  valid_utf8 a /\ valid_utf8 b.
Proof.
  induction 1 as [|c s Hc Hs IH]; intros a b E Hb.
  - symmetry in E. apply app_eq_nil in E as [-> ->]. split; constructor.
  - destruct (app_eq_app_split _ _ _ _ E) as [[a' [E1 E2]]|[c2 [N [E1 E2]]]].
    + destruct (IH a' b E2 Hb) as [Va Vb]. subst a. split; [constructor; assumption|exact Vb].
    + (* the cut falls inside c or at its start *)
      destruct a as [|y a].
      * cbn in E1. subst c2. split; [constructor|]. subst b. constructor; assumption.
      * exfalso. destruct (uchar_shape c Hc) as [h [t [Ec [Hh Ht]]]].
        rewrite Ec in E1. cbn in E1. inversion E1; subst.
        destruct c2 as [|z c2]; [contradiction|].
        assert (In z (a ++ z :: c2)) as Hin by (apply in_or_app; right; left; reflexivity).
        rewrite Forall_forall in Ht. specialize (Ht z Hin).
        cbn in Hb. congruence.
Qed.

Lemma valid_after_ascii a c b : c < 128 -> valid_utf8 (a ++ c :: b) ->
  valid_utf8 (a ++ [c]) /\ valid_utf8 b.
Proof.
  intros Hc H.
  assert (is_cont c = false) as Hnc by (unfold is_cont; lia).
  destruct (valid_split _ H a (c :: b) eq_refl Hnc) as [Va Vcb].
  inversion Vcb as [|c0 s0 Hu Hs E]; subst.
  destruct Hu; cbn in E; inversion E; subst; try lia.
  split; [|assumption]. apply valid_app; [exact Va|]. rewrite <- (app_nil_r [c]).
  constructor; [constructor; assumption|constructor].
Qed.

Lemma valid_single_ascii c : c < 128 -> valid_utf8 [c].
Proof. intro H. rewrite <- (app_nil_r [c]). constructor; constructor. exact H. Qed.
