(* Val.v - the universal value type exchanged between the Go harness, the OCaml
   driver and the Coq models.  Text syntax (one value per line):
     integer   -?[0-9]+
     bytes     x[0-9a-f]*
     list      ( v v ... )
   Every model exports [run_Cxx : val -> val]; the decoding of a case and the
   encoding of the observable are therefore written in Gallina and extracted,
   and the OCaml driver stays generic. *)
From Coq Require Export List NArith ZArith Bool.
Export ListNotations.
Open Scope Z_scope.

Inductive val : Type :=
| VI (z : Z)
| VB (b : list N)
| VL (l : list val).

Definition bytes := list N.

(* Outcome of a modelled Go call.  Panic and Diverge are explicit outcomes so
   that theorems exclude them by statement, never by a default value. *)
Inductive res (A : Type) : Type :=
| Ok (a : A)
| Err
| Panic
| Diverge.
Arguments Ok {A} a.
Arguments Err {A}.
Arguments Panic {A}.
Arguments Diverge {A}.

Definition res_bind {A B} (r : res A) (f : A -> res B) : res B :=
  match r with
  | Ok a => f a
  | Err => Err
  | Panic => Panic
  | Diverge => Diverge
  end.

Definition res_map {A B} (f : A -> B) (r : res A) : res B :=
  res_bind r (fun a => Ok (f a)).

(* observable encoding of an outcome: (0 payload) | (1) | (2) | (3) *)
Definition val_of_res {A} (enc : A -> val) (r : res A) : val :=
  match r with
  | Ok a => VL [VI 0; enc a]
  | Err => VL [VI 1]
  | Panic => VL [VI 2]
  | Diverge => VL [VI 3]
  end.

Definition bad_case : val := VL [VI (-1)].

Definition val_z (v : val) : Z := match v with VI z => z | _ => 0 end.
Definition val_b (v : val) : bytes := match v with VB b => b | _ => [] end.
Definition val_l (v : val) : list val := match v with VL l => l | _ => [] end.
Definition val_nat (v : val) : nat := Z.to_nat (val_z v).
Definition val_n (v : val) : N := Z.to_N (val_z v).
Definition val_bool (v : val) : bool := negb (Z.eqb (val_z v) 0).
Definition vbool (b : bool) : val := VI (if b then 1 else 0).
Definition vnat (n : nat) : val := VI (Z.of_nat n).
Definition vn (n : N) : val := VI (Z.of_N n).
Definition vopt {A} (enc : A -> val) (o : option A) : val :=
  match o with Some a => VL [enc a] | None => VL [] end.

Definition byte_ok (b : N) : Prop := (b < 256)%N.
Definition bytes_ok (s : bytes) : Prop := Forall byte_ok s.

Fixpoint bytes_eqb (a b : bytes) : bool :=
  match a, b with
  | [], [] => true
  | x :: a', y :: b' => N.eqb x y && bytes_eqb a' b'
  | _, _ => false
  end.

Lemma bytes_eqb_eq a b : bytes_eqb a b = true <-> a = b.
Proof.
  revert b; induction a as [|x a IH]; intros [|y b]; simpl; split; intro H;
    try reflexivity; try discriminate.
  - apply andb_true_iff in H as [H1 H2]. apply N.eqb_eq in H1. apply IH in H2. congruence.
  - inversion H; subst. rewrite N.eqb_refl. simpl. apply IH. reflexivity.
Qed.

Lemma bytes_eqb_refl a : bytes_eqb a a = true.
Proof. apply bytes_eqb_eq. reflexivity. Qed.

(* ASCII helper: a Coq string literal as bytes, for names such as "Predictor". *)
From Coq Require String Ascii.
Import (notations) String.
Import String Ascii.
Fixpoint bytes_of_string (s : string) : bytes :=
  match s with
  | EmptyString => []
  | String a s' => N_of_ascii a :: bytes_of_string s'
  end.
Arguments bytes_of_string s%string.
Definition bs := bytes_of_string.
Arguments bs s%string.
