(* Extraction of every run_Cxx to OCaml.  ExtrOcamlBasic only: bool, option,
   unit, list, prod, sumbool map to OCaml's; N / Z / positive / nat / string stay
   the extracted Coq datatypes.  No Extract Constant. *)
From Coq Require Import Extraction ExtrOcamlBasic.
From Tabula Require Import base.Val.
From Tabula Require Import model.C05_Run model.C17_Run model.C08_Run model.C13_Run model.C20_Run model.C11_Run model.C14_Run model.C10_Run model.C15_Run model.C18_Run model.C16_Run model.C12_Run model.C19_Run model.C07_Run model.C06_Run model.C04_Run model.C09_Run model.C03_Run model.C01_Run model.C02_Run.
Extraction Language OCaml.
Extraction "model.ml" Z.add Z.mul Z.sub Z.div Z.modulo Z.of_N Z.to_N N.of_nat Z.of_nat
  run_C05 run_C17 run_C08 run_C13 run_C20 run_C11 run_C14 run_C10 run_C15 run_C18 run_C16 run_C12 run_C19 run_C07 run_C06 run_C04 run_C09 run_C03 run_C01 run_C02.
