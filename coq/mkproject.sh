#!/bin/sh
# regenerate _CoqProject (all .v except props/ and extract/, which are compiled by ./check directly)
cd "$(dirname "$0")"
{ echo "-Q . Tabula"; echo "-arg -w -arg -notation-overridden,-deprecated-hint-without-locality,-deprecated-instance-without-locality"; find base gen model proofs -name '*.v' | LC_ALL=C sort; } > _CoqProject.new
if ! cmp -s _CoqProject.new _CoqProject; then mv _CoqProject.new _CoqProject; coq_makefile -f _CoqProject -o Makefile >/dev/null; else rm _CoqProject.new; fi
[ -f Makefile ] || coq_makefile -f _CoqProject -o Makefile >/dev/null
