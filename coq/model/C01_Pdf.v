(* C01 model: what a PDF shows, read off its page tree.
   The page tree is a tree of Pages nodes and Page leaves; each node may state
   the inheritable attributes MediaBox, Rotate and Resources (here: the font of
   each resource name).  A leaf holds the decoded bytes of its content streams.
   Reading a page = effective attributes (nearest ancestor that states them),
   the content streams joined by white space, parsed by the content-stream
   parser of C06, and the text-showing operators interpreted with the current
   font, each string decoded by the font decoders of C07.
   How the objects are stored in the file (numbering, object streams, filters,
   revisions, cross-reference kind) is below this model: C04, C05 and C06 model
   those layers; the harness writes every file in random physical layouts and
   the implementation must read all of them like this model reads the tree. *)
From Tabula Require Export base.Val base.ListX.
From Tabula Require Import model.C06_Syntax model.C07_Font model.C07_Run.
From Coq Require String.
Import (notations) String.
Open Scope Z_scope.

Record attrs := {
  a_box : option (list Z);
  a_rot : option Z;
  a_res : option (list (bytes * nat))       (* resource name -> font *)
}.

Definition no_attrs : attrs := {| a_box := None; a_rot := None; a_res := None |}.

Inductive ptree :=
| Leaf (a : attrs) (chunks : list bytes)
| Node (a : attrs) (kids : list ptree).

Definition over {A} (own inh : option A) : option A := match own with Some x => Some x | None => inh end.

(* what holds below a node that states [own] and inherits [inh] *)
Definition inherit (own inh : attrs) : attrs :=
  {| a_box := over (a_box own) (a_box inh);
     a_rot := over (a_rot own) (a_rot inh);
     a_res := over (a_res own) (a_res inh) |}.

(* the pages in document order, each with its effective attributes and content streams *)
Fixpoint flatten (inh : attrs) (t : ptree) : list (attrs * list bytes) :=
  match t with
  | Leaf a cs => [(inherit a inh, cs)]
  | Node a kids =>
      (fix go (l : list ptree) : list (attrs * list bytes) :=
         match l with
         | [] => []
         | k :: r => flatten (inherit a inh) k ++ go r
         end) kids
  end.

Fixpoint leaves (t : ptree) : nat :=
  match t with
  | Leaf _ _ => 1%nat
  | Node _ kids => (fix go (l : list ptree) : nat := match l with [] => O | k :: r => (leaves k + go r)%nat end) kids
  end.

(* ---------- content ---------- *)

(* the content streams of a page, as one: white space between them *)
Fixpoint join_streams (chunks : list bytes) : bytes :=
  match chunks with
  | [] => []
  | [c] => c
  | c :: r => c ++ 10%N :: join_streams r
  end.

(* ---------- fonts ---------- *)
Inductive fontdec := FTable (name : bytes) | FCMap (program : bytes).

Definition font_decode (f : fontdec) (data : bytes) : list Z :=
  match f with
  | FTable n => table_decode (enc_table n) data
  | FCMap p => lookup_string (parse_cmap p) data
  end.

Fixpoint res_lookup (name : bytes) (res : list (bytes * nat)) : option nat :=
  match res with
  | [] => None
  | (n, f) :: r => if bytes_eqb n name then Some f else res_lookup name r
  end.

(* the text of a string shown with the font selected by [name]; without a font the bytes stand for themselves *)
Definition shown (fonts : list fontdec) (res : option (list (bytes * nat))) (name : bytes) (data : bytes) : list Z :=
  match res with
  | Some rs =>
      match res_lookup name rs with
      | Some f => match nth_error fonts f with Some fd => font_decode fd data | None => map Z.of_N data end
      | None => map Z.of_N data
      end
  | None => map Z.of_N data
  end.

(* ---------- text-showing operators ---------- *)
Definition op_is (op : bytes) (s : String.string) : bool := bytes_eqb op (bytes_of_string s).

Fixpoint strings_of (l : list obj) : list bytes :=
  match l with
  | [] => []
  | OStr s :: r => s :: strings_of r
  | _ :: r => strings_of r
  end.

(* one operation: the new current font and the strings shown *)
Definition step_op (font : bytes) (op : bytes * list obj) : bytes * list bytes :=
  let '(o, args) := op in
  if op_is o "Tf" then
    match args with
    | [OName n; _] => (n, [])
    | _ => (font, [])
    end
  else if op_is o "Tj" || op_is o "'" then
    match args with
    | [OStr s] => (font, [s])
    | _ => (font, [])
    end
  else if op_is o """" then
    match args with
    | [_; _; OStr s] => (font, [s])
    | _ => (font, [])
    end
  else if op_is o "TJ" then
    match args with
    | [OArr l] => (font, strings_of l)
    | _ => (font, [])
    end
  else (font, []).

(* all operations: the strings shown, each with the font current when it was shown *)
Fixpoint run_ops (font : bytes) (ops : list (bytes * list obj)) : bytes * list (bytes * bytes) :=
  match ops with
  | [] => (font, [])
  | op :: r =>
      let '(font', out) := step_op font op in
      let '(font'', rest) := run_ops font' r in
      (font'', map (fun s => (font', s)) out ++ rest)
  end.

Definition page_strings (fonts : list fontdec) (a : attrs) (ops : list (bytes * list obj)) : list (list Z) :=
  map (fun fs => shown fonts (a_res a) (fst fs) (snd fs)) (snd (run_ops [] ops)).

(* a page: MediaBox, Rotate, the shown strings; None when the content does not parse or no MediaBox is in force *)
Definition read_page (fonts : list fontdec) (p : attrs * list bytes) : option (list Z * Z * list (list Z)) :=
  let '(a, chunks) := p in
  match a_box a with
  | None => None
  | Some box =>
      let rot := match a_rot a with Some r => r | None => 0 end in
      match chunks with
      | [] => Some (box, rot, [])
      | _ =>
          match cs_parse_all (join_streams chunks) with
          | Some ops => Some (box, rot, page_strings fonts a ops)
          | None => None
          end
      end
  end.

Fixpoint all_some {A} (l : list (option A)) : option (list A) :=
  match l with
  | [] => Some []
  | Some x :: r => match all_some r with Some xs => Some (x :: xs) | None => None end
  | None :: _ => None
  end.

Definition read_document (fonts : list fontdec) (t : ptree) : option (list (list Z * Z * list (list Z))) :=
  all_some (map (read_page fonts) (flatten no_attrs t)).

(* ---------- the same tree as indirect objects ---------- *)
(* In the file the nodes are objects found by number (C04 models how a number
   is resolved through the revisions); Kids are references.  The reader walks
   the references with a bound on the depth. *)
Inductive gobj := GPages (a : attrs) (kids : list N) | GPage (a : attrs) (chunks : list bytes).

Fixpoint concat_opt {A} (l : list (option (list A))) : option (list A) :=
  match l with
  | [] => Some []
  | Some x :: r => match concat_opt r with Some xs => Some (x ++ xs) | None => None end
  | None :: _ => None
  end.

Fixpoint gflatten (fuel : nat) (st : N -> option gobj) (inh : attrs) (n : N) : option (list (attrs * list bytes)) :=
  match fuel with
  | O => None
  | S f =>
      match st n with
      | None => None
      | Some (GPage a cs) => Some [(inherit a inh, cs)]
      | Some (GPages a kids) => concat_opt (map (gflatten f st (inherit a inh)) kids)
      end
  end.

(* a page tree whose nodes carry their object numbers *)
Inductive ntree :=
| NLeaf (id : N) (a : attrs) (chunks : list bytes)
| NNode (id : N) (a : attrs) (kids : list ntree).

Definition nid (t : ntree) : N := match t with NLeaf i _ _ => i | NNode i _ _ => i end.

Fixpoint erase (t : ntree) : ptree :=
  match t with
  | NLeaf _ a cs => Leaf a cs
  | NNode _ a kids => Node a (map erase kids)
  end.

Fixpoint ndepth (t : ntree) : nat :=
  match t with
  | NLeaf _ _ _ => 1%nat
  | NNode _ _ kids => S (fold_right (fun k n => Nat.max (ndepth k) n) O kids)
  end.

(* the store holds the tree: every node is found under its number *)
Fixpoint stored (st : N -> option gobj) (t : ntree) : Prop :=
  match t with
  | NLeaf i a cs => st i = Some (GPage a cs)
  | NNode i a kids =>
      st i = Some (GPages a (map nid kids)) /\
      (fix all (l : list ntree) : Prop := match l with [] => True | k :: r => stored st k /\ all r end) kids
  end.
