From Tabula Require Import model.C01_Pdf model.C07_Font.
Open Scope Z_scope.

(* val -> tree:  (0 attrs (xCHUNK ...)) leaf, (1 attrs (tree ...)) node
   attrs = (box rot res), each () or (v); box = (a b c d); res = ((xNAME font) ...) *)
Definition dec_opt {A} (f : val -> A) (v : val) : option A :=
  match val_l v with
  | [x] => Some (f x)
  | _ => None
  end.

Definition dec_attrs (v : val) : attrs :=
  match val_l v with
  | [b; r; s] =>
      {| a_box := dec_opt (fun x => map val_z (val_l x)) b;
         a_rot := dec_opt val_z r;
         a_res := dec_opt (fun x => map (fun e => match val_l e with
                                                  | [n; f] => (val_b n, Z.to_nat (val_z f))
                                                  | _ => ([], O)
                                                  end) (val_l x)) s |}
  | _ => no_attrs
  end.

Fixpoint dec_tree (fuel : nat) (v : val) : ptree :=
  match fuel with
  | O => Leaf no_attrs []
  | S f =>
      match val_l v with
      | [VI 0; a; cs] => Leaf (dec_attrs a) (map val_b (val_l cs))
      | [VI 1; a; ks] => Node (dec_attrs a) (map (dec_tree f) (val_l ks))
      | _ => Leaf no_attrs []
      end
  end.

Definition dec_font (v : val) : fontdec :=
  match val_l v with
  | [VI 0; VB n] => FTable n
  | [VI 1; VB p] => FCMap p
  | _ => FTable []
  end.

(* (tree fonts) -> (0 n ((box rot (xTEXT ...)) ...)) | (1) *)
Definition run_C01 (v : val) : val :=
  match val_l v with
  | [t; fs] =>
      match read_document (map dec_font (val_l fs)) (dec_tree 64 t) with
      | Some pages =>
          VL [VI 0; vnat (length pages);
              VL (map (fun p => let '(box, rot, strs) := p in
                                VL [VL (map VI box); VI rot; VL (map (fun s => VB (runes_bytes s)) strs)]) pages)]
      | None => VL [VI 1]
      end
  | _ => bad_case
  end.
