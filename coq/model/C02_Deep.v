(* C02 model, Reader.ResolveDeep: every reference in an object expanded in place,
   with the two guards that make it end on every object graph: the numbers of the
   objects being expanded (a reference back to one of them is an error) and a
   budget of values per call (shared subtrees are expanded at every use).
   Dictionaries are expanded like arrays (their values in some order); the model
   has arrays only, the outcome does not depend on the order. *)
From Tabula Require Export model.C02_Walks.
Open Scope N_scope.

Inductive dobj :=
| DLeaf (v : N)                 (* anything without references inside: numbers, strings, names, streams *)
| DRef (n : N)
| DArr (l : list dobj).

Definition dstore := list (N * dobj).

Fixpoint dlookup (st : dstore) (n : N) : option dobj :=
  match st with
  | [] => None
  | (k, o) :: r => if k =? n then Some o else dlookup r n
  end.

Inductive dres :=
| DOk (o : dobj)
| DErr                          (* circular reference, missing object, or more values than the budget *)
| DOutOfFuel.

(* resolveDeep; [b] is the number of values the call may still expand; the result carries what is left *)
Fixpoint rdeep (fuel : nat) (st : dstore) (onpath : list N) (b : nat) (o : dobj) : dres * nat :=
  match fuel with
  | O => (DOutOfFuel, b)
  | S f =>
      match b with
      | O => (DErr, O)
      | S b' =>
          let expand (resolved : dobj) (onpath' : list N) : dres * nat :=
            match resolved with
            | DArr l =>
                (fix each (l : list dobj) (b : nat) (acc : list dobj) : dres * nat :=
                   match l with
                   | [] => (DOk (DArr (rev acc)), b)
                   | x :: r =>
                       match rdeep f st onpath' b x with
                       | (DOk y, b2) => each r b2 (y :: acc)
                       | e => e
                       end
                   end) l b' []
            | other => (DOk other, b')
            end in
          match o with
          | DRef n =>
              if mem n onpath then (DErr, b')
              else match dlookup st n with
                   | None => (DErr, b')
                   | Some r => expand r (n :: onpath)
                   end
          | _ => expand o onpath
          end
      end
  end.

(* ResolveDeep with its budget; the fuel is one more than the budget *)
Definition resolve_deep (st : dstore) (budget : nat) (o : dobj) : dres :=
  fst (rdeep (S budget) st [] budget o).

Fixpoint dsize (o : dobj) : nat :=
  match o with
  | DArr l => S ((fix go (l : list dobj) : nat := match l with [] => 0%nat | x :: r => (dsize x + go r)%nat end) l)
  | _ => 1
  end.

Fixpoint has_ref (o : dobj) : bool :=
  match o with
  | DRef _ => true
  | DLeaf _ => false
  | DArr l => (fix go (l : list dobj) : bool := match l with [] => false | x :: r => has_ref x || go r end) l
  end.
