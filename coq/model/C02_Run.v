From Tabula Require Import model.C02_Walks model.C02_Deep.
Open Scope Z_scope.

Definition dec_pobj (v : val) : pobj :=
  match val_l v with
  | [VI 0; VL ks] => PPages (map val_n ks)
  | [VI 1] => PPage
  | _ => POther
  end.

(* objects for ResolveDeep: (0 v) a value without references, (1 n) a reference, (2 (obj ...)) an array *)
Fixpoint dec_dobj (fuel : nat) (v : val) : dobj :=
  match fuel with
  | O => DLeaf 0
  | S f =>
      match val_l v with
      | [VI 1; n] => DRef (val_n n)
      | [VI 2; VL l] => DArr (map (dec_dobj f) l)
      | [VI 0; n] => DLeaf (val_n n)
      | _ => DLeaf 0
      end
  end.

Fixpoint enc_dobj (fuel : nat) (o : dobj) : val :=
  match fuel with
  | O => VI (-1)
  | S f =>
      match o with
      | DLeaf v => VL [VI 0; VI (Z.of_N v)]
      | DRef n => VL [VI 1; VI (Z.of_N n)]
      | DArr l => VL [VI 2; VL (map (enc_dobj f) l)]
      end
  end.

(* (5 ((num obj)...) budget obj)  -> (0 expanded) | (1)        ResolveDeep
   (0 ((num obj)...) root)        -> (0 pages) | (1)           page tree walk
   (1 ((off prev?)...) main)      -> (0 sections-read) | (1)   /Prev chain
   (2 w0 w1 w2 (idx...) datalen)  -> (0) accepted | (1) refused   cross-reference stream sizes
   (3 n first decoded)            -> (0) | (1)                  object stream header
   (4 maxrow maxcol populated)    -> (0) | (1)                  worksheet grid *)
Definition run_C02 (v : val) : val :=
  match val_l v with
  | [VI 0; VL objs; root] =>
      let st := map (fun e => match val_l e with [n; o] => (val_n n, dec_pobj o) | _ => (0%N, POther) end) objs in
      match walk_root st (val_n root) with
      | WOk _ p => VL [VI 0; vnat p]
      | WErr => VL [VI 1]
      | WOutOfFuel => VL [VI 9]
      end
  | [VI 5; VL objs; VI budget; o] =>
      let st := map (fun e => match val_l e with [n; x] => (val_n n, dec_dobj 64 x) | _ => (0%N, DLeaf 0) end) objs in
      match resolve_deep st (Z.to_nat budget) (dec_dobj 64 o) with
      | DOk r => VL [VI 0; enc_dobj 200 r]
      | DErr => VL [VI 1]
      | DOutOfFuel => VL [VI 9]
      end
  | [VI 1; VL secs; main] =>
      let s := map (fun e => match val_l e with
                             | [o; VL [p]] => (val_n o, Some (val_n p))
                             | [o; _] => (val_n o, None)
                             | _ => (0%N, None)
                             end) secs in
      match chain_all s (val_n main) with
      | COkN seen => VL [VI 0; vnat (length seen)]
      | CErr => VL [VI 1]
      | COutOfFuel => VL [VI 9]
      end
  | [VI 2; VI w0; VI w1; VI w2; VL idx; VI len] =>
      if widths_ok w0 w1 w2 && index_ok (map val_z idx) len (w0 + w1 + w2) then VL [VI 0] else VL [VI 1]
  | [VI 3; VI n; VI first; VI dec] => if objstm_ok n first dec then VL [VI 0] else VL [VI 1]
  | [VI 4; VI r; VI c; VI p] => if grid_ok r c p then VL [VI 0] else VL [VI 1]
  | _ => bad_case
  end.
