From Tabula Require Import model.C02_Walks.
Open Scope Z_scope.

Definition dec_pobj (v : val) : pobj :=
  match val_l v with
  | [VI 0; VL ks] => PPages (map val_n ks)
  | [VI 1] => PPage
  | _ => POther
  end.

(* (0 ((num obj)...) root)        -> (0 pages) | (1)           page tree walk
   (1 ((off prev?)...) main)      -> (0 sections-read) | (1)   /Prev chain
   (2 w0 w1 w2 (idx...) datalen)  -> (0) accepted | (1) refused   cross-reference stream sizes
   (3 n first decoded)            -> (0) | (1)                  object stream header
   (4 maxrow maxcol populated)    -> (0) | (1)                  worksheet grid *)
Definition run_C02 (v : val) : val :=
  match val_l v with
  | [VI 0; VL objs; root] =>
      let st := map (fun e => match val_l e with [n; o] => (val_n n, dec_pobj o) | _ => (0%N, POther) end) objs in
      match walk_root st (val_n root) with
      | WOk _ p => VL [VI 0; vnat p]
      | WErr => VL [VI 1]
      | WOutOfFuel => VL [VI 9]
      end
  | [VI 1; VL secs; main] =>
      let s := map (fun e => match val_l e with
                             | [o; VL [p]] => (val_n o, Some (val_n p))
                             | [o; _] => (val_n o, None)
                             | _ => (0%N, None)
                             end) secs in
      match chain_all s (val_n main) with
      | COkN seen => VL [VI 0; vnat (length seen)]
      | CErr => VL [VI 1]
      | COutOfFuel => VL [VI 9]
      end
  | [VI 2; VI w0; VI w1; VI w2; VL idx; VI len] =>
      if widths_ok w0 w1 w2 && index_ok (map val_z idx) len (w0 + w1 + w2) then VL [VI 0] else VL [VI 1]
  | [VI 3; VI n; VI first; VI dec] => if objstm_ok n first dec then VL [VI 0] else VL [VI 1]
  | [VI 4; VI r; VI c; VI p] => if grid_ok r c p then VL [VI 0] else VL [VI 1]
  | _ => bad_case
  end.
