(* C02 model: the walks over references and the size checks that decide whether
   hostile numbers reach an allocation.  Every walk carries explicit fuel and
   has a third outcome, OutOfFuel, that the theorems exclude for fuel sized
   from the input: the walks end on every graph, cyclic ones included. *)
From Tabula Require Export base.Val base.ListX.
From Coq Require String.
Import (notations) String.
Open Scope N_scope.

Fixpoint mem (n : N) (l : list N) : bool :=
  match l with [] => false | x :: r => (x =? n) || mem n r end.

(* ---------- the page tree as it is stored: objects by number ---------- *)
Inductive pobj :=
| PPages (kids : list N)      (* a dictionary with /Type /Pages and a /Kids array of references *)
| PPage                       (* a dictionary with /Type /Page *)
| POther.                     (* anything else: another type, not a dictionary, no /Type *)

Definition pstore := list (N * pobj).

Fixpoint lookup (st : pstore) (n : N) : option pobj :=
  match st with
  | [] => None
  | (k, o) :: r => if k =? n then Some o else lookup r n
  end.

Inductive wres :=
| WOk (visited : list N) (pages : nat)
| WErr
| WOutOfFuel.

(* pages.(PageTree).traversePageNode: a Pages node reached through a reference is
   entered once; a second arrival is an error *)
Fixpoint walk (fuel : nat) (st : pstore) (visited : list N) (kids : list N) (pages : nat) : wres :=
  match fuel with
  | O => WOutOfFuel
  | S f =>
      (fix each (ks : list N) (visited : list N) (pages : nat) : wres :=
         match ks with
         | [] => WOk visited pages
         | k :: r =>
             match lookup st k with
             | None => WErr
             | Some POther => WErr
             | Some PPage => each r visited (S pages)
             | Some (PPages kk) =>
                 if mem k visited then WErr
                 else match walk f st (k :: visited) kk pages with
                      | WOk v p => each r v p
                      | e => e
                      end
             end
         end) kids visited pages
  end.

(* reading the tree from its root *)
Definition pages_nodes (st : pstore) : list N :=
  map fst (filter (fun e => match snd e with PPages _ => true | _ => false end) st).

Definition walk_root (st : pstore) (root : N) : wres :=
  match lookup st root with
  | Some (PPages kk) => walk (S (S (length st))) st [] kk O
  | Some PPage => WOk [] 1
  | _ => WErr
  end.

(* ---------- the /Prev chain of cross-reference sections ---------- *)
(* sections: the offsets at which a section can be read, each with its /Prev *)
Definition sections := list (N * option N).

Fixpoint sec_lookup (s : sections) (off : N) : option (option N) :=
  match s with
  | [] => None
  | (k, p) :: r => if k =? off then Some p else sec_lookup r off
  end.

Inductive cres := COkN (read : list N) | CErr | COutOfFuel.

(* core.(XRefParser).ParseAllXRefs: [seen] are the offsets read or about to be read *)
Fixpoint chain (fuel : nat) (s : sections) (seen : list N) (cur : N) : cres :=
  match fuel with
  | O => COutOfFuel
  | S f =>
      match sec_lookup s cur with
      | None => CErr                                (* nothing readable at that offset *)
      | Some None => COkN seen                      (* no /Prev: the oldest section *)
      | Some (Some p) =>
          if mem p seen then CErr                   (* the chain returns to a section already read *)
          else chain f s (p :: seen) p
      end
  end.

Definition chain_all (s : sections) (main : N) : cres := chain (S (length s)) s [main] main.

(* ---------- sizes taken from the file ---------- *)

(* cross-reference stream: field widths and one /Index subsection against the data left *)
Definition widths_ok (w0 w1 w2 : Z) : bool :=
  ((0 <=? w0) && (w0 <=? 8) && (0 <=? w1) && (w1 <=? 8) && (0 <=? w2) && (w2 <=? 8) && (0 <? w0 + w1 + w2))%Z.

Definition subsection_ok (first count left row : Z) : bool :=
  ((0 <=? first) && (0 <=? count) && (count <=? left / row))%Z.

(* all subsections in turn; None = refused *)
Fixpoint index_ok (idx : list Z) (left row : Z) : bool :=
  match idx with
  | [] => true
  | first :: count :: r => subsection_ok first count left row && index_ok r (left - count * row)%Z row
  | [_] => false
  end.

(* object stream header: /N pairs in [header] bytes *)
Definition objstm_ok (n first decoded : Z) : bool :=
  ((0 <=? n) && (0 <=? first) && (first <=? decoded) && (n <=? first / 4 + 1))%Z.

(* worksheet grid: rows x columns against the cells present *)
Definition grid_ok (max_row max_col populated : Z) : bool :=
  ((max_row <=? 1048576) && (max_col <? 16384) &&
   ((max_row * (max_col + 1) <=? 1048576) || (max_row * (max_col + 1) <=? 256 * populated)))%Z.

(* span and repeat counts are clamped *)
Definition clamp (limit v : Z) : Z := if (limit <? v)%Z then limit else v.
