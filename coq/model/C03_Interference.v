(* C03 model: interference between extractions.
   An extraction is a sequence of steps on its own state.  Whether the code has
   state that several extractions share is decided on the source itself
   (gen/GenGlobals.v, regenerated on every run: the package-level variables written
   outside init).  Given per-call state only, the theorems say that histories
   and interleavings cannot matter.  Map-ordered loops are modelled as folds over
   an arbitrary permutation of the entries. *)
From Tabula Require Export base.Val base.ListX.
From Tabula Require Import gen.GenGlobals.
From Coq Require String.
Import (notations) String.
Open Scope nat_scope.

Section System.
  Variable St : Type.
  (* n extractions; [step i] is what the i-th does next to its own state *)
  Variable step : nat -> St -> St.

  (* the i-th component of the system state is the state of extraction i *)
  Definition sys := list St.

  Definition step_at (i : nat) (s : sys) : sys := upd_nth i (step i) s.

  (* a schedule: which extraction moves next *)
  Definition run (sched : list nat) (s : sys) : sys := fold_left (fun acc i => step_at i acc) sched s.

  Fixpoint iter (k : nat) (f : St -> St) (x : St) : St :=
    match k with O => x | S k' => iter k' f (f x) end.

  Definition count (i : nat) (sched : list nat) : nat := length (filter (Nat.eqb i) sched).
End System.

(* a registry built by inserting entries in map-iteration order *)
Fixpoint lookup_key {A} (k : nat) (l : list (nat * A)) : option A :=
  match l with
  | [] => None
  | (k', v) :: r => if Nat.eqb k k' then Some v else lookup_key k r
  end.

Definition insert_all {A} (entries : list (nat * A)) : list (nat * A) :=
  fold_left (fun acc e => e :: acc) entries [].
