From Tabula Require Import model.C03_Interference gen.GenGlobals gen.GenMapOrder.
From Coq Require String.
Open Scope Z_scope.

Fixpoint string_bytes (s : String.string) : bytes :=
  match s with
  | String.EmptyString => []
  | String.String c r => N.of_nat (Ascii.nat_of_ascii c) :: string_bytes r
  end.

(* (0) the package-level variables written outside init, (1) those with method calls *)
Definition run_C03 (v : val) : val :=
  match val_l v with
  | [VI 0] => VL (map (fun s => VB (string_bytes s)) mutable_globals)
  | [VI 1] => VL (map (fun s => VB (string_bytes s)) globals_with_method_calls)
  | [VI 2] => VL (map (fun s => VB (string_bytes s)) aliased_globals)
  | [VI 3] => VL (map (fun s => VB (string_bytes s)) map_order_sinks)
  | _ => bad_case
  end.
