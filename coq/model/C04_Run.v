From Tabula Require Import model.C04_Xref.
Open Scope Z_scope.

Definition dec_entry (v : val) : Z * entry :=
  match val_l v with
  | [n; k; a; b] =>
      (val_z n, if val_z k =? 0 then EFree else if val_z k =? 1 then EAt (val_z a) else EIn (val_z a) (val_nat b))
  | _ => (0, EFree)
  end.

Definition dec_content (v : val) : content :=
  match val_l v with
  | [VI 0; t; i] => CVal (val_z t) (val_bool i)
  | [VI 1; t; l] => CStream (val_z t) (if val_z l <? 0 then None else Some (val_z l))
  | [VI 2; VL ms] => CStm (map (fun m => match val_l m with [n; t; i] => (val_z n, val_z t, val_bool i) | _ => (0, 0, false) end) ms)
  | _ => CVal 0 false
  end.

Definition dec_file (v : val) : file :=
  map (fun e => match val_l e with [o; n; c] => (val_z o, (val_z n, dec_content c)) | _ => (0, (0, CVal 0 false)) end) (val_l v).

Definition enc_result (r : result) : val :=
  match r with ROk t _ => VI t | RErr => VI (-1) | RUnknown => VI (-100) end.

(* ((section...) file (op...)) -> (result...);  op >= 0: GetObject, -1: ClearCache (answers 0) *)
Definition run_C04 (v : val) : val :=
  match val_l v with
  | [VL secs; f; VL ops] =>
      let T := merged (map (fun s => map dec_entry (val_l s)) secs) in
      let F := dec_file f in
      let os := map (fun o => if val_z o <? 0 then Clear else Get (val_z o)) ops in
      (* interleave the answers with a 0 for every ClearCache *)
      VL ((fix go (os : list op) (rs : list result) : list val :=
             match os with
             | [] => []
             | Clear :: r => VI 0 :: go r rs
             | Get _ :: r => match rs with x :: rs' => enc_result x :: go r rs' | [] => [] end
             end) os (run T F [] os))
  | _ => bad_case
  end.
