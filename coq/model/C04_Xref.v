(* C04 model: object lookup over a revision history.
   core.MergeXRefTables over the chain of cross-reference sections (oldest first),
   reader.GetObject / getUncompressedObject / getCompressedObject /
   getObjectStream with the object cache and ClearCache, the number check of
   indirect objects and of object-stream members, and the indirect /Length of a
   stream resolved through the same reader.  The byte syntax of the sections is
   on the implementation's side (the harness hands over the sections it wrote);
   the field codec of cross-reference streams is modelled separately below. *)
From Tabula Require Export base.Val base.ListX.
Open Scope Z_scope.

Inductive entry := EFree | EAt (off : Z) | EIn (stm : Z) (idx : nat).

Inductive content :=
| CVal (tok : Z) (isint : bool)                    (* a dictionary or an integer, known by its token *)
| CStream (tok : Z) (lenref : option Z)            (* a stream; Some l: /Length l 0 R *)
| CStm (members : list (Z * Z * bool)).            (* an object stream: number, token, is-integer *)

Definition section := list (Z * entry).
Definition file := list (Z * (Z * content)).       (* offset -> object number written there, content *)

(* MergeXRefTables: sections oldest first, every entry Set in order; the table is
   kept newest first, so a lookup finds the last Set *)
Definition merged (secs : list section) : list (Z * entry) := rev (concat secs).

Fixpoint lookup {A} (n : Z) (t : list (Z * A)) : option A :=
  match t with
  | [] => None
  | (k, v) :: r => if k =? n then Some v else lookup n r
  end.

Inductive result := ROk (tok : Z) (isint : bool) | RErr | RUnknown.

(* getUncompressedObject: the object at the offset, its number checked; a stream
   with an indirect length needs [resolve] to give an integer *)
Definition read_at (F : file) (resolve : Z -> result) (n off : Z) : result :=
  match lookup off F with
  | None => RErr
  | Some (num, c) =>
      match c with
      | CStream tok (Some l) =>
          (* the length is resolved while the object is parsed, before the number check *)
          match resolve l with
          | ROk _ true => if num =? n then ROk tok false else RErr
          | ROk _ false => RErr
          | RErr => RErr
          | RUnknown => RUnknown
          end
      | CStream tok None => if num =? n then ROk tok false else RErr
      | CVal tok i => if num =? n then ROk tok i else RErr
      | CStm _ => if num =? n then ROk (-3) false else RErr
      end
  end.

(* the members of the object stream with that number *)
Definition load_stm (T : list (Z * entry)) (F : file) (resolve : Z -> result) (stm : Z)
  : option (option (list (Z * Z * bool))) :=      (* None: unknown; Some None: error *)
  match lookup stm T with
  | None => Some None
  | Some (EIn _ _) => Some None
  | Some EFree => Some None
  | Some (EAt off) =>
      match lookup off F with
      | Some (num, CStm ms) => if num =? stm then Some (Some ms) else Some None
      | Some (num, CStream _ (Some l)) =>
          match resolve l with RUnknown => None | _ => Some None end
      | _ => Some None
      end
  end.

(* GetObject without the cache; nested resolution goes through [resolve] *)
Definition get_with (T : list (Z * entry)) (F : file) (resolve : Z -> result) (n : Z) : result :=
  match lookup n T with
  | None => RErr
  | Some EFree => RErr
  | Some (EAt off) => read_at F resolve n off
  | Some (EIn stm idx) =>
      match load_stm T F resolve stm with
      | None => RUnknown
      | Some None => RErr
      | Some (Some ms) =>
          match nth_error ms idx with
          | Some (num, tok, i) => if num =? n then ROk tok i else RErr
          | None => RErr
          end
      end
  end.

(* a length object that is itself a stream with an indirect length would make the
   implementation recurse further: outside the model *)
Definition get0 (T : list (Z * entry)) (F : file) (n : Z) : result := get_with T F (fun _ => RUnknown) n.
Definition fresh (T : list (Z * entry)) (F : file) (n : Z) : result := get_with T F (get0 T F) n.

(* ---------- the reader with its cache ---------- *)

Definition cache := list (Z * (Z * bool)).

Definition of_cache (c : cache) (n : Z) : option result :=
  match lookup n c with Some (t, i) => Some (ROk t i) | None => None end.

Definition put (c : cache) (n : Z) (r : result) : cache :=
  match r with ROk t i => (n, (t, i)) :: c | _ => c end.

(* the nested GetObject for a length: through the cache, and cached *)
Definition get0_cached (T : list (Z * entry)) (F : file) (c : cache) (n : Z) : result * cache :=
  match of_cache c n with
  | Some r => (r, c)
  | None => let r := get0 T F n in (r, put c n r)
  end.

(* GetObject: which nested lookups happen is decided by the entry; the model
   threads the cache through the one possible nested lookup *)
Definition nested_ref (T : list (Z * entry)) (F : file) (n : Z) : option Z :=
  match lookup n T with
  | Some (EAt off) =>
      match lookup off F with Some (_, CStream _ (Some l)) => Some l | _ => None end
  | Some (EIn stm _) =>
      match lookup stm T with
      | Some (EAt off) => match lookup off F with Some (_, CStream _ (Some l)) => Some l | _ => None end
      | _ => None
      end
  | _ => None
  end.

Definition get_cached (T : list (Z * entry)) (F : file) (c : cache) (n : Z) : result * cache :=
  match of_cache c n with
  | Some r => (r, c)
  | None =>
      let c1 := match nested_ref T F n with
                | Some l => snd (get0_cached T F c l)
                | None => c
                end in
      let r := get_with T F (fun l => fst (get0_cached T F c l)) n in
      (r, put c1 n r)
  end.

Inductive op := Get (n : Z) | Clear.

Fixpoint run (T : list (Z * entry)) (F : file) (c : cache) (ops : list op) : list result :=
  match ops with
  | [] => []
  | Clear :: r => run T F [] r
  | Get n :: r => let '(res, c') := get_cached T F c n in res :: run T F c' r
  end.

(* ---------- cross-reference stream fields ---------- *)

Fixpoint be_int (bs0 : list N) (acc : Z) : Z :=
  match bs0 with [] => acc | b :: r => be_int r (acc * 256 + Z.of_N b) end.

Fixpoint be_bytes (w : nat) (v : Z) : list N :=
  match w with
  | O => []
  | S k => be_bytes k (v / 256) ++ [Z.to_N (v mod 256)]
  end.

(* parseXRefStreamEntry: type (default 1 when its width is 0), field 1, field 2; None: invalid type *)
Definition stream_entry (w0 w1 w2 : nat) (data : list N) : option entry :=
  let ty := if Nat.eqb w0 0 then 1 else be_int (firstn w0 data) 0 in
  let f1 := be_int (firstn w1 (skipn w0 data)) 0 in
  let f2 := be_int (firstn w2 (skipn (w0 + w1) data)) 0 in
  if ty =? 0 then Some EFree
  else if ty =? 1 then Some (EAt f1)
  else if ty =? 2 then Some (EIn f1 (Z.to_nat f2))
  else None.
