(* C05 model: internal/filters (ASCIIHex, ASCII85, predictors) and
   core.Stream.Decode filter chaining.  Executable definitions only. *)
From Tabula Require Export base.Val gen.GenFilters.
From Coq Require String.
Import (notations) String.
Notation string := String.string.
Open Scope N_scope.
Arguments flt_is_ws : simpl never.
Arguments flt_hex_digit : simpl never.

(* ---------- ASCIIHexDecode (internal/filters/ascii.go).
   The Go loop has two scanning positions: "at a first digit" and "looking for
   the second digit"; [st] = Some b1 is the second one. *)
Fixpoint hex_go (st : option N) (s : bytes) (acc : bytes) : res bytes :=
  match s with
  | [] => match st with
          | None => Ok (rev acc)
          | Some b1 => Ok (rev ((b1 * 16) :: acc))
          end
  | c :: t =>
    if flt_is_ws c then hex_go st t acc
    else if c =? 62 then
      match st with
      | None => Ok (rev acc)
      | Some b1 => Ok (rev ((b1 * 16) :: acc))
      end
    else match flt_hex_digit c with
         | None => Err
         | Some d =>
           match st with
           | None => hex_go (Some d) t acc
           | Some b1 => hex_go None t ((b1 * 16 + d) :: acc)
           end
         end
  end.
Definition hex_decode (s : bytes) : res bytes := hex_go None s [].

(* ---------- ASCII85Decode.  [ds] = digits of the current group, in order. *)
Definition a85_value (ds : list N) : N := fold_left (fun v d => v * 85 + d) ds 0.

Definition be_bytes (v : N) (n : nat) : bytes :=
  firstn n [(v / 16777216) mod 256; (v / 65536) mod 256; (v / 256) mod 256; v mod 256].

Fixpoint pad84 (ds : list N) (k : nat) : list N :=
  match k with O => ds | S k' => pad84 (ds ++ [84]) k' end.

(* a (possibly partial) group -> bytes, or an error: a lone digit, or a value
   that does not fit 32 bits *)
Definition a85_group (ds : list N) : res bytes :=
  match ds with
  | [] => Ok []
  | [_] => Err
  | _ =>
    let n := length ds in
    let v := a85_value (pad84 ds (5 - n)) in
    if 4294967295 <? v then Err else Ok (be_bytes v (n - 1))
  end.

Fixpoint a85_go (s : bytes) (ds : list N) (acc : bytes) : res bytes :=
  match s with
  | [] => res_map (fun g => acc ++ g) (a85_group ds)
  | c :: t =>
    if flt_is_ws c then a85_go t ds acc
    else if (c =? 126) && (match t with c2 :: _ => c2 =? 62 | [] => false end) then
      res_map (fun g => acc ++ g) (a85_group ds)
    else if (c =? 122) && (match ds with [] => true | _ => false end) then
      a85_go t [] (acc ++ [0; 0; 0; 0])
    else if (c <? 33) || (117 <? c) then Err
    else
      let ds' := ds ++ [c - 33] in
      if Nat.eqb (length ds') 5 then
        match a85_group ds' with
        | Ok g => a85_go t [] (acc ++ g)
        | Err => Err | Panic => Panic | Diverge => Diverge
        end
      else a85_go t ds' acc
  end.
Definition a85_decode (s : bytes) : res bytes := a85_go s [] [].

(* ---------- predictors (internal/filters/flate.go) *)
Definition absz (z : Z) : Z := Z.abs z.

Definition paeth (a b c : N) : N :=
  let p := (Z.of_N a + Z.of_N b - Z.of_N c)%Z in
  let pa := absz (p - Z.of_N a) in
  let pb := absz (p - Z.of_N b) in
  let pc := absz (p - Z.of_N c) in
  if (pa <=? pb)%Z && (pa <=? pc)%Z then a
  else if (pb <=? pc)%Z then b else c.

(* predicted value for row filter type t; None = unknown type *)
Definition png_pred (t left up ul : N) : option N :=
  match t with
  | 0 => Some 0
  | 1 => Some left
  | 2 => Some up
  | 3 => Some ((left + up) / 2)
  | 4 => Some (paeth left up ul)
  | _ => None
  end.

(* decode one row.  [done_rev] = already decoded bytes of this row, newest
   first; [prev] = previous decoded row (zeros for row 0); i = index. *)
Fixpoint png_dec_row (t : N) (bpp : nat) (prev : bytes) (i : nat)
         (done_rev : bytes) (enc : bytes) : option bytes :=
  match enc with
  | [] => Some (rev done_rev)
  | e :: enc' =>
    let left := nth (bpp - 1) done_rev 0 in
    let up := nth i prev 0 in
    let ul := if Nat.leb bpp i then nth (i - bpp) prev 0 else 0 in
    match png_pred t left up ul with
    | None => None
    | Some p => png_dec_row t bpp prev (S i) (((e + p) mod 256) :: done_rev) enc'
    end
  end.

(* rows: each = type byte :: rowlen bytes *)
Fixpoint png_dec_rows (bpp rowlen : nat) (prev : bytes) (data : bytes) (nrows : nat)
  : res bytes :=
  match nrows with
  | O => Ok []
  | S n =>
    match data with
    | [] => Ok []
    | t :: rest =>
      match png_dec_row t bpp prev 0 [] (firstn rowlen rest) with
      | None => Err
      | Some dec =>
        res_map (fun tl => dec ++ tl) (png_dec_rows bpp rowlen dec (skipn rowlen rest) n)
      end
    end
  end.

Definition geometry_ok (columns colors : Z) : bool :=
  ((0 <? columns) && (0 <? colors) && (columns <=? 2147483647) && (colors <=? 2147483647))%Z.

Definition png_unpredict (columns colors bpc : Z) (data : bytes) : res bytes :=
  if negb (bpc =? 8)%Z then Err
  else if negb (geometry_ok columns colors) then Err
  else
    let rowlen := Z.to_nat (columns * colors) in
    let rowsize := S rowlen in
    if negb (Nat.eqb (Nat.modulo (length data) rowsize) 0) then Err
    else png_dec_rows (Z.to_nat colors) rowlen [] data (Nat.div (length data) rowsize).

(* TIFF predictor 2: every byte adds the decoded byte [colors] to its left in
   the same row *)
Fixpoint tiff_dec_row (bpp : nat) (done_rev : bytes) (enc : bytes) : bytes :=
  match enc with
  | [] => rev done_rev
  | e :: enc' =>
    let left := nth (bpp - 1) done_rev 0 in
    tiff_dec_row bpp (((e + left) mod 256) :: done_rev) enc'
  end.

Fixpoint tiff_dec_rows (bpp rowlen : nat) (data : bytes) (nrows : nat) : bytes :=
  match nrows with
  | O => []
  | S n => tiff_dec_row bpp [] (firstn rowlen data) ++ tiff_dec_rows bpp rowlen (skipn rowlen data) n
  end.

Definition tiff_unpredict (columns colors bpc : Z) (data : bytes) : res bytes :=
  if negb (bpc =? 8)%Z then Err
  else if negb (geometry_ok columns colors) then Err
  else
    let rowlen := Z.to_nat (columns * colors) in
    if negb (Nat.eqb (Nat.modulo (length data) rowlen) 0) then Err
    else Ok (tiff_dec_rows (Z.to_nat colors) rowlen data (Nat.div (length data) rowlen)).

(* ---------- parameters.  A DecodeParms dictionary after dictToParams: per key an
   integer (Int, or Real truncated toward zero by the harness projection) or
   some other kind (Name, String, Bool, Null ...), which getIntParam ignores. *)
Inductive pval := PInt (z : Z) | POther.
Definition params := list (bytes * pval).

Fixpoint plookup (k : bytes) (p : params) : option pval :=
  match p with
  | [] => None
  | (k', v) :: p' => if bytes_eqb k k' then Some v else plookup k p'
  end.

Definition get_int (p : option params) (k : bytes) (d : Z) : Z :=
  match p with
  | None => d
  | Some p => match plookup k p with Some (PInt z) => z | _ => d end
  end.

Definition k_predictor := bs "Predictor".
Definition k_columns := bs "Columns".
Definition k_colors := bs "Colors".
Definition k_bpc := bs "BitsPerComponent".

Definition apply_predictor (p : option params) (data : bytes) : res bytes :=
  match p with
  | None => Ok data
  | Some pp =>
    match plookup k_predictor pp with
    | None => Ok data
    | Some _ =>
      let pr := get_int p k_predictor 1 in
      let columns := get_int p k_columns 1 in
      let colors := get_int p k_colors 1 in
      let bpc := get_int p k_bpc 8 in
      if (pr =? 1)%Z then Ok data
      else if (pr =? 2)%Z then tiff_unpredict columns colors bpc data
      else if ((10 <=? pr) && (pr <=? 15))%Z then png_unpredict columns colors bpc data
      else Err
    end
  end.

(* ---------- filter dispatch (regenerated table) and chains *)
Inductive fkind := KFlate | KHex | KA85 | KIdent | KUnsupported | KOther.

Definition kind_of_class (c : string) : fkind :=
  if String.eqb c "FlateDecode"%string then KFlate
  else if String.eqb c "ASCIIHexDecode"%string then KHex
  else if String.eqb c "ASCII85Decode"%string then KA85
  else if String.eqb c "ident_data"%string then KIdent
  else if String.eqb c "error"%string then KUnsupported
  else KOther.

Fixpoint dispatch_lookup (n : bytes) (tbl : list (bytes * string)) : string :=
  match tbl with
  | [] => flt_dispatch_default
  | (k, c) :: tbl' => if bytes_eqb n k then c else dispatch_lookup n tbl'
  end.

Definition filter_kind (name : bytes) : fkind := kind_of_class (dispatch_lookup name flt_dispatch).

Section Chain.
  (* zlib is an oracle: the model receives, for each Flate stage, the inflate
     function of the real library through this variable. *)
  Variable inflate : bytes -> res bytes.

  Definition decode_one (name : bytes) (p : option params) (data : bytes) : res bytes :=
    match filter_kind name with
    | KFlate => res_bind (inflate data) (apply_predictor p)
    | KHex => hex_decode data
    | KA85 => a85_decode data
    | KIdent => Ok data
    | KUnsupported => Err
    | KOther => Err
    end.

  (* the filter list with, per stage, the parameter dictionary already selected
     (selection itself is [select_params] below) *)
  Fixpoint decode_chain (fs : list (bytes * option params)) (data : bytes) : res bytes :=
    match fs with
    | [] => Ok data
    | (n, p) :: fs' => res_bind (decode_one n p data) (decode_chain fs')
    end.
End Chain.

(* DecodeParms shapes of Stream.Decode *)
Inductive parms_shape :=
| PSAbsent                       (* no /DecodeParms, or null, or a non-dict non-array *)
| PSDict (p : params)
| PSArray (l : list (option params)).   (* element: dict or anything else (None) *)

Inductive filter_shape :=
| FSAbsent
| FSName (n : bytes)
| FSArray (l : list (option bytes))   (* None = element that is not a name *)
| FSOther.

Definition select_params (ps : parms_shape) (i : nat) : option params :=
  match ps with
  | PSAbsent => None
  | PSDict p => Some p
  | PSArray l => match nth_error l i with Some o => o | None => None end
  end.

Fixpoint zip_filters (l : list (option bytes)) (ps : parms_shape) (i : nat)
  : option (list (bytes * option params)) :=
  match l with
  | [] => Some []
  | None :: _ => None
  | Some n :: l' =>
    match zip_filters l' ps (S i) with
    | None => None
    | Some r => Some ((n, select_params ps i) :: r)
    end
  end.

(* The Go loop fails at the first non-name element only when it reaches it;
   earlier filters have already run, but as every failure is just "error" and
   decoding is pure, the observable is the same unless an earlier stage fails
   or panics first - so the model walks stage by stage like the code. *)
Fixpoint stream_chain (inflate : bytes -> res bytes) (l : list (option bytes)) (ps : parms_shape)
         (i : nat) (data : bytes) : res bytes :=
  match l with
  | [] => Ok data
  | None :: _ => Err
  | Some n :: l' =>
    res_bind (decode_one inflate n (select_params ps i) data)
             (stream_chain inflate l' ps (S i))
  end.

Definition stream_decode (inflate : bytes -> res bytes) (f : filter_shape) (ps : parms_shape)
           (data : bytes) : res bytes :=
  match f with
  | FSAbsent => Ok data
  | FSName n =>
    decode_one inflate n (match ps with PSDict p => Some p | _ => None end) data
  | FSArray l => stream_chain inflate l ps 0 data
  | FSOther => Err
  end.
