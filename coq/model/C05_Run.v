(* C05 case decoding / observable encoding for the correspondence driver. *)
From Tabula Require Import model.C05_Filters.

Definition dec_params (v : val) : params :=
  map (fun e => match val_l e with
                | [k; kind; z] => (val_b k, if Z.eqb (val_z kind) 0 then PInt (val_z z) else POther)
                | _ => ([], POther)
                end) (val_l v).

Definition dec_opt_params (v : val) : option params :=
  match val_l v with [p] => Some (dec_params p) | _ => None end.

Definition dec_filter_shape (v : val) : filter_shape :=
  match val_l v with
  | [VI 0] => FSAbsent
  | [VI 1; VB n] => FSName n
  | [VI 2; VL l] => FSArray (map (fun e => match val_l e with [VB n] => Some n | _ => None end) l)
  | _ => FSOther
  end.

Definition dec_parms_shape (v : val) : parms_shape :=
  match val_l v with
  | [VI 1; p] => PSDict (dec_params p)
  | [VI 2; VL l] => PSArray (map dec_opt_params l)
  | _ => PSAbsent
  end.

Definition dec_res_bytes (v : val) : res bytes :=
  match val_l v with
  | [VI 0; VB b] => Ok b
  | [VI 1] => Err
  | [VI 2] => Panic
  | _ => Diverge
  end.

Fixpoint table_lookup (tbl : list (bytes * res bytes)) (d : bytes) : res bytes :=
  match tbl with
  | [] => Diverge   (* oracle entry missing: shows up as a correspondence break *)
  | (k, r) :: tbl' => if bytes_eqb k d then r else table_lookup tbl' d
  end.

Definition dec_table (v : val) : list (bytes * res bytes) :=
  map (fun e => match val_l e with [VB k; r] => (k, dec_res_bytes r) | _ => ([], Diverge) end) (val_l v).

Definition run_C05 (v : val) : val :=
  match val_l v with
  | [f; ps; VB data; tbl] =>
    val_of_res VB (stream_decode (table_lookup (dec_table tbl)) (dec_filter_shape f)
                                 (dec_parms_shape ps) data)
  | _ => bad_case
  end.
