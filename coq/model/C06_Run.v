From Tabula Require Import model.C06_Syntax.
Open Scope Z_scope.

Fixpoint bytes_leb (a b : bytes) : bool :=
  match a, b with
  | [], _ => true
  | _ :: _, [] => false
  | x :: a', y :: b' => if (x <? y)%N then true else if (y <? x)%N then false else bytes_leb a' b'
  end.

(* dictionary as Go's map shows it: later keys win, listed by key *)
Fixpoint insert_key (k : bytes) (v : val) (l : list (bytes * val)) : list (bytes * val) :=
  match l with
  | [] => [(k, v)]
  | (k', v') :: r =>
      if bytes_eqb k k' then (k, v) :: r
      else if bytes_leb k k' then (k, v) :: l
      else (k', v') :: insert_key k v r
  end.

Fixpoint enc_obj (fuel : nat) (o : obj) : val :=
  match fuel with
  | O => VL []
  | S f =>
      match o with
      | ONull => VL [VI 0]
      | OBool b => VL [VI 1; vbool b]
      | OInt z => VL [VI 2; VI z]
      | OReal m k => VL [VI 3; VI m; vnat k]
      | OStr s => VL [VI 4; VB s]
      | OName s => VL [VI 5; VB s]
      | OArr l => VL [VI 6; VL (map (enc_obj f) l)]
      | ODict l =>
          VL [VI 7; VL (map (fun kv => VL [VB (fst kv); snd kv])
                            (fold_left (fun acc kv => insert_key (fst kv) (enc_obj f (snd kv)) acc) l []))]
      | ORef n g => VL [VI 8; VI n; VI g]
      end
  end.

Definition enc (o : obj) : val := enc_obj 64 o.

(* (0 xTEXT)  core.NewParser(text).ParseObject()      -> (0 obj) | (1) error | (2) outside the model
   (1 xTEXT)  contentstream.NewParser(text).Parse()   -> (0 ((op (operands))...)) | (1) error *)
Definition run_C06 (v : val) : val :=
  match val_l v with
  | [VI 0; VB s] =>
      match core_parse s with
      | POk o _ => VL [VI 0; enc o]
      | PErr => VL [VI 1]
      | PUnknown => VL [VI 2]
      end
  | [VI 1; VB s] =>
      match cs_parse_all s with
      | Some ops => VL [VI 0; VL (map (fun op => VL [VB (fst op); VL (map enc (snd op))]) ops)]
      | None => VL [VI 1]
      end
  | _ => bad_case
  end.
