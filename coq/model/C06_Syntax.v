(* C06 model: PDF object syntax as read by the document-level parser
   (core.Lexer + core.Parser.ParseObject) and by the content-stream parser
   (contentstream.Parser).  strconv.ParseInt is modelled exactly (C17 atoi);
   reals are decimal literals kept as exact rationals (mantissa, scale). *)
From Tabula Require Export base.Val base.ListX.
From Tabula Require Import model.C17_Xlsx.      (* atoi = strconv.ParseInt(s, 10, 64) *)
From Coq Require String.
Import (notations) String.
Open Scope N_scope.

Inductive obj :=
| ONull
| OBool (b : bool)
| OInt (z : Z)
| OReal (m : Z) (k : nat)                 (* m * 10^-k, normalised *)
| OStr (s : bytes)
| OName (s : bytes)
| OArr (l : list obj)
| ODict (l : list (bytes * obj))          (* in source order; later keys win *)
| ORef (n g : Z).

(* ---------- character classes (shared by both parsers) ---------- *)
Definition is_ws (c : N) : bool := (c =? 32) || (c =? 9) || (c =? 10) || (c =? 13) || (c =? 12) || (c =? 0).
Definition is_delim (c : N) : bool :=
  (c =? 40) || (c =? 41) || (c =? 60) || (c =? 62) || (c =? 91) || (c =? 93) || (c =? 123) || (c =? 125)
  || (c =? 47) || (c =? 37).
Definition is_digit (c : N) : bool := (48 <=? c) && (c <=? 57).
Definition is_octal (c : N) : bool := (48 <=? c) && (c <=? 55).
Definition is_alpha (c : N) : bool := ((97 <=? c) && (c <=? 122)) || ((65 <=? c) && (c <=? 90)).
Definition is_hex (c : N) : bool := is_digit c || ((97 <=? c) && (c <=? 102)) || ((65 <=? c) && (c <=? 70)).
Definition hex_val (c : N) : N :=
  if is_digit c then c - 48 else if (97 <=? c) && (c <=? 102) then c - 87 else if (65 <=? c) && (c <=? 70) then c - 55 else 0.

(* ---------- reals ---------- *)
Fixpoint digits_acc (s : bytes) (acc : Z) : Z :=
  match s with [] => acc | c :: r => digits_acc r (acc * 10 + Z.of_N (c - 48))%Z end.

Fixpoint strip_zeros (fuel : nat) (m : Z) (k : nat) : Z * nat :=
  match fuel, k with
  | S f, S k' => if (m mod 10 =? 0)%Z then strip_zeros f (m / 10)%Z k' else (m, k)
  | _, _ => (m, k)
  end.

Fixpoint split_dot (s : bytes) (acc : bytes) : option (bytes * bytes) :=
  match s with
  | [] => None
  | c :: r => if c =? 46 then Some (rev acc, r) else split_dot r (c :: acc)
  end.

(* strconv.ParseFloat on sign? digits* '.' digits* with at least one digit *)
Definition parse_real (s : bytes) : option obj :=
  let '(neg, body) := match s with
                      | 43 :: t => (false, t)
                      | 45 :: t => (true, t)
                      | _ => (false, s)
                      end in
  match split_dot body [] with
  | None => None
  | Some (ip, fp) =>
      if forallb is_digit ip && forallb is_digit fp && negb (Nat.eqb (length ip + length fp) 0) then
        let m := digits_acc (ip ++ fp) 0 in
        let '(m', k') := strip_zeros (length fp) m (length fp) in
        Some (OReal (if neg then (- m')%Z else m') k')
      else None
  end.

(* an integer literal too large for int64 is read as a real by the object parser *)
Definition parse_big (s : bytes) : option obj :=
  let '(neg, body) := match s with
                      | 43 :: t => (false, t)
                      | 45 :: t => (true, t)
                      | _ => (false, s)
                      end in
  match body with
  | [] => None
  | _ => if forallb is_digit body then Some (OReal (if neg then - digits_acc body 0 else digits_acc body 0)%Z 0) else None
  end.

(* ---------- literal strings, hex strings, names: byte-level readers ---------- *)

(* after the opening parenthesis; returns the bytes and the rest after the closing one *)
Fixpoint read_string (fuel : nat) (s : bytes) (depth : nat) (acc : bytes) : option (bytes * bytes) :=
  match fuel with
  | O => None
  | S f =>
      match s with
      | [] => None
      | c :: r =>
          if c =? 40 then read_string f r (S depth) (c :: acc)
          else if c =? 41 then
            match depth with
            | O => Some (rev acc, r)
            | S d => read_string f r d (c :: acc)
            end
          else if c =? 92 then
            match r with
            | [] => None
            | e :: r2 =>
                if e =? 110 then read_string f r2 depth (10 :: acc)
                else if e =? 114 then read_string f r2 depth (13 :: acc)
                else if e =? 116 then read_string f r2 depth (9 :: acc)
                else if e =? 98 then read_string f r2 depth (8 :: acc)
                else if e =? 102 then read_string f r2 depth (12 :: acc)
                else if e =? 13 then
                  match r2 with
                  | 10 :: r3 => read_string f r3 depth acc
                  | _ => read_string f r2 depth acc
                  end
                else if e =? 10 then read_string f r2 depth acc
                else if is_octal e then
                  match r2 with
                  | d2 :: r3 =>
                      if is_octal d2 then
                        match r3 with
                        | d3 :: r4 =>
                            if is_octal d3 then read_string f r4 depth ((((e - 48) * 64 + (d2 - 48) * 8 + (d3 - 48)) mod 256) :: acc)
                            else read_string f r3 depth (((e - 48) * 8 + (d2 - 48)) :: acc)
                        | [] => read_string f r3 depth (((e - 48) * 8 + (d2 - 48)) :: acc)
                        end
                      else read_string f r2 depth ((e - 48) :: acc)
                  | [] => read_string f r2 depth ((e - 48) :: acc)
                  end
                else read_string f r2 depth (e :: acc)
            end
          else read_string f r depth (c :: acc)
      end
  end.

(* the content stream parser treats a backslash that is the last byte of the data as a plain byte;
   an unclosed string is an error either way, so the two readers agree whenever both succeed *)

(* hex digits of a hex string after '<' (whitespace skipped); None on a bad digit or a missing '>' *)
Fixpoint read_hex_digits (s : bytes) (acc : bytes) : option (bytes * bytes) :=
  match s with
  | [] => None
  | c :: r =>
      if c =? 62 then Some (rev acc, r)
      else if is_ws c then read_hex_digits r acc
      else if is_hex c then read_hex_digits r (c :: acc)
      else None
  end.

Fixpoint hex_pairs (ds : bytes) : bytes :=
  match ds with
  | a :: b :: r => (hex_val a * 16 + hex_val b) :: hex_pairs r
  | [a] => [hex_val a * 16]
  | [] => []
  end.

(* a name after '/': the object parser's reader; None on a bad escape *)
Fixpoint read_name_core (fuel : nat) (s : bytes) (acc : bytes) : option (bytes * bytes) :=
  match fuel with
  | O => None
  | S f =>
      match s with
      | [] => Some (rev acc, [])
      | c :: r =>
          if is_ws c || is_delim c then Some (rev acc, s)
          else if c =? 35 then
            match r with
            | h1 :: h2 :: r2 => if is_hex h1 && is_hex h2 then read_name_core f r2 ((hex_val h1 * 16 + hex_val h2) :: acc) else None
            | _ => None
            end
          else read_name_core f r (c :: acc)
      end
  end.

(* the content stream parser's reader: a '#' without two hex digits (or too near the end) is a plain byte *)
Fixpoint read_name_cs (fuel : nat) (s : bytes) (acc : bytes) : bytes * bytes :=
  match fuel with
  | O => (rev acc, s)
  | S f =>
      match s with
      | [] => (rev acc, [])
      | c :: r =>
          if is_ws c || is_delim c then (rev acc, s)
          else if c =? 35 then
            match r with
            | h1 :: h2 :: _ =>
                if is_hex h1 && is_hex h2 then read_name_cs f (skipn 2 r) ((hex_val h1 * 16 + hex_val h2) :: acc)
                else read_name_cs f r (35 :: acc)
            | _ => read_name_cs f r (35 :: acc)
            end
          else read_name_cs f r (c :: acc)
      end
  end.

(* ---------- the object parser: tokens ---------- *)

Inductive tok :=
| TKw (s : bytes) | TInt (s : bytes) | TReal (s : bytes) | TStr (s : bytes) | THexS (s : bytes) | TNm (s : bytes)
| TAO | TAC | TDO | TDC | TR
| TErr                       (* the lexer fails here; what follows is outside the model *)
| TEOF.

Fixpoint skip_ws (s : bytes) : bytes :=
  match s with c :: r => if is_ws c then skip_ws r else s | [] => [] end.

Fixpoint skip_line (s : bytes) : bytes :=
  match s with
  | [] => []
  | c :: r => if c =? 10 then r
              else if c =? 13 then (match r with c2 :: r2 => if c2 =? 10 then r2 else r | [] => r end)
              else skip_line r
  end.

(* readNumber: the lexeme and whether it has a decimal point *)
Fixpoint read_number (s : bytes) (acc : bytes) (dot : bool) : bytes * bool * bytes :=
  match s with
  | [] => (rev acc, dot, [])
  | c :: r =>
      if c =? 46 then (if dot then (rev acc, dot, s) else read_number r (c :: acc) true)
      else if is_digit c || (match acc with [] => (c =? 45) || (c =? 43) | _ => false end)
      then read_number r (c :: acc) dot
      else (rev acc, dot, s)
  end.

Fixpoint read_word (s : bytes) (acc : bytes) : bytes * bytes :=
  match s with
  | c :: r => if is_alpha c || is_digit c then read_word r (c :: acc) else (rev acc, s)
  | [] => (rev acc, [])
  end.

(* one token (comments are skipped: Parser.nextToken drops them) *)
Fixpoint next_tok (fuel : nat) (s : bytes) : tok * bytes :=
  match fuel with
  | O => (TErr, s)
  | S f =>
      match skip_ws s with
      | [] => (TEOF, [])
      | c :: r =>
          if c =? 37 then next_tok f (skip_line r)
          else if c =? 91 then (TAO, r)
          else if c =? 93 then (TAC, r)
          else if c =? 40 then
            match read_string (S (length r)) r 0 [] with Some (b, rest) => (TStr b, rest) | None => (TErr, []) end
          else if c =? 60 then
            if match r with c2 :: _ => c2 =? 60 | [] => false end then (TDO, skipn 1 r)
            else match read_hex_digits r [] with Some (ds, rest) => (THexS ds, rest) | None => (TErr, []) end
          else if c =? 62 then
            if match r with c2 :: _ => c2 =? 62 | [] => false end then (TDC, skipn 1 r) else (TErr, [])
          else if c =? 47 then
            match read_name_core (S (length r)) r [] with Some (b, rest) => (TNm b, rest) | None => (TErr, []) end
          else if is_digit c || (c =? 45) || (c =? 43) || (c =? 46) then
            let '(lex, dot, rest) := read_number (c :: r) [] false in
            ((if dot then TReal lex else TInt lex), rest)
          else if is_alpha c then
            let '(w, rest) := read_word (c :: r) [] in
            ((match w with [82] => TR | _ => TKw w end), rest)
          else (TErr, [])
      end
  end.

Fixpoint tokens_of (fuel : nat) (s : bytes) : list tok :=
  match fuel with
  | O => [TErr]
  | S f =>
      let '(t, rest) := next_tok (S (length s)) s in
      match t with
      | TEOF => [TEOF]
      | TErr => [TErr]
      | _ => t :: tokens_of f rest
      end
  end.

Inductive pres := POk (o : obj) (rest : list tok) | PErr | PUnknown.

Definition hd_tok (l : list tok) : tok := match l with t :: _ => t | [] => TEOF end.

Definition int_of (s : bytes) : option Z := atoi s.

(* the loops of parseArray and parseDict, over the parser P used for the elements *)
Fixpoint parse_arr (P : list tok -> pres) (g : nat) (ts0 : list tok) (acc : list obj) : pres :=
  match g with
  | O => PUnknown
  | S g' =>
      match ts0 with
      | TAC :: r2 => (match hd_tok r2 with TErr => PUnknown | _ => POk (OArr (rev acc)) r2 end)
      | TEOF :: _ => PErr
      | [] => PErr
      | _ => match P ts0 with
             | POk o r2 => parse_arr P g' r2 (o :: acc)
             | PErr => PErr
             | PUnknown => PUnknown
             end
      end
  end.

Fixpoint parse_dict (P : list tok -> pres) (g : nat) (ts0 : list tok) (acc : list (bytes * obj)) : pres :=
  match g with
  | O => PUnknown
  | S g' =>
      match ts0 with
      | TDC :: r2 => (match hd_tok r2 with TErr => PUnknown | _ => POk (ODict (rev acc)) r2 end)
      | TEOF :: _ => PErr
      | [] => PErr
      | TNm k :: r2 =>
          match P r2 with
          | POk o r3 => parse_dict P g' r3 ((k, o) :: acc)
          | PErr => PErr
          | PUnknown => PUnknown
          end
      | TErr :: _ => PUnknown
      | _ => PErr
      end
  end.

(* ParseObject over the token list; the head is currentToken, the second peekToken *)
Fixpoint parse_obj (fuel : nat) (ts : list tok) : pres :=
  match fuel with
  | O => PUnknown
  | S f =>
      match ts with
      | [] => PErr
      | t :: r =>
          (* the parser has already fetched the lookahead token *)
          match t with
          | TErr => PUnknown
          | TEOF => PErr
          | TKw w =>
              if match hd_tok r with TErr => true | _ => false end then PUnknown
              else if bytes_eqb w (bs "null") then POk ONull r
              else if bytes_eqb w (bs "true") then POk (OBool true) r
              else if bytes_eqb w (bs "false") then POk (OBool false) r
              else PErr
          | TInt s =>
              match hd_tok r with
              | TErr => PUnknown
              | _ =>
                  match int_of s with
                  | None => match parse_big s with Some o => POk o r | None => PErr end
                  | Some a =>
                      match r with
                      | TInt s2 :: r2 =>
                          match int_of s2 with
                          | Some b =>
                              match r2 with
                              | TR :: r3 => (match hd_tok r3 with TErr => PUnknown | _ => POk (ORef a b) r3 end)
                              | TErr :: _ => PUnknown
                              | _ => POk (OInt a) r
                              end
                          | None => POk (OInt a) r
                          end
                      | _ => POk (OInt a) r
                      end
                  end
              end
          | TReal s =>
              match hd_tok r with
              | TErr => PUnknown
              | _ => match parse_real s with Some o => POk o r | None => PErr end
              end
          | TStr b => (match hd_tok r with TErr => PUnknown | _ => POk (OStr b) r end)
          | THexS ds => (match hd_tok r with TErr => PUnknown | _ => POk (OStr (hex_pairs ds)) r end)
          | TNm b => (match hd_tok r with TErr => PUnknown | _ => POk (OName b) r end)
          | TAO => parse_arr (parse_obj f) (S (length r)) r []
          | TDO => parse_dict (parse_obj f) (S (length r)) r []
          | TAC | TDC | TR => (match hd_tok r with TErr => PUnknown | _ => PErr end)
          end
      end
  end.

Definition core_parse (s : bytes) : pres :=
  let ts := tokens_of (S (length s)) s in
  parse_obj (S (length ts)) ts.

(* ---------- the content stream parser ---------- *)

(* whitespace and comments *)
Fixpoint cs_line (l : bytes) : bytes :=
  match l with
  | [] => []
  | x :: r2 => if (x =? 10) || (x =? 13) then l else cs_line r2
  end.

Fixpoint cs_skip (fuel : nat) (s : bytes) : bytes :=
  match fuel with
  | O => s
  | S f =>
      match s with
      | c :: r => if is_ws c then cs_skip f r
                  else if c =? 37 then cs_skip f (cs_line r)
                  else s
      | [] => []
      end
  end.

Fixpoint has_prefix (p s : bytes) : bool :=
  match p, s with
  | [], _ => true
  | x :: p', y :: s' => (x =? y) && has_prefix p' s'
  | _ :: _, [] => false
  end.

Definition kw_ends (r : bytes) : bool := match r with [] => true | c :: _ => is_ws c || is_delim c end.

Definition keyword_at (s : bytes) : option (obj * bytes) :=
  if has_prefix (bs "true") s && kw_ends (skipn 4 s) then Some (OBool true, skipn 4 s)
  else if has_prefix (bs "false") s && kw_ends (skipn 5 s) then Some (OBool false, skipn 5 s)
  else if has_prefix (bs "null") s && kw_ends (skipn 4 s) then Some (ONull, skipn 4 s)
  else None.

(* parseNumber of the content stream parser *)
Fixpoint cs_digits (s : bytes) (acc : bytes) (dot : bool) : bytes * bool * bytes :=
  match s with
  | c :: r => if is_digit c then cs_digits r (c :: acc) dot
              else if (c =? 46) && negb dot then cs_digits r (c :: acc) true
              else (rev acc, dot, s)
  | [] => (rev acc, dot, [])
  end.

Definition cs_sign (s : bytes) : bytes * bytes :=
  match s with
  | c :: r => if (c =? 43) || (c =? 45) then ([c], r) else ([], s)
  | [] => ([], [])
  end.

Definition cs_number (s : bytes) : option (obj * bytes) :=
  let '(sign, body) := cs_sign s in
  let '(ds, dot, rest) := cs_digits body [] false in
  let lexeme := sign ++ ds in
  if dot then match parse_real lexeme with Some o => Some (o, rest) | None => None end
  else match atoi lexeme with Some z => Some (OInt z, rest) | None => None end.

(* the content stream parser's string reader differs from the lexer's in one place:
   a backslash as the very last byte is kept (the string is unclosed and fails anyway) *)
Fixpoint cs_hex (fuel : nat) (s : bytes) (acc : bytes) : option (bytes * bytes) :=
  match fuel with
  | O => None
  | S f =>
      match s with
      | [] => Some (rev acc, [])                       (* data ends: accepted without '>' *)
      | c :: r =>
          if c =? 62 then Some (rev acc, r)
          else if is_ws c then cs_hex f r acc
          else if negb (is_hex c) then None
          else
            match r with
            | [] => Some (rev ((hex_val c * 16) :: acc), [])
            | c2 :: r2 =>
                if c2 =? 62 then cs_hex f r ((hex_val c * 16) :: acc)
                else if is_ws c2 then
                  match cs_skip (S (length r)) r with
                  | [] => Some (rev ((hex_val c * 16) :: acc), [])
                  | c3 :: r3 =>
                      if c3 =? 62 then cs_hex f (c3 :: r3) ((hex_val c * 16) :: acc)
                      else if is_hex c3 then cs_hex f r3 ((hex_val c * 16 + hex_val c3) :: acc)
                      else None
                  end
                else if is_hex c2 then cs_hex f r2 ((hex_val c * 16 + hex_val c2) :: acc)
                else None
            end
      end
  end.

Inductive cres := COk (o : obj) (rest : bytes) | CErr.

(* elements of an array after '[' and entries of a dictionary after '<<'; P reads one operand *)
Fixpoint cs_arr (P : bytes -> cres) (g : nat) (s1 : bytes) (acc : list obj) : cres :=
  match g with
  | O => CErr
  | S g' =>
      match s1 with
      | [] => COk (OArr (rev acc)) []            (* data ends right after an element *)
      | _ =>
          match cs_skip (S (length s1)) s1 with
          | [] => CErr
          | c :: r2 =>
              if c =? 93 then COk (OArr (rev acc)) r2
              else match P (c :: r2) with
                   | COk o rest => cs_arr P g' rest (o :: acc)
                   | CErr => CErr
                   end
          end
      end
  end.

Fixpoint cs_dict (P : bytes -> cres) (g : nat) (s1 : bytes) (acc : list (bytes * obj)) : cres :=
  match g with
  | O => CErr
  | S g' =>
      match s1 with
      | [] => COk (ODict (rev acc)) []
      | _ =>
          match cs_skip (S (length s1)) s1 with
          | [] => CErr
          | c :: r2 =>
              if c =? 62 then
                match r2 with
                | c2 :: r3 => if c2 =? 62 then COk (ODict (rev acc)) r3 else CErr
                | [] => CErr
                end
              else if c =? 47 then
                let '(k, rest) := read_name_cs (S (length r2)) r2 [] in
                match P rest with
                | COk o rest2 => cs_dict P g' rest2 ((k, o) :: acc)
                | CErr => CErr
                end
              else CErr
          end
      end
  end.

Fixpoint cs_operand (fuel : nat) (s0 : bytes) : cres :=
  match fuel with
  | O => CErr
  | S f =>
      match cs_skip (S (length s0)) s0 with
      | [] => CErr
      | c :: r =>
          let s := c :: r in
          if (c =? 45) || (c =? 43) || (c =? 46) || is_digit c then
            match cs_number s with Some (o, rest) => COk o rest | None => CErr end
          else if c =? 40 then
            match read_string (S (length r)) r 0 [] with Some (b, rest) => COk (OStr b) rest | None => CErr end
          else if (c =? 60) && (match r with c2 :: _ => negb (c2 =? 60) | [] => false end) then
            match cs_hex (S (length r)) r [] with Some (b, rest) => COk (OStr b) rest | None => CErr end
          else if c =? 47 then
            let '(b, rest) := read_name_cs (S (length r)) r [] in COk (OName b) rest
          else if c =? 91 then cs_arr (cs_operand f) (S (length r)) r []
          else if (c =? 60) && (match r with c2 :: _ => c2 =? 60 | [] => false end) then
            cs_dict (cs_operand f) (S (length r)) (skipn 1 r) []
          else
            match keyword_at s with
            | Some (o, rest) => COk o rest
            | None => CErr
            end
      end
  end.

Definition is_op_char (c : N) : bool := is_alpha c || (c =? 39) || (c =? 34) || (c =? 42).

Fixpoint read_op (s : bytes) (acc : bytes) : bytes * bytes :=
  match s with
  | c :: r => if is_op_char c then read_op r (c :: acc) else (rev acc, s)
  | [] => (rev acc, [])
  end.

(* Parse: operations (operator, operands); None is an error *)
Fixpoint cs_parse (fuel : nat) (s0 : bytes) (stack : list obj) (ops : list (bytes * list obj))
  : option (list (bytes * list obj)) :=
  match fuel with
  | O => None
  | S f =>
      match cs_skip (S (length s0)) s0 with
      | [] => Some (rev ops)
      | c :: r =>
          let s := c :: r in
          match keyword_at s with
          | Some (o, rest) => cs_parse f rest (stack ++ [o]) ops
          | None =>
              if is_alpha c || (c =? 39) || (c =? 34) then
                let '(op, rest) := read_op s [] in
                cs_parse f rest [] ((op, stack) :: ops)
              else
                match cs_operand (S (length s)) s with
                | COk o rest => cs_parse f rest (stack ++ [o]) ops
                | CErr => None
                end
          end
      end
  end.

Definition cs_parse_all (s : bytes) : option (list (bytes * list obj)) := cs_parse (S (length s)) s [] [].
