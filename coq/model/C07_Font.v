(* C07 model: simple-font encodings (tables are generated from the source),
   UTF-16 decoding, ToUnicode CMap parsing and lookup, and the priority order
   of Font.DecodeString.  Text is modelled as a list of runes (Z, as Go's rune)
   turned into UTF-8 by string(rune) / WriteRune (U+FFFD for surrogates and
   out-of-range values). *)
From Tabula Require Export base.Val base.ListX.
From Tabula Require Import model.C16_Docs.      (* utf8_encode *)
From Coq Require String.
Import (notations) String.
Open Scope Z_scope.

(* ---------- runes to UTF-8 ---------- *)
Definition rune_ok (r : Z) : bool :=
  (0 <=? r) && (r <=? 1114111) && negb ((55296 <=? r) && (r <=? 57343)).
Definition rune_bytes (r : Z) : bytes := if rune_ok r then utf8_encode (Z.to_N r) else [239; 191; 189]%N.
Definition runes_bytes (rs : list Z) : bytes := concat (map rune_bytes rs).

(* ---------- standardEncoding.DecodeString ---------- *)
Definition table_decode (t : list Z) (data : bytes) : list Z :=
  filter (fun r => negb (r =? 0)) (map (fun b => nth (N.to_nat b) t 0) data).

(* ---------- DecodeUTF16BE / LE (encoding.go) ---------- *)
Fixpoint units_of (be : bool) (data : bytes) (fuel : nat) : list Z :=
  match fuel with
  | O => []
  | S f =>
      match data with
      | a :: b :: r => (if be then Z.of_N a * 256 + Z.of_N b else Z.of_N a + Z.of_N b * 256) :: units_of be r f
      | [a] => [if be then Z.of_N a * 256 else Z.of_N a]      (* odd length: padded with a zero byte *)
      | [] => []
      end
  end.

Definition is_high (u : Z) : bool := (55296 <=? u) && (u <=? 56319).
Definition is_low (u : Z) : bool := (56320 <=? u) && (u <=? 57343).

(* invalid surrogates are skipped *)
Fixpoint utf16_runes (us : list Z) : list Z :=
  match us with
  | [] => []
  | u :: r =>
      if is_high u then
        match r with
        | l :: r' => if is_low l then (65536 + (u - 55296) * 1024 + (l - 56320)) :: utf16_runes r'
                     else utf16_runes r
        | [] => []
        end
      else if is_low u then utf16_runes r
      else u :: utf16_runes r
  end.

Definition decode_utf16 (be : bool) (data : bytes) : list Z := utf16_runes (units_of be data (S (length data))).

(* ---------- hex helpers (cmap.go) ---------- *)
Definition hexval (c : N) : option Z :=
  if ((48 <=? c) && (c <=? 57))%N then Some (Z.of_N c - 48)
  else if ((97 <=? c) && (c <=? 102))%N then Some (Z.of_N c - 87)
  else if ((65 <=? c) && (c <=? 70))%N then Some (Z.of_N c - 55)
  else None.

Fixpoint hex_acc (acc : Z) (s : bytes) : option Z :=
  match s with
  | [] => Some acc
  | c :: r => match hexval c with Some d => hex_acc (acc * 16 + d) r | None => None end
  end.

(* parseHexToUint32: strconv.ParseUint(s, 16, 32) after padding to even length *)
Definition parse_hex32 (s : bytes) : option Z :=
  match s with
  | [] => None
  | _ => match hex_acc 0 s with
         | Some v => if v <? 4294967296 then Some v else None
         | None => None
         end
  end.

Definition is_ws_hex (c : N) : bool := ((c =? 32) || (c =? 9) || (c =? 10) || (c =? 13))%N.

Fixpoint hex_bytes (s : bytes) : option bytes :=
  match s with
  | [] => Some []
  | a :: b :: r =>
      match hexval a, hexval b, hex_bytes r with
      | Some x, Some y, Some t => Some (Z.to_N (x * 16 + y) :: t)
      | _, _, _ => None
      end
  | [_] => None
  end.

Definition pad_even (s : bytes) : bytes := if Nat.even (length s) then s else 48%N :: s.

(* decodeUTF16BE of cmap.go: a high surrogate not followed by a low one eats the next unit *)
Fixpoint cmap_utf16 (us : list Z) : list Z :=
  match us with
  | [] => []
  | u :: r =>
      if is_high u then
        match r with
        | l :: r' => if is_low l then (65536 + (u - 55296) * 1024 + (l - 56320)) :: cmap_utf16 r'
                     else u :: cmap_utf16 r'
        | [] => [u]
        end
      else u :: cmap_utf16 r
  end.

(* hexToUnicode: None is the error case *)
Definition hex_to_runes (s : bytes) : option (list Z) :=
  let s1 := pad_even (filter (fun c => negb (is_ws_hex c)) s) in
  match hex_bytes s1 with
  | None => None
  | Some data =>
      match data with
      | [] => None
      | [b] => Some [Z.of_N b]
      | a :: b :: r =>
          let body := if ((a =? 254) && (b =? 255))%N then r else data in
          if Nat.even (length body) then Some (cmap_utf16 (units_of true body (S (length body)))) else None
      end
  end.

(* ---------- the CMap ---------- *)
Record cmap := {
  cm_chars : list (Z * list Z);          (* later entries win *)
  cm_ranges : list (Z * Z * Z);          (* start, end, start unicode; first match wins *)
  cm_width : Z;                          (* from codespacerange, 0 unknown *)
  cm_actual : Z                          (* widest source code seen in bfchar / bfrange *)
}.

Inductive token := THex (s : bytes) | TOpen | TClose.

(* all <...> strings of a text, as parseBfCharSection collects them *)
Fixpoint until_gt (s : bytes) (acc : bytes) : option (bytes * bytes) :=
  match s with
  | [] => None
  | c :: r => if (c =? 62)%N then Some (rev acc, r) else until_gt r (c :: acc)
  end.

Fixpoint hex_strings (fuel : nat) (s : bytes) : list bytes :=
  match fuel with
  | O => []
  | S f =>
      match s with
      | [] => []
      | c :: r =>
          if (c =? 60)%N then
            match until_gt r [] with
            | Some (h, rest) => h :: hex_strings f rest
            | None => []
            end
          else hex_strings f r
      end
  end.

(* the token stream of a bfrange section *)
Fixpoint tokens (fuel : nat) (s : bytes) : list token :=
  match fuel with
  | O => []
  | S f =>
      match s with
      | [] => []
      | c :: r =>
          if (c =? 60)%N then
            match until_gt r [] with
            | Some (h, rest) => THex h :: tokens f rest
            | None => []
            end
          else if (c =? 91)%N then TOpen :: tokens f r
          else if (c =? 93)%N then TClose :: tokens f r
          else tokens f r
      end
  end.

Definition src_width (h : bytes) : Z := Z.of_nat (Nat.div (length h + (if Nat.even (length h) then 0 else 1)) 2).

Definition is_nil_b (b : bytes) : bool := match b with [] => true | _ => false end.

Definition add_char (c : cmap) (code : Z) (text : list Z) : cmap :=
  {| cm_chars := cm_chars c ++ [(code, text)]; cm_ranges := cm_ranges c; cm_width := cm_width c; cm_actual := cm_actual c |}.
Definition bump_actual (c : cmap) (w : Z) : cmap :=
  {| cm_chars := cm_chars c; cm_ranges := cm_ranges c; cm_width := cm_width c; cm_actual := Z.max (cm_actual c) w |}.

(* parseBfCharSection: pairs of hex strings *)
Fixpoint bfchar_pairs (hs : list bytes) (c : cmap) : cmap :=
  match hs with
  | src :: dst :: r =>
      if is_nil_b src || is_nil_b dst then bfchar_pairs r c
      else
        let c1 := bump_actual c (src_width src) in
        match parse_hex32 (pad_even src), hex_to_runes dst with
        | Some code, Some text => bfchar_pairs r (add_char c1 code text)
        | _, _ => bfchar_pairs r c1
        end
  | _ => c
  end.

(* the multi-unit destination of a range: last unit counts up (bounded) *)
Fixpoint expand_range (n : nat) (code last : Z) (prefix : list Z) (c : cmap) : cmap :=
  match n with
  | O => c
  | S k => expand_range k (code + 1) (last + 1) prefix
                        (add_char c code (cmap_utf16 (prefix ++ [last mod 65536])))
  end.

Definition add_range (c : cmap) (sh eh dh : bytes) : cmap :=
  if is_nil_b sh || is_nil_b eh || is_nil_b dh then c
  else
    let c1 := bump_actual c (src_width sh) in
    match parse_hex32 (pad_even sh), parse_hex32 (pad_even eh) with
    | Some s, Some e =>
        if Nat.ltb 4 (length dh) then
          match hex_bytes (pad_even dh) with
          | Some data =>
              if Nat.even (length data) then
                let us := units_of true data (S (length data)) in
                let n := if e <? s then 0 else Z.min (e - s + 1) 65536 in
                expand_range (Z.to_nat n) s (last us 0) (removelast us) c1
              else c1
          | None => c1
          end
        else
          match parse_hex32 (pad_even dh) with
          | Some d => {| cm_chars := cm_chars c1; cm_ranges := cm_ranges c1 ++ [(s, e, d)];
                         cm_width := cm_width c1; cm_actual := cm_actual c1 |}
          | None => c1
          end
    | _, _ => c1
    end.

Fixpoint add_array (code e : Z) (ds : list bytes) (c : cmap) : cmap :=
  match ds with
  | [] => c
  | d :: r =>
      if is_nil_b d then add_array code e r c
      else
        let c1 := match hex_to_runes d with
                  | Some text => if code <=? e then add_char c code text else c
                  | None => c
                  end in
        add_array (code + 1) e r c1
  end.

Fixpoint take_hex (ts : list token) : list bytes * list token :=
  match ts with
  | THex h :: r => let '(hs, rest) := take_hex r in (h :: hs, rest)
  | _ => ([], ts)
  end.

Fixpoint bfrange_tokens (fuel : nat) (ts : list token) (c : cmap) : cmap :=
  match fuel with
  | O => c
  | S f =>
      match ts with
      | THex sh :: THex eh :: THex dh :: r => bfrange_tokens f r (add_range c sh eh dh)
      | THex sh :: THex eh :: TOpen :: r =>
          let '(ds, rest) := take_hex r in
          let c1 := match parse_hex32 (pad_even sh), parse_hex32 (pad_even eh) with
                    | Some s, Some e => add_array s e ds c
                    | _, _ => c
                    end in
          bfrange_tokens f (match rest with TClose :: r2 => r2 | _ => rest end) c1
      | _ :: r => match r with _ :: _ :: _ => bfrange_tokens f r c | _ => c end
      | [] => c
      end
  end.

(* sections: text between "begin<kw>" and the next "end<kw>" *)
Fixpoint has_prefix (p s : bytes) : bool :=
  match p, s with
  | [], _ => true
  | x :: p', y :: s' => (x =? y)%N && has_prefix p' s'
  | _ :: _, [] => false
  end.

Fixpoint find_kw (kw : bytes) (s : bytes) (acc : bytes) : option (bytes * bytes) :=   (* before, after kw *)
  match s with
  | [] => if is_nil_b kw then Some (rev acc, []) else None
  | c :: r => if has_prefix kw s then Some (rev acc, skipn (length kw) s) else find_kw kw r (c :: acc)
  end.

Fixpoint sections (fuel : nat) (b e : bytes) (s : bytes) : list bytes :=
  match fuel with
  | O => []
  | S f =>
      match find_kw b s [] with
      | None => []
      | Some (_, after) =>
          match find_kw e after [] with
          | None => []
          | Some (sec, rest) => sec :: sections f b e rest
          end
      end
  end.

(* parseCodeSpaceRange: width from the first hex string of the first line with two of them *)
Fixpoint split_lines (s : bytes) (cur : bytes) : list bytes :=
  match s with
  | [] => [rev cur]
  | c :: r => if (c =? 10)%N then rev cur :: split_lines r [] else split_lines r (c :: cur)
  end.

Definition codespace_width (content : bytes) : Z :=
  match find_kw (bs "begincodespacerange") content [] with
  | None => 0
  | Some (_, after) =>
      match find_kw (bs "endcodespacerange") after [] with
      | None => 0
      | Some (sec, _) =>
          (fix go (ls : list bytes) : Z :=
             match ls with
             | [] => 0
             | l :: r => match hex_strings (S (length l)) l with
                         | h :: _ :: _ => src_width h
                         | _ => go r
                         end
             end) (split_lines sec [])
      end
  end.

Definition parse_cmap (content : bytes) : cmap :=
  let n := S (length content) in
  let c0 := {| cm_chars := []; cm_ranges := []; cm_width := codespace_width content; cm_actual := 0 |} in
  let c1 := fold_left (fun c sec => bfchar_pairs (hex_strings (S (length sec)) sec) c)
                      (sections n (bs "beginbfchar") (bs "endbfchar") content) c0 in
  fold_left (fun c sec => bfrange_tokens (S (length sec)) (tokens (S (length sec)) sec) c)
            (sections n (bs "beginbfrange") (bs "endbfrange") content) c1.

(* Lookup: None when the result would be the empty string *)
Fixpoint last_char (code : Z) (l : list (Z * list Z)) (found : option (list Z)) : option (list Z) :=
  match l with
  | [] => found
  | (k, t) :: r => last_char code r (if k =? code then Some t else found)
  end.

Fixpoint first_range (code : Z) (l : list (Z * Z * Z)) : option Z :=
  match l with
  | [] => None
  | (s, e, d) :: r => if (s <=? code) && (code <=? e) then Some ((d + (code - s)) mod 4294967296) else first_range code r
  end.

(* the runes written for a code; Go's string(rune(uint32)) makes U+FFFD of anything out of range *)
Definition lookup (c : cmap) (code : Z) : option (list Z) :=
  match last_char code (cm_chars c) None with
  | Some t => match t with [] => None | _ => Some t end
  | None => match first_range code (cm_ranges c) with
            | Some u => Some [if u <? 2147483648 then u else -1]
            | None => None
            end
  end.

Fixpoint code_of (bs0 : bytes) (acc : Z) : Z :=
  match bs0 with [] => acc | b :: r => code_of r ((acc * 256 + Z.of_N b) mod 4294967296) end.

Definition one_byte (c : cmap) (b : N) : list Z :=
  match lookup c (Z.of_N b) with Some t => t | None => [Z.of_N b] end.

Fixpoint lookup_width (c : cmap) (w : nat) (fuel : nat) (data : bytes) : list Z :=
  match fuel with
  | O => []
  | S f =>
      match data with
      | [] => []
      | _ =>
          if Nat.ltb (length data) w then concat (map (one_byte c) data)
          else
            let code := code_of (firstn w data) 0 in
            (match lookup c code with
             | Some t => t
             | None => if code <? 1114112 then [code] else []
             end) ++ lookup_width c w f (skipn w data)
      end
  end.

Fixpoint lookup_guess (c : cmap) (fuel : nat) (data : bytes) : list Z :=
  match fuel with
  | O => []
  | S f =>
      match data with
      | [] => []
      | a :: r =>
          match lookup c (Z.of_N a) with
          | Some t => t ++ lookup_guess c f r
          | None =>
              match r with
              | b :: r' =>
                  match lookup c (Z.of_N a * 256 + Z.of_N b) with
                  | Some t => t ++ lookup_guess c f r'
                  | None => Z.of_N a :: lookup_guess c f r
                  end
              | [] => [Z.of_N a]
              end
          end
      end
  end.

(* LookupString *)
Definition lookup_string (c : cmap) (data : bytes) : list Z :=
  let w := if (0 <? cm_actual c) && (cm_actual c <? cm_width c) then cm_actual c else cm_width c in
  if 0 <? w then lookup_width c (Z.to_nat w) (S (length data)) data
  else lookup_guess c (S (length data)) data.
