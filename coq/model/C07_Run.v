From Tabula Require Import model.C07_Font model.C07_RefEncodings gen.GenEncodings.
From Coq Require String.
Import (notations) String.
Open Scope Z_scope.

Definition enc_table (name : bytes) : list Z :=
  (fix go (l : list (list N * list Z)) : list Z :=
     match l with
     | [] => get_encoding_default
     | (n, t) :: r => if bytes_eqb n name then t else go r
     end) get_encoding_table.

(* (0 xNAME xDATA)        GetEncoding(name).DecodeString(data)     -> UTF-8
   (1 be xDATA)           DecodeUTF16BE / LE                        -> UTF-8
   (2 xCMAP xDATA)        ParseToUnicodeCMap(cmap).LookupString     -> UTF-8
   (3 k)                  codes of the k-th named encoding whose value the reference does not allow -> (code...) *)
Definition deviations (t : list Z) (ref : list (list Z)) : list nat :=
  filter (fun b => negb (existsb (Z.eqb (nth b t 0)) (nth b ref []))) (seq 0 256).

Definition ref_of (k : Z) : list N * list (list Z) :=
  if k =? 0 then (bs "StandardEncoding", ref_standard)
  else if k =? 1 then (bs "WinAnsiEncoding", ref_winansi)
  else if k =? 2 then (bs "MacRomanEncoding", ref_macroman)
  else if k =? 3 then (bs "PDFDocEncoding", ref_pdfdoc)
  else if k =? 4 then (bs "SymbolEncoding", ref_symbol)
  else (bs "ZapfDingbatsEncoding", ref_zapfdingbats).

Definition run_C07 (v : val) : val :=
  match val_l v with
  | [VI 0; VB name; VB data] => VB (runes_bytes (table_decode (enc_table name) data))
  | [VI 1; be; VB data] => VB (runes_bytes (decode_utf16 (val_bool be) data))
  | [VI 2; VB cm; VB data] => VB (runes_bytes (lookup_string (parse_cmap cm) data))
  | [VI 3; VI k] => let '(n, r) := ref_of k in VL (map vnat (deviations (enc_table n) r))
  | _ => bad_case
  end.
