(* C08 model: model.Matrix, graphicsstate.GraphicsState and the operator
   dispatch of text.Extractor.processOperation, over Z (the correspondence
   uses integer operands, exact in binary64 below 2^53). *)
From Tabula Require Export base.Val.
Open Scope Z_scope.

Definition mat := (Z * Z * Z * Z * Z * Z)%type.
Definition ident : mat := (1, 0, 0, 1, 0, 0).

(* Matrix.Multiply(m, o) = m x o in the PDF row-vector convention *)
Definition mmul (m o : mat) : mat :=
  let '(a, b, c, d, e, f) := m in
  let '(a', b', c', d', e', f') := o in
  (a * a' + b * c', a * b' + b * d',
   c * a' + d * c', c * b' + d * d',
   e * a' + f * c' + e', e * b' + f * d' + f').

Definition transform (m : mat) (p : Z * Z) : Z * Z :=
  let '(a, b, c, d, e, f) := m in
  let '(x, y) := p in (a * x + c * y + e, b * x + d * y + f).

Definition translate (tx ty : Z) : mat := (1, 0, 0, 1, tx, ty).

Inductive op : Type :=
| Oq | OQ
| Ocm (m : mat)
| OBT | OET
| OTf (size : Z)
| OTm (m : mat)
| OTd (tx ty : Z)
| OTD (tx ty : Z)
| OTstar
| OTL (l : Z)
| OTc (z : Z) | OTw (z : Z) | OTz (z : Z)
| OTj                      (* show a string *)
| OQuote                   (* quote operator: next line, show *)
| ODQuote (aw ac : Z)      (* double-quote operator: set spacing, next line, show *)
| OForm (m : option mat) (body : list op).   (* Do of a Form XObject with optional /Matrix *)

(* the part of GraphicsState that Save/Restore copy *)
Record gstate := {
  g_ctm : mat; g_tm : mat; g_tlm : mat; g_lead : Z; g_fs : Z;
  g_clean : bool   (* false once a show has advanced Tm by a font-dependent amount *)
}.

Definition g0 : gstate :=
  {| g_ctm := ident; g_tm := ident; g_tlm := ident; g_lead := 0; g_fs := 12; g_clean := true |}.

(* observable of one show: position when known, base size and squared CTM scale *)
Definition shown := (option (Z * Z) * Z * Z)%type.

Record xstate := { x_g : gstate; x_stack : list gstate; x_out : list shown }.

Definition set_g (s : xstate) (g : gstate) : xstate :=
  {| x_g := g; x_stack := x_stack s; x_out := x_out s |}.

Definition translate_text (g : gstate) (tx ty : Z) : gstate :=
  let tlm := mmul (translate tx ty) (g_tlm g) in
  {| g_ctm := g_ctm g; g_tm := tlm; g_tlm := tlm; g_lead := g_lead g; g_fs := g_fs g; g_clean := true |}.

Definition zabs (z : Z) : Z := Z.abs z.

Definition show (s : xstate) : xstate :=
  let g := x_g s in
  let '(a, b, c, d, e, f) := g_tm g in
  let pos := if g_clean g then Some (transform (g_ctm g) (e, f)) else None in
  let base := g_fs g * Z.max (zabs a) (zabs d) in
  let '(ca, cb, cc, cd, ce, cf) := g_ctm g in
  let sq := cc * cc + cd * cd in
  {| x_g := {| g_ctm := g_ctm g; g_tm := g_tm g; g_tlm := g_tlm g; g_lead := g_lead g;
               g_fs := g_fs g; g_clean := false |};
     x_stack := x_stack s; x_out := x_out s ++ [(pos, base, sq)] |}.

Definition restore (s : xstate) : res xstate :=
  match x_stack s with
  | [] => Err
  | g :: st => Ok {| x_g := g; x_stack := st; x_out := x_out s |}
  end.

Definition save (s : xstate) : xstate :=
  {| x_g := x_g s; x_stack := x_g s :: x_stack s; x_out := x_out s |}.

Definition upd_ctm (g : gstate) (m : mat) : gstate :=
  {| g_ctm := m; g_tm := g_tm g; g_tlm := g_tlm g; g_lead := g_lead g; g_fs := g_fs g; g_clean := g_clean g |}.

(* top-level: a failing operation (Q underflow) aborts; inside a form errors are ignored *)
Fixpoint step (toplevel : bool) (s : xstate) (o : op) {struct o} : res xstate :=
  let g := x_g s in
  match o with
  | Oq => Ok (save s)
  | OQ => match restore s with
          | Ok s' => Ok s'
          | _ => if toplevel then Err else Ok s
          end
  | Ocm m => Ok (set_g s (upd_ctm g (mmul m (g_ctm g))))
  | OBT => Ok (set_g s {| g_ctm := g_ctm g; g_tm := ident; g_tlm := ident; g_lead := g_lead g; g_fs := g_fs g; g_clean := true |})
  | OET => Ok s
  | OTf sz => Ok (set_g s {| g_ctm := g_ctm g; g_tm := g_tm g; g_tlm := g_tlm g; g_lead := g_lead g; g_fs := sz; g_clean := g_clean g |})
  | OTm m => Ok (set_g s {| g_ctm := g_ctm g; g_tm := m; g_tlm := m; g_lead := g_lead g; g_fs := g_fs g; g_clean := true |})
  | OTd tx ty => Ok (set_g s (translate_text g tx ty))
  | OTD tx ty =>
    let g' := {| g_ctm := g_ctm g; g_tm := g_tm g; g_tlm := g_tlm g; g_lead := - ty; g_fs := g_fs g; g_clean := g_clean g |} in
    Ok (set_g s (translate_text g' tx ty))
  | OTstar => Ok (set_g s (translate_text g 0 (- g_lead g)))
  | OTL l => Ok (set_g s {| g_ctm := g_ctm g; g_tm := g_tm g; g_tlm := g_tlm g; g_lead := l; g_fs := g_fs g; g_clean := g_clean g |})
  | OTc _ | OTw _ | OTz _ => Ok s
  | OTj => Ok (show s)
  | OQuote => Ok (show (set_g s (translate_text g 0 (- g_lead g))))
  | ODQuote _ _ => Ok (show (set_g s (translate_text g 0 (- g_lead g))))
  | OForm m body =>
    let s1 := save s in
    let s2 := match m with
              | Some mm => set_g s1 (upd_ctm (x_g s1) (mmul mm (g_ctm (x_g s1))))
              | None => s1
              end in
    let s3 := (fix run (l : list op) (s : xstate) : xstate :=
                 match l with
                 | [] => s
                 | o' :: l' => match step false s o' with
                               | Ok s' => run l' s'
                               | _ => run l' s
                               end
                 end) body s2 in
    match restore s3 with
    | Ok s4 => Ok s4
    | _ => Ok s3
    end
  end.

Fixpoint run_ops (l : list op) (s : xstate) : res xstate :=
  match l with
  | [] => Ok s
  | o :: l' => match step true s o with
               | Ok s' => run_ops l' s'
               | Err => Err | Panic => Panic | Diverge => Diverge
               end
  end.

Definition x0 : xstate := {| x_g := g0; x_stack := []; x_out := [] |}.

Definition impl_run (prog : list op) : res (list shown) :=
  res_map x_out (run_ops prog x0).
