From Tabula Require Import model.C08_Gfx.
Open Scope Z_scope.

Definition dec_mat (l : list val) : mat :=
  match l with
  | [a; b; c; d; e; f] => (val_z a, val_z b, val_z c, val_z d, val_z e, val_z f)
  | _ => ident
  end.

Fixpoint dec_op (fuel : nat) (v : val) : op :=
  match fuel with
  | O => OET
  | S fu =>
    match val_l v with
    | [VI 0] => Oq
    | [VI 1] => OQ
    | VI 2 :: m => Ocm (dec_mat m)
    | [VI 3] => OBT
    | [VI 4] => OET
    | [VI 5; VI z] => OTf z
    | VI 6 :: m => OTm (dec_mat m)
    | [VI 7; VI x; VI y] => OTd x y
    | [VI 8; VI x; VI y] => OTD x y
    | [VI 9] => OTstar
    | [VI 10; VI l] => OTL l
    | [VI 11; VI z] => OTc z
    | [VI 12; VI z] => OTw z
    | [VI 13; VI z] => OTz z
    | [VI 14] => OTj
    | [VI 15] => OQuote
    | [VI 16; VI a; VI b] => ODQuote a b
    | [VI 17; VL m; VL body] =>
      OForm (match m with [] => None | _ => Some (dec_mat m) end) (map (dec_op fu) body)
    | _ => OET
    end
  end.

Definition enc_shown (s : shown) : val :=
  let '(pos, base, sq) := s in
  let root := if sq =? 0 then 1 else Z.sqrt sq in
  let fsz := if base =? 0 then 0
             else if (sq =? 0) || (root * root =? sq) then base * root else -1 in
  VL [match pos with Some (x, y) => VL [VI x; VI y] | None => VL [] end; VI fsz].

Definition run_C08 (v : val) : val :=
  val_of_res (fun l => VL (map enc_shown l)) (impl_run (map (dec_op 12) (val_l v))).
