(* C09 model: layout analysis as regrouping.
   Every stage of the layout pipeline (lines, columns and spanning content,
   blocks, sections of the reading order, paragraphs) sorts, partitions and
   concatenates fragments; which fragment goes where is decided by float
   heuristics that conservation must not depend on.  The model is therefore the
   data movement alone, with the decisions as oracles: [key] says which group a
   fragment goes to (a key outside the groups means the stage drops it) and [pos]
   where it stands in its group.  Fragments are numbered 0..n-1. *)
From Tabula Require Export base.Val base.ListX.
Open Scope nat_scope.

(* stable insertion by position *)
Fixpoint insert_by (pos : nat -> nat) (x : nat) (l : list nat) : list nat :=
  match l with
  | [] => [x]
  | y :: r => if Nat.leb (pos x) (pos y) then x :: l else y :: insert_by pos x r
  end.

Definition sort_by (pos : nat -> nat) (l : list nat) : list nat := fold_right (insert_by pos) [] l.

(* the groups 0..k-1 of a stage, each in the order [pos] gives; and what it drops *)
Definition regroup (key pos : nat -> nat) (k : nat) (frags : list nat) : list (list nat) :=
  map (fun g => sort_by pos (filter (fun x => Nat.eqb (key x) g) frags)) (seq 0 k).

Definition dropped (key : nat -> nat) (k : nat) (frags : list nat) : list nat :=
  filter (fun x => Nat.leb k (key x)) frags.

(* a two-level stage: groups of groups (paragraphs of lines, sections of lines) *)
Definition regroup2 (key1 key2 pos : nat -> nat) (k1 k2 : nat) (frags : list nat) : list (list (list nat)) :=
  map (fun g => regroup key2 pos k2 (filter (fun x => Nat.eqb (key1 x) g) frags)) (seq 0 k1).

(* text assembly: the fragments' texts in order with separators from an oracle *)
Definition is_space (c : N) : bool := ((c =? 32) || (c =? 10) || (c =? 9) || (c =? 13))%N.
Definition nonws (s : bytes) : bytes := filter (fun c => negb (is_space c)) s.

Fixpoint assemble (text : nat -> bytes) (sep : nat -> bytes) (l : list nat) : bytes :=
  match l with
  | [] => []
  | x :: r => text x ++ sep x ++ assemble text sep r
  end.
