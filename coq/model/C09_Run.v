From Tabula Require Import model.C09_Regroup.
Open Scope Z_scope.

Definition table (l : list val) (d : nat) (i : nat) : nat := val_nat (nth i l (vnat d)).

(* (0 n k (key...) (pos...))             -> ((group...) (dropped...))
   (1 n k1 k2 (key1...) (key2...) (pos...)) -> ((groups of groups) (dropped...)) *)
Definition run_C09 (v : val) : val :=
  match val_l v with
  | [VI 0; n; k; VL keys; VL poss] =>
      let frags := seq 0 (val_nat n) in
      let key := table keys (val_nat k) in
      let pos := table poss 0%nat in
      VL [VL (map (fun g => VL (map vnat g)) (regroup key pos (val_nat k) frags));
          VL (map vnat (dropped key (val_nat k) frags))]
  | [VI 1; n; k1; k2; VL keys1; VL keys2; VL poss] =>
      let frags := seq 0 (val_nat n) in
      let key1 := table keys1 (val_nat k1) in
      let key2 := table keys2 (val_nat k2) in
      let pos := table poss 0%nat in
      VL [VL (map (fun gg => VL (map (fun g => VL (map vnat g)) gg))
                  (regroup2 key1 key2 pos (val_nat k1) (val_nat k2) frags));
          VL (map vnat (filter (fun x => Nat.leb (val_nat k1) (key1 x) || Nat.leb (val_nat k2) (key2 x)) frags))]
  | _ => bad_case
  end.
