(* C10 model: Extractor.Pages / PageRange / resolvePages, the page-join rule of
   Text, and the reader life cycle (ensureReader / terminal operations / Close /
   clone) with an explicit table of open handles. *)
From Tabula Require Export base.Val base.ListX.
Open Scope Z_scope.

(* ---------- builders: options.pages only ever grows by appending *)
Definition add_pages (sel ps : list Z) : list Z := sel ++ ps.

Fixpoint range_from (s : Z) (n : nat) : list Z :=
  match n with O => [] | S n' => s :: range_from (s + 1) n' end.
(* for i := start; i <= end; i++ *)
Definition add_range (sel : list Z) (s e : Z) : list Z := sel ++ range_from s (Z.to_nat (e - s + 1)).

(* ---------- resolvePages *)
Fixpoint first_bad (sel : list Z) (n : Z) : bool :=
  match sel with [] => false | p :: t => if (p <? 1) || (n <? p) then true else first_bad t n end.

Fixpoint dedup_first (l : list Z) (seen : list Z) : list Z :=
  match l with
  | [] => []
  | x :: t => if existsb (Z.eqb x) seen then dedup_first t seen else x :: dedup_first t (x :: seen)
  end.

Fixpoint insert_z (x : Z) (l : list Z) : list Z :=
  match l with [] => [x] | y :: t => if x <=? y then x :: l else y :: insert_z x t end.
Definition sort_ints (l : list Z) : list Z := fold_right insert_z [] l.

Definition resolve (sel : list Z) (n : Z) : res (list Z) :=
  match sel with
  | [] => Ok (range_from 0 (Z.to_nat n))
  | _ => if first_bad sel n then Err else Ok (sort_ints (dedup_first (map (fun p => p - 1) sel) []))
  end.

(* ---------- Text: pages joined by a blank line, empty pages contribute nothing *)
Definition sep : bytes := [10%N; 10%N].
Definition join_pages (texts : list bytes) : bytes :=
  fold_left (fun acc t => match acc, t with
                          | [], _ => t
                          | _, [] => acc
                          | _, _ => acc ++ sep ++ t
                          end) texts [].

(* ---------- life cycle.  An extractor either holds a handle it owns or none;
   [next] is the next fresh handle id; [opened] the handles currently open. *)
Record world := { exts : list (option nat); opened : list nat; next : nat }.

Inductive lop :=
| LDerive (i : nat)                 (* any builder call on extractor i: clone *)
| LNonTerminal (i : nat) (ok : bool) (* PageCount / IsMultiColumn ...: ensureReader, stays open; ok = the open succeeded *)
| LTerminal (i : nat) (ok : bool)    (* Text / Chunks / ...: ensureReader; defer Close *)
| LClose (i : nat).

Definition set_ext (w : world) (i : nat) (v : option nat) : list (option nat) := upd_nth i (fun _ => v) (exts w).

Definition remove_h (h : nat) (l : list nat) : list nat := filter (fun x => negb (Nat.eqb x h)) l.

(* ensureReader on extractor i: open a fresh handle unless one is held; a failed
   open (format mismatch, unreadable file) leaves nothing open *)
Definition ensure (w : world) (i : nat) (ok : bool) : world :=
  match nth_error (exts w) i with
  | Some None => if ok then {| exts := set_ext w i (Some (next w)); opened := next w :: opened w; next := S (next w) |}
                 else w
  | _ => w
  end.

Definition close (w : world) (i : nat) : world :=
  match nth_error (exts w) i with
  | Some (Some h) => {| exts := set_ext w i None; opened := remove_h h (opened w); next := next w |}
  | _ => w
  end.

Definition lstep (w : world) (o : lop) : world :=
  match o with
  | LDerive i => match nth_error (exts w) i with
                 | Some _ => {| exts := exts w ++ [None]; opened := opened w; next := next w |}  (* the clone holds nothing *)
                 | None => w
                 end
  | LNonTerminal i ok => ensure w i ok
  | LTerminal i ok => close (ensure w i ok) i
  | LClose i => close w i
  end.

Definition w0 : world := {| exts := [None]; opened := []; next := 0 |}.
Definition lrun (ops : list lop) : world := fold_left lstep ops w0.
