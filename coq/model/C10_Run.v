From Tabula Require Import model.C10_Pages.
Open Scope Z_scope.

Definition dec_lop (v : val) : lop :=
  match val_l v with
  | [VI 0; VI i] => LDerive (Z.to_nat i)
  | [VI 1; VI i; ok] => LNonTerminal (Z.to_nat i) (val_bool ok)
  | [VI 2; VI i; ok] => LTerminal (Z.to_nat i) (val_bool ok)
  | [VI 3; VI i] => LClose (Z.to_nat i)
  | _ => LClose 0
  end.

(* builder program: list of (0 p...) Pages | (1 s e) PageRange *)
Definition apply_builder (sel : list Z) (v : val) : list Z :=
  match val_l v with
  | VI 0 :: ps => add_pages sel (map val_z ps)
  | [VI 1; VI s; VI e] => add_range sel s e
  | _ => sel
  end.

(* (0 n (builders...))      -> resolve: (0 (pages...)) | (1)
   (1 (xTEXT...))           -> join_pages
   (2 (lops...))            -> number of open handles after each operation *)
Definition run_C10 (v : val) : val :=
  match val_l v with
  | [VI 0; VI n; VL bsl] => val_of_res (fun l => VL (map VI l)) (resolve (fold_left apply_builder bsl []) n)
  | [VI 1; VL ts] => VB (join_pages (map val_b ts))
  | [VI 2; VL ops] =>
    VL (snd (fold_left (fun '(w, out) o => let w' := lstep w (dec_lop o) in
                                           (w', out ++ [VI (Z.of_nat (length (opened w')))]))
                       ops (w0, [])))
  | _ => bad_case
  end.
