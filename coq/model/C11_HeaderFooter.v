(* C11 model: layout.HeaderFooterDetector.Detect (for pages that are not
   character-level) and HeaderFooterResult.FilterFragments, over integer
   coordinates; thresholds and page-number patterns are regenerated. *)
From Tabula Require Export base.Val gen.GenHeaderFooter.
From Tabula Require Import model.C13_Split.   (* strings.TrimSpace *)
From Coq Require String.
Import (notations) String.
Open Scope Z_scope.

Record frag := { fx : Z; fy : Z; fw : Z; fh : Z; ftext : bytes }.
Record page := { p_index : Z; p_height : Z; p_frags : list frag }.

Definition is_cont8 (b : N) : bool := ((128 <=? b) && (b <=? 191))%N.
Definition rune_count (s : bytes) : Z := Z.of_nat (length (filter (fun b => negb (is_cont8 b)) s)).

(* isCharacterLevel: average rune count per fragment <= 2 *)
Definition char_level (fs : list frag) : bool :=
  match fs with
  | [] => false
  | _ => fold_left (fun a f => a + rune_count (ftext f)) fs 0 <=? 2 * Z.of_nat (length fs)
  end.

(* content bounds exactly as the loops compute them *)
Definition bounds (fs : list frag) : Z * Z :=
  match fs with
  | [] => (0, 0)
  | f0 :: _ =>
    fold_left (fun '(mn, mx) f => (if fy f <? mn then fy f else mn,
                                   if mx <? fy f + fh f then fy f + fh f else mx)) fs (fy f0, fy f0)
  end.

(* dist < region * scale, region = rn/rd, scale = sn/sd (sd > 0, rd > 0) *)
Definition lt_scaled (dist : Z) (r : Z * Z) (sn sd : Z) : bool :=
  dist * snd r * sd <? fst r * sn.

Inductive rtype := Header | Footer.

Record cand := { c_text : bytes; c_x : Z; c_y : Z; c_w : Z; c_h : Z; c_page : Z }.

Definition page_candidates (rt : rtype) (p : page) : list cand :=
  match p_frags p with
  | [] => []
  | fs =>
    let '(minY, maxY) := bounds fs in
    let ch0 := maxY - minY in
    let ch := if ch0 <=? 0 then p_height p else ch0 in
    let inverted := p_height p <? maxY in
    let refMin := if inverted then minY else 0 in
    let refMax := if inverted then maxY else p_height p in
    let sn := if inverted then ch else 1 in
    let sd := if inverted then p_height p else 1 in
    flat_map (fun f =>
      let dist :=
        match rt, inverted with
        | Header, true => fy f - refMin
        | Header, false => refMax - (fy f + fh f)
        | Footer, true => refMax - (fy f + fh f)
        | Footer, false => fy f - refMin
        end in
      let region := match rt with Header => hf_HeaderRegionHeight | Footer => hf_FooterRegionHeight end in
      if lt_scaled dist region sn sd
      then [{| c_text := trim_space (ftext f); c_x := fx f; c_y := dist; c_w := fw f; c_h := fh f; c_page := p_index p |}]
      else []) fs
  end.

Definition is_digit (c : N) : bool := ((48 <=? c) && (c <=? 57))%N.

(* regexp \d+ -> "#" *)
Fixpoint normalize (s : bytes) (in_run : bool) : bytes :=
  match s with
  | [] => []
  | c :: t => if is_digit c then (if in_run then normalize t true else 35%N :: normalize t true)
              else c :: normalize t false
  end.
Definition normalize_for_comparison (s : bytes) : bytes := normalize s false.

Definition fold_ascii (c : N) : N := if ((65 <=? c) && (c <=? 90))%N then (c + 32)%N else c.
Definition equal_fold (a b : bytes) : bool := bytes_eqb (map fold_ascii a) (map fold_ascii b).

Definition is_page_number_pattern (normalized : bytes) : bool :=
  existsb (equal_fold (trim_space normalized)) hf_patterns.

(* all digit runs of a text as numbers *)
Fixpoint numbers_in (s : bytes) (cur : option Z) : list Z :=
  match s with
  | [] => match cur with Some v => [v] | None => [] end
  | c :: t => if is_digit c
              then numbers_in t (Some (match cur with Some v => v * 10 | None => 0 end + (Z.of_N c - 48)))
              else match cur with Some v => v :: numbers_in t None | None => numbers_in t None end
  end.

Fixpoint insert_sorted (x : Z) (l : list Z) : list Z :=
  match l with [] => [x] | y :: l' => if x <=? y then x :: l else y :: insert_sorted x l' end.
Definition sort_z (l : list Z) : list Z := fold_right insert_sorted [] l.

Fixpoint count_seq (l : list Z) : Z :=
  match l with
  | a :: ((b :: _) as t) => (if b - a =? 1 then 1 else 0) + count_seq t
  | _ => 0
  end.

Definition contains_page_number_pattern (g : list cand) : bool :=
  if (Z.of_nat (length g) <? 2) then false else
  let nums := flat_map (fun c => numbers_in (c_text c) None) g in
  if Z.of_nat (length nums) <? 2 then false
  else Z.of_nat (length nums) / 2 <=? count_seq (sort_z nums).

(* groups keyed by normalized text, in first-occurrence order *)
Fixpoint group_add (k : bytes) (c : cand) (gs : list (bytes * list cand)) : list (bytes * list cand) :=
  match gs with
  | [] => [(k, [c])]
  | (k', l) :: gs' => if bytes_eqb k k' then (k', l ++ [c]) :: gs' else (k', l) :: group_add k c gs'
  end.
Definition group_candidates (cs : list cand) : list (bytes * list cand) :=
  fold_left (fun gs c => group_add (normalize_for_comparison (c_text c)) c gs) cs [].

Fixpoint dedup_z (l : list Z) : list Z :=
  match l with [] => [] | x :: l' => if existsb (Z.eqb x) l' then dedup_z l' else x :: dedup_z l' end.
Definition page_set (g : list cand) : list Z := sort_z (dedup_z (map c_page g)).

Definition within (d : Z) (tol : Z * Z) : bool := Z.abs d * snd tol <=? fst tol.

Definition consistent_position (g : list cand) : bool :=
  match g with
  | c0 :: ((_ :: _) as rest) =>
    forallb (fun c => within (c_y c - c_y c0) hf_PositionTolerance && within (c_x c - c_x c0) hf_XPositionTolerance) rest
  | _ => false
  end.

Record region := { r_type : rtype; r_text : bytes; r_ispn : bool; r_pages : list Z }.

Definition min_occurrences (npages : nat) : Z :=
  let m := Z.of_nat npages * fst hf_MinOccurrenceRatio / snd hf_MinOccurrenceRatio in
  if m <? 2 then 2 else m.

Definition regions_of (rt : rtype) (pages : list page) : list region :=
  let cs := flat_map (page_candidates rt) pages in
  flat_map (fun '(k, g) =>
    if (Z.of_nat (length k) <=? 2) && negb (is_page_number_pattern k) then []
    else if Z.of_nat (length (page_set g)) <? min_occurrences (length pages) then []
    else if negb (consistent_position g) then []
    else
      let ispn := is_page_number_pattern k || contains_page_number_pattern g in
      [{| r_type := rt;
          r_text := if ispn then bs "[Page Number]" else match g with c :: _ => c_text c | [] => [] end;
          r_ispn := ispn; r_pages := page_set g |}]) (group_candidates cs).

Record result := { res_headers : list region; res_footers : list region }.

Definition detect (pages : list page) : result :=
  if Z.of_nat (length pages) <? fst hf_MinPages / snd hf_MinPages then {| res_headers := []; res_footers := [] |}
  else {| res_headers := regions_of Header pages; res_footers := regions_of Footer pages |}.

(* ---------- FilterFragments *)
Definition texts_match (ftxt rtxt : bytes) (ispn : bool) : bool :=
  let a := trim_space ftxt in
  let b := trim_space rtxt in
  if ispn then is_page_number_pattern (normalize_for_comparison a)
  else bytes_eqb a b || bytes_eqb (normalize_for_comparison a) (normalize_for_comparison b).

Definition in_header_footer (r : result) (pidx : Z) (f : frag) (minY maxY : Z) (sn sd : Z)
           (inverted charlevel : bool) : bool :=
  let distTop := if inverted then fy f - minY else maxY - (fy f + fh f) in
  let distBot := if inverted then maxY - (fy f + fh f) else fy f - minY in
  existsb (fun h => existsb (Z.eqb pidx) (r_pages h) && lt_scaled distTop hf_HeaderRegionHeight sn sd &&
                    (charlevel || texts_match (ftext f) (r_text h) (r_ispn h))) (res_headers r) ||
  existsb (fun h => existsb (Z.eqb pidx) (r_pages h) && lt_scaled distBot hf_FooterRegionHeight sn sd &&
                    (charlevel || texts_match (ftext f) (r_text h) (r_ispn h))) (res_footers r).

Definition filter_fragments (r : result) (pidx : Z) (fs : list frag) (pheight : Z) : list frag :=
  match fs with
  | [] => []
  | _ =>
    let cl := char_level fs in
    let '(minY, maxY) := bounds fs in
    let ch0 := maxY - minY in
    let ch := if ch0 <=? 0 then pheight else ch0 in
    let inverted := pheight <? maxY in
    let sn := if pheight <? ch then ch else 1 in
    let sd := if pheight <? ch then pheight else 1 in
    filter (fun f => negb (in_header_footer r pidx f minY maxY sn sd inverted cl)) fs
  end.
