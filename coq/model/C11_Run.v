From Tabula Require Import model.C11_HeaderFooter.
Open Scope Z_scope.

Definition dec_frag (v : val) : frag :=
  match val_l v with
  | [VI x; VI y; VI w; VI h; VB t] => {| fx := x; fy := y; fw := w; fh := h; ftext := t |}
  | _ => {| fx := 0; fy := 0; fw := 0; fh := 0; ftext := [] |}
  end.
Definition dec_page (v : val) : page :=
  match val_l v with
  | [VI i; VI h; VL fs] => {| p_index := i; p_height := h; p_frags := map dec_frag fs |}
  | _ => {| p_index := 0; p_height := 0; p_frags := [] |}
  end.

(* canonical order of regions: lexicographic on (type, ispn, text bytes, pages) *)
Definition region_key (r : region) : list Z :=
  (match r_type r with Header => 0 | Footer => 1 end) :: (if r_ispn r then 1 else 0) ::
  Z.of_nat (length (r_text r)) :: map Z.of_N (r_text r) ++ r_pages r.

Fixpoint lex_leb (a b : list Z) : bool :=
  match a, b with
  | [], _ => true
  | _ :: _, [] => false
  | x :: a', y :: b' => if x <? y then true else if y <? x then false else lex_leb a' b'
  end.
Fixpoint insert_region (r : region) (l : list region) : list region :=
  match l with
  | [] => [r]
  | s :: l' => if lex_leb (region_key r) (region_key s) then r :: l else s :: insert_region r l'
  end.
Definition sort_regions (l : list region) : list region := fold_right insert_region [] l.

Definition enc_region (r : region) : val :=
  VL [VI (match r_type r with Header => 0 | Footer => 1 end); VB (r_text r); vbool (r_ispn r); VL (map VI (r_pages r))].

(* kept fragments as indices into the page's fragment list *)
Fixpoint kept_indices (r : result) (pidx : Z) (fs : list frag) (pheight : Z) : list Z :=
  let kept := filter_fragments r pidx fs pheight in
  (* filter preserves order: walk both lists *)
  (fix go (fs kept : list frag) (i : Z) : list Z :=
     match fs, kept with
     | f :: fs', k :: kept' =>
       if (fx f =? fx k) && (fy f =? fy k) && (fw f =? fw k) && (fh f =? fh k) && bytes_eqb (ftext f) (ftext k)
       then i :: go fs' kept' (i + 1) else go fs' kept (i + 1)
     | _, _ => []
     end) fs kept 0.

(* case: (pages (query_index...)) ; output: (regions, per queried page kept indices) *)
Definition run_C11 (v : val) : val :=
  match val_l v with
  | [VL ps; VL qs] =>
    let pages := map dec_page ps in
    let r := detect pages in
    VL [VL (map enc_region (sort_regions (res_headers r ++ res_footers r)));
        VL (map (fun q => match nth_error pages (val_nat q) with
                          | Some p => VL (map VI (kept_indices r (p_index p) (p_frags p) (p_height p)))
                          | None => VL [] end) qs)]
  | _ => bad_case
  end.
