(* C12 model: RAG chunking of a document.
   A. rag.DocumentChunker (ChunkDocument / chunkPage / textBlockToChunks /
      create*Chunk / isHeadingElement / getHeadingLevel / enterSection) over
      page.Elements;
   B. the section builder of rag.Chunker (buildSections and the depth-first
      walk of Chunk) over page.Layout.
   Splitting of oversized text blocks is the C13 model (split_to_size). *)
From Tabula Require Export base.Val base.ListX.
From Tabula Require Import model.C13_Split model.C17_Xlsx.   (* trim_space, split_to_size; itoa *)
From Coq Require String.
Import (notations) String.
Open Scope N_scope.

(* ---------- the section path: a stack of open headings ---------- *)

Definition hd_entry := (Z * bytes)%type.            (* level, trimmed heading text *)

(* enterSection: close every open section of the same or a deeper level, then open this one.
   The stack is kept innermost first. *)
Fixpoint pop_closed (lvl : Z) (stack : list hd_entry) : list hd_entry :=
  match stack with
  | [] => []
  | (l, t) :: r => if (lvl <=? l)%Z then pop_closed lvl r else stack
  end.

Definition enter_section (stack : list hd_entry) (lvl : Z) (text : bytes) : list hd_entry :=
  (lvl, trim_space text) :: pop_closed lvl stack.

Definition path_of (stack : list hd_entry) : list bytes := rev (map snd stack).

(* ---------- A. the document chunker ---------- *)

Inductive elem :=
| EHead (lvl : Z) (t : bytes)
| EPara (t : bytes)
| EList (ordered : bool) (items : list (nat * bytes))
| ETable (markdown : bytes)              (* model.Table.ToMarkdown, an oracle here (C15) *)
| EImage (alt : bytes)
| EOther.

Record page := { pg_num : Z; pg_elems : list elem }.
Definition toc_entry := (Z * bytes * Z)%type.       (* level, text, page *)

Record chunk := {
  c_text : bytes;
  c_path : list bytes;
  c_page : Z;
  c_hlevel : Z;        (* heading level, 0 for other chunks *)
  c_kind : N           (* 0 text, 1 heading, 2 list, 3 table, 4 image *)
}.

(* size configuration: unit 0 characters / 1 tokens with ratio p/q, maximum m (as in C13) *)
Record size_cfg := { z_unit : Z; z_max : nat; z_p : nat; z_q : nat }.

Definition above (z : size_cfg) (s : bytes) : bool :=
  if (z_unit z =? 0)%Z then above_chars (z_max z) s else above_tokens (z_max z) (z_p z) (z_q z) s.

Definition split_cfg (z : size_cfg) (s : bytes) : res (list bytes) :=
  if (z_unit z =? 0)%Z then split_to_size (above_chars (z_max z)) (z_max z) (z_max z) s
  else split_to_size (above_tokens (z_max z) (z_p z) (z_q z))
                     (limit_tokens (z_max z) (z_p z) (z_q z)) (limit_tokens (z_max z) (z_p z) (z_q z)) s.

(* isHeadingElement / getHeadingLevel: the first TOC entry on this page with the same trimmed text *)
Fixpoint toc_level (toc : list toc_entry) (pnum : Z) (text : bytes) : option Z :=
  match toc with
  | [] => None
  | (l, t, p) :: r =>
      if (p =? pnum)%Z && bytes_eqb (trim_space t) (trim_space text) then Some l
      else toc_level r pnum text
  end.

(* createListChunk: counters per level for ordered lists *)
Fixpoint get_count (lvl : nat) (cs : list (nat * Z)) : Z :=
  match cs with
  | [] => 0%Z
  | (l, n) :: r => if Nat.eqb l lvl then n else get_count lvl r
  end.
Fixpoint set_count (lvl : nat) (v : Z) (cs : list (nat * Z)) : list (nat * Z) :=
  match cs with
  | [] => [(lvl, v)]
  | (l, n) :: r => if Nat.eqb l lvl then (l, v) :: r else (l, n) :: set_count lvl v r
  end.

Definition indent (lvl : nat) : bytes := repeat 32 (lvl * 2).

Fixpoint list_lines (ordered : bool) (items : list (nat * bytes)) (last : option nat)
         (cs : list (nat * Z)) : bytes :=
  match items with
  | [] => []
  | (lvl, t) :: r =>
      let cs1 := match last with
                 | Some l0 => if Nat.leb lvl l0 then filter (fun c => Nat.leb (fst c) lvl) cs else cs
                 | None => cs
                 end in
      if ordered then
        let n := (get_count lvl cs1 + 1)%Z in
        indent lvl ++ itoa n ++ bs ". " ++ t ++ [10] ++ list_lines ordered r (Some lvl) (set_count lvl n cs1)
      else indent lvl ++ bs "- " ++ t ++ [10] ++ list_lines ordered r (Some lvl) cs1
  end.

Definition list_text (ordered : bool) (items : list (nat * bytes)) : bytes :=
  trim_space (list_lines ordered items None []).

Definition image_text (alt : bytes) : bytes := bs "[Image: " ++ alt ++ bs "]".

(* an accumulated text block: text and the path at its last paragraph *)
Definition block := option (bytes * list bytes).

Definition text_chunk (pnum : Z) (path : list bytes) (t : bytes) : chunk :=
  {| c_text := trim_space t; c_path := path; c_page := pnum; c_hlevel := 0; c_kind := 0 |}.

(* textBlockToChunks; Diverge cannot happen (C13 split_terminates) and is mapped to no chunk *)
Definition flush (z : size_cfg) (pnum : Z) (b : block) : list chunk :=
  match b with
  | None => []
  | Some (t, path) =>
      if above z t then
        match split_cfg z t with
        | Ok pieces => map (text_chunk pnum path) pieces
        | _ => []
        end
      else [text_chunk pnum path t]
  end.

Definition is_nil_b (b : bytes) : bool := match b with [] => true | _ => false end.

Definition head_chunk (pnum : Z) (stack : list hd_entry) (lvl : Z) (t : bytes) : chunk :=
  {| c_text := t; c_path := path_of stack; c_page := pnum; c_hlevel := lvl; c_kind := 1 |}.

Fixpoint chunk_elems (z : size_cfg) (toc : list toc_entry) (pnum : Z) (es : list elem)
         (stack : list hd_entry) (b : block) : list chunk * list hd_entry :=
  match es with
  | [] => (flush z pnum b, stack)
  | e :: r =>
      match e with
      | EPara t =>
          match toc_level toc pnum t with
          | Some lvl =>
              let stack' := enter_section stack lvl t in
              let '(cs, st) := chunk_elems z toc pnum r stack' None in
              (flush z pnum b ++ head_chunk pnum stack' lvl t :: cs, st)
          | None =>
              let b' := match b with
                        | Some (bt, _) => Some (bt ++ [10; 10] ++ t, path_of stack)
                        | None => if is_nil_b t then None else Some (t, path_of stack)
                        end in
              chunk_elems z toc pnum r stack b'
          end
      | EHead lvl t =>
          let stack' := enter_section stack lvl t in
          let '(cs, st) := chunk_elems z toc pnum r stack' None in
          (flush z pnum b ++ head_chunk pnum stack' lvl t :: cs, st)
      | EList o items =>
          let '(cs, st) := chunk_elems z toc pnum r stack None in
          (flush z pnum b ++ {| c_text := list_text o items; c_path := path_of stack; c_page := pnum;
                                c_hlevel := 0; c_kind := 2 |} :: cs, st)
      | ETable md =>
          let '(cs, st) := chunk_elems z toc pnum r stack None in
          (flush z pnum b ++ {| c_text := md; c_path := path_of stack; c_page := pnum;
                                c_hlevel := 0; c_kind := 3 |} :: cs, st)
      | EImage alt =>
          let '(cs, st) := chunk_elems z toc pnum r stack None in
          (flush z pnum b ++ (if is_nil_b alt then []
                              else [{| c_text := image_text alt; c_path := path_of stack; c_page := pnum;
                                       c_hlevel := 0; c_kind := 4 |}]) ++ cs, st)
      | EOther => chunk_elems z toc pnum r stack b
      end
  end.

Fixpoint chunk_pages (z : size_cfg) (toc : list toc_entry) (ps : list page) (stack : list hd_entry)
  : list chunk :=
  match ps with
  | [] => []
  | p :: r =>
      let '(cs, st) := chunk_elems z toc (pg_num p) (pg_elems p) stack None in
      cs ++ chunk_pages z toc r st
  end.

Definition chunk_document (z : size_cfg) (toc : list toc_entry) (ps : list page) : list chunk :=
  chunk_pages z toc ps [].

(* chunk indices: position in the result *)
Fixpoint indexed {A} (k : nat) (l : list A) : list (nat * A) :=
  match l with [] => [] | x :: r => (k, x) :: indexed (S k) r end.

(* ---------- B. sections of the layout chunker ---------- *)

Record lpage := {
  lp_layout : bool;                   (* page.Layout != nil *)
  lp_heads : list (Z * bytes);
  lp_paras : list bytes;
  lp_lists : list bytes               (* formatList output *)
}.

(* content element: kind (0 paragraph, 1 list, 2 heading), text, page index *)
Definition content := (N * bytes * Z)%type.

Record section := {
  s_title : bytes; s_level : Z; s_path : list bytes;
  s_content : list content; s_pstart : Z; s_pend : Z
}.

(* the open section (last created) or the preamble buffer *)
Record sstate := {
  st_done : list section;             (* finished sections, in creation order *)
  st_open : option section;           (* the section on top of the stack *)
  st_stack : list hd_entry;           (* levels and titles of the stack, innermost first *)
  st_pre : list content;              (* preamble buffer *)
  st_pre_start : Z; st_pre_end : Z
}.

Definition add_content (st : sstate) (c : content) (bump_end : bool) : sstate :=
  let pidx := snd c in
  match st_open st with
  | Some s =>
      {| st_done := st_done st;
         st_open := Some {| s_title := s_title s; s_level := s_level s; s_path := s_path s;
                            s_content := s_content s ++ [c]; s_pstart := s_pstart s;
                            s_pend := if bump_end then pidx else s_pend s |};
         st_stack := st_stack st; st_pre := st_pre st;
         st_pre_start := st_pre_start st; st_pre_end := st_pre_end st |}
  | None =>
      {| st_done := st_done st; st_open := None; st_stack := st_stack st;
         st_pre := st_pre st ++ [c];
         st_pre_start := if (st_pre_start st =? 0)%Z then pidx else st_pre_start st;
         st_pre_end := pidx |}
  end.

Definition close_open (st : sstate) : list section :=
  match st_open st with Some s => st_done st ++ [s] | None => st_done st end.

Definition preamble_section (st : sstate) : section :=
  {| s_title := []; s_level := 0; s_path := []; s_content := st_pre st;
     s_pstart := st_pre_start st; s_pend := st_pre_end st |}.

Definition add_heading (minlvl : Z) (pidx : Z) (st : sstate) (h : Z * bytes) : sstate :=
  let '(lvl, t) := h in
  (* content before the first section becomes a section of its own *)
  let st1 := match st_pre st, st_open st with
             | _ :: _, None =>
                 {| st_done := st_done st ++ [preamble_section st]; st_open := None; st_stack := st_stack st;
                    st_pre := []; st_pre_start := 0; st_pre_end := 0 |}
             | _, _ => st
             end in
  if (lvl <=? minlvl)%Z then
    let stack' := (lvl, t) :: pop_closed lvl (st_stack st1) in
    {| st_done := close_open st1;
       st_open := Some {| s_title := t; s_level := lvl; s_path := rev (map snd stack'); s_content := [];
                          s_pstart := pidx; s_pend := pidx |};
       st_stack := stack'; st_pre := st_pre st1;
       st_pre_start := st_pre_start st1; st_pre_end := st_pre_end st1 |}
  else add_content st1 (2, t, pidx) true.

Definition add_page (minlvl : Z) (st : sstate) (ip : Z * lpage) : sstate :=
  let '(pidx, p) := ip in
  if negb (lp_layout p) then st
  else
    let st1 := fold_left (add_heading minlvl pidx) (lp_heads p) st in
    let st2 := fold_left (fun s t => add_content s (0, t, pidx) true) (lp_paras p) st1 in
    fold_left (fun s t => add_content s (1, t, pidx) true) (lp_lists p) st2.

Fixpoint number_from (k : Z) (ps : list lpage) : list (Z * lpage) :=
  match ps with [] => [] | p :: r => (k, p) :: number_from (k + 1)%Z r end.

Definition sstate0 : sstate :=
  {| st_done := []; st_open := None; st_stack := []; st_pre := []; st_pre_start := 0; st_pre_end := 0 |}.

(* the sections in the order Chunk walks them *)
Definition build_sections (minlvl : Z) (ps : list lpage) : list section :=
  let st := fold_left (add_page minlvl) (number_from 1 ps) sstate0 in
  match st_open st, st_stack st, st_pre st with
  | None, [], _ :: _ => st_done st ++ [preamble_section st]
  | _, _, _ => close_open st
  end.
