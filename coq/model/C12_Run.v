From Tabula Require Import model.C12_Chunks.
Open Scope Z_scope.

Definition dec_item (v : val) : nat * bytes :=
  match val_l v with [l; VB t] => (val_nat l, t) | _ => (0%nat, []) end.

Definition dec_elem (v : val) : elem :=
  match val_l v with
  | [VI 0; l; VB t] => EHead (val_z l) t
  | [VI 1; VB t] => EPara t
  | [VI 2; o; VL items] => EList (val_bool o) (map dec_item items)
  | [VI 3; VB md] => ETable md
  | [VI 4; VB alt] => EImage alt
  | _ => EOther
  end.

Definition dec_page (v : val) : page :=
  match val_l v with
  | [n; VL es] => {| pg_num := val_z n; pg_elems := map dec_elem es |}
  | _ => {| pg_num := 0; pg_elems := [] |}
  end.

Definition dec_toc (v : val) : toc_entry :=
  match val_l v with [l; VB t; p] => (val_z l, t, val_z p) | _ => (0, [], 0) end.

Definition dec_cfg (v : val) : size_cfg :=
  match val_l v with
  | [u; m; p; q] => {| z_unit := val_z u; z_max := val_nat m; z_p := val_nat p; z_q := val_nat q |}
  | _ => {| z_unit := 0; z_max := 0%nat; z_p := 1%nat; z_q := 1%nat |}
  end.

Definition enc_chunk (n : nat) (ic : nat * chunk) : val :=
  let '(i, c) := ic in
  VL [vnat i; vnat n; VB (c_text c); VL (map VB (c_path c)); VI (c_page c); VI (c_hlevel c); vn (c_kind c)].


Definition dec_lpage (v : val) : lpage :=
  match val_l v with
  | [lay; VL hs; VL ps; VL ls] =>
      {| lp_layout := val_bool lay;
         lp_heads := map (fun h => match val_l h with [l; VB t] => (val_z l, t) | _ => (0, []) end) hs;
         lp_paras := map val_b ps; lp_lists := map val_b ls |}
  | _ => {| lp_layout := false; lp_heads := []; lp_paras := []; lp_lists := [] |}
  end.

Definition enc_section (s : section) : val :=
  VL [VB (s_title s); VI (s_level s); VL (map VB (s_path s));
      VL (map (fun c => match c with (k, t, p) => VL [vn k; VB t; VI p] end) (s_content s));
      VI (s_pstart s); VI (s_pend s)].

(* (0 cfg toc pages)    document chunker -> ((index total text path page hlevel kind)...)
   (1 minlevel lpages)  section builder  -> ((title level path content pstart pend)...)
   (2 ordered items)    list text *)
Definition run_C12 (v : val) : val :=
  match val_l v with
  | [VI 0; cfg; VL toc; VL ps] =>
      let cs := chunk_document (dec_cfg cfg) (map dec_toc toc) (map dec_page ps) in
      VL (map (enc_chunk (length cs)) (indexed 0 cs))
  | [VI 1; m; VL ps] => VL (map enc_section (build_sections (val_z m) (map dec_lpage ps)))
  | [VI 2; o; VL items] => VB (list_text (val_bool o) (map dec_item items))
  | _ => bad_case
  end.
