(* C13 model, overlap: rag.OverlapGenerator.GenerateOverlap with characterTail,
   generateSentenceOverlap, generateParagraphOverlap, truncateOverlap, and
   rag.ApplyOverlapToChunks.  Byte level; strings.TrimSpace / unicode.IsSpace are the
   white-space tokens of C13_Split; which runes end a sentence (isSentenceEndRune:
   letter case, abbreviations, digits) is an oracle, one bit per rune of the string. *)
From Tabula Require Export model.C13_Split.
Open Scope N_scope.

Definition rune_len (b : N) : nat := if b <? 128 then 1 else if b <? 224 then 2 else if b <? 240 then 3 else 4.
Definition space_at (s : bytes) : option bytes := strip_token ws_tokens s.
Definition blen (s : bytes) : Z := Z.of_nat (length s).

(* forward to the start of a character *)
Fixpoint drop_conts (s : bytes) : bytes :=
  match s with b :: r => if is_cont_byte b then drop_conts r else s | [] => [] end.

(* forward over the characters of a word, to the next white space *)
Fixpoint skip_word (fuel : nat) (s : bytes) : bytes :=
  match fuel with
  | O => s
  | S f =>
      match s with
      | [] => []
      | b :: _ => match space_at s with Some _ => s | None => skip_word f (skipn (rune_len b) s) end
      end
  end.

(* characterTail *)
Definition char_tail (pw : bool) (text : bytes) (size : Z) : bytes :=
  if (blen text <=? size)%Z then text
  else
    let rest := drop_conts (skipn (Z.to_nat (blen text - size)) text) in
    let rest := if pw then trim_left (skip_word (length rest) rest) else rest in
    match rest with [] => [] | _ => trim_space rest end.

(* ---------- sentences *)

Fixpoint skip_ws_bits (fuel : nat) (s : bytes) (bits : list bool) : bytes * list bool :=
  match fuel with
  | O => (s, bits)
  | S f => match space_at s with Some r => skip_ws_bits f r (tl bits) | None => (s, bits) end
  end.

(* splitIntoSentencesWithPositions; bits: for every rune, whether it ends a sentence *)
Fixpoint sentences (fuel : nat) (s : bytes) (bits : list bool) (cur : bytes) (acc : list bytes) : list bytes :=
  match fuel with
  | O => rev acc
  | S f =>
      match s with
      | [] => let last := trim_space cur in rev (if is_nil last then acc else last :: acc)
      | b :: _ =>
          let n := rune_len b in
          let cur' := cur ++ firstn n s in
          let rest := skipn n s in
          if hd false bits then
            let sent := trim_space cur' in
            let acc' := if is_nil sent then acc else sent :: acc in
            let '(rest', bits') := skip_ws_bits (length rest) rest (tl bits) in
            sentences f rest' bits' [] acc'
          else sentences f rest (tl bits) cur' acc
      end
  end.

Definition sentences_of (text : bytes) (bits : list bool) : list bytes :=
  sentences (S (length text)) text bits [] [].

Definition lastn {A} (n : nat) (l : list A) : list A := skipn (length l - n) l.

Fixpoint join (sep : bytes) (l : list bytes) : bytes :=
  match l with
  | [] => []
  | x :: r => match r with [] => x | _ => x ++ sep ++ join sep r end
  end.

Definition oracle := bytes -> option (list bool).

Definition gen_sentence (E : oracle) (size : Z) (text : bytes) : option (bytes * nat) :=
  match E text with
  | None => None
  | Some bits =>
      let ss := sentences_of text bits in
      match ss with
      | [] => Some ([], O)
      | _ => let n := Nat.min (Z.to_nat size) (length ss) in
             Some (trim_space (join [32] (lastn n ss)), n)
      end
  end.

(* ---------- paragraphs *)

Fixpoint split_nl (s : bytes) (cur : bytes) : list bytes :=
  match s with
  | [] => [cur]
  | b :: r => if b =? 10 then cur :: split_nl r [] else split_nl r (cur ++ [b])
  end.

Fixpoint paragraphs (lines : list bytes) (cur : bytes) (acc : list bytes) : list bytes :=
  match lines with
  | [] => rev (if is_nil cur then acc else trim_space cur :: acc)
  | l :: r =>
      let t := trim_space l in
      if is_nil t then
        (if is_nil cur then paragraphs r cur acc else paragraphs r [] (trim_space cur :: acc))
      else paragraphs r (if is_nil cur then t else cur ++ [32] ++ t) acc
  end.

Definition gen_paragraph (size : Z) (text : bytes) : bytes * nat :=
  let ps := paragraphs (split_nl text []) [] [] in
  match ps with
  | [] => ([], O)
  | _ => let n := Nat.min (Z.to_nat size) (length ps) in
         (trim_space (join [10; 10] (lastn n ps)), S O)
  end.

(* ---------- truncation to MaxOverlap *)

Fixpoint trunc_loop (max : Z) (ss_rev : list bytes) (result : bytes) : bytes :=
  match ss_rev with
  | [] => result
  | s :: r =>
      let test := if is_nil result then s else s ++ [32] ++ result in
      if (blen test >? max)%Z then result else trunc_loop max r test
  end.

Definition truncate (E : oracle) (pw : bool) (max : Z) (overlap : bytes) : option bytes :=
  if (blen overlap <=? max)%Z then Some overlap
  else
    match E overlap with
    | None => None
    | Some bits =>
        let result := trunc_loop max (rev (sentences_of overlap bits)) [] in
        Some (if is_nil result then char_tail pw overlap max else result)
    end.

(* ---------- GenerateOverlap; strategies 0 none, 1 character, 2 sentence, 3 paragraph *)

Record ocfg := { o_strategy : Z; o_size : Z; o_min : Z; o_max : Z; o_pw : bool }.

Definition generate (E : oracle) (c : ocfg) (text : bytes) : option bytes :=
  if ((o_strategy c =? 0) || (o_size c <=? 0))%Z then Some []
  else
    match (if (o_strategy c =? 1)%Z then Some (char_tail (o_pw c) text (o_size c), O)
           else if (o_strategy c =? 2)%Z then gen_sentence E (o_size c) text
           else if (o_strategy c =? 3)%Z then Some (gen_paragraph (o_size c) text)
           else Some ([], O)) with
    | None => None
    | Some (ov, sc) =>
        if negb ((1 <=? o_strategy c) && (o_strategy c <=? 3))%Z then Some []
        else
        let ov := if (blen ov <? o_min c)%Z && (o_strategy c =? 2)%Z && Nat.eqb sc 0
                  then char_tail (o_pw c) text (o_size c) else ov in
        match (if (blen ov >? o_max c)%Z then truncate E (o_pw c) (o_max c) ov else Some ov) with
        | None => None
        | Some ov2 => Some (if (blen ov2 <? o_min c)%Z then [] else ov2)
        end
    end.

(* ---------- ApplyOverlapToChunks (no heading context): for every chunk its overlap prefix and its new text *)

Fixpoint apply_chunks (E : oracle) (c : ocfg) (prev : option bytes) (texts : list bytes) : option (list (bytes * bytes)) :=
  match texts with
  | [] => Some []
  | t :: r =>
      match (match prev with
             | None => Some []
             | Some p => if (o_strategy c =? 0)%Z then Some [] else generate E c p
             end) with
      | None => None
      | Some ov =>
          match apply_chunks E c (Some t) r with
          | None => None
          | Some rest => Some ((ov, if is_nil ov then t else ov ++ [10; 10] ++ t) :: rest)
          end
      end
  end.
