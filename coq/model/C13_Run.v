From Tabula Require Import model.C13_Split model.C13_Overlap.
Open Scope Z_scope.
(* the sentence-end oracle as a table: (string, one byte per rune: 1 = ends a sentence) *)
Fixpoint table_lookup (tbl : list val) (s : bytes) : option (list bool) :=
  match tbl with
  | [] => None
  | VL [VB k; VB bits] :: r => if bytes_eqb k s then Some (map (fun b => N.eqb b 1) bits) else table_lookup r s
  | _ :: r => table_lookup r s
  end.

Definition ocfg_of (st sz mn mx pw : Z) : ocfg :=
  {| o_strategy := st; o_size := sz; o_min := mn; o_max := mx; o_pw := negb (pw =? 0) |}.

(* case: (2 strategy size min max pw xTEXT table) overlap of one text
         (3 strategy size min max pw (xTEXT ...) table) overlap along a chunk sequence
         (0 unit max p q xTEXT)   unit 0 = characters, 1 = tokens (ratio p/q)
         (1 xTEXT) trim_space *)
Definition run_C13 (v : val) : val :=
  match val_l v with
  | [VI 0; VI u; VI mx; VI p; VI q; VB t] =>
    let m := Z.to_nat mx in
    let r := if u =? 0 then split_to_size (above_chars m) m m t
             else split_to_size (above_tokens m (Z.to_nat p) (Z.to_nat q)) (limit_tokens m (Z.to_nat p) (Z.to_nat q))
                                (limit_tokens m (Z.to_nat p) (Z.to_nat q)) t in
    val_of_res (fun l => VL (map VB l)) r
  | [VI 1; VB t] => VB (trim_space t)
  | [VI 2; VI st; VI sz; VI mn; VI mx; VI pw; VB t; VL tbl] =>
    match generate (table_lookup tbl) (ocfg_of st sz mn mx pw) t with
    | Some o => VB o
    | None => VI (-2)
    end
  | [VI 3; VI st; VI sz; VI mn; VI mx; VI pw; VL ts; VL tbl] =>
    match apply_chunks (table_lookup tbl) (ocfg_of st sz mn mx pw) None (map val_b ts) with
    | Some l => VL (map (fun p => VL [VB (fst p); VB (snd p)]) l)
    | None => VI (-2)
    end
  | _ => bad_case
  end.
