From Tabula Require Import model.C13_Split.
Open Scope Z_scope.
(* case: (0 unit max p q xTEXT)   unit 0 = characters, 1 = tokens (ratio p/q)
         (1 xTEXT) trim_space *)
Definition run_C13 (v : val) : val :=
  match val_l v with
  | [VI 0; VI u; VI mx; VI p; VI q; VB t] =>
    let m := Z.to_nat mx in
    let r := if u =? 0 then split_to_size (above_chars m) m m t
             else split_to_size (above_tokens m (Z.to_nat p) (Z.to_nat q)) (limit_tokens m (Z.to_nat p) (Z.to_nat q))
                                (limit_tokens m (Z.to_nat p) (Z.to_nat q)) t in
    val_of_res (fun l => VL (map VB l)) r
  | [VI 1; VB t] => VB (trim_space t)
  | _ => bad_case
  end.
