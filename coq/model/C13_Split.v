(* C13 model: rag.SizeCalculator.SplitToSize with nil boundaries,
   FindSplitPointAt, findSentenceEndNear, findWordBoundaryNear, the pull-back to
   a hard character/token maximum, strings.TrimSpace (Unicode White_Space).
   "Characters" are bytes in this code (len(text)). *)
From Tabula Require Export base.Val.
Open Scope N_scope.

(* ---------- strings.TrimSpace *)
Definition ws_tokens : list bytes :=
  [[9]; [10]; [11]; [12]; [13]; [32]; [194; 133]; [194; 160]; [225; 154; 128];
   [226; 128; 128]; [226; 128; 129]; [226; 128; 130]; [226; 128; 131]; [226; 128; 132];
   [226; 128; 133]; [226; 128; 134]; [226; 128; 135]; [226; 128; 136]; [226; 128; 137];
   [226; 128; 138]; [226; 128; 168]; [226; 128; 169]; [226; 128; 175]; [226; 129; 159];
   [227; 128; 128]].

Fixpoint strip_prefix (p s : bytes) : option bytes :=
  match p, s with
  | [], _ => Some s
  | x :: p', y :: s' => if x =? y then strip_prefix p' s' else None
  | _ :: _, [] => None
  end.

Fixpoint strip_token (toks : list bytes) (s : bytes) : option bytes :=
  match toks with
  | [] => None
  | t :: toks' => match strip_prefix t s with Some r => Some r | None => strip_token toks' s end
  end.

Fixpoint trim_with (toks : list bytes) (fuel : nat) (s : bytes) : bytes :=
  match fuel with
  | O => s
  | S f => match strip_token toks s with Some r => trim_with toks f r | None => s end
  end.

Definition trim_left (s : bytes) : bytes := trim_with ws_tokens (length s) s.
Definition trim_right (s : bytes) : bytes :=
  rev (trim_with (map (@rev N) ws_tokens) (length s) (rev s)).
Definition trim_space (s : bytes) : bytes := trim_right (trim_left s).

(* ---------- boundary searches; indices are nat, at s i = s[i] *)
Definition at_ (s : bytes) (i : nat) : N := nth i s 0.
Definition is_send (c : N) : bool := (c =? 46) || (c =? 33) || (c =? 63).
Definition is_brk (c : N) : bool := (c =? 32) || (c =? 10).

(* for i := t; i >= 0 && i > t-100; i-- : k counts the remaining iterations *)
Fixpoint sent_back (s : bytes) (n : nat) (i : nat) (k : nat) {struct k} : option nat :=
  match k with
  | O => None
  | S k' =>
    if Nat.ltb i n && is_send (at_ s i) && Nat.ltb (S i) n && is_brk (at_ s (S i))
    then Some (S i)
    else match i with O => None | S i' => sent_back s n i' k' end
  end.

(* for i := t; i < len && i < t+100; i++ *)
Fixpoint sent_fwd (s : bytes) (n : nat) (i : nat) (k : nat) : option nat :=
  match k with
  | O => None
  | S k' =>
    if Nat.leb n i then None
    else if is_send (at_ s i) && (Nat.leb n (S i) || is_brk (at_ s (S i)))
    then Some (S i)
    else sent_fwd s n (S i) k'
  end.

Fixpoint word_back (s : bytes) (i : nat) (k : nat) {struct k} : option nat :=
  match k with
  | O => None
  | S k' => if is_brk (at_ s i) then Some (S i)
            else match i with O => None | S i' => word_back s i' k' end
  end.

Fixpoint word_fwd (s : bytes) (n : nat) (i : nat) (k : nat) : option nat :=
  match k with
  | O => None
  | S k' => if Nat.leb n i then None
            else if is_brk (at_ s i) then Some (S i) else word_fwd s n (S i) k'
  end.

Definition is_cont_byte (b : N) : bool := (128 <=? b) && (b <=? 191).
Fixpoint rune_start_back (s : bytes) (i : nat) : nat :=
  match i with
  | O => O
  | S i' => if is_cont_byte (at_ s i) then rune_start_back s i' else i
  end.

Definition word_boundary_near (s : bytes) (t : nat) : nat :=
  if Nat.leb (length s) t then length s else
  match word_back s t 50 with
  | Some p => p
  | None => match word_fwd s (length s) t 50 with
            | Some p => p
            | None => rune_start_back s t
            end
  end.

Definition sentence_end_near (s : bytes) (t : nat) : nat :=
  if Nat.leb (length s) t then length s else
  match sent_back s (length s) t 100 with
  | Some p => p
  | None => match sent_fwd s (length s) t 100 with
            | Some p => p
            | None => word_boundary_near s t
            end
  end.

(* FindSplitPointAt with nil boundaries *)
Definition find_split (s : bytes) (t : nat) : nat :=
  if Nat.leb (length s) t then length s else sentence_end_near s t.

(* for i := limit; i > 0; i-- { if brk(remaining[i]) { splitPos = i+1; break } } *)
Fixpoint pull_back (s : bytes) (i : nat) : option nat :=
  match i with
  | O => None
  | S i' => if is_brk (at_ s i) then Some (S i) else pull_back s i'
  end.

Section Split.
  (* the size test and the two positions derived from the configuration; the
     conservation, termination and UTF-8 theorems hold for every choice *)
  Variable above : bytes -> bool.   (* IsAboveMax *)
  Variable target : nat.            (* byte position the Max converts to *)
  Variable limit : nat.             (* maxCharPos: 0 unless Max is in characters/tokens *)

  Definition split_pos (rem : bytes) : nat :=
    let sp := find_split rem target in
    if Nat.ltb 0 limit && Nat.ltb limit sp && Nat.leb sp (length rem)
    then match pull_back rem limit with Some p => p | None => sp end
    else sp.

  Definition is_nil (b : bytes) : bool := match b with [] => true | _ => false end.

  Fixpoint split_loop (fuel : nat) (rem : bytes) (acc : list bytes) : res (list bytes) :=
    match fuel with
    | O => Diverge
    | S f =>
      if is_nil rem then Ok acc
      else if negb (above rem) then Ok (acc ++ [rem])
      else
        let sp := split_pos rem in
        if Nat.eqb sp 0 || Nat.leb (length rem) sp then Ok (acc ++ [rem])
        else
          let chunk := trim_space (firstn sp rem) in
          let acc' := if is_nil chunk then acc else acc ++ [chunk] in
          split_loop f (trim_space (skipn sp rem)) acc'
    end.

  Definition split_to_size (text : bytes) : res (list bytes) :=
    let rem := if above text then trim_space text else text in
    split_loop (S (length rem)) rem [].
End Split.

(* the configurations: Max in characters, or in tokens with TokensPerChar = p/q *)
Definition above_chars (maxv : nat) (s : bytes) : bool := Nat.ltb maxv (length s).
Definition above_tokens (maxv p q : nat) (s : bytes) : bool := Nat.ltb maxv (Nat.div (length s * p) q).
Definition limit_tokens (maxv p q : nat) : nat := Nat.div (maxv * q) p.
