(* C14 model, part 1: encoding/csv.Writer (UseCRLF = false) as the exporter uses
   it, and an RFC 4180 reader (the "standard parser of the format"). *)
From Tabula Require Export base.Val base.ListX.
From Tabula Require Import model.C13_Split.   (* ws_tokens / strip_token: unicode.IsSpace on the first rune *)
Open Scope N_scope.

Definition special (d c : N) : bool := (c =? 10) || (c =? 13) || (c =? 34) || (c =? d).

(* csv.Writer.fieldNeedsQuotes *)
Definition needs_quotes (d : N) (f : bytes) : bool :=
  match f with
  | [] => false
  | _ => bytes_eqb f [92; 46] || existsb (special d) f ||
         match strip_token ws_tokens f with Some _ => true | None => false end
  end.

Definition quote_field (f : bytes) : bytes :=
  34 :: flat_map (fun c => if c =? 34 then [34; 34] else [c]) f ++ [34].

Definition write_field (d : N) (f : bytes) : bytes := if needs_quotes d f then quote_field f else f.

Definition write_row (d : N) (fields : list bytes) : bytes := join [d] (map (write_field d) fields) ++ [10].

Definition csv_write (d : N) (rows : list (list bytes)) : bytes := flat_map (write_row d) rows.

(* valid delimiters (csv.validDelim for the ASCII case) *)
Definition valid_delim (d : N) : bool := negb ((d =? 0) || (d =? 34) || (d =? 13) || (d =? 10)) && (d <? 128).

(* ---------- RFC 4180 reader *)
Inductive pstate := FieldStart | Unquoted | Quoted | QuoteInQuoted.

(* cur = current field reversed, row = fields of the current row reversed,
   rows = finished rows reversed *)
Fixpoint csv_parse_go (d : N) (s : bytes) (st : pstate) (cur : bytes) (row : list bytes)
         (rows : list (list bytes)) : option (list (list bytes)) :=
  let end_field := rev cur :: row in
  match s with
  | [] =>
    match st with
    | Quoted => None
    | FieldStart => match row with [] => Some (rev rows) | _ => Some (rev (rev end_field :: rows)) end
    | _ => Some (rev (rev end_field :: rows))
    end
  | c :: t =>
    match st with
    | Quoted => if c =? 34 then csv_parse_go d t QuoteInQuoted cur row rows
                else csv_parse_go d t Quoted (c :: cur) row rows
    | _ =>
      if c =? d then csv_parse_go d t FieldStart [] end_field rows
      else if c =? 10 then csv_parse_go d t FieldStart [] [] (rev end_field :: rows)
      else if (c =? 13) && match t with 10 :: _ => true | _ => false end
      then match t with
           | _ :: t' => csv_parse_go d t' FieldStart [] [] (rev end_field :: rows)
           | [] => None
           end
      else match st with
           | FieldStart => if c =? 34 then csv_parse_go d t Quoted [] row rows
                           else csv_parse_go d t Unquoted (c :: cur) row rows
           | Unquoted => csv_parse_go d t Unquoted (c :: cur) row rows
           | QuoteInQuoted => if c =? 34 then csv_parse_go d t Quoted (34 :: cur) row rows else None
           | Quoted => None
           end
    end
  end.

Definition csv_parse (d : N) (s : bytes) : option (list (list bytes)) := csv_parse_go d s FieldStart [] [] [].
