(* C14 model, part 2: rag.Exporter (CSV/TSV columns and rows, JSON values),
   BatchExporter, ChunkCollection filters. *)
From Tabula Require Export base.Val base.ListX model.C14_Csv.
From Tabula Require Import model.C17_Xlsx.   (* itoa *)
From Coq Require String.
Import (notations) String.
Open Scope Z_scope.

Record chunk := {
  k_id : bytes; k_text : bytes;
  k_doc_title : bytes; k_section_path : list bytes; k_section_title : bytes;
  k_heading_level : Z; k_page_start : Z; k_page_end : Z; k_chunk_index : Z; k_total_chunks : Z;
  k_level : bytes;            (* ChunkLevel.String() *)
  k_parent_id : bytes; k_child_ids : list bytes; k_element_types : list bytes;
  k_has_table : bool; k_has_list : bool; k_has_image : bool;
  k_char_count : Z; k_word_count : Z; k_est_tokens : Z
}.

Inductive mval := MStr (s : bytes) | MInt (z : Z) | MBool (b : bool) | MList (l : list bytes).

Definition nonempty (b : bytes) : bool := match b with [] => false | _ => true end.
Definition nonempty_l (l : list bytes) : bool := match l with [] => false | _ => true end.

(* chunkMetadataToMap, keys in sorted order (map iteration order is irrelevant) *)
Definition meta_map (c : chunk) : list (bytes * mval) :=
  (if 0 <? k_char_count c then [(bs "char_count", MInt (k_char_count c))] else []) ++
  (if nonempty_l (k_child_ids c) then [(bs "child_ids", MList (k_child_ids c))] else []) ++
  [(bs "chunk_index", MInt (k_chunk_index c))] ++
  (if nonempty (k_doc_title c) then [(bs "document_title", MStr (k_doc_title c))] else []) ++
  (if nonempty_l (k_element_types c) then [(bs "element_types", MList (k_element_types c))] else []) ++
  (if 0 <? k_est_tokens c then [(bs "estimated_tokens", MInt (k_est_tokens c))] else []) ++
  (if k_has_image c then [(bs "has_image", MBool true)] else []) ++
  (if k_has_list c then [(bs "has_list", MBool true)] else []) ++
  (if k_has_table c then [(bs "has_table", MBool true)] else []) ++
  (if 0 <? k_heading_level c then [(bs "heading_level", MInt (k_heading_level c))] else []) ++
  [(bs "level", MStr (k_level c))] ++
  (if 0 <? k_page_end c then [(bs "page_end", MInt (k_page_end c))] else []) ++
  (if 0 <? k_page_start c then [(bs "page_start", MInt (k_page_start c))] else []) ++
  (if nonempty (k_parent_id c) then [(bs "parent_id", MStr (k_parent_id c))] else []) ++
  (if nonempty_l (k_section_path c) then [(bs "section_path", MList (k_section_path c))] else []) ++
  (if nonempty (k_section_title c) then [(bs "section_title", MStr (k_section_title c))] else []) ++
  (if 0 <? k_total_chunks c then [(bs "total_chunks", MInt (k_total_chunks c))] else []) ++
  (if 0 <? k_word_count c then [(bs "word_count", MInt (k_word_count c))] else []).

Record config := {
  cf_include_meta : bool; cf_fields : option (list bytes);   (* MetadataFields: None = all *)
  cf_include_text : bool; cf_include_emb : bool; cf_header : bool;
  cf_delim : N; cf_text_col : bytes; cf_id_col : bytes
}.

Definition mem_b (k : bytes) (l : list bytes) : bool := existsb (bytes_eqb k) l.

(* filterMetadata (no nested maps in chunk metadata, so flattening is the identity) *)
Definition filter_meta (cf : config) (m : list (bytes * mval)) : list (bytes * mval) :=
  match cf_fields cf with
  | None => m
  | Some fs => filter (fun kv => mem_b (fst kv) fs) m
  end.

Definition exported_meta (cf : config) (c : chunk) : list (bytes * mval) :=
  if cf_include_meta cf then filter_meta cf (meta_map c) else [].

Definition standard_cols : list bytes :=
  [bs "document_title"; bs "page_start"; bs "page_end"; bs "chunk_index"; bs "section_title";
   bs "has_table"; bs "has_list"; bs "has_image"; bs "id"; bs "text"].

(* sorted, duplicate-free insertion (sort.Strings over the key set) *)
Fixpoint bytes_ltb (a b : bytes) : bool :=
  match a, b with
  | [], [] => false
  | [], _ :: _ => true
  | _ :: _, [] => false
  | x :: a', y :: b' => if (x <? y)%N then true else if (y <? x)%N then false else bytes_ltb a' b'
  end.
Fixpoint insert_key (k : bytes) (l : list bytes) : list bytes :=
  match l with
  | [] => [k]
  | x :: l' => if bytes_eqb k x then l else if bytes_ltb k x then k :: l else x :: insert_key k l'
  end.

Definition meta_keys (cf : config) (cs : list chunk) : list bytes :=
  fold_left (fun acc c =>
    fold_left (fun acc kv => if mem_b (fst kv) standard_cols then acc else insert_key (fst kv) acc)
              (filter_meta cf (meta_map c)) acc) cs [].

Definition csv_columns (cf : config) (cs : list chunk) : list bytes :=
  [cf_id_col cf] ++ (if cf_include_text cf then [cf_text_col cf] else []) ++
  [bs "chunk_index"; bs "document_title"; bs "page_start"; bs "page_end"; bs "section_title";
   bs "has_table"; bs "has_list"; bs "has_image"] ++
  map (fun k => bs "meta_" ++ k) (meta_keys cf cs) ++
  (if cf_include_emb cf then [bs "embeddings"] else []).

Definition fmt_bool (b : bool) : bytes := if b then bs "true" else bs "false".
Definition format_value (v : mval) : bytes :=
  match v with
  | MStr s => s
  | MInt z => itoa z
  | MBool b => fmt_bool b
  | MList l => [91%N] ++ join [44%N] l ++ [93%N]
  end.

Fixpoint assoc (k : bytes) (m : list (bytes * mval)) : option mval :=
  match m with [] => None | (k', v) :: m' => if bytes_eqb k k' then Some v else assoc k m' end.

Definition strip_meta_prefix (col : bytes) : option bytes :=
  match col with
  | 109%N :: 101%N :: 116%N :: 97%N :: 95%N :: k => Some k
  | _ => None
  end.

(* getColumnValue: the switch cases in order *)
Definition column_value (cf : config) (c : chunk) (col : bytes) : bytes :=
  if bytes_eqb col (cf_id_col cf) then k_id c
  else if bytes_eqb col (cf_text_col cf) then (if cf_include_text cf then k_text c else [])
  else if bytes_eqb col (bs "chunk_index") then itoa (k_chunk_index c)
  else if bytes_eqb col (bs "document_title") then k_doc_title c
  else if bytes_eqb col (bs "page_start") then itoa (k_page_start c)
  else if bytes_eqb col (bs "page_end") then itoa (k_page_end c)
  else if bytes_eqb col (bs "section_title") then k_section_title c
  else if bytes_eqb col (bs "has_table") then fmt_bool (k_has_table c)
  else if bytes_eqb col (bs "has_list") then fmt_bool (k_has_list c)
  else if bytes_eqb col (bs "has_image") then fmt_bool (k_has_image c)
  else if bytes_eqb col (bs "embeddings") then []
  else match strip_meta_prefix col with
       | Some k => match assoc k (exported_meta cf c) with Some v => format_value v | None => [] end
       | None => []
       end.

Definition csv_rows (cf : config) (cs : list chunk) : list (list bytes) :=
  let cols := csv_columns cf cs in
  (if cf_header cf then [cols] else []) ++ map (fun c => map (column_value cf c) cols) cs.

Definition export_csv (cf : config) (cs : list chunk) : bytes := csv_write (cf_delim cf) (csv_rows cf cs).

(* ---------- JSON values of ExportedChunk (omitempty honoured), keys sorted *)
Inductive jv := JS (s : bytes) | JI (z : Z) | JB (b : bool) | JA (l : list jv) | JO (l : list (bytes * jv)).

Definition jv_of_mval (v : mval) : jv :=
  match v with MStr s => JS s | MInt z => JI z | MBool b => JB b | MList l => JA (map JS l) end.

Definition exported_json (cf : config) (c : chunk) : jv :=
  JO ((if k_chunk_index c =? 0 then [] else [(bs "chunk_index", JI (k_chunk_index c))]) ++
      (if nonempty (k_doc_title c) then [(bs "document_title", JS (k_doc_title c))] else []) ++
      (if k_has_image c then [(bs "has_image", JB true)] else []) ++
      (if k_has_list c then [(bs "has_list", JB true)] else []) ++
      (if k_has_table c then [(bs "has_table", JB true)] else []) ++
      (if nonempty (k_id c) then [(bs "id", JS (k_id c))] else []) ++
      (match exported_meta cf c with [] => [] | m => [(bs "metadata", JO (map (fun kv => (fst kv, jv_of_mval (snd kv))) m))] end) ++
      (if k_page_end c =? 0 then [] else [(bs "page_end", JI (k_page_end c))]) ++
      (if k_page_start c =? 0 then [] else [(bs "page_start", JI (k_page_start c))]) ++
      (if nonempty_l (k_section_path c) then [(bs "section_path", JA (map JS (k_section_path c)))] else []) ++
      (if nonempty (k_section_title c) then [(bs "section_title", JS (k_section_title c))] else []) ++
      (if cf_include_text cf && nonempty (k_text c) then [(bs "text", JS (k_text c))] else [])).

Definition export_json_records (cf : config) (cs : list chunk) : list jv := map (exported_json cf) cs.

(* ---------- batches: for i := 0; i < len; i += size *)
Fixpoint batches_go (fuel : nat) (size : nat) (cs : list chunk) : list (list chunk) :=
  match fuel with
  | O => []
  | S f => match cs with
           | [] => []
           | _ => firstn size cs :: batches_go f size (skipn size cs)
           end
  end.
Definition batches (size : nat) (cs : list chunk) : list (list chunk) := batches_go (length cs) size cs.

(* ---------- filters *)
Definition is_on_page (p : Z) (c : chunk) : bool := (k_page_start c <=? p) && (p <=? k_page_end c).
Definition in_page_range (s e : Z) (c : chunk) : bool := (s <=? k_page_end c) && (k_page_start c <=? e).
Definition in_section (t : bytes) (c : chunk) : bool := bytes_eqb (k_section_title c) t || mem_b t (k_section_path c).
Definition min_tokens (n : Z) (c : chunk) : bool := n <=? k_est_tokens c.
Definition max_tokens (n : Z) (c : chunk) : bool := k_est_tokens c <=? n.
