From Tabula Require Import model.C14_Export.
From Coq Require String.
Import (notations) String.
Open Scope Z_scope.

Definition dec_chunk (v : val) : chunk :=
  match val_l v with
  | [id; tx; dt; sp; st; hl; ps; pe; ci; tc; lv; pid; cids; ets; ht; hli; hi; cc; wc; et] =>
    {| k_id := val_b id; k_text := val_b tx; k_doc_title := val_b dt; k_section_path := map val_b (val_l sp);
       k_section_title := val_b st; k_heading_level := val_z hl; k_page_start := val_z ps; k_page_end := val_z pe;
       k_chunk_index := val_z ci; k_total_chunks := val_z tc; k_level := val_b lv; k_parent_id := val_b pid;
       k_child_ids := map val_b (val_l cids); k_element_types := map val_b (val_l ets);
       k_has_table := val_bool ht; k_has_list := val_bool hli; k_has_image := val_bool hi;
       k_char_count := val_z cc; k_word_count := val_z wc; k_est_tokens := val_z et |}
  | _ => {| k_id := []; k_text := []; k_doc_title := []; k_section_path := []; k_section_title := [];
            k_heading_level := 0; k_page_start := 0; k_page_end := 0; k_chunk_index := 0; k_total_chunks := 0;
            k_level := []; k_parent_id := []; k_child_ids := []; k_element_types := [];
            k_has_table := false; k_has_list := false; k_has_image := false;
            k_char_count := 0; k_word_count := 0; k_est_tokens := 0 |}
  end.

Definition dec_config (v : val) : config :=
  match val_l v with
  | [im; fs; it; ie; hd; dl; tc; ic] =>
    {| cf_include_meta := val_bool im;
       cf_fields := match val_l fs with [VL l] => Some (map val_b l) | _ => None end;
       cf_include_text := val_bool it; cf_include_emb := val_bool ie; cf_header := val_bool hd;
       cf_delim := val_n dl; cf_text_col := val_b tc; cf_id_col := val_b ic |}
  | _ => {| cf_include_meta := true; cf_fields := None; cf_include_text := true; cf_include_emb := false;
            cf_header := true; cf_delim := 44%N; cf_text_col := bs "text"; cf_id_col := bs "chunk_id" |}
  end.

Fixpoint enc_jv (fuel : nat) (j : jv) : val :=
  match fuel with
  | O => VL []
  | S f =>
    match j with
    | JS s => VB s
    | JI z => VI z
    | JB b => VL [VI 9; vbool b]
    | JA l => VL (VI 7 :: map (enc_jv f) l)
    | JO l => VL (VI 8 :: map (fun kv => VL [VB (fst kv); enc_jv f (snd kv)]) l)
    end
  end.

Definition enc_rows (o : option (list (list bytes))) : val :=
  match o with Some rows => VL [VL (map (fun r => VL (map VB r)) rows)] | None => VL [] end.

Definition run_C14 (v : val) : val :=
  match val_l v with
  | [VI 0; cf; VL cs] => VB (export_csv (dec_config cf) (map dec_chunk cs))
  | [VI 1; cf; VL cs] => VL (map (enc_jv 6) (export_json_records (dec_config cf) (map dec_chunk cs)))
  | [VI 2; VI size; VL cs] => VL (map (fun b => VL (map (fun c => VB (k_id c)) b)) (batches (Z.to_nat size) (map dec_chunk cs)))
  | [VI 3; VI which; VI a; VI b; VB t; VL cs] =>
    let p := if which =? 0 then is_on_page a
             else if which =? 1 then in_page_range a b
             else if which =? 2 then in_section t
             else if which =? 3 then min_tokens a
             else if which =? 4 then max_tokens a
             else if which =? 5 then k_has_table
             else if which =? 6 then k_has_list else k_has_image in
    VL (map (fun c => VB (k_id c)) (filter p (map dec_chunk cs)))
  | [VI 4; VI d; VL rows] => VB (csv_write (Z.to_N d) (map (fun r => map val_b (val_l r)) rows))
  | [VI 5; VI d; VB s] => enc_rows (csv_parse (Z.to_N d) s)
  | _ => bad_case
  end.
