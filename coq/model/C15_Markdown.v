(* C15 model: the five Markdown table writers, the heading-level arithmetic,
   and a GFM pipe-table reader (the reading side of the specification). *)
From Tabula Require Export base.Val base.ListX.
From Tabula Require Import model.C13_Split.   (* strings.TrimSpace *)
Open Scope N_scope.

(* ---------- cell escaping of each writer *)
Definition esc_pipe_nl (s : bytes) : bytes :=        (* "\n" -> " ", "|" -> "\|"   (model.Table, docx, odt; order irrelevant) *)
  flat_map (fun c => if c =? 10 then [32] else if c =? 124 then [92; 124] else [c]) s.
Definition esc_xlsx (s : bytes) : bytes := esc_pipe_nl s.     (* "|" -> "\|" then "\n" -> " " *)
Definition esc_pptx (s : bytes) : bytes :=                    (* also "\r" -> " " *)
  flat_map (fun c => if (c =? 10) || (c =? 13) then [32] else if c =? 124 then [92; 124] else [c]) s.
Definition esc_html (s : bytes) : bytes :=                    (* "\r" dropped *)
  flat_map (fun c => if c =? 10 then [32] else if c =? 13 then [] else if c =? 124 then [92; 124] else [c]) s.

Definition cellrep (e : bytes) : bytes := [32] ++ e ++ [32; 124].    (* " e |" *)

(* model.Table.ToMarkdown: rows of cell texts; first row is the header *)
Definition model_row (cells : list bytes) : bytes :=
  flat_map (fun c => [124; 32] ++ esc_pipe_nl c ++ [32]) cells ++ (match cells with [] => [] | _ => [124] end) ++ [10].
Definition model_sep (cells : list bytes) : bytes :=
  flat_map (fun _ => [124; 45; 45; 45]) cells ++ (match cells with [] => [] | _ => [124] end) ++ [10].
Definition model_table_md (rows : list (list bytes)) : bytes :=
  match rows with
  | [] => []
  | h :: rest => model_row h ++ model_sep h ++ flat_map model_row rest
  end.

(* xlsx ParsedTable / pptx Table: headers + rows *)
Definition simple_row (esc : bytes -> bytes) (cells : list bytes) : bytes :=
  [124] ++ flat_map (fun c => cellrep (esc c)) cells ++ [10].
Definition dash_sep (cells : list bytes) : bytes := [124] ++ flat_map (fun _ => [45; 45; 45; 124]) cells ++ [10].
Definition spaced_sep (n : nat) : bytes := [124] ++ flat_map (fun _ => [32; 45; 45; 45; 32; 124]) (repeat tt n) ++ [10].

Definition xlsx_table_md (headers : list bytes) (rows : list (list bytes)) : bytes :=
  match headers, rows with
  | [], [] => []
  | _, _ => simple_row esc_xlsx headers ++ dash_sep headers ++ flat_map (simple_row esc_xlsx) rows
  end.
Definition pptx_table_md (rows : list (list bytes)) : bytes :=
  match rows with
  | [] => []
  | h :: rest => simple_row esc_pptx h ++ dash_sep h ++ flat_map (simple_row esc_pptx) rest
  end.
Definition html_table_md (rows : list (list bytes)) : bytes :=
  match rows with
  | [] => []
  | h :: rest => simple_row esc_html h ++ spaced_sep (length h) ++ flat_map (simple_row esc_html) rest
  end.

(* docx / odt: cells carry a column span and a merged-away flag *)
Record scell := { sc_text : bytes; sc_span : Z; sc_merged : bool }.
Definition span_of (c : scell) : nat := Z.to_nat (if (sc_span c <? 1)%Z then 1%Z else sc_span c).
Definition span_count (row : list scell) : nat := fold_left (fun a c => (a + span_of c)%nat) row O.
Definition col_count (rows : list (list scell)) : nat := fold_left (fun a r => Nat.max a (span_count r)) rows O.
Definition blank_cells (n : nat) : bytes := flat_map (fun _ => [32; 124]) (repeat tt n).

Definition span_row (colcount : nat) (row : list scell) : bytes :=
  [124] ++
  flat_map (fun c => if sc_merged c then blank_cells (span_of c)
                     else cellrep (trim_space (esc_pipe_nl (sc_text c))) ++ blank_cells (span_of c - 1)) row ++
  blank_cells (colcount - span_count row) ++ [10].

Definition span_table_md (rows : list (list scell)) : bytes :=
  match rows with
  | [] => []
  | h :: rest =>
    let n := col_count rows in
    if Nat.eqb n 0 then []
    else span_row n h ++ spaced_sep n ++ flat_map (span_row n) rest
  end.

(* ---------- heading levels: source level, configured offset and maximum *)
Definition heading_level_doc (lvl off maxl : Z) : Z :=     (* docx / odt MarkdownWithRAGOptions *)
  let l1 := if (lvl <? 1)%Z then 1%Z else lvl in
  let l2 := (l1 + off)%Z in
  let l3 := if (l2 <? 1)%Z then 1%Z else l2 in
  let l4 := if (0 <? maxl)%Z && (maxl <? l3)%Z then maxl else l3 in
  if (6 <? l4)%Z then 6%Z else l4.

Definition heading_level_chunk (lvl off maxl : Z) : Z :=   (* rag Chunk.ToMarkdownWithOptions *)
  let l1 := if (lvl =? 0)%Z then 2%Z else lvl in
  let l2 := (l1 + off)%Z in
  let l3 := if (l2 <? 1)%Z then 1%Z else l2 in
  if (0 <? maxl)%Z && (maxl <? l3)%Z then maxl else l3.

(* ---------- GFM pipe-table reader (GFM spec 4.10, cell scanning as in cmark-gfm:
   a backslash followed by ASCII punctuation is one escaped character) *)
Definition is_punct (c : N) : bool :=
  ((33 <=? c) && (c <=? 47)) || ((58 <=? c) && (c <=? 64)) || ((91 <=? c) && (c <=? 96)) || ((123 <=? c) && (c <=? 126)).

Fixpoint split_cells (s : bytes) (cur : bytes) : list bytes :=
  match s with
  | [] => [rev cur]
  | c :: t =>
    if c =? 92 then
      match t with
      | p :: t' => if is_punct p then split_cells t' (p :: 92 :: cur) else split_cells t (92 :: cur)
      | [] => [rev (92 :: cur)]
      end
    else if c =? 124 then rev cur :: split_cells t []
    else split_cells t (c :: cur)
  end.

Definition is_blank (c : N) : bool := (c =? 32) || (c =? 9).
Fixpoint ltrim (s : bytes) : bytes := match s with c :: t => if is_blank c then ltrim t else s | [] => [] end.
Definition trim_blanks (s : bytes) : bytes := rev (ltrim (rev (ltrim s))).

Fixpoint unescape_pipes (s : bytes) : bytes :=
  match s with
  | [] => []
  | c :: t =>
    match t with
    | p :: t' => if (c =? 92) && (p =? 124) then 124 :: unescape_pipes t' else c :: unescape_pipes t
    | [] => [c]
    end
  end.

Definition all_blank (s : bytes) : bool := forallb is_blank s.

(* the cells of one row line (no line terminator) *)
Definition row_cells (line : bytes) : list bytes :=
  let l := trim_blanks line in
  let body := match l with c :: r => if c =? 124 then r else l | [] => l end in
  let raw := split_cells body [] in
  let raw' := match rev raw with
              | last :: others => if all_blank last then rev others else raw
              | [] => raw
              end in
  map (fun c => trim_blanks (unescape_pipes c)) raw'.

Definition is_delim_cell (c : bytes) : bool :=
  let c1 := match c with x :: r => if x =? 58 then r else c | [] => c end in
  let c2 := match rev c1 with x :: r => if x =? 58 then rev r else c1 | [] => c1 end in
  match c2 with [] => false | _ => forallb (fun x => x =? 45) c2 end.

Fixpoint fit (n : nat) (cells : list bytes) : list bytes :=
  match n with
  | O => []
  | S n' => match cells with c :: r => c :: fit n' r | [] => [] :: fit n' [] end
  end.

Fixpoint split_lines (s : bytes) (cur : bytes) : list bytes :=
  match s with
  | [] => match cur with [] => [] | _ => [rev cur] end
  | c :: t => if (c =? 10) || (c =? 13) then rev cur :: split_lines t [] else split_lines t (c :: cur)
  end.

Fixpoint take_rows (lines : list bytes) : list bytes :=
  match lines with
  | l :: r => if all_blank l then [] else l :: take_rows r
  | [] => []
  end.

(* Some grid when the text starts with a pipe table: header, delimiter row of
   the same width, then rows up to the first blank line *)
Definition gfm_table (md : bytes) : option (list (list bytes)) :=
  match split_lines md [] with
  | h :: d :: rest =>
    let hc := row_cells h in
    let dc := row_cells d in
    if Nat.eqb (length hc) (length dc) && negb (Nat.eqb (length hc) 0) && forallb is_delim_cell dc
    then Some (hc :: map (fun l => fit (length hc) (row_cells l)) (take_rows rest))
    else None
  | _ => None
  end.
