From Tabula Require Import model.C15_Markdown.
Open Scope Z_scope.

Definition dec_rows (v : val) : list (list bytes) := map (fun r => map val_b (val_l r)) (val_l v).
Definition dec_scell (v : val) : scell :=
  match val_l v with
  | [VB t; VI s; m] => {| sc_text := t; sc_span := s; sc_merged := val_bool m |}
  | _ => {| sc_text := []; sc_span := 1; sc_merged := false |}
  end.

Definition run_C15 (v : val) : val :=
  match val_l v with
  | [VI 0; rows] => VB (model_table_md (dec_rows rows))
  | [VI 1; hs; rows] => VB (xlsx_table_md (map val_b (val_l hs)) (dec_rows rows))
  | [VI 2; rows] => VB (pptx_table_md (dec_rows rows))
  | [VI 3; rows] => VB (html_table_md (dec_rows rows))
  | [VI 4; rows] => VB (span_table_md (map (fun r => map dec_scell (val_l r)) (val_l rows)))
  | [VI 5; VI l; VI o; VI m] => VI (heading_level_doc l o m)
  | [VI 6; VI l; VI o; VI m] => VI (heading_level_chunk l o m)
  | [VI 7; VB md] => match gfm_table md with
                     | Some g => VL [VL (map (fun r => VL (map VB r)) g)]
                     | None => VL []
                     end
  | _ => bad_case
  end.
