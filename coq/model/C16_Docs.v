(* C16: word-processor documents keep their order and structure.

   Five pieces of the DOCX/ODT readers, each modelled after the code:
   - the DOCX paragraph inline walker (docx.paragraphInlineText),
   - the ODT inline walker (odt.inlineText),
   - the DOCX body-order pass (parseBodyElementsInOrder of the docx Reader)
     together with the path matching of encoding/xml for the four body slices,
   - style inheritance to a heading level (Resolve of the docx StyleResolver),
   - the table grid (docx/odt ParsedTable.ToModelTable, docx
     processVerticalMerges, odt processRowSpans) and the list grouping of
     Document().
   XML is modelled after tokenisation: a stream of start / end / text events. *)
From Tabula Require Export base.Val base.ListX.
Open Scope N_scope.

Inductive tok :=
| TS (name : N) (attr : bytes)   (* start element; the one attribute the walkers read *)
| TE (name : N)
| TT (s : bytes).

(* element name codes, shared with the harness *)
Definition n_p := 1.        Definition n_r := 2.        Definition n_t := 3.
Definition n_tab := 4.      Definition n_br := 5.       Definition n_cr := 6.
Definition n_sym := 7.      Definition n_hyperlink := 8. Definition n_pPr := 9.
Definition n_rPr := 10.     Definition n_del := 11.     Definition n_ins := 12.
Definition n_delText := 13. Definition n_instrText := 14. Definition n_drawing := 15.
Definition n_tbl := 16.     Definition n_tr := 17.      Definition n_tc := 18.
Definition n_sdt := 19.     Definition n_sdtContent := 20. Definition n_sdtPr := 21.
Definition n_body := 22.    Definition n_sectPr := 23.  Definition n_moveFrom := 24.
Definition n_pict := 25.    Definition n_object := 26.  Definition n_Choice := 27.
Definition n_txbxContent := 28. Definition n_smartTag := 29. Definition n_fldSimple := 30.
Definition n_span := 40.    Definition n_a := 41.       Definition n_s := 42.
Definition n_line_break := 43. Definition n_note := 44. Definition n_annotation := 45.
Definition n_annotation_end := 46.

(* ---------- small text helpers ---------- *)

Definition hex_digit (c : N) : option N :=
  if (48 <=? c) && (c <=? 57) then Some (c - 48)
  else if (97 <=? c) && (c <=? 102) then Some (c - 87)
  else if (65 <=? c) && (c <=? 70) then Some (c - 55)
  else None.

Fixpoint parse_hex_acc (acc : N) (s : bytes) : option N :=
  match s with
  | [] => Some acc
  | c :: r => match hex_digit c with
              | Some d => parse_hex_acc (acc * 16 + d) r
              | None => None
              end
  end.

(* strconv.ParseInt(s, 16, 32) on digit strings of at most 7 characters *)
Definition parse_hex (s : bytes) : option N :=
  match s with [] => None | _ => parse_hex_acc 0 s end.

Definition utf8_encode (c : N) : bytes :=
  if c <? 128 then [c]
  else if c <? 2048 then [192 + c / 64; 128 + c mod 64]
  else if (55296 <=? c) && (c <=? 57343) then [239; 191; 189]
  else if c <? 65536 then [224 + c / 4096; 128 + (c / 64) mod 64; 128 + c mod 64]
  else [240 + c / 262144; 128 + (c / 4096) mod 64; 128 + (c / 64) mod 64; 128 + c mod 64].

(* docx.parseSymbolChar *)
Definition sym_text (a : bytes) : bytes :=
  match parse_hex a with
  | Some c => if (0 <? c) && (c <=? 1114111) then utf8_encode c else []
  | None => []
  end.

Fixpoint parse_dec_acc (acc : N) (s : bytes) : option N :=
  match s with
  | [] => Some acc
  | c :: r => if (48 <=? c) && (c <=? 57) then parse_dec_acc (acc * 10 + (c - 48)) r else None
  end.
Definition parse_dec (s : bytes) : option N :=
  match s with [] => None | _ => parse_dec_acc 0 s end.

(* ---------- DOCX paragraph inline walker ---------- *)

Record ist := { i_skip : nat; i_in : bool; i_out : bytes }.

Definition docx_skipped (n : N) : bool :=
  (n =? n_pPr) || (n =? n_rPr) || (n =? n_del) || (n =? n_moveFrom) || (n =? n_delText)
  || (n =? n_instrText) || (n =? n_drawing) || (n =? n_pict) || (n =? n_object)
  || (n =? n_Choice) || (n =? n_txbxContent).

Definition page_bytes : bytes := [112; 97; 103; 101].

Definition docx_istep (st : ist) (t : tok) : ist :=
  match t with
  | TS n a =>
      match i_skip st with
      | S k => {| i_skip := S (S k); i_in := i_in st; i_out := i_out st |}
      | O =>
          if docx_skipped n then {| i_skip := 1; i_in := i_in st; i_out := i_out st |}
          else if n =? n_t then {| i_skip := 0; i_in := true; i_out := i_out st |}
          else if n =? n_tab then {| i_skip := 0; i_in := i_in st; i_out := i_out st ++ [9] |}
          else if n =? n_br then
            {| i_skip := 0; i_in := i_in st;
               i_out := i_out st ++ (if bytes_eqb a page_bytes then [10; 10] else [10]) |}
          else if n =? n_cr then {| i_skip := 0; i_in := i_in st; i_out := i_out st ++ [10] |}
          else if n =? n_sym then {| i_skip := 0; i_in := i_in st; i_out := i_out st ++ sym_text a |}
          else st
      end
  | TE n =>
      match i_skip st with
      | S k => {| i_skip := k; i_in := i_in st; i_out := i_out st |}
      | O => if n =? n_t then {| i_skip := 0; i_in := false; i_out := i_out st |} else st
      end
  | TT s =>
      match i_skip st with
      | O => if i_in st then {| i_skip := 0; i_in := true; i_out := i_out st ++ s |} else st
      | S _ => st
      end
  end.

Definition ist0 : ist := {| i_skip := 0; i_in := false; i_out := [] |}.
Definition docx_inline (l : list tok) : bytes := i_out (fold_left docx_istep l ist0).

(* ---------- ODT inline walker ---------- *)

Record ost := { o_skip : nat; o_out : bytes }.

Definition odt_skipped (n : N) : bool :=
  (n =? n_note) || (n =? n_annotation) || (n =? n_annotation_end).

Definition space_count (a : bytes) : N :=
  match parse_dec a with
  | Some c => if c =? 0 then 1 else if 1000 <? c then 1000 else c
  | None => 1
  end.

Definition odt_istep (st : ost) (t : tok) : ost :=
  match t with
  | TS n a =>
      match o_skip st with
      | S k => {| o_skip := S (S k); o_out := o_out st |}
      | O =>
          if n =? n_tab then {| o_skip := 0; o_out := o_out st ++ [9] |}
          else if n =? n_line_break then {| o_skip := 0; o_out := o_out st ++ [10] |}
          else if n =? n_s then {| o_skip := 0; o_out := o_out st ++ repeat 32 (N.to_nat (space_count a)) |}
          else if odt_skipped n then {| o_skip := 1; o_out := o_out st |}
          else st
      end
  | TE _ =>
      match o_skip st with
      | S k => {| o_skip := k; o_out := o_out st |}
      | O => st
      end
  | TT s =>
      match o_skip st with
      | O => {| o_skip := 0; o_out := o_out st ++ s |}
      | S _ => st
      end
  end.

Definition ost0 : ost := {| o_skip := 0; o_out := [] |}.
Definition odt_inline (l : list tok) : bytes := o_out (fold_left odt_istep l ost0).

(* ---------- DOCX body order ---------- *)

(* which slice a body element was matched to *)
Definition k_para : N := 0.  Definition k_table : N := 1.
Definition k_sdt_para : N := 2. Definition k_sdt_table : N := 3.

Record counts := { c_p : nat; c_t : nat; c_sp : nat; c_st : nat }.

(* encoding/xml path matching for bodyXML: p, tbl, sdt>sdtContent>p, sdt>sdtContent>tbl
   relative to the body element; [stack] is the path below body, innermost first *)
Record ust := { u_in : bool; u_stack : list N; u_c : counts }.

Definition bump (c : counts) (stack : list N) (n : N) : counts :=
  match stack with
  | [] =>
      if n =? n_p then {| c_p := S (c_p c); c_t := c_t c; c_sp := c_sp c; c_st := c_st c |}
      else if n =? n_tbl then {| c_p := c_p c; c_t := S (c_t c); c_sp := c_sp c; c_st := c_st c |}
      else c
  | [a; b] =>
      if (a =? n_sdtContent) && (b =? n_sdt) then
        if n =? n_p then {| c_p := c_p c; c_t := c_t c; c_sp := S (c_sp c); c_st := c_st c |}
        else if n =? n_tbl then {| c_p := c_p c; c_t := c_t c; c_sp := c_sp c; c_st := S (c_st c) |}
        else c
      else c
  | _ => c
  end.

Definition ustep (st : ust) (t : tok) : ust :=
  match t with
  | TS n _ =>
      if u_in st then {| u_in := true; u_stack := n :: u_stack st; u_c := bump (u_c st) (u_stack st) n |}
      else if n =? n_body then {| u_in := true; u_stack := []; u_c := u_c st |}
      else st
  | TE _ =>
      if u_in st then
        match u_stack st with
        | [] => {| u_in := false; u_stack := []; u_c := u_c st |}
        | _ :: r => {| u_in := true; u_stack := r; u_c := u_c st |}
        end
      else st
  | TT _ => st
  end.

Definition counts0 : counts := {| c_p := 0; c_t := 0; c_sp := 0; c_st := 0 |}.
Definition body_counts (l : list tok) : counts :=
  u_c (fold_left ustep l {| u_in := false; u_stack := []; u_c := counts0 |}).

(* the second pass; [depth] is a Z because the code lets it go negative *)
Record bst := {
  b_in : bool; b_depth : Z; b_sdt : nat;
  b_pi : nat; b_ti : nat; b_spi : nat; b_sti : nat;
  b_out : list (N * nat)
}.

Definition is_sdt_name (n : N) : bool := (n =? n_sdt) || (n =? n_sdtContent).

Definition bstep (c : counts) (st : bst) (t : tok) : bst :=
  match t with
  | TS n _ =>
      if n =? n_body then
        {| b_in := true; b_depth := b_depth st; b_sdt := b_sdt st; b_pi := b_pi st; b_ti := b_ti st;
           b_spi := b_spi st; b_sti := b_sti st; b_out := b_out st |}
      else if negb (b_in st) then st
      else if (b_depth st =? 0)%Z && is_sdt_name n then
        {| b_in := true; b_depth := b_depth st; b_sdt := S (b_sdt st); b_pi := b_pi st; b_ti := b_ti st;
           b_spi := b_spi st; b_sti := b_sti st; b_out := b_out st |}
      else
        let d := (b_depth st + 1)%Z in
        let st1 := {| b_in := true; b_depth := d; b_sdt := b_sdt st; b_pi := b_pi st; b_ti := b_ti st;
                      b_spi := b_spi st; b_sti := b_sti st; b_out := b_out st |} in
        if negb (d =? 1)%Z then st1
        else
          match b_sdt st with
          | S _ =>
              if (n =? n_p) && Nat.eqb (b_sdt st) 2 && Nat.ltb (b_spi st) (c_sp c) then
                {| b_in := true; b_depth := d; b_sdt := b_sdt st; b_pi := b_pi st; b_ti := b_ti st;
                   b_spi := S (b_spi st); b_sti := b_sti st;
                   b_out := b_out st ++ [(k_sdt_para, b_spi st)] |}
              else if (n =? n_tbl) && Nat.eqb (b_sdt st) 2 && Nat.ltb (b_sti st) (c_st c) then
                {| b_in := true; b_depth := d; b_sdt := b_sdt st; b_pi := b_pi st; b_ti := b_ti st;
                   b_spi := b_spi st; b_sti := S (b_sti st);
                   b_out := b_out st ++ [(k_sdt_table, b_sti st)] |}
              else st1
          | O =>
              if (n =? n_p) && Nat.ltb (b_pi st) (c_p c) then
                {| b_in := true; b_depth := d; b_sdt := 0; b_pi := S (b_pi st); b_ti := b_ti st;
                   b_spi := b_spi st; b_sti := b_sti st;
                   b_out := b_out st ++ [(k_para, b_pi st)] |}
              else if (n =? n_tbl) && Nat.ltb (b_ti st) (c_t c) then
                {| b_in := true; b_depth := d; b_sdt := 0; b_pi := b_pi st; b_ti := S (b_ti st);
                   b_spi := b_spi st; b_sti := b_sti st;
                   b_out := b_out st ++ [(k_table, b_ti st)] |}
              else st1
          end
  | TE n =>
      if negb (b_in st) then st
      else if (b_depth st =? 0)%Z && is_sdt_name n && Nat.ltb 0 (b_sdt st) then
        {| b_in := true; b_depth := b_depth st; b_sdt := pred (b_sdt st); b_pi := b_pi st; b_ti := b_ti st;
           b_spi := b_spi st; b_sti := b_sti st; b_out := b_out st |}
      else if (b_depth st =? 0)%Z && (n =? n_body) then
        {| b_in := false; b_depth := b_depth st; b_sdt := b_sdt st; b_pi := b_pi st; b_ti := b_ti st;
           b_spi := b_spi st; b_sti := b_sti st; b_out := b_out st |}
      else
        {| b_in := true; b_depth := (b_depth st - 1)%Z; b_sdt := b_sdt st; b_pi := b_pi st; b_ti := b_ti st;
           b_spi := b_spi st; b_sti := b_sti st; b_out := b_out st |}
  | TT _ => st
  end.

Definition bst0 : bst :=
  {| b_in := false; b_depth := 0; b_sdt := 0; b_pi := 0; b_ti := 0; b_spi := 0; b_sti := 0; b_out := [] |}.

Definition body_order_with (c : counts) (l : list tok) : list (N * nat) :=
  b_out (fold_left (bstep c) l bst0).

Definition body_order (l : list tok) : list (N * nat) := body_order_with (body_counts l) l.

(* ---------- style inheritance to a heading level ---------- *)

(* a style table: style i has an optional parent and its own heading marker
   (0 none, else the level).  A parent id >= the table length names a style
   that is not defined; [builtin] gives the level such an id carries by name. *)
Record style := { s_parent : option nat; s_mark : N }.

Definition own_level (styles : list style) (builtin : nat -> N) (i : nat) : N :=
  match nth_error styles i with
  | Some s => s_mark s
  | None => builtin i
  end.

(* buildInheritanceChain, derived first *)
Fixpoint chain (fuel : nat) (styles : list style) (visited : list nat) (cur : option nat) : list nat :=
  match fuel with
  | O => []
  | S f =>
      match cur with
      | None => []
      | Some i =>
          if existsb (Nat.eqb i) visited then []
          else i :: match nth_error styles i with
                    | Some s => chain f styles (i :: visited) (s_parent s)
                    | None => []
                    end
      end
  end.

Fixpoint first_mark (styles : list style) (builtin : nat -> N) (c : list nat) : N :=
  match c with
  | [] => 0
  | i :: r => let l := own_level styles builtin i in
              if l =? 0 then first_mark styles builtin r else l
  end.

Definition resolve_level (styles : list style) (builtin : nat -> N) (i : nat) : N :=
  first_mark styles builtin (chain (S (S (length styles))) styles [] (Some i)).

(* ---------- tables ---------- *)

Record cell := { t_text : bytes; t_span : nat; t_cont : bool; t_rows : nat }.
(* t_cont: docx vMerge continuation / odt covered placeholder; t_rows: row span *)

Definition row_width (r : list cell) : nat := fold_left (fun a c => a + t_span c)%nat r 0%nat.
Definition col_count (rows : list (list cell)) : nat :=
  fold_left (fun a r => Nat.max a (row_width r)) rows 0%nat.

(* a grid cell: text, row span, column span; blank cells are ([],1,1) *)
Definition gcell := (bytes * nat * nat)%type.
Definition blank : gcell := ([], 1%nat, 1%nat).

Fixpoint set_nth {A} (n : nat) (x : A) (l : list A) : list A :=
  match l, n with
  | [], _ => []
  | _ :: r, O => x :: r
  | a :: r, S k => a :: set_nth k x r
  end.

(* ToModelTable row fill: place each cell at the running column *)
Fixpoint fill_row (cols : nat) (col : nat) (cells : list cell) (acc : list gcell) : list gcell :=
  match cells with
  | [] => acc
  | c :: r =>
      if Nat.leb cols col then acc
      else if t_cont c then fill_row cols (col + t_span c) r acc
      else fill_row cols (col + t_span c) r (set_nth col (t_text c, t_rows c, t_span c) acc)
  end.

Definition grid_of (cols : nat) (rows : list (list cell)) : list (list gcell) :=
  map (fun r => fill_row cols 0 r (repeat blank cols)) rows.

(* docx processVerticalMerges (after the fix): starts.(col) is the row where a merge may start *)
Fixpoint find_cell_at (row : list cell) (target col idx : nat) : option nat :=
  match row with
  | [] => None
  | c :: r => if Nat.eqb col target then Some idx
              else if Nat.ltb target (col + t_span c) then Some idx
              else find_cell_at r target (col + t_span c) (S idx)
  end.

Definition bump_rows (c : cell) : cell :=
  {| t_text := t_text c; t_span := t_span c; t_cont := t_cont c; t_rows := S (t_rows c) |}.

Definition bump_cell (rows : list (list cell)) (r col : nat) : list (list cell) :=
  match nth_error rows r with
  | Some row =>
      match find_cell_at row col 0 0 with
      | Some i => upd_nth r (upd_nth i bump_rows) rows
      | None => rows
      end
  | None => rows
  end.

(* one row of processVerticalMerges; [starts] maps a column to Some start row *)
Fixpoint vm_row (ridx : nat) (cells : list cell) (col : nat)
         (starts : list (option nat)) (rows : list (list cell)) : list (option nat) * list (list cell) :=
  match cells with
  | [] => (starts, rows)
  | c :: r =>
      if t_cont c then
        match nth col starts None with
        | Some s => vm_row ridx r (col + t_span c) starts (bump_cell rows s col)
        | None => vm_row ridx r (col + t_span c) starts rows
        end
      else vm_row ridx r (col + t_span c) (set_nth col (Some ridx) starts) rows
  end.

Fixpoint vm_rows (todo : list (list cell)) (ridx : nat)
         (starts : list (option nat)) (rows : list (list cell)) : list (list cell) :=
  match todo with
  | [] => rows
  | r :: rest =>
      let '(starts', rows') := vm_row ridx r 0 starts rows in
      vm_rows rest (S ridx) starts' rows'
  end.

Definition docx_vmerge (rows : list (list cell)) : list (list cell) :=
  vm_rows rows 0 (repeat None (col_count rows)) rows.

Definition docx_grid (rows : list (list cell)) : list (list gcell) :=
  grid_of (col_count rows) (docx_vmerge rows).

(* odt processRowSpans: insert a covered placeholder for every column still
   covered from above *)
Definition covered : cell := {| t_text := []; t_span := 1; t_cont := true; t_rows := 1 |}.

(* skip covered columns at [col]: returns new col, remaining table, inserted cells *)
Fixpoint skip_covered (fuel cols col : nat) (rem : list nat) (acc : list cell) : nat * list nat * list cell :=
  match fuel with
  | O => (col, rem, acc)
  | S f =>
      if Nat.ltb col cols && Nat.ltb 0 (nth col rem 0%nat) then
        skip_covered f cols (S col) (set_nth col (pred (nth col rem 0%nat)) rem) (acc ++ [covered])
      else (col, rem, acc)
  end.

Fixpoint mark_span (k col cols v : nat) (rem : list nat) : list nat :=
  match k with
  | O => rem
  | S k' => if Nat.ltb col cols then mark_span k' (S col) cols v (set_nth col v rem) else rem
  end.

Fixpoint rs_row (cols : nat) (cells : list cell) (col : nat) (rem : list nat) (acc : list cell)
  : list nat * list cell :=
  match cells with
  | [] =>
      let '(_, rem', acc') := skip_covered cols cols col rem acc in (rem', acc')
  | c :: r =>
      let '(col1, rem1, acc1) := skip_covered cols cols col rem acc in
      if Nat.leb cols col1 then (rem1, acc1)
      else
        let rem2 := if Nat.ltb 1 (t_rows c) then mark_span (t_span c) col1 cols (pred (t_rows c)) rem1 else rem1 in
        rs_row cols r (col1 + t_span c) rem2 (acc1 ++ [c])
  end.

Fixpoint rs_rows (cols : nat) (rows : list (list cell)) (rem : list nat) : list (list cell) :=
  match rows with
  | [] => []
  | r :: rest => let '(rem', r') := rs_row cols r 0 rem [] in r' :: rs_rows cols rest rem'
  end.

Definition odt_spans (rows : list (list cell)) : list (list cell) :=
  rs_rows (col_count rows) rows (repeat 0%nat (col_count rows)).

(* [declared] is the number of table:table-column entries (0 when absent) *)
Definition odt_grid (declared : nat) (rows : list (list cell)) : list (list gcell) :=
  let rows' := odt_spans rows in
  grid_of (if Nat.eqb declared 0 then col_count rows' else declared) rows'.

(* ---------- the document: blocks to elements ---------- *)

Inductive block :=
| BPara (text : bytes)
| BHead (level : N) (text : bytes)
| BItem (list_id : N) (ordered : bool) (level : N) (text : bytes)
| BTable (grid : list (list gcell)).

Inductive element :=
| EPara (text : bytes)
| EHead (level : N) (text : bytes)
| EList (ordered : bool) (items : list (N * bytes))
| ETable (grid : list (list gcell)).

Definition is_empty (b : bytes) : bool := match b with [] => true | _ => false end.
Definition grid_rows (g : list (list gcell)) : nat := length g.

(* Document(): empty paragraphs are dropped, list items with the same list id
   are grouped while they are adjacent, tables with no rows are dropped *)
Fixpoint elements (cur : option (N * bool * list (N * bytes))) (bs : list block) : list element :=
  let flush := match cur with
               | Some (_, o, items) => [EList o items]
               | None => []
               end in
  match bs with
  | [] => flush
  | b :: r =>
      match b with
      | BItem id o lvl t =>
          if is_empty t then elements cur r
          else match cur with
               | Some (id', o', items) =>
                   if id =? id' then elements (Some (id', o', items ++ [(lvl, t)])) r
                   else EList o' items :: elements (Some (id, o, [(lvl, t)])) r
               | None => elements (Some (id, o, [(lvl, t)])) r
               end
      | BPara t => if is_empty t then elements cur r else flush ++ EPara t :: elements None r
      | BHead l t => if is_empty t then elements cur r else flush ++ EHead l t :: elements None r
      | BTable g => match g with
                    | [] => flush ++ elements None r
                    | _ => flush ++ ETable g :: elements None r
                    end
      end
  end.

Definition doc_elements (bs : list block) : list element := elements None bs.
