From Tabula Require Import model.C16_Docs.
Open Scope Z_scope.

Definition dec_tok (v : val) : tok :=
  match val_l v with
  | [VI 0; n; VB a] => TS (val_n n) a
  | [VI 1; n] => TE (val_n n)
  | [VI 2; VB s] => TT s
  | _ => TT []
  end.
Definition dec_toks (v : val) : list tok := map dec_tok (val_l v).

Definition dec_style (v : val) : style :=
  match val_l v with
  | [p; m] => {| s_parent := if val_z p <? 0 then None else Some (val_nat p); s_mark := val_n m |}
  | _ => {| s_parent := None; s_mark := 0%N |}
  end.

(* undefined style ids: index 100+l is the id Heading<l>, anything else carries no level *)
Definition builtin (i : nat) : N :=
  if Nat.leb 101 i && Nat.leb i 109 then N.of_nat (i - 100) else 0%N.

Definition dec_cell (v : val) : cell :=
  match val_l v with
  | [VL paras; s; c; r] =>
      {| t_text := join [10%N] (filter (fun b => negb (is_empty b)) (map val_b paras)); t_span := val_nat s; t_cont := val_bool c; t_rows := val_nat r |}
  | _ => covered
  end.
Definition dec_rows (v : val) : list (list cell) := map (fun r => map dec_cell (val_l r)) (val_l v).

Definition dec_block (fmt : Z) (v : val) : block :=
  let inline := fun t => if fmt =? 0 then docx_inline (dec_toks t) else odt_inline (dec_toks t) in
  match val_l v with
  | [VI 0; t] => BPara (inline t)
  | [VI 1; l; t] => BHead (val_n l) (inline t)
  | [VI 2; id; o; l; t] => BItem (val_n id) (val_bool o) (val_n l) (inline t)
  | [VI 3; d; rows] =>
      BTable (if fmt =? 0 then docx_grid (dec_rows rows) else odt_grid (val_nat d) (dec_rows rows))
  | _ => BPara []
  end.

Definition enc_gcell (g : gcell) : val :=
  match g with (t, r, c) => VL [VB t; vnat r; vnat c] end.

Definition enc_element (e : element) : val :=
  match e with
  | EPara t => VL [VI 0; VB t]
  | EHead l t => VL [VI 1; vn l; VB t]
  | EList o items => VL [VI 2; vbool o; VL (map (fun it => VL [vn (fst it); VB (snd it)]) items)]
  | ETable g => VL [VI 3; VL (map (fun r => VL (map enc_gcell r)) g)]
  end.

(* (0 toks)            docx paragraph inline walker -> text
   (1 toks)            odt inline walker            -> text
   (2 toks)            docx body order              -> ((p t sp st) ((kind idx)...))
   (3 styles)          heading level per style      -> (level...)
   (4 fmt blocks)      document model elements      -> (element...) *)
Definition run_C16 (v : val) : val :=
  match val_l v with
  | [VI 0; t] => VB (docx_inline (dec_toks t))
  | [VI 1; t] => VB (odt_inline (dec_toks t))
  | [VI 2; t] =>
      let l := dec_toks t in
      let c := body_counts l in
      VL [VL [vnat (c_p c); vnat (c_t c); vnat (c_sp c); vnat (c_st c)];
          VL (map (fun p => VL [vn (fst p); vnat (snd p)]) (body_order l))]
  | [VI 3; VL ss] =>
      let styles := map dec_style ss in
      VL (map (fun i => vn (resolve_level styles builtin i)) (seq 0 (length styles)))
  | [VI 4; VI fmt; VL bs] => VL (map enc_element (doc_elements (map (dec_block fmt) bs)))
  | _ => bad_case
  end.
