From Tabula Require Import model.C17_Xlsx.
Open Scope Z_scope.

Definition dec_xcell (v : val) : xcell :=
  match val_l v with
  | [r; t; vv; f; is] =>
    {| xc_ref := val_b r; xc_t := val_z t; xc_v := val_b vv; xc_f := val_b f;
       xc_is := match val_l is with [VB s] => Some s | _ => None end |}
  | _ => {| xc_ref := []; xc_t := 5; xc_v := []; xc_f := []; xc_is := None |}
  end.
Definition dec_xrow (v : val) : xrow :=
  match val_l v with
  | [r; cs] => {| xr_r := val_z r; xr_cells := map dec_xcell (val_l cs) |}
  | _ => {| xr_r := 0; xr_cells := [] |}
  end.

Definition enc_cell (c : cell) : val :=
  VL [VB (c_value c); VI (c_type c); vbool (c_merged c); vbool (c_root c); VI (c_mrows c); VI (c_mcols c)].

Definition run_C17 (v : val) : val :=
  match val_l v with
  | [VI 0; VB s] => VI (column_to_index s)
  | [VI 1; VI n] => VB (index_to_column n)
  | [VI 2; VB s] => match parse_cell_ref s with Some (c, r) => VL [VI c; VI r] | None => VL [] end
  | [VI 3; VI c; VI r] => VB (cell_ref c r)
  | [VI 4; VB s] => match parse_range_ref s with
                    | Some (a, b, c, d) => VL [VI a; VI b; VI c; VI d] | None => VL [] end
  | [VI 5; sst; rows; merges] =>
    let ssts := map (fun e => match val_l e with [VB t; VL runs] => shared_string t (map val_b runs) | _ => [] end) (val_l sst) in
    let g := build_grid ssts (map dec_xrow (val_l rows)) (map val_b (val_l merges)) in
    VL [VL (map (fun row => VL (map enc_cell row)) g);
        VB (sheet_text [9%N] g);
        VL (map (fun row => VL (map VB row)) (sheet_table g))]
  | _ => bad_case
  end.
