(* C17 model: xlsx cell-reference codec (xlsx/cell.go), worksheet grid
   construction (parseWorksheet), shared strings, text and table rendering. *)
From Tabula Require Export base.Val base.ListX.
From Coq Require String.
Import (notations) String.
Open Scope Z_scope.

(* ---------- reference codec *)
Definition is_letter (c : N) : bool :=
  ((65 <=? c) && (c <=? 90) || (97 <=? c) && (c <=? 122))%N.
Definition to_upper (c : N) : N := if ((97 <=? c) && (c <=? 122))%N then (c - 32)%N else c.

(* ColumnToIndex: -1 on any non-letter; unbounded Z (Go int wraps beyond 13 letters) *)
Fixpoint c2i_go (s : bytes) (acc : Z) : option Z :=
  match s with
  | [] => Some acc
  | c :: t =>
    let u := to_upper c in
    if ((u <? 65) || (90 <? u))%N then None
    else c2i_go t (acc * 26 + (Z.of_N u - 65) + 1)
  end.
Definition column_to_index (s : bytes) : Z :=
  match c2i_go s 0 with Some r => r - 1 | None => -1 end.

(* IndexToColumn: letters least-significant first, then reversed (the Go loop prepends) *)
Fixpoint i2c_le (fuel : nat) (m : Z) : bytes :=
  match fuel with
  | O => []
  | S f => if m <=? 0 then [] else
             let i := m - 1 in Z.to_N (65 + i mod 26) :: i2c_le f (i / 26)
  end.
Definition i2c_fuel (n : Z) : nat := S (Z.to_nat (Z.log2 (n + 1))).
Definition index_to_column (n : Z) : bytes :=
  if n <? 0 then [] else rev (i2c_le (i2c_fuel n) (n + 1)).

(* strconv.Atoi on the row part: optional sign, >=1 decimal digits, int64 range *)
Fixpoint digits_val (s : bytes) (acc : Z) : option Z :=
  match s with
  | [] => Some acc
  | c :: t => if ((48 <=? c) && (c <=? 57))%N then digits_val t (acc * 10 + (Z.of_N c - 48)) else None
  end.
Definition atoi (s : bytes) : option Z :=
  let '(neg, body) := match s with
                      | 43%N :: t => (false, t)
                      | 45%N :: t => (true, t)
                      | _ => (false, s)
                      end in
  match body with
  | [] => None
  | _ => match digits_val body 0 with
         | None => None
         | Some v => let v' := if neg then - v else v in
                     if (v' <? -9223372036854775808) || (9223372036854775807 <? v') then None else Some v'
         end
  end.

Fixpoint span_letters (s : bytes) : bytes * bytes :=
  match s with
  | c :: t => if is_letter c then let '(a, b) := span_letters t in (c :: a, b) else ([], s)
  | [] => ([], [])
  end.

(* ParseCellRef: (col, row) zero-based, or None = error *)
Definition parse_cell_ref (ref : bytes) : option (Z * Z) :=
  let '(colp, rowp) := span_letters ref in
  match colp, rowp with
  | [], _ => None
  | _, [] => None
  | _, _ =>
    let col := column_to_index colp in
    if col <? 0 then None else
    match atoi rowp with
    | None => None
    | Some rn => if rn <? 1 then None else Some (col, rn - 1)
    end
  end.

Fixpoint nat_digits (fuel : nat) (n : Z) (acc : bytes) : bytes :=
  match fuel with
  | O => acc
  | S f => let acc' := Z.to_N (48 + n mod 10) :: acc in
           if n / 10 =? 0 then acc' else nat_digits f (n / 10) acc'
  end.
Definition itoa (n : Z) : bytes :=
  if n <? 0 then 45%N :: nat_digits (S (Z.to_nat (Z.log2 (- n)))) (- n) []
  else nat_digits (S (Z.to_nat (Z.log2 n))) n [].
Definition cell_ref (col row : Z) : bytes := index_to_column col ++ itoa (row + 1).

Fixpoint split_on (sep : N) (s : bytes) (cur : bytes) : list bytes :=
  match s with
  | [] => [rev cur]
  | c :: t => if N.eqb c sep then rev cur :: split_on sep t [] else split_on sep t (c :: cur)
  end.

Definition parse_range_ref (ref : bytes) : option (Z * Z * Z * Z) :=
  match split_on 58 ref [] with
  | [a; b] =>
    match parse_cell_ref a, parse_cell_ref b with
    | Some (sc, sr), Some (ec, er) => Some (sc, sr, ec, er)
    | _, _ => None
    end
  | _ => None
  end.

(* ---------- worksheet *)
(* cell type tag after the string switch: 0 "s", 1 "b", 2 "e", 3 "str", 4 "inlineStr", 5 anything else *)
Record xcell := { xc_ref : bytes; xc_t : Z; xc_v : bytes; xc_f : bytes; xc_is : option bytes }.
Record xrow := { xr_r : Z; xr_cells : list xcell }.

(* CellType: 0 string 1 number 2 boolean 3 formula 4 error 5 empty *)
Record cell := { c_value : bytes; c_type : Z; c_merged : bool; c_root : bool; c_mrows : Z; c_mcols : Z }.
Definition empty_cell : cell :=
  {| c_value := []; c_type := 5; c_merged := false; c_root := false; c_mrows := 1; c_mcols := 1 |}.

Definition is_nil (b : bytes) : bool := match b with [] => true | _ => false end.

(* value/type written by the type switch onto the existing cell *)
Definition cell_content (sst : list bytes) (old : cell) (x : xcell) : bytes * Z :=
  match xc_t x with
  | 0 => (match atoi (xc_v x) with
          | Some idx => if (0 <=? idx) && (idx <? Z.of_nat (length sst))
                        then nth (Z.to_nat idx) sst [] else c_value old
          | None => c_value old
          end, 0)
  | 1 => (if bytes_eqb (xc_v x) [49%N] then bs "TRUE" else bs "FALSE", 2)
  | 2 => (xc_v x, 4)
  | 3 => (xc_v x, 0)
  | 4 => (match xc_is x with Some t => t | None => c_value old end, 0)
  | _ => if negb (is_nil (xc_v x)) then (xc_v x, 1)
         else if negb (is_nil (xc_f x)) then ([], 3)
         else (c_value old, c_type old)
  end.

Definition set_content (sst : list bytes) (x : xcell) (old : cell) : cell :=
  let '(v, t) := cell_content sst old x in
  {| c_value := v; c_type := t; c_merged := c_merged old; c_root := c_root old;
     c_mrows := c_mrows old; c_mcols := c_mcols old |}.

Definition grid := list (list cell).

Definition dims (rows : list xrow) : Z * Z :=
  fold_left (fun '(mr, mc) row =>
    (zmax mr (xr_r row),
     fold_left (fun mc x => match parse_cell_ref (xc_ref x) with
                            | Some (col, _) => zmax mc col
                            | None => mc end) (xr_cells row) mc)) rows (0, 0).

Definition blank_grid (nrows ncols : nat) : grid := repeat (repeat empty_cell ncols) nrows.

Definition place_cell (sst : list bytes) (rowIdx : nat) (g : grid) (x : xcell) : grid :=
  match parse_cell_ref (xc_ref x) with
  | None => g
  | Some (col, _) =>
    (* col >= 0 always; bounds checked against the row length *)
    upd_nth rowIdx (upd_nth (Z.to_nat col) (set_content sst x)) g
  end.

Definition place_row (sst : list bytes) (g : grid) (row : xrow) : grid :=
  let ri := xr_r row - 1 in
  if (ri <? 0) || (Z.of_nat (length g) <=? ri) then g
  else fold_left (place_cell sst (Z.to_nat ri)) (xr_cells row) g.

(* merged regions *)
Definition region := (Z * Z * Z * Z)%type.  (* startCol startRow endCol endRow, as ParseRangeRef returns *)

Definition mark_cell (sc sr ec er : Z) (r c : Z) (old : cell) : cell :=
  if (r =? sr) && (c =? sc)
  then {| c_value := c_value old; c_type := c_type old; c_merged := true; c_root := true;
          c_mrows := er - sr + 1; c_mcols := ec - sc + 1 |}
  else {| c_value := c_value old; c_type := c_type old; c_merged := true; c_root := c_root old;
          c_mrows := c_mrows old; c_mcols := c_mcols old |}.

Fixpoint mapi_from {A B} (f : Z -> A -> B) (i : Z) (l : list A) : list B :=
  match l with [] => [] | x :: l' => f i x :: mapi_from f (i + 1) l' end.

Definition apply_region (g : grid) (rg : region) : grid :=
  let '(sc, sr, ec, er) := rg in
  mapi_from (fun r row =>
    if (sr <=? r) && (r <=? er)
    then mapi_from (fun c cl => if (sc <=? c) && (c <=? ec) then mark_cell sc sr ec er r c cl else cl) 0 row
    else row) 0 g.

Definition parse_regions (refs : list bytes) : list region :=
  fold_right (fun ref acc => match parse_range_ref ref with Some r => r :: acc | None => acc end) [] refs.

Definition build_grid (sst : list bytes) (rows : list xrow) (merges : list bytes) : grid :=
  let '(mr, mc) := dims rows in
  let g0 := blank_grid (Z.to_nat mr) (Z.to_nat (mc + 1)) in
  let g1 := fold_left (place_row sst) rows g0 in
  fold_left apply_region (parse_regions merges) g1.

(* shared strings: plain text wins when non-empty, else the rich-text runs concatenated *)
Definition shared_string (t : bytes) (runs : list bytes) : bytes :=
  if negb (is_nil t) then t else concat runs.

(* ---------- rendering *)
Definition shown (c : cell) : bytes := if c_merged c && negb (c_root c) then [] else c_value c.

Definition sheet_text (delim : bytes) (g : grid) : bytes :=
  join [10%N] (map (fun row => join delim (map shown row)) g).

(* findContentBounds + sheetToTable: the bounding box of non-empty values *)
Definition nonempty (c : cell) : bool := negb ((c_type c =? 5) || is_nil (c_value c)).

Definition row_bounds (row : list cell) : option (Z * Z) :=
  fst (fold_left (fun '(acc, i) c =>
        (if nonempty c then match acc with
                            | None => Some (i, i)
                            | Some (lo, hi) => Some (lo, i)
                            end else acc, i + 1)) row (None, 0)).

Definition content_bounds (g : grid) : option (Z * Z * Z * Z) :=  (* minRow maxRow minCol maxCol *)
  fst (fold_left (fun '(acc, r) row =>
        (match row_bounds row with
         | None => acc
         | Some (lo, hi) =>
           match acc with
           | None => Some (r, r, lo, hi)
           | Some (r0, r1, c0, c1) => Some (r0, r, Z.min c0 lo, Z.max c1 hi)
           end
         end, r + 1)) g (None, 0)).

Definition slice {A} (lo hi : Z) (l : list A) : list A :=
  firstn (Z.to_nat (hi - lo + 1)) (skipn (Z.to_nat lo) l).

(* headers :: rows, all of width maxCol-minCol+1 *)
Definition sheet_table (g : grid) : list (list bytes) :=
  match content_bounds g with
  | None => []
  | Some (r0, r1, c0, c1) => map (fun row => map c_value (slice c0 c1 row)) (slice r0 r1 g)
  end.
