(* C18 model: declared part order of XLSX / PPTX / EPUB packages over an
   abstract archive (member names with an opaque content token). *)
From Tabula Require Export base.Val base.ListX.
From Tabula Require Import model.C17_Xlsx.   (* itoa *)
From Coq Require String.
Import (notations) String.
Open Scope N_scope.

Definition member := (bytes * bytes)%type.      (* name, content token *)

(* getFileContent / readFile: first member with that exact name *)
Fixpoint find_member (n : bytes) (ms : list member) : option bytes :=
  match ms with
  | [] => None
  | (k, c) :: ms' => if bytes_eqb k n then Some c else find_member n ms'
  end.

Fixpoint has_prefix (p s : bytes) : bool :=
  match p, s with
  | [], _ => true
  | x :: p', y :: s' => (x =? y) && has_prefix p' s'
  | _ :: _, [] => false
  end.
Fixpoint drop_prefix (p s : bytes) : bytes :=
  match p, s with
  | x :: p', y :: s' => if x =? y then (if has_prefix p' s' then drop_prefix p' s' else s) else s
  | _, _ => s
  end.
(* strings.TrimPrefix *)
Definition trim_prefix (p s : bytes) : bytes := if has_prefix p s then skipn (length p) s else s.

Fixpoint assoc_b (k : bytes) (m : list (bytes * bytes)) : option bytes :=   (* last write wins, as a Go map filled in order *)
  match m with
  | [] => None
  | (k', v) :: m' => match assoc_b k m' with Some r => Some r | None => if bytes_eqb k k' then Some v else None end
  end.

(* ---------- path.Clean *)
Fixpoint split_slash (s : bytes) (cur : bytes) : list bytes :=
  match s with
  | [] => [rev cur]
  | c :: t => if c =? 47 then rev cur :: split_slash t [] else split_slash t (c :: cur)
  end.

Definition is_dot (c : bytes) : bool := bytes_eqb c [46].
Definition is_dotdot (c : bytes) : bool := bytes_eqb c [46; 46].

(* stack holds the kept components, most recent first *)
Fixpoint clean_go (rooted : bool) (comps : list bytes) (stack : list bytes) : list bytes :=
  match comps with
  | [] => rev stack
  | c :: rest =>
    if match c with [] => true | _ => false end || is_dot c then clean_go rooted rest stack
    else if is_dotdot c then
      match stack with
      | top :: st' => if is_dotdot top then clean_go rooted rest (c :: stack) else clean_go rooted rest st'
      | [] => if rooted then clean_go rooted rest [] else clean_go rooted rest [c]
      end
    else clean_go rooted rest (c :: stack)
  end.

Definition path_clean (p : bytes) : bytes :=
  match p with
  | [] => [46]
  | _ =>
    let rooted := match p with 47 :: _ => true | _ => false end in
    let comps := clean_go rooted (split_slash p []) [] in
    let body := join [47] comps in
    if rooted then 47 :: body else match body with [] => [46] | _ => body end
  end.

(* ---------- url.PathUnescape *)
Definition hexv (c : N) : option N :=
  if (48 <=? c) && (c <=? 57) then Some (c - 48)
  else if (65 <=? c) && (c <=? 70) then Some (c - 55)
  else if (97 <=? c) && (c <=? 102) then Some (c - 87) else None.

Fixpoint pct_decode (s : bytes) : option bytes :=
  match s with
  | [] => Some []
  | c :: t =>
    if c =? 37 then
      match t with
      | h1 :: h2 :: t' =>
        match hexv h1, hexv h2, pct_decode t' with
        | Some a, Some b, Some r => Some ((a * 16 + b) :: r)
        | _, _, _ => None
        end
      | _ => None
      end
    else match pct_decode t with Some r => Some (c :: r) | None => None end
  end.

(* ---------- XLSX: workbook sheet list -> relationship -> member *)
Record xsheet := { xs_name : bytes; xs_rid : bytes }.

Definition xlsx_target (rels : list (bytes * bytes)) (i : nat) (s : xsheet) : bytes :=
  let t0 := match assoc_b (xs_rid s) rels with Some t => t | None => [] end in
  let t1 := match t0 with
            | [] => bs "worksheets/sheet" ++ itoa (Z.of_nat (S i)) ++ bs ".xml"
            | _ => t0
            end in
  let t2 := if negb (has_prefix (bs "xl/") t1) && negb (has_prefix [47] t1) then bs "xl/" ++ t1 else t1 in
  trim_prefix [47] t2.

(* one sheet: try the target, then "xl/" + (target without "xl/") *)
Definition xlsx_sheet_content (ms : list member) (target : bytes) : option bytes :=
  match find_member target ms with
  | Some c => Some c
  | None => find_member (bs "xl/" ++ trim_prefix (bs "xl/") target) ms
  end.

Fixpoint xlsx_read_go (ms : list member) (rels : list (bytes * bytes)) (i : nat) (sheets : list xsheet)
  : list (bytes * bytes) :=
  match sheets with
  | [] => []
  | s :: rest =>
    match xlsx_sheet_content ms (xlsx_target rels i s) with
    | Some c => (xs_name s, c) :: xlsx_read_go ms rels (S i) rest
    | None => xlsx_read_go ms rels (S i) rest
    end
  end.
(* result: (sheet name, content) in workbook order; unreadable sheets are skipped *)
Definition xlsx_read (ms : list member) (rels : list (bytes * bytes)) (sheets : list xsheet) : list (bytes * bytes) :=
  xlsx_read_go ms rels 0 sheets.

(* ---------- PPTX: presentation slide list -> relationship -> member *)
Definition pptx_declared (rels : list (bytes * bytes)) (rids : list bytes) : list bytes :=
  flat_map (fun rid => match assoc_b rid rels with
                       | Some t => match t with
                                   | [] => []
                                   | 47%N :: _ => [trim_prefix [47] (path_clean t)]
                                   | _ => [path_clean (bs "ppt/" ++ t)]
                                   end
                       | None => []
                       end) rids.

(* slides listed by the presentation, in order; slides that cannot be read are skipped *)
Definition pptx_read (ms : list member) (rels : list (bytes * bytes)) (rids : list bytes) : list bytes :=
  flat_map (fun n => match find_member n ms with Some c => [c] | None => [] end) (pptx_declared rels rids).

(* ---------- EPUB: spine -> manifest -> href resolved against the package file *)
Fixpoint last_slash_split (s : bytes) (cur acc : bytes) : bytes :=   (* path.Dir without cleaning, for "a/b/c.opf" *)
  match s with
  | [] => acc
  | c :: t => if c =? 47 then last_slash_split t (cur ++ [c]) (cur) else last_slash_split t (cur ++ [c]) acc
  end.

Definition opf_base_dir (opf : bytes) : bytes :=
  let d := path_clean (last_slash_split opf [] []) in
  if bytes_eqb d [46] then [] else d.

Definition resolve_href (base href : bytes) : bytes :=
  let h := match pct_decode href with Some d => d | None => href end in
  match base with
  | [] => h
  | _ => path_clean (base ++ [47] ++ h)
  end.

Definition epub_read (ms : list member) (opf : bytes) (manifest : list (bytes * bytes)) (spine : list bytes) : list bytes :=
  let base := opf_base_dir opf in
  flat_map (fun idref => match assoc_b idref manifest with
                         | Some href => match find_member (resolve_href base href) ms with
                                        | Some c => [c]
                                        | None => []
                                        end
                         | None => []
                         end) spine.
