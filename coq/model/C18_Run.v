From Tabula Require Import model.C18_Parts.
Open Scope Z_scope.

Definition dec_pairs (v : val) : list (bytes * bytes) :=
  map (fun e => match val_l e with [VB a; VB b] => (a, b) | _ => ([], []) end) (val_l v).

(* (0 members rels sheets)            xlsx  -> ((name content)...)
   (1 members rels rids)              pptx  -> (content...)
   (2 members xOPF manifest spine)    epub  -> (content...)
   (3 xPATH)                          path.Clean
   (4 xBASE xHREF)                    resolve_href *)
Definition run_C18 (v : val) : val :=
  match val_l v with
  | [VI 0; ms; rels; sheets] =>
    VL (map (fun nc => VL [VB (fst nc); VB (snd nc)])
            (xlsx_read (dec_pairs ms) (dec_pairs rels)
                       (map (fun p => {| xs_name := fst p; xs_rid := snd p |}) (dec_pairs sheets))))
  | [VI 1; ms; rels; VL rids] => VL (map VB (pptx_read (dec_pairs ms) (dec_pairs rels) (map val_b rids)))
  | [VI 2; ms; VB opf; manifest; VL spine] =>
    VL (map VB (epub_read (dec_pairs ms) opf (dec_pairs manifest) (map val_b spine)))
  | [VI 3; VB p] => VB (path_clean p)
  | [VI 4; VB b; VB h] => VB (resolve_href b h)
  | _ => bad_case
  end.
