(* C19 model: htmldoc content extraction over a parsed DOM tree
   (x/net/html is the oracle for tree construction and entity decoding).
   traverseNodeFiltered with its list state, getTextContent(Recursive),
   getDirectTextContent, isBlockContainer, shouldSkipElement, parseTable,
   and the exclusion checker: explicit elements and roles, top-level
   header/footer, class/id patterns, link density. *)
From Tabula Require Export base.Val base.ListX.
From Tabula Require Import model.C13_Split.     (* trim_space = strings.TrimSpace *)
From Coq Require String.
Import (notations) String.
Open Scope N_scope.

(* element names, shared with the harness; 0 is any other element *)
Definition t_p := 7.       Definition t_div := 8.     Definition t_ul := 9.     Definition t_ol := 10.
Definition t_li := 11.     Definition t_table := 12.  Definition t_thead := 13. Definition t_tbody := 14.
Definition t_tfoot := 15.  Definition t_tr := 16.     Definition t_td := 17.    Definition t_th := 18.
Definition t_pre := 19.    Definition t_code := 20.   Definition t_blockquote := 21. Definition t_a := 22.
Definition t_br := 23.     Definition t_hr := 24.     Definition t_article := 25. Definition t_section := 26.
Definition t_main := 27.   Definition t_header := 28. Definition t_footer := 29. Definition t_nav := 30.
Definition t_aside := 31.  Definition t_script := 32. Definition t_style := 33. Definition t_noscript := 34.
Definition t_template := 35. Definition t_svg := 36.  Definition t_math := 37.  Definition t_iframe := 38.
Definition t_object := 39. Definition t_embed := 40.
(* h1..h6 are 1..6 *)

Record attrs := { a_role : bytes; a_class : bytes; a_id : bytes; a_rowspan : bytes; a_colspan : bytes }.

Inductive node :=
| El (tag : N) (a : attrs) (kids : list node)
| Tx (s : bytes)
| Other.                                   (* comments, doctypes *)

Definition is_heading (t : N) : bool := (1 <=? t) && (t <=? 6).

Definition skipped (t : N) : bool :=
  (t =? t_script) || (t =? t_style) || (t =? t_noscript) || (t =? t_template) || (t =? t_svg)
  || (t =? t_math) || (t =? t_iframe) || (t =? t_object) || (t =? t_embed).

Definition space_after (t : N) : bool :=
  (t =? t_p) || (t =? t_div) || (t =? t_li) || is_heading t || (t =? t_tr).

(* getTextContentRecursive *)
Fixpoint text_rec (n : node) : bytes :=
  match n with
  | Tx s => s
  | Other => []
  | El t _ kids =>
      if skipped t then []
      else (if t =? t_br then [10] else [])
           ++ (fix go (l : list node) : bytes := match l with [] => [] | k :: r => text_rec k ++ go r end) kids
           ++ (if space_after t then [32] else [])
  end.

Definition text_of (n : node) : bytes := trim_space (text_rec n).

Definition tag_of (n : node) : N := match n with El t _ _ => t | _ => 0 end.
Definition is_el (n : node) : bool := match n with El _ _ _ => true | _ => false end.

Definition block_child (t : N) : bool :=
  (t =? t_div) || (t =? t_p) || (t =? t_ul) || (t =? t_ol) || (t =? t_table) || is_heading t
  || (t =? t_blockquote) || (t =? t_pre) || (t =? t_article) || (t =? t_section) || (t =? t_main)
  || (t =? t_header) || (t =? t_footer) || (t =? t_nav) || (t =? t_aside).

Definition is_block_container (kids : list node) : bool :=
  existsb (fun k => is_el k && block_child (tag_of k)) kids.

(* getDirectTextContent of a list item *)
Definition direct_text (kids : list node) : bytes :=
  trim_space (concat (map (fun k =>
    match k with
    | Tx s => s
    | Other => []
    | El t _ _ =>
        if (t =? t_ul) || (t =? t_ol) then []
        else if (t =? t_div) || (t =? t_p) || (t =? t_table) || (t =? t_blockquote) then [32] ++ text_of k ++ [32]
        else text_of k
    end) kids)).

(* ---------- tables ---------- *)

Definition all_digits (s : bytes) : bool := forallb (fun c => (48 <=? c) && (c <=? 57)) s.
Fixpoint dec_value (acc : Z) (s : bytes) : Z :=
  match s with [] => acc | c :: r => dec_value (acc * 10 + Z.of_N (c - 48))%Z r end.
(* fmt.Sscanf(v, "%d", &span) on digit strings; anything else leaves 1 *)
Definition span_of (s : bytes) : Z :=
  match s with [] => 1%Z | _ => if all_digits s then dec_value 0 s else 1%Z end.

Definition tcell := (bytes * bool * Z * Z)%type.   (* text, header, rowspan, colspan *)

Definition parse_row (hdr : bool) (kids : list node) : list tcell :=
  concat (map (fun k =>
    match k with
    | El t a _ =>
        if (t =? t_td) || (t =? t_th)
        then [(text_of k, hdr || (t =? t_th), span_of (a_rowspan a), span_of (a_colspan a))]
        else []
    | _ => []
    end) kids).

Definition parse_rows (hdr : bool) (kids : list node) : list (list tcell) :=
  concat (map (fun k =>
    match k with
    | El t _ ks => if t =? t_tr then (match parse_row hdr ks with [] => [] | r => [r] end) else []
    | _ => []
    end) kids).

Definition parse_table (kids : list node) : list (list tcell) :=
  concat (map (fun k =>
    match k with
    | El t _ ks =>
        if t =? t_thead then parse_rows true ks
        else if (t =? t_tbody) || (t =? t_tfoot) then parse_rows false ks
        else if t =? t_tr then (match parse_row false ks with [] => [] | r => [r] end)
        else []
    | _ => []
    end) kids).

(* ---------- exclusion ---------- *)

Definition lower (c : N) : N := if (65 <=? c) && (c <=? 90) then c + 32 else c.
Definition is_letter (c : N) : bool := let l := lower c in (97 <=? l) && (l <=? 122).

Fixpoint prefix_ci (w s : bytes) : option bytes :=
  match w, s with
  | [], _ => Some s
  | x :: w', y :: s' => if lower x =? lower y then prefix_ci w' s' else None
  | _ :: _, [] => None
  end.

Definition nav_words : list bytes :=
  map bs ["nav"; "navbar"; "navigation"; "menu"; "topnav"; "sidenav"; "breadcrumb"; "breadcrumbs";
          "site-header"; "page-header"; "masthead"; "banner";
          "footer"; "site-footer"; "page-footer"; "colophon";
          "sidebar"; "widget-area"; "widget"; "aside"]%string.

Definition match_at (s : bytes) : bool :=
  existsb (fun w => match prefix_ci w s with
                    | Some [] => true
                    | Some (c :: _) => negb (is_letter c)
                    | None => false
                    end) nav_words.

Fixpoint match_from (prev_letter : bool) (s : bytes) : bool :=
  match s with
  | [] => false
  | c :: r => (negb prev_letter && match_at s) || match_from (is_letter c) r
  end.

(* navigationPatterns.excluded.MatchString on ASCII names *)
Definition pattern (s : bytes) : bool := match_from false s.

Fixpoint text_len (n : node) : nat :=
  match n with
  | Tx s => length (trim_space s)
  | Other => 0%nat
  | El _ _ kids => (fix go (l : list node) : nat := match l with [] => 0%nat | k :: r => (text_len k + go r)%nat end) kids
  end.

Fixpoint link_len (n : node) : nat :=
  match n with
  | El t _ kids =>
      if t =? t_a then text_len n
      else (fix go (l : list node) : nat := match l with [] => 0%nat | k :: r => (link_len k + go r)%nat end) kids
  | _ => 0%nat
  end.

Fixpoint count_links (n : node) : nat :=
  match n with
  | El t _ kids =>
      ((if (t =? t_a)%N then 1 else 0)
       + (fix go (l : list node) : nat := match l with [] => 0%nat | k :: r => (count_links k + go r)%nat end) kids)%nat
  | _ => 0%nat
  end.

(* modes: 0 none, 1 explicit, 2 standard, 3 aggressive *)
Definition excl_explicit (top : bool) (t : N) (a : attrs) : bool :=
  (t =? t_nav) || (t =? t_aside)
  || bytes_eqb (a_role a) (bs "navigation") || bytes_eqb (a_role a) (bs "complementary")
  || ((bytes_eqb (a_role a) (bs "banner") || bytes_eqb (a_role a) (bs "contentinfo")) && top)
  || (((t =? t_header) || (t =? t_footer)) && top).

Definition excl_pattern (a : attrs) : bool :=
  pattern (a_class a) || pattern (a_id a).

Definition excl_density (n : node) : bool :=
  match n with
  | El t _ _ =>
      ((t =? t_div) || (t =? t_section) || (t =? t_ul) || (t =? t_ol))
      && Nat.ltb (3 * text_len n) (5 * link_len n) && Nat.leb 4 (count_links n)
  | _ => false
  end.

Definition excluded (mode : nat) (top : bool) (n : node) : bool :=
  match n with
  | El t a _ =>
      Nat.leb 1 mode
      && (excl_explicit top t a
          || (Nat.leb 2 mode && excl_pattern a)
          || (Nat.leb 3 mode && excl_density n))
  | _ => false
  end.

(* ---------- the walk ---------- *)

Inductive element :=
| EHeading (level : N) (t : bytes)
| EPara (t : bytes)
| EList (ordered : bool) (items : list (nat * bytes))
| ETable (rows : list (list tcell))
| ECode (t : bytes)
| EQuote (t : bytes).

Record st := { s_els : list element; s_pend : list (nat * bytes); s_in : bool; s_ord : bool; s_lvl : nat }.

Definition is_nil_b (b : bytes) : bool := match b with [] => true | _ => false end.

Definition flush (s : st) : st :=
  if s_in s && negb (match s_pend s with [] => true | _ => false end) then
    {| s_els := s_els s ++ [EList (s_ord s) (s_pend s)]; s_pend := []; s_in := s_in s; s_ord := s_ord s; s_lvl := s_lvl s |}
  else s.

Definition emit (s : st) (e : element) : st :=
  {| s_els := s_els s ++ [e]; s_pend := s_pend s; s_in := s_in s; s_ord := s_ord s; s_lvl := s_lvl s |}.

Definition semantic_container (t : N) : bool :=
  (t =? t_article) || (t =? t_section) || (t =? t_main) || (t =? t_header) || (t =? t_footer)
  || (t =? t_nav) || (t =? t_aside).

(* [ktop]: the children of this node are direct children of the body or of the single wrapper *)
Fixpoint walk (mode : nat) (top : bool) (ktop : bool) (n : node) (s : st) : st :=
  match n with
  | Tx _ | Other => s
  | El t a kids =>
      let walk_kids := (fix go (l : list node) (s0 : st) : st :=
                          match l with [] => s0 | k :: r => go r (walk mode ktop false k s0) end) in
      if skipped t then s
      else if excluded mode top n then s
      else if is_heading t then
        let s1 := flush s in
        let tx := trim_space (text_of n) in
        if is_nil_b tx then s1 else emit s1 (EHeading t tx)
      else if (t =? t_p) || (t =? t_div) then
        let s1 := if t =? t_p then flush s else s in
        let tx := trim_space (text_of n) in
        if negb (is_nil_b tx) && negb (is_block_container kids) then emit (flush s1) (EPara tx)
        else walk_kids kids s1
      else if (t =? t_ul) || (t =? t_ol) then
        let s1 := if s_in s && Nat.eqb (s_lvl s) 0 then flush s else s in
        let s2 := {| s_els := s_els s1; s_pend := if s_in s then s_pend s1 else [];
                     s_in := true; s_ord := (t =? t_ol); s_lvl := if s_in s then s_lvl s else 0%nat |} in
        let s3 := walk_kids kids s2 in
        if s_in s then
          {| s_els := s_els s3; s_pend := s_pend s3; s_in := s_in s3; s_ord := s_ord s; s_lvl := s_lvl s |}
        else
          let s4 := flush s3 in
          {| s_els := s_els s4; s_pend := []; s_in := false; s_ord := s_ord s; s_lvl := s_lvl s |}
      else if t =? t_li then
        if s_in s then
          let tx := direct_text kids in
          let s1 := if is_nil_b tx then s
                    else {| s_els := s_els s; s_pend := s_pend s ++ [(s_lvl s, tx)]; s_in := true;
                            s_ord := s_ord s; s_lvl := s_lvl s |} in
          let s2 := {| s_els := s_els s1; s_pend := s_pend s1; s_in := s_in s1; s_ord := s_ord s1; s_lvl := S (s_lvl s1) |} in
          let s3 := (fix go (l : list node) (s0 : st) : st :=
                       match l with
                       | [] => s0
                       | k :: r => go r (if is_el k && ((tag_of k =? t_ul) || (tag_of k =? t_ol))
                                         then walk mode ktop false k s0 else s0)
                       end) kids s2 in
          {| s_els := s_els s3; s_pend := s_pend s3; s_in := s_in s3; s_ord := s_ord s3; s_lvl := pred (s_lvl s3) |}
        else
          let tx := trim_space (text_of n) in
          if negb (is_nil_b tx) && negb (is_block_container kids) then emit s (EPara tx)
          else walk_kids kids s
      else if t =? t_table then
        let s1 := flush s in
        match parse_table kids with
        | [] => s1
        | rows => emit s1 (ETable rows)
        end
      else if (t =? t_pre) || (t =? t_code) then
        let tx := text_of n in
        if is_nil_b tx then s else emit (flush s) (ECode tx)
      else if t =? t_blockquote then
        let tx := trim_space (text_of n) in
        if is_nil_b tx then s else emit (flush s) (EQuote tx)
      else if (t =? t_br) || (t =? t_hr) then s
      else walk_kids kids s
  end.

Definition st0 : st := {| s_els := []; s_pend := []; s_in := false; s_ord := false; s_lvl := 0 |}.

(* detectTopLevelWrapper: the single div/main child when every other element child is ignorable *)
Definition ignorable (t : N) : bool :=
  (t =? t_script) || (t =? t_style) || (t =? t_noscript) || (t =? t_template).
Definition structural (t : N) : bool := (t =? t_div) || (t =? t_main).

Definition has_wrapper (kids : list node) : bool :=
  forallb (fun k => negb (is_el k) || structural (tag_of k) || ignorable (tag_of k)) kids
  && Nat.eqb (length (filter (fun k => is_el k && structural (tag_of k)) kids)) 1.

(* extractBodyWithMode on the body element *)
Definition extract (mode : nat) (body : node) : list element :=
  match body with
  | El t a kids =>
      if skipped t then []
      else if excluded mode false body then []
      else
        let w := has_wrapper kids in
        let s := (fix go (l : list node) (s0 : st) : st :=
                    match l with
                    | [] => s0
                    | k :: r => go r (walk mode true (w && is_el k && structural (tag_of k)) k s0)
                    end) kids st0 in
        s_els (flush s)
  | _ => []
  end.

(* the flattened text items of a result *)
Inductive item :=
| IHeading (level : N) (t : bytes) | IPara (t : bytes) | IItem (level : nat) (t : bytes)
| ITable (rows : list (list tcell)) | ICode (t : bytes) | IQuote (t : bytes).

Definition items_of (e : element) : list item :=
  match e with
  | EHeading l t => [IHeading l t]
  | EPara t => [IPara t]
  | EList _ its => map (fun it => IItem (fst it) (snd it)) its
  | ETable r => [ITable r]
  | ECode t => [ICode t]
  | EQuote t => [IQuote t]
  end.

Definition flat (es : list element) : list item := concat (map items_of es).
