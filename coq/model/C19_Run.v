From Tabula Require Import model.C19_Html.
Open Scope Z_scope.

Fixpoint dec_node (fuel : nat) (v : val) : node :=
  match fuel with
  | O => Other
  | S f =>
      match val_l v with
      | [VI 0; t; VL [VB r; VB c; VB i; VB rs; VB cs]; VL kids] =>
          El (val_n t) {| a_role := r; a_class := c; a_id := i; a_rowspan := rs; a_colspan := cs |}
             (map (dec_node f) kids)
      | [VI 1; VB s] => Tx s
      | _ => Other
      end
  end.

Definition enc_cell (c : tcell) : val :=
  match c with (t, h, rs, cs) => VL [VB t; vbool h; VI rs; VI cs] end.

(* as DocumentWithOptions presents the elements: code and quotes are paragraphs, tables are
   padded to the longest row with empty 1x1 cells *)
Definition pad_row (n : nat) (r : list tcell) : list tcell :=
  r ++ repeat ([], false, 1, 1) (n - length r).

Definition enc_element (e : element) : val :=
  match e with
  | EHeading l t => VL [VI 1; vn l; VB t]
  | EPara t | ECode t | EQuote t => VL [VI 0; VB t]
  | EList o its => VL [VI 2; vbool o; VL (map (fun it => VL [vnat (fst it); VB (snd it)]) its)]
  | ETable rows =>
      let n := fold_left (fun a r => Nat.max a (length r)) rows 0%nat in
      VL [VI 3; VL (map (fun r => VL (map enc_cell (pad_row n r))) rows)]
  end.

(* (0 mode body)   document elements for a mode
   (1 xNAME)       class/id pattern *)
Definition run_C19 (v : val) : val :=
  match val_l v with
  | [VI 0; m; body] => VL (map enc_element (extract (val_nat m) (dec_node 200 body)))
  | [VI 1; VB s] => vbool (pattern s)
  | _ => bad_case
  end.
