(* C20 model: format.Detect / DetectFromReader / detectZIPFormat,
   tabula validateFormat acceptance, epubdoc DRM check. *)
From Tabula Require Export base.Val gen.GenFormat.
From Tabula Require Import model.C13_Split.   (* strings.TrimSpace model *)
From Coq Require String.
Import (notations) String.
Open Scope N_scope.

Inductive fmt := FUnknown | FPDF | FDOCX | FODT | FXLSX | FPPTX | FHTML | FEPUB.

Definition fmt_of_name (s : String.string) : fmt :=
  if String.eqb s "PDF" then FPDF else if String.eqb s "DOCX" then FDOCX
  else if String.eqb s "ODT" then FODT else if String.eqb s "XLSX" then FXLSX
  else if String.eqb s "PPTX" then FPPTX else if String.eqb s "HTML" then FHTML
  else if String.eqb s "EPUB" then FEPUB else FUnknown.

Definition fmt_code (f : fmt) : Z :=
  match f with FUnknown => 0 | FPDF => 1 | FDOCX => 2 | FODT => 3 | FXLSX => 4 | FPPTX => 5 | FHTML => 6 | FEPUB => 7 end%Z.

Definition fmt_eqb (a b : fmt) : bool := Z.eqb (fmt_code a) (fmt_code b).

Definition lower (c : N) : N := if (65 <=? c) && (c <=? 90) then c + 32 else c.
Definition upper (c : N) : N := if (97 <=? c) && (c <=? 122) then c - 32 else c.

(* filepath.Ext: from the last dot of the last path element *)
Fixpoint ext_go (s : bytes) (cur : option bytes) : option bytes :=
  match s with
  | [] => cur
  | c :: t => if c =? 47 then ext_go t None
              else if c =? 46 then ext_go t (Some (c :: t))
              else ext_go t cur
  end.
Definition file_ext (name : bytes) : bytes := match ext_go name None with Some e => e | None => [] end.

Fixpoint table_find (k : bytes) (tbl : list (bytes * String.string)) : String.string :=
  match tbl with
  | [] => fmt_ext_default
  | (k', v) :: tbl' => if bytes_eqb k k' then v else table_find k tbl'
  end.

(* format.Detect *)
Definition detect_ext (name : bytes) : fmt := fmt_of_name (table_find (map lower (file_ext name)) fmt_ext_table).

Fixpoint has_prefix (p s : bytes) : bool :=
  match p, s with
  | [], _ => true
  | x :: p', y :: s' => (x =? y) && has_prefix p' s'
  | _ :: _, [] => false
  end.

Fixpoint contains (p s : bytes) : bool :=
  has_prefix p s || match s with [] => false | _ :: s' => contains p s' end.

Definition has_suffix (p s : bytes) : bool := has_prefix (rev p) (rev s).

(* detectHTMLMagic on the first bytes of the file (ASCII upper-casing) *)
Fixpoint skip_hws (s : bytes) : bytes :=
  match s with
  | c :: t => if (c =? 32) || (c =? 9) || (c =? 10) || (c =? 13) then skip_hws t else s
  | [] => []
  end.
Definition html_magic (data : bytes) : bool :=
  let d := map upper (skip_hws data) in
  match d with
  | [] => false
  | _ => has_prefix (bs "<!DOCTYPE HTML") d || has_prefix (bs "<HTML") d ||
         (has_prefix (bs "<?XML") d && contains (bs "<HTML") (firstn 500 d))
  end.

(* a ZIP member: name and content (content matters for mimetype only) *)
Definition member := (bytes * bytes)%type.

Fixpoint mimetype_pass (ms : list member) : option fmt :=
  match ms with
  | [] => None
  | (n, c) :: ms' =>
    if bytes_eqb n (bs "mimetype") then
      let mt := trim_space (firstn 256 c) in
      if contains (bs "application/vnd.oasis.opendocument.text") mt then Some FODT
      else if bytes_eqb mt (bs "application/epub+zip") then Some FEPUB
      else mimetype_pass ms'
    else mimetype_pass ms'
  end.

Definition has_member (n : bytes) (ms : list member) : bool := existsb (fun m => bytes_eqb (fst m) n) ms.

Fixpoint prefix_pass (ms : list member) : fmt :=
  match ms with
  | [] => FUnknown
  | (n, _) :: ms' =>
    if bytes_eqb n (bs "[Content_Types].xml") then prefix_pass ms'
    else if has_prefix (bs "word/") n then FDOCX
    else if has_prefix (bs "xl/") n then FXLSX
    else if has_prefix (bs "ppt/") n then FPPTX
    else prefix_pass ms'
  end.

Definition detect_zip (ms : list member) : fmt :=
  match mimetype_pass ms with
  | Some f => f
  | None =>
    if has_member (bs "META-INF/container.xml") ms then FEPUB
    else if has_member (bs "word/document.xml") ms then FDOCX
    else if has_member (bs "xl/workbook.xml") ms then FXLSX
    else if has_member (bs "ppt/presentation.xml") ms then FPPTX
    else prefix_pass ms
  end.

(* the file as DetectFromReader sees it *)
Inductive content :=
| CBytes (first512 : bytes)     (* any file; a ZIP signature here means an unreadable archive *)
| CZip (ms : list member).      (* a readable ZIP archive with these members, in archive order *)

Definition detect_reader (c : content) : res fmt :=
  match c with
  | CZip ms => Ok (detect_zip ms)
  | CBytes d =>
    if has_prefix [37; 80; 68; 70] d then Ok FPDF
    else if has_prefix [80; 75; 3; 4] d then Err
    else if html_magic d then Ok FHTML else Ok FUnknown
  end.

(* validateFormat: true = accepted to the reader chosen by the extension *)
Definition accepts (name : bytes) (c : content) : bool :=
  match detect_reader c with
  | Ok FUnknown => true
  | Ok f => fmt_eqb f (detect_ext name)
  | _ => false
  end.

(* ---------- DRM *)
Record enc_entry := { e_alg : bytes; e_uri : bytes }.

Definition is_font_obfuscation (a : bytes) : bool :=
  bytes_eqb a (bs "http://www.idpf.org/2008/embedding") || bytes_eqb a (bs "http://ns.adobe.com/pdf/enc#RC") ||
  (contains (bs "adobe.com") a && contains (bs "obfuscation") a) ||
  (contains (bs "idpf.org") a && contains (bs "obfuscation") a).

Definition is_content_file (uri : bytes) : bool :=
  let u := map lower uri in existsb (fun suf => has_suffix suf u) drm_content_suffixes.

Definition entry_is_drm (e : enc_entry) : bool :=
  negb (is_font_obfuscation (e_alg e)) && is_content_file (e_uri e).

(* archive members relevant to DRM, in archive order: a rights file, or an
   encryption file that parses to entries (Some) or does not parse (None) *)
Inductive drm_member := MRights | MEnc (entries : option (list enc_entry)) | MOther.

Fixpoint drm_check (ms : list drm_member) : bool :=   (* true = refused as DRM-protected *)
  match ms with
  | [] => false
  | MRights :: _ => true
  | MEnc None :: _ => true
  | MEnc (Some l) :: ms' => if existsb entry_is_drm l then true else drm_check ms'
  | MOther :: ms' => drm_check ms'
  end.
