From Tabula Require Import model.C20_Format.
Open Scope Z_scope.

Definition dec_content (v : val) : content :=
  match val_l v with
  | [VI 0; VB d] => CBytes d
  | [VI 1; VL ms] => CZip (map (fun m => match val_l m with [VB n; VB c] => (n, c) | _ => ([], []) end) ms)
  | _ => CBytes []
  end.

Definition dec_drm (v : val) : drm_member :=
  match val_l v with
  | [VI 0] => MRights
  | [VI 1] => MEnc None
  | [VI 2; VL es] => MEnc (Some (map (fun e => match val_l e with
                                               | [VB a; VB u] => {| e_alg := a; e_uri := u |}
                                               | _ => {| e_alg := []; e_uri := [] |} end) es))
  | _ => MOther
  end.

(* (0 xNAME)            -> extension format code
   (1 content)          -> detect_reader: (0 code) | (1)
   (2 xNAME content)    -> accepted? 1/0
   (3 (drm_member...))  -> refused as DRM? 1/0 *)
Definition run_C20 (v : val) : val :=
  match val_l v with
  | [VI 0; VB n] => VI (fmt_code (detect_ext n))
  | [VI 1; c] => val_of_res (fun f => VI (fmt_code f)) (detect_reader (dec_content c))
  | [VI 2; VB n; c] => vbool (accepts n (dec_content c))
  | [VI 3; VL ms] => vbool (drm_check (map dec_drm ms))
  | _ => bad_case
  end.
