(* C01: what the page tree shows does not depend on how the tree is laid out. *)
From Tabula Require Import model.C01_Pdf model.C06_Syntax.
From Coq Require Import Lia.
From Coq Require String.
Import (notations) String.
Open Scope Z_scope.

Section ptree_ind2.
  Variable P : ptree -> Prop.
  Hypothesis HL : forall a cs, P (Leaf a cs).
  Hypothesis HN : forall a kids, Forall P kids -> P (Node a kids).
  Fixpoint ptree_ind2 (t : ptree) : P t :=
    match t with
    | Leaf a cs => HL a cs
    | Node a kids =>
        HN a kids ((fix go (l : list ptree) : Forall P l :=
                      match l with
                      | [] => Forall_nil P
                      | k :: r => Forall_cons k (ptree_ind2 k) (go r)
                      end) kids)
    end.
End ptree_ind2.

(* ---------- the page tree ---------- *)

Lemma flatten_node : forall inh a kids,
  flatten inh (Node a kids) = flat_map (flatten (inherit a inh)) kids.
Proof.
  intros inh a kids. cbn [flatten]. induction kids as [|k r IH]; [reflexivity|].
  cbn [flat_map]. rewrite <- IH. reflexivity.
Qed.

Lemma leaves_node : forall a kids, leaves (Node a kids) = fold_right (fun k n => (leaves k + n)%nat) O kids.
Proof. intros a kids. cbn [leaves]. induction kids as [|k r IH]; [reflexivity|]. cbn [fold_right]. rewrite <- IH. reflexivity. Qed.

(* the page count is the number of page leaves, whatever the shape of the tree *)
Theorem page_count_is_the_number_of_leaves : forall t inh, length (flatten inh t) = leaves t.
Proof.
  intros t. induction t as [a cs|a kids IH] using ptree_ind2; intros inh; [reflexivity|].
  rewrite flatten_node, leaves_node.
  induction kids as [|k r IHr]; [reflexivity|].
  cbn [flat_map fold_right]. rewrite app_length. inversion IH as [|? ? Hk Hr]; subst.
  rewrite Hk, IHr by exact Hr. reflexivity.
Qed.

Lemma all_some_length : forall A (l : list (option A)) xs, all_some l = Some xs -> length xs = length l.
Proof.
  intros A l. induction l as [|[x|] r IH]; intros xs H; cbn [all_some] in H; [injection H as <-; reflexivity| |discriminate].
  destruct (all_some r) as [ys|] eqn:E; [|discriminate]. injection H as <-. cbn [length]. rewrite (IH ys eq_refl). reflexivity.
Qed.

Theorem a_document_that_reads_has_one_entry_per_leaf : forall fonts t pages,
  read_document fonts t = Some pages -> length pages = leaves t.
Proof.
  intros fonts t pages H. unfold read_document in H. apply all_some_length in H.
  rewrite H, map_length. apply page_count_is_the_number_of_leaves.
Qed.

(* ---------- inheritance ---------- *)

Lemma over_none_r : forall A (o : option A), over o None = o.
Proof. intros A [x|]; reflexivity. Qed.

Lemma over_assoc : forall A (a b c : option A), over a (over b c) = over (over a b) c.
Proof. intros A [x|] b c; reflexivity. Qed.

Lemma inherit_nothing : forall a, inherit a no_attrs = a.
Proof. intros [b r s]. unfold inherit, no_attrs. cbn. rewrite !over_none_r. reflexivity. Qed.

Lemma inherit_from_nothing : forall a, inherit no_attrs a = a.
Proof. intros [b r s]. reflexivity. Qed.

Lemma inherit_assoc : forall a b c, inherit a (inherit b c) = inherit (inherit a b) c.
Proof. intros a b c. unfold inherit. cbn. rewrite !over_assoc. reflexivity. Qed.

(* a page below a chain of ancestors (outermost first): each attribute is the one
   stated by the page, else by the nearest ancestor that states it *)
Fixpoint below (chain : list attrs) (t : ptree) : ptree :=
  match chain with
  | [] => t
  | a :: r => Node a [below r t]
  end.

Fixpoint nearest {A} (get : attrs -> option A) (chain : list attrs) (outer : option A) : option A :=
  match chain with
  | [] => outer
  | a :: r => nearest get r (over (get a) outer)
  end.

Lemma flatten_below : forall chain inh a cs,
  flatten inh (below chain (Leaf a cs)) = [(inherit a (fold_left (fun acc x => inherit x acc) chain inh), cs)].
Proof.
  intros chain. induction chain as [|x r IH]; intros inh a cs; [reflexivity|].
  cbn [below fold_left]. rewrite flatten_node. cbn [flat_map]. rewrite app_nil_r. apply IH.
Qed.

Lemma nearest_fold : forall A (get : attrs -> option A) (geti : forall x y, get (inherit x y) = over (get x) (get y)) chain inh,
  get (fold_left (fun acc x => inherit x acc) chain inh) = nearest get chain (get inh).
Proof.
  intros A get geti chain. induction chain as [|x r IH]; intros inh; [reflexivity|].
  cbn [fold_left nearest]. rewrite IH, geti. reflexivity.
Qed.

Theorem attributes_come_from_the_nearest_ancestor_that_states_them : forall chain a cs,
  exists eff, flatten no_attrs (below chain (Leaf a cs)) = [(eff, cs)]
    /\ a_box eff = over (a_box a) (nearest a_box chain None)
    /\ a_rot eff = over (a_rot a) (nearest a_rot chain None)
    /\ a_res eff = over (a_res a) (nearest a_res chain None).
Proof.
  intros chain a cs. eexists. split; [apply flatten_below|].
  cbn [inherit a_box a_rot a_res].
  rewrite (nearest_fold _ a_box (fun x y => eq_refl)), (nearest_fold _ a_rot (fun x y => eq_refl)), (nearest_fold _ a_res (fun x y => eq_refl)).
  repeat split.
Qed.

(* ---------- layouts of the same pages ---------- *)

(* every attribute written at the leaves, none above *)
Fixpoint push (inh : attrs) (t : ptree) : ptree :=
  match t with
  | Leaf a cs => Leaf (inherit a inh) cs
  | Node a kids => Node no_attrs (map (push (inherit a inh)) kids)
  end.

Theorem attributes_may_live_at_any_ancestor : forall t inh, flatten inh t = flatten no_attrs (push inh t).
Proof.
  intros t. induction t as [a cs|a kids IH] using ptree_ind2; intros inh.
  - cbn [push flatten]. rewrite inherit_nothing. reflexivity.
  - cbn [push]. rewrite !flatten_node. rewrite inherit_from_nothing.
    induction kids as [|k r IHr]; [reflexivity|].
    inversion IH as [|? ? Hk Hr]; subst. cbn [map flat_map]. rewrite <- Hk, <- IHr by exact Hr. reflexivity.
Qed.

(* the one-level tree with every page spelled out *)
Definition flat_tree (pages : list (attrs * list bytes)) : ptree :=
  Node no_attrs (map (fun p => Leaf (fst p) (snd p)) pages).

Lemma flatten_flat_tree : forall pages, flatten no_attrs (flat_tree pages) = pages.
Proof.
  intros pages. unfold flat_tree. rewrite flatten_node.
  induction pages as [|[a cs] r IH]; [reflexivity|].
  cbn [map flat_map fst snd flatten app]. rewrite IH. rewrite !inherit_nothing. reflexivity.
Qed.

(* nesting: a tree of any depth reads like the flat tree of its pages *)
Theorem tree_shape_does_not_matter : forall fonts t,
  read_document fonts t = read_document fonts (flat_tree (flatten no_attrs t)).
Proof. intros fonts t. unfold read_document. rewrite flatten_flat_tree. reflexivity. Qed.

(* grouping consecutive kids below an intermediate node that states nothing *)
Theorem intermediate_nodes_are_transparent : forall inh a before group after,
  flatten inh (Node a (before ++ Node no_attrs group :: after)) = flatten inh (Node a (before ++ group ++ after)).
Proof.
  intros inh a before group after. rewrite !flatten_node, !flat_map_app. cbn [flat_map].
  rewrite flatten_node, inherit_from_nothing. reflexivity.
Qed.

(* moving an attribute that all kids state alike up to their parent *)
Definition with_box (b : option (list Z)) (a : attrs) : attrs := {| a_box := b; a_rot := a_rot a; a_res := a_res a |}.
Definition with_rot (r : option Z) (a : attrs) : attrs := {| a_box := a_box a; a_rot := r; a_res := a_res a |}.
Definition with_res (s : option (list (bytes * nat))) (a : attrs) : attrs := {| a_box := a_box a; a_rot := a_rot a; a_res := s |}.

Definition node_attrs (t : ptree) : attrs := match t with Leaf a _ => a | Node a _ => a end.
Definition set_attrs (f : attrs -> attrs) (t : ptree) : ptree :=
  match t with Leaf a cs => Leaf (f a) cs | Node a kids => Node (f a) kids end.

Lemma flatten_depends_on_effective : forall t inh inh' f,
  inherit (f (node_attrs t)) inh' = inherit (node_attrs t) inh ->
  flatten inh' (set_attrs f t) = flatten inh t.
Proof.
  intros [a cs|a kids] inh inh' f H; cbn [set_attrs node_attrs] in *.
  - cbn [flatten]. rewrite H. reflexivity.
  - rewrite !flatten_node, H. reflexivity.
Qed.

Theorem a_shared_mediabox_may_move_to_the_parent : forall inh a kids b,
  a_box a = None -> Forall (fun k => a_box (node_attrs k) = Some b) kids ->
  flatten inh (Node a kids) = flatten inh (Node (with_box (Some b) a) (map (set_attrs (with_box None)) kids)).
Proof.
  intros inh a kids b Ha Hk. rewrite !flatten_node.
  induction Hk as [|k r Hb _ IH]; [reflexivity|]. cbn [map flat_map]. rewrite <- IH. f_equal.
  symmetry. apply flatten_depends_on_effective.
  unfold inherit, with_box. cbn. rewrite Hb. reflexivity.
Qed.

Theorem shared_resources_may_move_to_the_parent : forall inh a kids s,
  a_res a = None -> Forall (fun k => a_res (node_attrs k) = Some s) kids ->
  flatten inh (Node a kids) = flatten inh (Node (with_res (Some s) a) (map (set_attrs (with_res None)) kids)).
Proof.
  intros inh a kids s Ha Hk. rewrite !flatten_node.
  induction Hk as [|k r Hb _ IH]; [reflexivity|]. cbn [map flat_map]. rewrite <- IH. f_equal.
  symmetry. apply flatten_depends_on_effective.
  unfold inherit, with_res. cbn. rewrite Hb. reflexivity.
Qed.

Theorem a_shared_rotation_may_move_to_the_parent : forall inh a kids r0,
  a_rot a = None -> Forall (fun k => a_rot (node_attrs k) = Some r0) kids ->
  flatten inh (Node a kids) = flatten inh (Node (with_rot (Some r0) a) (map (set_attrs (with_rot None)) kids)).
Proof.
  intros inh a kids r0 Ha Hk. rewrite !flatten_node.
  induction Hk as [|k r Hb _ IH]; [reflexivity|]. cbn [map flat_map]. rewrite <- IH. f_equal.
  symmetry. apply flatten_depends_on_effective.
  unfold inherit, with_rot. cbn. rewrite Hb. reflexivity.
Qed.

(* ---------- content streams ---------- *)

Lemma join_two : forall c1 c2 r, join_streams (c1 :: c2 :: r) = join_streams ((c1 ++ 10%N :: c2) :: r).
Proof.
  intros c1 c2 r. destruct r as [|c3 r']; [reflexivity|].
  change (join_streams (c1 :: c2 :: c3 :: r')) with (c1 ++ 10%N :: (c2 ++ 10%N :: join_streams (c3 :: r'))).
  change (join_streams ((c1 ++ 10%N :: c2) :: c3 :: r')) with ((c1 ++ 10%N :: c2) ++ 10%N :: join_streams (c3 :: r')).
  rewrite <- app_assoc. reflexivity.
Qed.

(* an array of content streams reads as the one stream of their bytes with white space between *)
Theorem content_streams_read_as_one : forall fonts a c1 c2 r,
  read_page fonts (a, c1 :: c2 :: r) = read_page fonts (a, (c1 ++ 10%N :: c2) :: r).
Proof. intros fonts a c1 c2 r. unfold read_page. rewrite join_two. reflexivity. Qed.

Lemma run_ops_app : forall o1 o2 f,
  run_ops f (o1 ++ o2) =
    (fst (run_ops (fst (run_ops f o1)) o2), snd (run_ops f o1) ++ snd (run_ops (fst (run_ops f o1)) o2)).
Proof.
  induction o1 as [|op r IH]; intros o2 f.
  - cbn [app run_ops fst snd]. destruct (run_ops f o2); reflexivity.
  - cbn [app run_ops]. destruct (step_op f op) as [f' out]. rewrite IH.
    destruct (run_ops f' r) as [f'' rest]. cbn [fst snd].
    destruct (run_ops f'' o2) as [f3 out2]. cbn [fst snd]. rewrite app_assoc. reflexivity.
Qed.

(* the selected font stays selected from one part of the content to the next,
   and the strings come in content order *)
Theorem text_state_carries_over_the_parts_of_the_content : forall fonts a o1 o2,
  page_strings fonts a (o1 ++ o2) =
    page_strings fonts a o1 ++ map (fun fs => shown fonts (a_res a) (fst fs) (snd fs)) (snd (run_ops (fst (run_ops [] o1)) o2)).
Proof. intros fonts a o1 o2. unfold page_strings. rewrite run_ops_app. cbn [snd]. apply map_app. Qed.

(* what an operation shows depends on the font selected before it only *)
Theorem each_string_is_decoded_with_the_font_in_force : forall fonts a ops op,
  page_strings fonts a (ops ++ [op]) =
    page_strings fonts a ops ++
    map (fun s => shown fonts (a_res a) (fst (step_op (fst (run_ops [] ops)) op)) s) (snd (step_op (fst (run_ops [] ops)) op)).
Proof.
  intros fonts a ops op. rewrite text_state_carries_over_the_parts_of_the_content. f_equal.
  cbn [run_ops]. destruct (step_op (fst (run_ops [] ops)) op) as [f' out]. cbn [fst snd].
  rewrite app_nil_r, map_map. reflexivity.
Qed.

Example C01_ex :
  map fst (flatten no_attrs
     (Node {| a_box := Some [0; 0; 612; 792]; a_rot := None; a_res := None |}
        [Node {| a_box := None; a_rot := Some 90; a_res := None |}
           [Leaf no_attrs []; Leaf {| a_box := Some [0; 0; 10; 10]; a_rot := Some 0; a_res := None |} []];
         Leaf no_attrs []]))
  = [ {| a_box := Some [0; 0; 612; 792]; a_rot := Some 90; a_res := None |};
      {| a_box := Some [0; 0; 10; 10]; a_rot := Some 0; a_res := None |};
      {| a_box := Some [0; 0; 612; 792]; a_rot := None; a_res := None |} ].
Proof. reflexivity. Qed.

(* ---------- the tree as indirect objects ---------- *)

Section ntree_ind2.
  Variable P : ntree -> Prop.
  Hypothesis HL : forall i a cs, P (NLeaf i a cs).
  Hypothesis HN : forall i a kids, Forall P kids -> P (NNode i a kids).
  Fixpoint ntree_ind2 (t : ntree) : P t :=
    match t with
    | NLeaf i a cs => HL i a cs
    | NNode i a kids =>
        HN i a kids ((fix go (l : list ntree) : Forall P l :=
                        match l with
                        | [] => Forall_nil P
                        | k :: r => Forall_cons k (ntree_ind2 k) (go r)
                        end) kids)
    end.
End ntree_ind2.

Lemma stored_node : forall st i a kids,
  stored st (NNode i a kids) <-> st i = Some (GPages a (map nid kids)) /\ Forall (stored st) kids.
Proof.
  intros st i a kids. cbn [stored]. split; intros [H1 H2]; split; try exact H1.
  - clear H1. induction kids as [|k r IH]; [constructor|]. destruct H2 as [Hk Hr]. constructor; [exact Hk|apply IH, Hr].
  - clear H1. induction H2 as [|k r Hk _ IH]; [exact I|]. split; [exact Hk|exact IH].
Qed.

(* walking the references (any object numbering, enough depth allowed) reads the tree *)
Theorem following_references_reads_the_tree : forall t st inh fuel,
  stored st t -> (ndepth t <= fuel)%nat ->
  gflatten fuel st inh (nid t) = Some (flatten inh (erase t)).
Proof.
  intros t. induction t as [i a cs|i a kids IH] using ntree_ind2; intros st inh fuel Hs Hd.
  - destruct fuel as [|f]; [cbn in Hd; lia|]. cbn [gflatten nid erase flatten]. cbn [stored] in Hs. rewrite Hs. reflexivity.
  - destruct fuel as [|f]; [cbn in Hd; lia|]. apply stored_node in Hs. destruct Hs as [Hi Hk].
    cbn [gflatten nid]. rewrite Hi. cbn [erase]. rewrite flatten_node.
    cbn [ndepth] in Hd. apply le_S_n in Hd.
    clear Hi. revert IH Hk Hd. generalize (inherit a inh) as inh'. intros inh'.
    induction kids as [|k r IHr]; intros IH Hk Hd; [reflexivity|].
    inversion IH as [|? ? IHk IHrest]; subst. inversion Hk as [|? ? Hsk Hsr]; subst.
    cbn [fold_right] in Hd. cbn [map concat_opt flat_map].
    rewrite (IHk st inh' f Hsk) by lia.
    rewrite (IHr IHrest Hsr) by lia. reflexivity.
Qed.

(* so two files that store the same tree under different numbers read alike *)
Theorem object_numbers_do_not_matter : forall t1 t2 st1 st2 inh f1 f2,
  stored st1 t1 -> stored st2 t2 -> erase t1 = erase t2 ->
  (ndepth t1 <= f1)%nat -> (ndepth t2 <= f2)%nat ->
  gflatten f1 st1 inh (nid t1) = gflatten f2 st2 inh (nid t2).
Proof.
  intros t1 t2 st1 st2 inh f1 f2 H1 H2 He D1 D2.
  rewrite (following_references_reads_the_tree t1 st1 inh f1 H1 D1),
          (following_references_reads_the_tree t2 st2 inh f2 H2 D2), He. reflexivity.
Qed.

Example C01_ex_refs :
  let st := fun n : N => match n with
                         | 7%N => Some (GPages no_attrs [3; 9]%N)
                         | 3%N => Some (GPage no_attrs [])
                         | 9%N => Some (GPages no_attrs [4]%N)
                         | 4%N => Some (GPage no_attrs [])
                         | _ => None
                         end in
  stored st (NNode 7 no_attrs [NLeaf 3 no_attrs []; NNode 9 no_attrs [NLeaf 4 no_attrs []]])
  /\ gflatten 3 st no_attrs 7%N = Some [(no_attrs, []); (no_attrs, [])].
Proof. cbn. repeat split. Qed.

(* ---------- what the lookups answer is all that matters ---------- *)

(* two files whose object lookups answer alike (C04: a lookup answers with the newest
   revision, whatever the history of lookups and the state of the cache) read alike *)
Theorem reading_depends_on_what_the_lookups_answer : forall st1 st2,
  (forall n, st1 n = st2 n) -> forall fuel inh n, gflatten fuel st1 inh n = gflatten fuel st2 inh n.
Proof.
  intros st1 st2 H. induction fuel as [|f IH]; intros inh n; [reflexivity|].
  cbn [gflatten]. rewrite H. destruct (st2 n) as [[a kids|a cs]|]; try reflexivity.
  f_equal. apply map_ext. intros k. apply IH.
Qed.

(* ---------- a page shows what its content says ---------- *)

(* the text part of a logical page: strings shown with a font, by one of the four operators *)
Inductive item := Item (font : bytes) (kind : nat) (strs : list bytes).

Definition kerned (ss : list bytes) : list obj := flat_map (fun s => [OStr s; OInt (-20)]) ss.

Definition item_ops (it : item) : list (bytes * list obj) :=
  match it with
  | Item f k ss =>
      (bytes_of_string "Tf", [OName f; OInt 12]) ::
      match k, ss with
      | O, s :: _ => [(bytes_of_string "Tj", [OStr s])]
      | 1%nat, _ => [(bytes_of_string "TJ", [OArr (kerned ss)])]
      | 2%nat, s :: _ => [(bytes_of_string "TL", [OInt 14]); (bytes_of_string "'", [OStr s])]
      | 3%nat, s :: _ => [(bytes_of_string """", [OInt 0; OInt 0; OStr s])]
      | _, _ => []
      end
  end.

Definition item_font (it : item) : bytes := match it with Item f _ _ => f end.

Definition item_shows (it : item) : list bytes :=
  match it with
  | Item _ 1%nat ss => ss
  | Item _ O (s :: _) | Item _ 2%nat (s :: _) | Item _ 3%nat (s :: _) => [s]
  | _ => []
  end.

Lemma strings_of_kerned : forall ss, strings_of (kerned ss) = ss.
Proof. induction ss as [|s r IH]; [reflexivity|]. cbn [kerned flat_map app strings_of]. fold (kerned r). rewrite IH. reflexivity. Qed.

Lemma run_item : forall it f,
  run_ops f (item_ops it) = (item_font it, map (fun s => (item_font it, s)) (item_shows it)).
Proof.
  intros [fn k ss] f. destruct k as [|[|[|[|k]]]]; destruct ss as [|s r]; try reflexivity.
  cbn [item_ops item_shows item_font].
  assert (E : run_ops f [(bytes_of_string "Tf", [OName fn; OInt 12]); (bytes_of_string "TJ", [OArr (kerned (s :: r))])]
                = (fn, map (fun x => (fn, x)) (strings_of (kerned (s :: r))) ++ [])) by reflexivity.
  rewrite E, app_nil_r, strings_of_kerned. reflexivity.
Qed.

(* the strings of the items, in content order, each decoded with the font its item selects;
   operators that show nothing (graphics state, positioning) may stand anywhere in between *)
Theorem a_page_shows_what_its_content_says : forall fonts a items,
  page_strings fonts a (flat_map item_ops items)
  = flat_map (fun it => map (shown fonts (a_res a) (item_font it)) (item_shows it)) items.
Proof.
  intros fonts a items. unfold page_strings.
  assert (G : forall f, snd (run_ops f (flat_map item_ops items))
                        = flat_map (fun it => map (fun s => (item_font it, s)) (item_shows it)) items).
  { induction items as [|it r IH]; intros f; [reflexivity|].
    cbn [flat_map]. rewrite run_ops_app, run_item. cbn [fst snd]. rewrite IH. reflexivity. }
  rewrite G. clear G. induction items as [|it r IH]; [reflexivity|].
  cbn [flat_map]. rewrite map_app, IH, map_map. reflexivity.
Qed.

Theorem operators_that_are_not_text_showing_show_nothing : forall f o args,
  op_is o "Tf" = false -> op_is o "Tj" = false -> op_is o "'" = false -> op_is o """" = false -> op_is o "TJ" = false ->
  step_op f (o, args) = (f, []).
Proof. intros f o args H1 H2 H3 H4 H5. unfold step_op. rewrite H1, H2, H3, H4, H5. reflexivity. Qed.
