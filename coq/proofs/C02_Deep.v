(* C02, Reader.ResolveDeep: it ends on every object graph - cyclic, with shared
   subtrees, with missing objects -, a successful result holds at most as many
   values as the budget, and it is the expansion of the object. *)
From Tabula Require Import model.C02_Walks model.C02_Deep.
From Coq Require Import Lia.
Open Scope N_scope.

(* the array loop of rdeep, named *)
Definition each_loop (f : nat) (st : dstore) (onpath : list N) :=
  fix each (l : list dobj) (b : nat) (acc : list dobj) : dres * nat :=
    match l with
    | [] => (DOk (DArr (rev acc)), b)
    | x :: r =>
        match rdeep f st onpath b x with
        | (DOk y, b2) => each r b2 (y :: acc)
        | e => e
        end
    end.

Definition expand_with (f : nat) (st : dstore) (b' : nat) (resolved : dobj) (onpath' : list N) : dres * nat :=
  match resolved with
  | DArr l => each_loop f st onpath' l b' []
  | other => (DOk other, b')
  end.

Lemma rdeep_step : forall f st onpath b' o,
  rdeep (S f) st onpath (S b') o =
  match o with
  | DRef n =>
      if mem n onpath then (DErr, b')
      else match dlookup st n with
           | None => (DErr, b')
           | Some r => expand_with f st b' r (n :: onpath)
           end
  | _ => expand_with f st b' o onpath
  end.
Proof. intros. destruct o; reflexivity. Qed.

(* ---------- it ends, and the budget only goes down *)

Lemma rdeep_ends : forall f st onpath b o, (b < f)%nat ->
  fst (rdeep f st onpath b o) <> DOutOfFuel /\ (snd (rdeep f st onpath b o) <= b)%nat.
Proof.
  induction f as [|f IH]; intros st onpath b o Hb; [lia|].
  destruct b as [|b']; [cbn; split; [discriminate|lia]|].
  assert (L : forall onpath' l b acc, (b <= b')%nat ->
            fst (each_loop f st onpath' l b acc) <> DOutOfFuel /\ (snd (each_loop f st onpath' l b acc) <= b')%nat).
  { intros onpath' l. induction l as [|x r IHl]; intros b acc Hle; [cbn; split; [discriminate|exact Hle]|].
    cbn [each_loop]. fold (each_loop f st onpath').
    destruct (IH st onpath' b x ltac:(lia)) as [A B].
    destruct (rdeep f st onpath' b x) as [[y| |] b2] eqn:E; cbn [fst snd] in *.
    - apply IHl. lia.
    - split; [discriminate|lia].
    - contradiction. }
  assert (X : forall r onpath', fst (expand_with f st b' r onpath') <> DOutOfFuel /\ (snd (expand_with f st b' r onpath') <= S b')%nat).
  { intros r onpath'. unfold expand_with. destruct r as [v|m|l]; try (cbn; split; [discriminate|lia]).
    destruct (L onpath' l b' [] (le_n _)) as [A B]. split; [exact A|lia]. }
  rewrite rdeep_step. destruct o as [v|n|l]; try apply X.
  destruct (mem n onpath); [cbn; split; [discriminate|lia]|].
  destruct (dlookup st n); [apply X|cbn; split; [discriminate|lia]].
Qed.

Theorem resolve_deep_always_ends : forall st budget o, resolve_deep st budget o <> DOutOfFuel.
Proof. intros st budget o. unfold resolve_deep. apply rdeep_ends. lia. Qed.

(* ---------- a result holds no more values than the budget *)

Fixpoint lsize (l : list dobj) : nat :=
  match l with [] => 0 | x :: r => dsize x + lsize r end.

Lemma dsize_arr : forall l, dsize (DArr l) = S (lsize l).
Proof. reflexivity. Qed.

Lemma lsize_app : forall a b, lsize (a ++ b) = (lsize a + lsize b)%nat.
Proof. induction a as [|x a IH]; intros b; [reflexivity|]. cbn [app lsize]. rewrite IH. lia. Qed.

Lemma lsize_rev : forall l, lsize (rev l) = lsize l.
Proof. induction l as [|x l IH]; [reflexivity|]. cbn [rev]. rewrite lsize_app, IH. cbn [lsize]. lia. Qed.

Lemma rdeep_size : forall f st onpath b o r b2,
  rdeep f st onpath b o = (DOk r, b2) -> (dsize r + b2 <= b)%nat.
Proof.
  induction f as [|f IH]; intros st onpath b o r b2 H; [discriminate|].
  destruct b as [|b']; [discriminate|].
  assert (L : forall onpath' l b acc r b2, each_loop f st onpath' l b acc = (DOk r, b2) ->
            (dsize r + b2 <= S (lsize acc) + b)%nat).
  { intros onpath' l. induction l as [|x t IHl]; intros b acc r0 b0 E.
    - cbn in E. injection E as <- <-. rewrite dsize_arr, lsize_rev. lia.
    - cbn [each_loop] in E. fold (each_loop f st onpath') in E.
      destruct (rdeep f st onpath' b x) as [[y| |] b3] eqn:Ex; try discriminate.
      apply IH in Ex. apply IHl in E. cbn [lsize] in E. lia. }
  assert (X : forall v onpath', expand_with f st b' v onpath' = (DOk r, b2) -> (dsize r + b2 <= S b')%nat).
  { intros v onpath' E. unfold expand_with in E. destruct v as [v|m|l].
    - injection E as <- <-. cbn. lia.
    - injection E as <- <-. cbn. lia.
    - apply L in E. cbn [lsize] in E. lia. }
  rewrite rdeep_step in H. destruct o as [v|n|l]; try (eapply X; exact H).
  destruct (mem n onpath); [discriminate|]. destruct (dlookup st n); [eapply X; exact H|discriminate].
Qed.

Theorem expanded_values_within_budget : forall st budget o r,
  resolve_deep st budget o = DOk r -> (dsize r <= budget)%nat.
Proof.
  intros st budget o r H. unfold resolve_deep in H.
  destruct (rdeep (S budget) st [] budget o) as [d b2] eqn:E. cbn [fst] in H. subst d.
  apply rdeep_size in E. lia.
Qed.

(* ---------- the result is the expansion of the object *)

(* [expands st o r]: r is o with every reference replaced by the value of the object it names, that
   value expanded in turn; an object whose value is itself a bare reference is left as that reference *)
Inductive expands (st : dstore) : dobj -> dobj -> Prop :=
| E_leaf v : expands st (DLeaf v) (DLeaf v)
| E_arr l l' : Forall2 (expands st) l l' -> expands st (DArr l) (DArr l')
| E_ref_leaf n v : dlookup st n = Some (DLeaf v) -> expands st (DRef n) (DLeaf v)
| E_ref_ref n m : dlookup st n = Some (DRef m) -> expands st (DRef n) (DRef m)
| E_ref_arr n l l' : dlookup st n = Some (DArr l) -> Forall2 (expands st) l l' -> expands st (DRef n) (DArr l').

Lemma rdeep_expands : forall f st onpath b o r b2,
  rdeep f st onpath b o = (DOk r, b2) ->
  match o with
  | DRef _ => expands st o r
  | DLeaf _ => expands st o r
  | DArr _ => expands st o r
  end.
Proof.
  induction f as [|f IH]; intros st onpath b o r b2 H; [discriminate|].
  destruct b as [|b']; [discriminate|].
  assert (L : forall onpath' l b acc l' b2, each_loop f st onpath' l b acc = (DOk (DArr l'), b2) ->
            exists ys, l' = rev acc ++ ys /\ Forall2 (expands st) l ys).
  { intros onpath' l. induction l as [|x t IHl]; intros b acc l' b0 E.
    - cbn in E. injection E as <- <-. exists []. rewrite app_nil_r. split; [reflexivity|constructor].
    - cbn [each_loop] in E. fold (each_loop f st onpath') in E.
      destruct (rdeep f st onpath' b x) as [[y| |] b3] eqn:Ex; try discriminate.
      apply IH in Ex. destruct (IHl _ _ _ _ E) as (ys & -> & F).
      exists (y :: ys). split; [cbn [rev]; rewrite <- app_assoc; reflexivity|].
      constructor; [destruct x; exact Ex|exact F]. }
  assert (LA : forall onpath' l b r b2, each_loop f st onpath' l b [] = (DOk r, b2) ->
            exists l', r = DArr l' /\ Forall2 (expands st) l l').
  { intros onpath' l b0 r0 b3 E.
    assert (exists l', r0 = DArr l') as [l' ->].
    { clear - E. revert b0 E. generalize (@nil dobj). induction l as [|x t IHl]; intros acc b0 E.
      - cbn in E. injection E as <- _. eexists; reflexivity.
      - cbn [each_loop] in E. fold (each_loop f st onpath') in E.
        destruct (rdeep f st onpath' b0 x) as [[y| |] b4]; try discriminate. eapply IHl; exact E. }
    destruct (L _ _ _ _ _ _ E) as (ys & -> & F). exists ys. auto. }
  rewrite rdeep_step in H. destruct o as [v|n|l].
  - cbn in H. injection H as <- _. constructor.
  - destruct (mem n onpath); [discriminate|]. destruct (dlookup st n) as [o'|] eqn:El; [|discriminate].
    unfold expand_with in H. destruct o' as [v|m|l].
    + injection H as <- _. apply E_ref_leaf, El.
    + injection H as <- _. apply E_ref_ref, El.
    + destruct (LA _ _ _ _ _ H) as (l' & -> & F). eapply E_ref_arr; eassumption.
  - unfold expand_with in H. destruct (LA _ _ _ _ _ H) as (l' & -> & F). apply E_arr, F.
Qed.

Theorem a_result_is_the_expansion_of_the_object : forall st budget o r,
  resolve_deep st budget o = DOk r -> expands st o r.
Proof.
  intros st budget o r H. unfold resolve_deep in H.
  destruct (rdeep (S budget) st [] budget o) as [d b2] eqn:E. cbn [fst] in H. subst d.
  apply rdeep_expands in E. destruct o; exact E.
Qed.

(* a page and its parent name each other; a tree of 4 levels whose nodes list the next level ten
   times over has ten thousand leaves: both are reported, not followed; a small shared tree is expanded *)
Definition cyc : dstore := [(1, DArr [DRef 2; DLeaf 7]); (2, DArr [DRef 1])].
Definition bomb : dstore :=
  map (fun k => (N.of_nat k, DArr (repeat (DRef (N.of_nat (S k))) 10))) (seq 1 4) ++ [(5, DLeaf 0)].
Example deep_examples :
  resolve_deep cyc 1000 (DRef 1) = DErr
  /\ resolve_deep bomb 5000 (DRef 1) = DErr
  /\ resolve_deep [(1, DArr [DRef 2; DRef 2]); (2, DArr [DLeaf 5])] 1000 (DArr [DRef 1; DRef 3])  = DErr
  /\ resolve_deep [(1, DArr [DRef 2; DRef 2]); (2, DArr [DLeaf 5])] 1000 (DArr [DRef 1; DLeaf 3])
     = DOk (DArr [DArr [DArr [DLeaf 5]; DArr [DLeaf 5]]; DLeaf 3]).
Proof. repeat split; vm_compute; reflexivity. Qed.
