(* C02: the walks over references end on every graph; the sizes taken from the
   file are bounded by the data before they are used. *)
From Tabula Require Import model.C02_Walks.
From Coq Require Import Lia ZArith.
From Coq Require String.
Import (notations) String.
Open Scope N_scope.

Ltac Zify.zify_post_hook ::= Z.div_mod_to_equations.

(* ---------- unseen elements of a list: the measure of both walks ---------- *)
Definition unseen (universe seen : list N) : nat := length (filter (fun k => negb (mem k seen)) universe).

Lemma mem_in : forall n l, mem n l = true <-> In n l.
Proof.
  intros n l. induction l as [|x r IH]; cbn [mem In]; [split; [discriminate|tauto]|].
  rewrite Bool.orb_true_iff, IH, N.eqb_eq. tauto.
Qed.

Lemma mem_cons_mono : forall k x seen, mem k seen = true -> mem k (x :: seen) = true.
Proof. intros k x seen H. cbn [mem]. rewrite H. apply Bool.orb_true_r. Qed.

Lemma unseen_cons_le : forall universe seen x, (unseen universe (x :: seen) <= unseen universe seen)%nat.
Proof.
  intros universe seen x. unfold unseen. induction universe as [|u r IH]; [cbn; lia|].
  cbn [filter]. destruct (mem u seen) eqn:E.
  - rewrite (mem_cons_mono u x seen E). cbn [negb]. exact IH.
  - cbn [negb]. destruct (mem u (x :: seen)); cbn [negb length]; lia.
Qed.

Lemma unseen_cons_lt : forall universe seen x,
  In x universe -> mem x seen = false -> (unseen universe (x :: seen) < unseen universe seen)%nat.
Proof.
  intros universe seen x Hin Hns. unfold unseen. induction universe as [|u r IH]; [destruct Hin|].
  cbn [filter]. destruct Hin as [->|Hin].
  - assert (Hx : mem x (x :: seen) = true) by (cbn [mem]; rewrite N.eqb_refl; reflexivity).
    rewrite Hns, Hx. cbn [negb length].
    pose proof (unseen_cons_le r seen x) as L. unfold unseen in L. lia.
  - specialize (IH Hin). destruct (mem u seen) eqn:E.
    + rewrite (mem_cons_mono u x seen E). cbn [negb]. exact IH.
    + cbn [negb]. destruct (mem u (x :: seen)); cbn [negb length]; lia.
Qed.

Lemma unseen_incl : forall universe seen seen',
  (forall k, mem k seen = true -> mem k seen' = true) -> (unseen universe seen' <= unseen universe seen)%nat.
Proof.
  intros universe seen seen' H. unfold unseen. induction universe as [|u r IH]; [cbn; lia|].
  cbn [filter]. destruct (mem u seen) eqn:E.
  - rewrite (H u E). cbn [negb]. exact IH.
  - cbn [negb]. destruct (mem u seen'); cbn [negb length]; lia.
Qed.

Lemma filter_length_le : forall A (f : A -> bool) l, (length (filter f l) <= length l)%nat.
Proof. intros A f l. induction l as [|x r IH]; [cbn; lia|]. cbn [filter]. destruct (f x); cbn [length]; lia. Qed.

Lemma unseen_le_length : forall universe seen, (unseen universe seen <= length universe)%nat.
Proof. intros. unfold unseen. apply filter_length_le. Qed.

(* ---------- the /Prev chain ---------- *)

Lemma sec_lookup_in : forall s off p, sec_lookup s off = Some p -> In off (map fst s).
Proof.
  induction s as [|[k q] r IH]; intros off p H; [discriminate|].
  cbn [sec_lookup] in H. cbn [map fst In]. destruct (N.eqb_spec k off) as [->|Hne]; [left; reflexivity|right; eapply IH, H].
Qed.

Lemma chain_fuel : forall fuel s seen cur,
  (unseen (map fst s) seen + 2 <= fuel)%nat -> chain fuel s seen cur <> COutOfFuel.
Proof.
  induction fuel as [|f IH]; intros s seen cur Hf; [lia|].
  cbn [chain]. destruct (sec_lookup s cur) as [[p|]|] eqn:E; try discriminate.
  destruct (mem p seen) eqn:Hm; [discriminate|].
  destruct (sec_lookup s p) as [q|] eqn:Ep.
  - apply IH. pose proof (unseen_cons_lt (map fst s) seen p (sec_lookup_in s p q Ep) Hm). lia.
  - (* nothing can be read at p: the next step stops *)
    destruct f as [|f']; [lia|]. cbn [chain]. rewrite Ep. discriminate.
Qed.

(* whatever the /Prev entries say - loops included - the chain is followed to an
   end within one step per section of the file *)
Theorem the_prev_chain_always_ends : forall s main, chain_all s main <> COutOfFuel.
Proof.
  intros s main. unfold chain_all.
  destruct (sec_lookup s main) as [p|] eqn:E; [|cbn [chain]; rewrite E; discriminate].
  apply chain_fuel. pose proof (sec_lookup_in s main p E) as Hin.
  destruct (mem main []) eqn:Hm; [discriminate|].
  pose proof (unseen_cons_lt (map fst s) [] main Hin Hm) as L.
  pose proof (unseen_le_length (map fst s) []) as L2. rewrite map_length in L2. lia.
Qed.

(* and no section is read twice *)
Lemma chain_nodup : forall fuel s seen cur read,
  NoDup seen -> chain fuel s seen cur = COkN read -> NoDup read.
Proof.
  induction fuel as [|f IH]; intros s seen cur read Hn H; [discriminate|].
  cbn [chain] in H. destruct (sec_lookup s cur) as [[p|]|]; try discriminate.
  - destruct (mem p seen) eqn:Hm; [discriminate|]. eapply IH; [|exact H].
    constructor; [|exact Hn]. intros Hin. apply mem_in in Hin. congruence.
  - injection H as <-. exact Hn.
Qed.

Theorem no_section_is_read_twice : forall s main read, chain_all s main = COkN read -> NoDup read.
Proof.
  intros s main read H. unfold chain_all in H. eapply chain_nodup; [|exact H].
  constructor; [intros []|constructor].
Qed.

(* ---------- the page tree ---------- *)

Lemma walk_nil : forall f st v p, walk (S f) st v [] p = WOk v p.
Proof. reflexivity. Qed.

Lemma walk_cons : forall f st v k r p,
  walk (S f) st v (k :: r) p =
    match lookup st k with
    | None => WErr
    | Some POther => WErr
    | Some PPage => walk (S f) st v r (S p)
    | Some (PPages kk) =>
        if mem k v then WErr
        else match walk f st (k :: v) kk p with
             | WOk v' p' => walk (S f) st v' r p'
             | e => e
             end
    end.
Proof. reflexivity. Qed.

Lemma lookup_pages_in : forall st k kk, lookup st k = Some (PPages kk) -> In k (pages_nodes st).
Proof.
  induction st as [|[n o] r IH]; intros k kk H; [discriminate|].
  cbn [lookup] in H. unfold pages_nodes. cbn [filter snd].
  destruct (N.eqb_spec n k) as [->|Hne].
  - injection H as ->. cbn [map fst]. left. reflexivity.
  - destruct o; cbn [map fst In]; try right; eapply IH, H.
Qed.

Lemma walk_fuel : forall fuel st v ks p,
  (unseen (pages_nodes st) v + 1 <= fuel)%nat ->
  walk fuel st v ks p <> WOutOfFuel /\
  (forall v' p', walk fuel st v ks p = WOk v' p' -> forall k, mem k v = true -> mem k v' = true).
Proof.
  induction fuel as [|f IH]; intros st v ks p Hf; [lia|].
  revert v p Hf. induction ks as [|k r IHr]; intros v p Hf.
  - rewrite walk_nil. split; [discriminate|]. intros v' p' H. injection H as <- <-. auto.
  - rewrite walk_cons. destruct (lookup st k) as [[kk| |]|] eqn:E.
    + destruct (mem k v) eqn:Hm; [split; [discriminate|intros; discriminate]|].
      pose proof (unseen_cons_lt (pages_nodes st) v k (lookup_pages_in st k kk E) Hm) as L.
      destruct (IH st (k :: v) kk p ltac:(lia)) as [Hnf Hmono].
      destruct (walk f st (k :: v) kk p) as [v1 p1| |] eqn:W; [|split; [discriminate|intros; discriminate]|congruence].
      assert (Hinc : forall x, mem x v = true -> mem x v1 = true).
      { intros x Hx. apply (Hmono v1 p1 eq_refl). apply mem_cons_mono, Hx. }
      pose proof (unseen_incl (pages_nodes st) v v1 Hinc) as L2.
      destruct (IHr v1 p1 ltac:(lia)) as [Hnf2 Hmono2]. split; [exact Hnf2|].
      intros v' p' H x Hx. apply (Hmono2 v' p' H). apply Hinc, Hx.
    + apply IHr, Hf.
    + split; [discriminate|intros; discriminate].
    + split; [discriminate|intros; discriminate].
Qed.

(* whatever the /Kids arrays say - cycles, shared subtrees, references to
   anything - flattening the page tree ends, within one level of recursion per
   Pages node of the file *)
Theorem flattening_the_page_tree_always_ends : forall st root, walk_root st root <> WOutOfFuel.
Proof.
  intros st root. unfold walk_root. destruct (lookup st root) as [[kk| |]|]; try discriminate.
  apply walk_fuel. pose proof (unseen_le_length (pages_nodes st) []) as L.
  assert (length (pages_nodes st) <= length st)%nat.
  { unfold pages_nodes. rewrite map_length. apply filter_length_le. }
  lia.
Qed.

(* ---------- no multiplication: the pages found are bounded by the Kids entries read ---------- *)
Definition kids_of (st : pstore) (k : N) : list N :=
  match lookup st k with Some (PPages kk) => kk | _ => [] end.

Definition kidsum (st : pstore) (l : list N) : nat := fold_right (fun k acc => (length (kids_of st k) + acc)%nat) O l.

Lemma kidsum_app : forall st a b, kidsum st (a ++ b) = (kidsum st a + kidsum st b)%nat.
Proof. intros st a b. induction a as [|x r IH]; [reflexivity|]. cbn [app kidsum fold_right] in *. fold (kidsum st (r ++ b)). fold (kidsum st r). lia. Qed.

Lemma walk_bound : forall fuel st v ks p v' p',
  NoDup v -> walk fuel st v ks p = WOk v' p' ->
  exists entered, v' = entered ++ v /\ NoDup v' /\ (p' <= p + length ks + kidsum st entered)%nat.
Proof.
  induction fuel as [|f IH]; intros st v ks p v' p' Hn H; [discriminate|].
  revert v p Hn H. induction ks as [|k r IHr]; intros v p Hn H.
  - rewrite walk_nil in H. injection H as <- <-. exists []. cbn. split; [reflexivity|split; [exact Hn|lia]].
  - rewrite walk_cons in H. destruct (lookup st k) as [[kk| |]|] eqn:E; try discriminate.
    + destruct (mem k v) eqn:Hm; [discriminate|].
      destruct (walk f st (k :: v) kk p) as [v1 p1| |] eqn:W; try discriminate.
      assert (Hn1 : NoDup (k :: v)).
      { constructor; [|exact Hn]. intros Hin. apply mem_in in Hin. congruence. }
      destruct (IH st (k :: v) kk p v1 p1 Hn1 W) as [e1 [Hv1 [Hnd1 Hb1]]].
      destruct (IHr v1 p1 Hnd1 H) as [e2 [Hv2 [Hnd2 Hb2]]].
      exists (e2 ++ e1 ++ [k]). split; [|split; [exact Hnd2|]].
      * rewrite Hv2, Hv1, <- !app_assoc. reflexivity.
      * assert (Hk : length (kids_of st k) = length kk) by (unfold kids_of; rewrite E; reflexivity).
        rewrite !kidsum_app. cbn [kidsum fold_right length]. fold (kidsum st e1). fold (kidsum st e2). lia.
    + destruct (IHr v (S p) Hn H) as [e [Hv [Hnd Hb]]]. exists e. split; [exact Hv|split; [exact Hnd|]]. cbn [length]. lia.
Qed.

(* a shared-subtree bomb cannot multiply the pages: their number is at most the
   number of Kids entries of the root and of the distinct Pages nodes entered *)
Theorem pages_found_are_bounded_by_the_kids_entries_read : forall st root v pages,
  walk_root st root = WOk v pages ->
  NoDup v /\ (pages <= S (length (kids_of st root)) + kidsum st v)%nat.
Proof.
  intros st root v pages H. unfold walk_root in H. destruct (lookup st root) as [[kk| |]|] eqn:E; try discriminate.
  - destruct (walk_bound _ st [] kk O v pages (NoDup_nil N) H) as [e [Hv [Hnd Hb]]].
    rewrite app_nil_r in Hv. subst e. split; [exact Hnd|]. unfold kids_of. rewrite E. lia.
  - injection H as <- <-. split; [constructor|]. cbn. lia.
Qed.

(* ---------- sizes from the file ---------- *)
Open Scope Z_scope.

Theorem accepted_field_widths_are_small_and_not_all_zero : forall w0 w1 w2,
  widths_ok w0 w1 w2 = true -> 0 <= w0 <= 8 /\ 0 <= w1 <= 8 /\ 0 <= w2 <= 8 /\ 1 <= w0 + w1 + w2 <= 24.
Proof. intros w0 w1 w2 H. unfold widths_ok in H. lia. Qed.

Fixpoint entries (idx : list Z) : Z :=
  match idx with
  | _ :: count :: r => count + entries r
  | _ => 0
  end.

Lemma index_entries : forall n idx left row,
  (length idx <= n)%nat -> 0 < row -> 0 <= left -> index_ok idx left row = true ->
  0 <= entries idx /\ entries idx * row <= left.
Proof.
  induction n as [|n IH]; intros idx left row Hl Hrow Hleft H.
  - destruct idx; [cbn; lia|cbn in Hl; lia].
  - destruct idx as [|first [|count r]]; [cbn; lia|discriminate|].
    cbn [index_ok] in H. apply Bool.andb_true_iff in H. destruct H as [Hs Hr].
    unfold subsection_ok in Hs.
    assert (Hc : 0 <= count /\ count * row <= left).
    { split; [lia|]. assert (count <= left / row) by lia. nia. }
    destruct (IH r (left - count * row) row ltac:(cbn in Hl; lia) Hrow ltac:(lia) Hr) as [H1 H2].
    cbn [entries]. lia.
Qed.

(* every accepted /Index: the entries it announces fit in the data, so reading
   them allocates no more than the data holds *)
Theorem accepted_subsections_fit_in_the_data : forall idx left row,
  0 < row -> 0 <= left -> index_ok idx left row = true -> 0 <= entries idx /\ entries idx * row <= left.
Proof. intros idx left row. apply (index_entries (length idx)). lia. Qed.

Theorem accepted_object_stream_headers_have_room_for_their_pairs : forall n first decoded,
  objstm_ok n first decoded = true -> 0 <= n /\ 4 * (n - 1) <= first /\ first <= decoded.
Proof. intros n first decoded H. unfold objstm_ok in H. lia. Qed.

Theorem accepted_worksheet_grids_are_bounded_by_the_cells_present : forall r c p,
  0 <= r -> 0 <= c -> grid_ok r c p = true -> r * (c + 1) <= Z.max 1048576 (256 * p).
Proof. intros r c p Hr Hc H. unfold grid_ok in H. lia. Qed.

Theorem clamped_counts_stay_below_the_limit : forall limit v, clamp limit v <= limit /\ (v <= limit -> clamp limit v = v).
Proof. intros limit v. unfold clamp. destruct (Z.ltb_spec limit v); lia. Qed.

Example C02_ex_cycle :
  walk_root [(2, PPages [3; 4]); (3, PPage); (4, PPages [2; 3])]%N 2%N = WErr
  /\ walk_root [(2, PPages [3; 4; 4]); (3, PPage); (4, PPages [3; 3])]%N 2%N = WErr
  /\ walk_root [(2, PPages [3; 4]); (3, PPage); (4, PPages [3; 3])]%N 2%N = WOk [4%N] 3
  /\ chain_all [(100, Some 50); (50, Some 100)]%N 100%N = CErr
  /\ chain_all [(100, Some 50); (50, None)]%N 100%N = COkN [50; 100]%N.
Proof. repeat split. Qed.
