(* C03: no shared mutable state in the source; with per-call state, histories
   and interleavings cannot matter; map iteration order cannot matter. *)
From Tabula Require Import model.C03_Interference gen.GenGlobals gen.GenMapOrder.
From Coq Require Import Permutation Lia.
From Coq Require String.
Import (notations) String.
Open Scope nat_scope.

(* re-checked against the source on every run: no package-level variable of any
   library package is assigned, incremented, appended to, has an element or field
   written or its address taken outside init *)
Theorem no_package_level_variable_is_written_outside_init : mutable_globals = [].
Proof. reflexivity. Qed.

(* the one package-level value that methods are called on is the table detector
   registry, written only by the exported RegisterDetector *)
Theorem only_the_detector_registry_has_methods_called : globals_with_method_calls = ["tables.globalRegistry"%string].
Proof. reflexivity. Qed.

(* package-level maps, slices and pointers handed on as a whole (whoever holds
   the value can write the shared storage): only the named-encoding tables,
   returned by font.GetEncoding and read by their holders *)
Theorem shared_tables_that_leave_their_package_variable :
  aliased_globals = ["font.MacRomanEncoding (returned)"; "font.PDFDocEncoding (returned)";
                     "font.StandardEncodingTable (returned)"; "font.SymbolEncoding (returned)";
                     "font.WinAnsiEncoding (returned)"; "font.ZapfDingbatsEncoding (returned)"]%string.
Proof. reflexivity. Qed.

(* every loop over a Go map (iteration order is random per loop) that appends to
   a slice which the function does not sort afterwards, builds a string, or
   leaves at the first entry met.  None of the listed ones is on an extraction
   path with more than one candidate entry: debug printing (Dict.String, Keys),
   the detector registry listing, image listing, an error leaving a resolve
   loop, and the EPUB manifest searched for its single NCX / nav item *)
Theorem places_where_map_order_can_show :
  map_order_sinks = ["core.Dict.Keys: append keys"; "core.Dict.String: append parts";
                     "epubdoc.Reader.findNCX: early return"; "epubdoc.Reader.findNavDocument: early return";
                     "reader.Reader.ExtractPageImages: append images"; "reader.Reader.resolveDeep: early return";
                     "resolver.ObjectResolver.resolve: early return"; "tables.DetectorRegistry.List: append names"]%string.
Proof. reflexivity. Qed.

Section Interleaving.
  Variable St : Type.
  Variable step : nat -> St -> St.

  Lemma nth_upd_nth_same : forall (f : St -> St) i (s : list St) d,
    i < length s -> nth i (upd_nth i f s) d = f (nth i s d).
  Proof.
    intros f i s. revert i. induction s as [|x r IH]; intros i d H; [cbn in H; lia|].
    destruct i as [|i]; [reflexivity|]. cbn [upd_nth nth]. apply IH. cbn in H. lia.
  Qed.

  Lemma nth_upd_nth_other : forall (f : St -> St) i j (s : list St) d,
    i <> j -> nth j (upd_nth i f s) d = nth j s d.
  Proof.
    intros f i j s. revert i j. induction s as [|x r IH]; intros i j d H.
    - destruct i; reflexivity.
    - destruct i as [|i], j as [|j]; cbn [upd_nth nth]; try reflexivity; [congruence|]. apply IH. congruence.
  Qed.

  Lemma upd_nth_length : forall (f : St -> St) i (s : list St), length (upd_nth i f s) = length s.
  Proof. intros f i s. revert i. induction s as [|x r IH]; intros [|i]; cbn; auto. Qed.

  Lemma iter_succ : forall k (f : St -> St) x, iter St (S k) f x = f (iter St k f x).
  Proof. induction k as [|k IH]; intros f x; [reflexivity|]. cbn [iter] in *. rewrite <- IH. reflexivity. Qed.

  (* whatever the schedule, extraction i ends in the state it reaches alone after
     the same number of its own steps: the others cannot be observed *)
  Theorem interleaving_cannot_be_observed : forall sched (s : list St) i d,
    i < length s ->
    nth i (run St step sched s) d = iter St (count i sched) (step i) (nth i s d).
  Proof.
    intros sched. induction sched as [|j r IH] using rev_ind; intros s i d Hi; [reflexivity|].
    unfold run, count in *. rewrite fold_left_app, filter_app, app_length. cbn [fold_left filter].
    fold (run St step r s).
    assert (Hl : length (run St step r s) = length s).
    { clear. revert s. induction r as [|a r IHr]; intros s; [reflexivity|].
      unfold run. cbn [fold_left]. fold (run St step r (step_at St step a s)). rewrite IHr.
      apply upd_nth_length. }
    unfold step_at. destruct (Nat.eqb_spec i j) as [->|Hne].
    - rewrite nth_upd_nth_same by (rewrite Hl; exact Hi). cbn [length]. rewrite Nat.add_1_r, iter_succ.
      f_equal. apply IH, Hi.
    - rewrite nth_upd_nth_other by congruence. cbn [length]. rewrite Nat.add_0_r. apply IH, Hi.
  Qed.

  (* in particular running alone and running among others give the same result *)
  Corollary alone_or_among_others : forall sched (s : list St) i d,
    i < length s ->
    nth i (run St step sched s) d = nth i (run St step (filter (Nat.eqb i) sched) s) d.
  Proof.
    intros sched s i d Hi. rewrite !interleaving_cannot_be_observed by exact Hi.
    unfold count. f_equal. f_equal.
    assert (F : forall l, filter (Nat.eqb i) (filter (Nat.eqb i) l) = filter (Nat.eqb i) l).
    { intros l. induction l as [|a r IH]; [reflexivity|]. cbn [filter].
      destruct (Nat.eqb i a) eqn:E; [cbn [filter]; rewrite E, IH; reflexivity|exact IH]. }
    symmetry. apply F.
  Qed.
End Interleaving.

(* earlier calls leave nothing behind: a process has state [G] that outlives a
   call; a call that never writes it (what the scan of the source establishes:
   no package-level variable is written outside init) answers after any
   history as it does in a fresh process *)
Theorem history_cannot_be_observed : forall (G In Out : Type) (call : G -> In -> Out * G),
  (forall g x, snd (call g x) = g) ->
  forall (g0 : G) (history : list In) (x : In),
    fst (call (fold_left (fun g y => snd (call g y)) history g0) x) = fst (call g0 x).
Proof.
  intros G In Out call Hframe g0 history x. f_equal. f_equal.
  induction history as [|y r IH] using rev_ind; [reflexivity|].
  rewrite fold_left_app. cbn [fold_left]. rewrite Hframe. exact IH.
Qed.

(* and the same call twice gives the same answer *)
Corollary repeated_calls_agree : forall (G In Out : Type) (call : G -> In -> Out * G),
  (forall g x, snd (call g x) = g) ->
  forall g0 x, fst (call (snd (call g0 x)) x) = fst (call g0 x).
Proof. intros G In Out call Hframe g0 x. rewrite Hframe. reflexivity. Qed.

(* ---------- map iteration order ---------- *)

Lemma lookup_insert_all : forall A (entries acc : list (nat * A)) k,
  lookup_key k (fold_left (fun a e => e :: a) entries acc)
  = match lookup_key k (rev entries) with Some v => Some v | None => lookup_key k acc end.
Proof.
  intros A entries. induction entries as [|[k' v] r IH]; intros acc k; [reflexivity|].
  cbn [fold_left rev]. rewrite IH. clear IH.
  assert (L : forall l1 l2 : list (nat * A), lookup_key k (l1 ++ l2) = match lookup_key k l1 with Some x => Some x | None => lookup_key k l2 end).
  { induction l1 as [|[a b] l1 IHl]; intros l2; [reflexivity|]. cbn [app lookup_key]. destruct (Nat.eqb k a); [reflexivity|apply IHl]. }
  rewrite L. cbn [lookup_key]. destruct (lookup_key k (rev r)); [reflexivity|]. destruct (Nat.eqb k k'); reflexivity.
Qed.

Lemma lookup_perm_nodup : forall A (l l' : list (nat * A)) k,
  Permutation l l' -> NoDup (map fst l) -> lookup_key k l = lookup_key k l'.
Proof.
  intros A l l' k P. induction P as [|[a b] l l' P IH|[a b] [c d] l|l l' l'' P1 IH1 P2 IH2]; intros Hn.
  - reflexivity.
  - cbn [lookup_key]. destruct (Nat.eqb k a); [reflexivity|]. apply IH. inversion Hn; assumption.
  - cbn [lookup_key]. destruct (Nat.eqb_spec k c), (Nat.eqb_spec k a); try reflexivity.
    subst. exfalso. cbn [map fst] in Hn. inversion Hn as [|? ? Hni _]; subst. apply Hni. left. reflexivity.
  - rewrite IH1 by exact Hn. apply IH2.
    eapply Permutation_NoDup; [apply Permutation_map, P1|exact Hn].
Qed.

(* a registry filled by ranging over a map (fonts by resource name, columns by
   key, metadata by field) holds the same value for every key whatever order
   the map was iterated in *)
Theorem map_iteration_order_cannot_be_observed : forall A (entries entries' : list (nat * A)) k,
  Permutation entries entries' -> NoDup (map fst entries) ->
  lookup_key k (insert_all entries) = lookup_key k (insert_all entries').
Proof.
  intros A entries entries' k P Hn. unfold insert_all. rewrite !lookup_insert_all.
  rewrite (lookup_perm_nodup A (rev entries) (rev entries') k).
  - reflexivity.
  - eapply perm_trans; [apply Permutation_sym, Permutation_rev|]. eapply perm_trans; [exact P|apply Permutation_rev].
  - rewrite map_rev. apply NoDup_rev, Hn.
Qed.

Example interleaving_example :
  nth 1 (run nat (fun i x => x + S i) [0; 1; 0; 1; 2; 1] [10; 20; 30]) 0 = 26
  /\ nth 1 (run nat (fun i x => x + S i) [1; 1; 1] [10; 20; 30]) 0 = 26.
Proof. split; reflexivity. Qed.
