(* C04: the merged table answers with the newest revision; the object cache is
   transparent, so answers do not depend on the order of lookups, on repeats or
   on cache clears; field codec of cross-reference streams. *)
From Tabula Require Import model.C04_Xref.
From Coq Require Import Lia.
Open Scope Z_scope.

(* ---------- the merged table ---------- *)

(* the entry of n in one section: the last one written for n *)
Definition in_section (n : Z) (s : section) : option entry := lookup n (rev s).

(* newest first: the first revision (from the newest) that mentions n decides *)
Fixpoint newest_entry (n : Z) (newest_first : list section) : option entry :=
  match newest_first with
  | [] => None
  | s :: older => match in_section n s with Some e => Some e | None => newest_entry n older end
  end.

Lemma lookup_app : forall A n (a b : list (Z * A)),
  lookup n (a ++ b) = match lookup n a with Some v => Some v | None => lookup n b end.
Proof.
  intros A n a. induction a as [|[k v] r IH]; intros b; [reflexivity|].
  cbn [app lookup]. destruct (k =? n); [reflexivity|apply IH].
Qed.

(* looking an object number up in the merged table yields the entry of the
   newest revision that mentions it, whatever the older revisions say *)
Theorem merged_table_answers_with_the_newest_revision : forall secs n,
  lookup n (merged secs) = newest_entry n (rev secs).
Proof.
  intros secs n. unfold merged. induction secs as [|s r IH] using rev_ind; [reflexivity|].
  rewrite concat_app. cbn [concat]. rewrite app_nil_r, !rev_app_distr, lookup_app.
  cbn [rev app newest_entry]. unfold in_section. rewrite IH. reflexivity.
Qed.

Corollary a_later_revision_overrides : forall older s n e,
  in_section n s = Some e -> lookup n (merged (older ++ [s])) = Some e.
Proof.
  intros older s n e H. rewrite merged_table_answers_with_the_newest_revision, rev_app_distr.
  cbn [rev app newest_entry]. rewrite H. reflexivity.
Qed.

Corollary an_untouched_object_keeps_its_entry : forall older s n,
  in_section n s = None -> lookup n (merged (older ++ [s])) = lookup n (merged older).
Proof.
  intros older s n H. rewrite !merged_table_answers_with_the_newest_revision, rev_app_distr.
  cbn [rev app newest_entry]. rewrite H. reflexivity.
Qed.

(* ---------- free and missing entries ---------- *)

Theorem free_or_missing_is_an_error : forall T F n,
  (lookup n T = None \/ lookup n T = Some EFree) -> fresh T F n = RErr.
Proof. intros T F n [H|H]; unfold fresh, get_with; rewrite H; reflexivity. Qed.

Theorem plain_object_is_found : forall T F n off tok i,
  lookup n T = Some (EAt off) -> lookup off F = Some (n, CVal tok i) -> fresh T F n = ROk tok i.
Proof.
  intros T F n off tok i H1 H2. unfold fresh, get_with, read_at. rewrite H1, H2, Z.eqb_refl. reflexivity.
Qed.

Theorem packed_object_is_found : forall T F n stm idx off ms tok i,
  lookup n T = Some (EIn stm idx) -> lookup stm T = Some (EAt off) ->
  lookup off F = Some (stm, CStm ms) -> nth_error ms idx = Some (n, tok, i) ->
  fresh T F n = ROk tok i.
Proof.
  intros T F n stm idx off ms tok i H1 H2 H3 H4.
  unfold fresh, get_with, load_stm. rewrite H1, H2, H3, Z.eqb_refl, H4, Z.eqb_refl. reflexivity.
Qed.

Theorem number_mismatch_is_an_error : forall T F n stm idx off ms m tok i,
  lookup n T = Some (EIn stm idx) -> lookup stm T = Some (EAt off) ->
  lookup off F = Some (stm, CStm ms) -> nth_error ms idx = Some (m, tok, i) -> m <> n ->
  fresh T F n = RErr.
Proof.
  intros T F n stm idx off ms m tok i H1 H2 H3 H4 Hm.
  unfold fresh, get_with, load_stm. rewrite H1, H2, H3, Z.eqb_refl, H4.
  destruct (Z.eqb_spec m n); [contradiction|reflexivity].
Qed.

(* ---------- the cache is transparent ---------- *)

Definition sound0 (T : list (Z * entry)) (F : file) (c : cache) : Prop :=
  forall n t i, lookup n c = Some (t, i) -> get0 T F n = ROk t i \/ fresh T F n = ROk t i.

(* what is cached for n is what a fresh lookup of n returns *)
Definition sound (T : list (Z * entry)) (F : file) (c : cache) : Prop :=
  forall n t i, lookup n c = Some (t, i) -> fresh T F n = ROk t i.

(* a lookup that succeeds without looking at any length object gives the same
   answer when lengths can be resolved *)
Lemma get0_ok_fresh : forall T F n t i, get0 T F n = ROk t i -> fresh T F n = ROk t i.
Proof.
  intros T F n t i H. unfold get0, fresh, get_with in *.
  destruct (lookup n T) as [[|off|stm idx]|]; try exact H.
  - unfold read_at in *. destruct (lookup off F) as [[num c]|]; [|exact H].
    destruct c as [tok j|tok [l|]|ms]; try exact H. discriminate.
  - unfold load_stm in *. destruct (lookup stm T) as [[|off|s2 i2]|]; try exact H.
    destruct (lookup off F) as [[num c]|]; [|exact H].
    destruct c as [tok j|tok [l|]|ms]; try exact H. discriminate.
Qed.

Lemma put_sound : forall T F c n r, sound T F c -> fresh T F n = r -> sound T F (put c n r).
Proof.
  intros T F c n r Hs Hr. destruct r as [t i| |]; cbn [put]; try exact Hs.
  intros m t' i' H. cbn [lookup] in H. destruct (Z.eqb_spec n m) as [->|].
  - injection H as <- <-. exact Hr.
  - apply Hs, H.
Qed.

Lemma get0_cached_spec : forall T F c l, sound T F c ->
  sound T F (snd (get0_cached T F c l))
  /\ (forall t i, fst (get0_cached T F c l) = ROk t i -> fresh T F l = ROk t i)
  /\ (of_cache c l = None -> fst (get0_cached T F c l) = get0 T F l).
Proof.
  intros T F c l Hs. unfold get0_cached, of_cache.
  destruct (lookup l c) as [[t i]|] eqn:E; cbn [fst snd].
  - split; [exact Hs|]. split; [|discriminate]. intros t' i' H. injection H as <- <-. apply Hs, E.
  - split.
    + destruct (get0 T F l) as [t i| |] eqn:G; try exact Hs.
      apply (put_sound T F c l (ROk t i)); [exact Hs|apply get0_ok_fresh, G].
    + split; [intros t i H; apply get0_ok_fresh, H|reflexivity].
Qed.

(* the result of a lookup that resolves its length through the cache is the
   result of a fresh lookup, provided the fresh lookup of that length is an
   integer exactly when the cached one is *)
Definition used_as_length (F : file) (l : Z) : Prop :=
  exists off num tok, lookup off F = Some (num, CStream tok (Some l)).

(* the objects that streams name as their /Length are not themselves streams
   with an indirect length (the implementation would recurse; the model stops) *)
Definition lengths_ok (T : list (Z * entry)) (F : file) : Prop :=
  forall l, used_as_length F l -> forall t i, fresh T F l = ROk t i -> get0 T F l = ROk t i.

Lemma get_with_cached_resolver : forall T F c n, sound T F c -> lengths_ok T F ->
  get_with T F (fun l => fst (get0_cached T F c l)) n = fresh T F n.
Proof.
  intros T F c n Hs Hl. unfold fresh.
  assert (R : forall l, used_as_length F l -> fst (get0_cached T F c l) = get0 T F l).
  { intros l Hu. unfold get0_cached, of_cache. destruct (lookup l c) as [[t i]|] eqn:E; [|reflexivity].
    cbn [fst]. symmetry. apply (Hl l Hu), Hs, E. }
  unfold get_with. destruct (lookup n T) as [[|off|stm idx]|]; try reflexivity.
  - unfold read_at. destruct (lookup off F) as [[num cc]|] eqn:Eo; [|reflexivity].
    destruct cc as [tok j|tok [l|]|ms]; try reflexivity.
    rewrite R by (exists off, num, tok; exact Eo). reflexivity.
  - unfold load_stm. destruct (lookup stm T) as [[|off|s2 i2]|]; try reflexivity.
    destruct (lookup off F) as [[num cc]|] eqn:Eo; [|reflexivity].
    destruct cc as [tok j|tok [l|]|ms]; try reflexivity.
    rewrite R by (exists off, num, tok; exact Eo). reflexivity.
Qed.

Lemma get_cached_spec : forall T F c n, sound T F c -> lengths_ok T F ->
  fst (get_cached T F c n) = fresh T F n /\ sound T F (snd (get_cached T F c n)).
Proof.
  intros T F c n Hs Hl. unfold get_cached, of_cache.
  destruct (lookup n c) as [[t i]|] eqn:E; cbn [fst snd].
  - split; [symmetry; apply Hs, E|exact Hs].
  - rewrite get_with_cached_resolver by assumption. split; [reflexivity|].
    apply put_sound; [|reflexivity].
    destruct (nested_ref T F n) as [l|]; [|exact Hs].
    apply (get0_cached_spec T F c l Hs).
Qed.

(* whatever was looked up before, in whatever order, with repeats and cache
   clears in between: every lookup answers what a fresh reader would answer *)
Theorem lookups_do_not_depend_on_history : forall T F ops c,
  lengths_ok T F -> sound T F c ->
  run T F c ops = concat (map (fun o => match o with Get n => [fresh T F n] | Clear => [] end) ops).
Proof.
  intros T F ops. induction ops as [|o r IH]; intros c Hl Hs; [reflexivity|].
  destruct o as [n|]; cbn [run map concat app].
  - destruct (get_cached_spec T F c n Hs Hl) as [A B].
    destruct (get_cached T F c n) as [res c']. cbn [fst snd] in *. rewrite A. f_equal. apply IH; assumption.
  - apply IH; [exact Hl|]. intros n t i H. discriminate.
Qed.

Corollary a_new_reader_answers_with_fresh_lookups : forall T F ops,
  lengths_ok T F ->
  run T F [] ops = concat (map (fun o => match o with Get n => [fresh T F n] | Clear => [] end) ops).
Proof. intros T F ops Hl. apply lookups_do_not_depend_on_history; [exact Hl|]. intros n t i H. discriminate. Qed.

(* ---------- cross-reference stream fields ---------- *)

Lemma be_int_app : forall a b acc, be_int (a ++ b) acc = be_int b (be_int a acc).
Proof. induction a as [|x a IH]; intros b acc; [reflexivity|]. cbn [app be_int]. apply IH. Qed.

Lemma be_bytes_length : forall w v, length (be_bytes w v) = w.
Proof. induction w as [|w IH]; intros v; [reflexivity|]. cbn [be_bytes]. rewrite app_length, IH. cbn. lia. Qed.

(* a field of any width reads back as the value written, most significant byte first *)
Theorem field_round_trip : forall w v, 0 <= v < 256 ^ Z.of_nat w -> be_int (be_bytes w v) 0 = v.
Proof.
  induction w as [|w IH]; intros v Hv.
  - cbn in *. lia.
  - cbn [be_bytes]. rewrite be_int_app. cbn [be_int].
    rewrite Nat2Z.inj_succ, Z.pow_succ_r in Hv by lia.
    rewrite IH by (split; [apply Z.div_pos; lia|apply Z.div_lt_upper_bound; lia]).
    rewrite Z2N.id by (apply Z.mod_pos_bound; lia).
    pose proof (Z.div_mod v 256 ltac:(lia)). lia.
Qed.

Lemma firstn_len : forall A n (a b : list A), length a = n -> firstn n (a ++ b) = a.
Proof. intros A n a b <-. rewrite firstn_app, Nat.sub_diag, firstn_all. cbn. apply app_nil_r. Qed.

Lemma skipn_len : forall A n (a b : list A), length a = n -> skipn n (a ++ b) = b.
Proof. intros A n a b <-. rewrite skipn_app, Nat.sub_diag, skipn_all. reflexivity. Qed.

(* an entry written with widths w0 w1 w2 (type, field 1, field 2) reads back;
   with a zero-width type field the type is 1 *)
Theorem stream_entry_round_trip : forall w0 w1 w2 ty f1 f2 rest,
  (0 < w0)%nat -> 0 <= ty < 256 ^ Z.of_nat w0 -> 0 <= f1 < 256 ^ Z.of_nat w1 -> 0 <= f2 < 256 ^ Z.of_nat w2 ->
  stream_entry w0 w1 w2 (be_bytes w0 ty ++ be_bytes w1 f1 ++ be_bytes w2 f2 ++ rest)
  = if ty =? 0 then Some EFree else if ty =? 1 then Some (EAt f1)
    else if ty =? 2 then Some (EIn f1 (Z.to_nat f2)) else None.
Proof.
  intros w0 w1 w2 ty f1 f2 rest Hw Ht H1 H2. unfold stream_entry.
  destruct (Nat.eqb_spec w0 0); [lia|].
  rewrite (firstn_len _ w0) by apply be_bytes_length.
  rewrite (skipn_len _ w0) by apply be_bytes_length.
  rewrite (firstn_len _ w1) by apply be_bytes_length.
  rewrite app_assoc, (skipn_len _ (w0 + w1)) by (rewrite app_length, !be_bytes_length; reflexivity).
  rewrite (firstn_len _ w2) by apply be_bytes_length.
  rewrite !field_round_trip by assumption. reflexivity.
Qed.

Theorem stream_entry_default_type : forall w1 w2 f1 f2 rest,
  0 <= f1 < 256 ^ Z.of_nat w1 ->
  stream_entry 0 w1 w2 (be_bytes w1 f1 ++ be_bytes w2 f2 ++ rest) = Some (EAt f1).
Proof.
  intros w1 w2 f1 f2 rest H1. unfold stream_entry. cbn [Nat.eqb firstn skipn Nat.add].
  rewrite (firstn_len _ w1) by apply be_bytes_length. rewrite field_round_trip by assumption. reflexivity.
Qed.

(* two revisions: object 1 replaced, object 2 deleted, object 3 moved into an object stream *)
Example history_example :
  let r0 := [(0, EFree); (1, EAt 15); (2, EAt 40); (3, EAt 70)] in
  let r1 := [(1, EAt 200); (2, EFree); (3, EIn 9 0); (9, EAt 300)] in
  let F := [(15, (1, CVal 101 false)); (40, (2, CVal 102 true)); (70, (3, CVal 103 false));
            (200, (1, CStream 201 (Some 5))); (300, (9, CStm [(3, 203, false)]))] in
  run (merged [r0; r1]) F [] [Get 3; Get 2; Get 1; Clear; Get 3; Get 7]
  = [ROk 203 false; RErr; RErr; ROk 203 false; RErr].
Proof. reflexivity. Qed.
