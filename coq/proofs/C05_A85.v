(* ASCII85: decode inverts every legal spelling of a conforming encoding;
   oversized groups, lone digits and foreign characters are errors. *)
From Tabula Require Import base.Val base.ByteFacts model.C05_Filters proofs.C05_Hex.
From Coq Require Import Lia ZifyN ZifyNat ZifyBool.
Ltac Zify.zify_post_hook ::= Z.div_mod_to_equations.
Open Scope N_scope.

(* ---------- spec: the encoder side *)
Definition a85_digits (v : N) : list N :=
  [v / 52200625; (v / 614125) mod 85; (v / 7225) mod 85; (v / 85) mod 85; v mod 85].

Definition val4 (a b c d : N) : N := a * 16777216 + b * 65536 + c * 256 + d.

(* value of a final partial group of 1..3 bytes, zero padded *)
Definition valpad (g : bytes) : N :=
  match g with
  | [a] => val4 a 0 0 0
  | [a; b] => val4 a b 0 0
  | [a; b; c] => val4 a b c 0
  | _ => 0
  end.

Inductive a85_tail : bytes -> Prop :=
| AT_none w : ws_run w -> a85_tail w
| AT_eod w rest : ws_run w -> a85_tail (w ++ 126 :: 62 :: rest).

(* digits written as characters d+33 with optional whitespace before each *)
Inductive digits_spelled : list N -> bytes -> Prop :=
| DS_nil : digits_spelled [] []
| DS_cons d ds w s : ws_run w -> digits_spelled ds s -> digits_spelled (d :: ds) (w ++ (d + 33) :: s).

Inductive a85_spelled : bytes -> bytes -> Prop :=
| AS_end t : a85_tail t -> a85_spelled [] t
| AS_full a b c d x s1 s :
    digits_spelled (a85_digits (val4 a b c d)) s1 -> a85_spelled x s ->
    a85_spelled (a :: b :: c :: d :: x) (s1 ++ s)
| AS_z x w s : ws_run w -> a85_spelled x s -> a85_spelled (0 :: 0 :: 0 :: 0 :: x) (w ++ 122 :: s)
| AS_part g s1 t :
    (1 <= length g <= 3)%nat ->
    digits_spelled (firstn (S (length g)) (a85_digits (valpad g))) s1 -> a85_tail t ->
    a85_spelled g (s1 ++ t).

(* ---------- character facts over the regenerated whitespace class *)
Definition a85fact (c : N) : bool :=
  if (33 <=? c) && (c <=? 117) then negb (flt_is_ws c) else true.
Lemma a85fact_all : forallb a85fact all_bytes = true.
Proof. vm_compute. reflexivity. Qed.
Lemma digit_not_ws d : d < 85 -> flt_is_ws (d + 33) = false.
Proof.
  intro H. assert (d + 33 < 256) as Hc by lia.
  pose proof (byte_forall _ a85fact_all _ Hc) as A. unfold a85fact in A.
  replace ((33 <=? d + 33) && (d + 33 <=? 117)) with true in A by (symmetry; apply andb_true_iff; split; apply N.leb_le; lia).
  apply negb_true_iff in A. exact A.
Qed.
Lemma tilde_not_ws : flt_is_ws 126 = false. Proof. vm_compute. reflexivity. Qed.
Lemma z_not_ws : flt_is_ws 122 = false. Proof. vm_compute. reflexivity. Qed.

(* ---------- decoder steps *)
Lemma a85_skip_ws w s ds acc : ws_run w -> a85_go (w ++ s) ds acc = a85_go s ds acc.
Proof.
  induction w as [|c w IH]; intro H; cbn [a85_go app]; [reflexivity|].
  inversion H as [|? ? Hc Hw]; subst. rewrite Hc. apply IH. exact Hw.
Qed.

Definition after_group (r : res bytes) (k : bytes -> res bytes) : res bytes :=
  match r with Ok g => k g | Err => Err | Panic => Panic | Diverge => Diverge end.

Lemma a85_digit_step d t ds acc : d < 85 ->
  a85_go ((d + 33) :: t) ds acc =
  if Nat.eqb (length (ds ++ [d])) 5
  then after_group (a85_group (ds ++ [d])) (fun g => a85_go t [] (acc ++ g))
  else a85_go t (ds ++ [d]) acc.
Proof.
  intro H. cbn [a85_go]. rewrite (digit_not_ws d H).
  replace (d + 33 =? 126) with false by (symmetry; apply N.eqb_neq; lia).
  replace (d + 33 =? 122) with false by (symmetry; apply N.eqb_neq; lia).
  cbn [andb].
  replace (d + 33 <? 33) with false by (symmetry; apply N.ltb_ge; lia).
  replace (117 <? d + 33) with false by (symmetry; apply N.ltb_ge; lia).
  cbn [orb]. replace (d + 33 - 33) with d by lia.
  destruct (Nat.eqb (length (ds ++ [d])) 5); [|reflexivity].
  unfold after_group. destruct (a85_group (ds ++ [d])); reflexivity.
Qed.

Lemma a85_digits_run dl : forall s1 s ds acc,
  digits_spelled dl s1 -> Forall (fun d => d < 85) dl ->
  (length ds < 5)%nat -> (length ds + length dl <= 5)%nat ->
  a85_go (s1 ++ s) ds acc =
  if Nat.eqb (length (ds ++ dl)) 5
  then after_group (a85_group (ds ++ dl)) (fun g => a85_go s [] (acc ++ g))
  else a85_go s (ds ++ dl) acc.
Proof.
  induction dl as [|d dl IH]; intros s1 s ds acc Hsp Hd Hlt Hle.
  - inversion Hsp; subst. rewrite app_nil_r. cbn [app].
    replace (Nat.eqb (length ds) 5) with false by (symmetry; apply Nat.eqb_neq; lia). reflexivity.
  - inversion Hsp as [|? ? w s' Hw Hsp']; subst. inversion Hd as [|? ? Hd1 Hd2]; subst.
    rewrite <- app_assoc. rewrite a85_skip_ws by exact Hw.
    cbn [app]. rewrite a85_digit_step by exact Hd1.
    cbn [length] in Hle.
    destruct (Nat.eqb (length (ds ++ [d])) 5) eqn:E.
    + apply Nat.eqb_eq in E. rewrite app_length in E. cbn [length] in E.
      assert (dl = []) as -> by (destruct dl; [reflexivity | cbn [length] in Hle; lia]).
      inversion Hsp'; subst. cbn [app].
      replace (Nat.eqb (length (ds ++ [d])) 5) with true by (symmetry; apply Nat.eqb_eq; rewrite app_length; cbn [length]; lia).
      reflexivity.
    + apply Nat.eqb_neq in E. rewrite app_length in E. cbn [length] in E.
      rewrite (IH s' s (ds ++ [d]) acc Hsp' Hd2).
      * rewrite <- app_assoc. reflexivity.
      * rewrite app_length. cbn [length]. lia.
      * rewrite app_length. cbn [length]. lia.
Qed.

Lemma a85_tail_finish t ds acc : a85_tail t ->
  a85_go t ds acc = res_map (fun g => acc ++ g) (a85_group ds).
Proof.
  intros [w Hw | w rest Hw].
  - rewrite <- (app_nil_r w). rewrite a85_skip_ws by exact Hw. reflexivity.
  - rewrite a85_skip_ws by exact Hw. cbn [a85_go]. rewrite tilde_not_ws.
    rewrite !N.eqb_refl. reflexivity.
Qed.

(* ---------- arithmetic of groups *)
Lemma a85_digits_lt v : v < 4294967296 -> Forall (fun d => d < 85) (a85_digits v).
Proof. intro H. unfold a85_digits. repeat constructor; lia. Qed.

Lemma a85_value_digits v : a85_value (a85_digits v) = v.
Proof. unfold a85_value, a85_digits. cbn [fold_left]. lia. Qed.

Lemma be_bytes_val4 a b c d : a < 256 -> b < 256 -> c < 256 -> d < 256 ->
  be_bytes (val4 a b c d) 4 = [a; b; c; d].
Proof.
  intros. unfold be_bytes, val4. cbn [firstn].
  repeat f_equal; lia.
Qed.

Lemma a85_group_full a b c d : a < 256 -> b < 256 -> c < 256 -> d < 256 ->
  a85_group (a85_digits (val4 a b c d)) = Ok [a; b; c; d].
Proof.
  intros Ha Hb Hc Hd.
  assert (val4 a b c d < 4294967296) as Hv by (unfold val4; lia).
  unfold a85_group. cbn [a85_digits length Nat.sub pad84].
  change [val4 a b c d / 52200625; (val4 a b c d / 614125) mod 85; (val4 a b c d / 7225) mod 85;
          (val4 a b c d / 85) mod 85; val4 a b c d mod 85] with (a85_digits (val4 a b c d)).
  rewrite a85_value_digits.
  replace (4294967295 <? val4 a b c d) with false by (symmetry; apply N.ltb_ge; lia).
  rewrite be_bytes_val4 by assumption. reflexivity.
Qed.

(* prefix digits rebuild the quotient *)
Lemma dig_prefix2 V : (V / 52200625) * 85 + (V / 614125) mod 85 = V / 614125.
Proof. lia. Qed.
Lemma dig_prefix3 V : (V / 614125) * 85 + (V / 7225) mod 85 = V / 7225.
Proof. lia. Qed.
Lemma dig_prefix4 V : (V / 7225) * 85 + (V / 85) mod 85 = V / 85.
Proof. lia. Qed.

Lemma top1 a v : a < 256 -> a * 16777216 <= v < a * 16777216 + 16777216 ->
  (v / 16777216) mod 256 = a.
Proof. intros Ha Hv. assert (v / 16777216 = a) as -> by lia. lia. Qed.
Lemma top2 a b v : a < 256 -> b < 256 ->
  a * 16777216 + b * 65536 <= v < a * 16777216 + b * 65536 + 65536 ->
  (v / 16777216) mod 256 = a /\ (v / 65536) mod 256 = b.
Proof.
  intros Ha Hb Hv. assert (v / 16777216 = a) as -> by lia.
  assert (v / 65536 = a * 256 + b) as -> by lia. split; lia.
Qed.
Lemma top3 a b c v : a < 256 -> b < 256 -> c < 256 ->
  a * 16777216 + b * 65536 + c * 256 <= v < a * 16777216 + b * 65536 + c * 256 + 256 ->
  (v / 16777216) mod 256 = a /\ (v / 65536) mod 256 = b /\ (v / 256) mod 256 = c.
Proof.
  intros Ha Hb Hc Hv. assert (v / 16777216 = a) as -> by lia.
  assert (v / 65536 = a * 256 + b) as -> by lia.
  assert (v / 256 = a * 65536 + b * 256 + c) as -> by lia. repeat split; lia.
Qed.

(* padding a truncated expansion with digit 84 stays inside the window of the
   kept bytes and never reaches 2^32 *)
Lemma pad_window1 V : let v := (((V / 614125) * 85 + 84) * 85 + 84) * 85 + 84 in V <= v < V + 614125.
Proof.
  intro v. assert (V / 614125 * 614125 <= V < V / 614125 * 614125 + 614125) by lia.
  set (q := V / 614125) in *. clearbody q. subst v. lia.
Qed.
Lemma pad_window2 V : let v := ((V / 7225) * 85 + 84) * 85 + 84 in V <= v < V + 7225.
Proof.
  intro v. assert (V / 7225 * 7225 <= V < V / 7225 * 7225 + 7225) by lia.
  set (q := V / 7225) in *. clearbody q. subst v. lia.
Qed.
Lemma pad_window3 V : let v := (V / 85) * 85 + 84 in V <= v < V + 85.
Proof.
  intro v. assert (V / 85 * 85 <= V < V / 85 * 85 + 85) by lia.
  set (q := V / 85) in *. clearbody q. subst v. lia.
Qed.

Lemma a85_group_part1 a : a < 256 ->
  a85_group (firstn 2 (a85_digits (val4 a 0 0 0))) = Ok [a].
Proof.
  intro Ha. unfold a85_group, a85_digits. cbn [firstn length Nat.sub pad84 app].
  unfold a85_value. cbn [fold_left]. rewrite N.mul_0_l, N.add_0_l.
  set (V := val4 a 0 0 0). rewrite dig_prefix2.
  pose proof (pad_window1 V) as W. cbv zeta in W.
  set (v := (V / 614125 * 85 + 84) * 85 + 84) in *.
  assert (V = a * 16777216) as HV by (unfold V, val4; lia).
  set (v' := v * 85 + 84) in *. clearbody v'. clear v. clearbody V. subst V.
  replace (4294967295 <? v') with false by (symmetry; apply N.ltb_ge; lia).
  unfold be_bytes. cbn [firstn]. rewrite (top1 a v') by lia. reflexivity.
Qed.

Lemma a85_group_part2 a b : a < 256 -> b < 256 ->
  a85_group (firstn 3 (a85_digits (val4 a b 0 0))) = Ok [a; b].
Proof.
  intros Ha Hb. unfold a85_group, a85_digits. cbn [firstn length Nat.sub pad84 app].
  unfold a85_value. cbn [fold_left]. rewrite N.mul_0_l, N.add_0_l.
  set (V := val4 a b 0 0). rewrite dig_prefix2, dig_prefix3.
  pose proof (pad_window2 V) as W. cbv zeta in W.
  assert (V = a * 16777216 + b * 65536) as HV by (unfold V, val4; lia).
  set (v' := (V / 7225 * 85 + 84) * 85 + 84) in *. clearbody v'. clearbody V. subst V.
  replace (4294967295 <? v') with false by (symmetry; apply N.ltb_ge; lia).
  unfold be_bytes. cbn [firstn].
  destruct (top2 a b v') as [E1 E2]; try lia. rewrite E1, E2. reflexivity.
Qed.

Lemma a85_group_part3 a b c : a < 256 -> b < 256 -> c < 256 ->
  a85_group (firstn 4 (a85_digits (val4 a b c 0))) = Ok [a; b; c].
Proof.
  intros Ha Hb Hc. unfold a85_group, a85_digits. cbn [firstn length Nat.sub pad84 app].
  unfold a85_value. cbn [fold_left]. rewrite N.mul_0_l, N.add_0_l.
  set (V := val4 a b c 0). rewrite dig_prefix2, dig_prefix3, dig_prefix4.
  pose proof (pad_window3 V) as W. cbv zeta in W.
  assert (V = a * 16777216 + b * 65536 + c * 256) as HV by (unfold V, val4; lia).
  set (v' := V / 85 * 85 + 84) in *. clearbody v'. clearbody V. subst V.
  replace (4294967295 <? v') with false by (symmetry; apply N.ltb_ge; lia).
  unfold be_bytes. cbn [firstn].
  destruct (top3 a b c v') as (E1 & E2 & E3); try lia. rewrite E1, E2, E3. reflexivity.
Qed.

Lemma a85_group_part g : bytes_ok g -> (1 <= length g <= 3)%nat ->
  a85_group (firstn (S (length g)) (a85_digits (valpad g))) = Ok g.
Proof.
  intros Hok Hl. destruct g as [|a [|b [|c [|d g]]]]; cbn [length] in Hl; try lia.
  - apply bytes_ok_cons in Hok as [Ha _]. apply a85_group_part1; assumption.
  - apply bytes_ok_cons in Hok as [Ha Hok]. apply bytes_ok_cons in Hok as [Hb _].
    apply a85_group_part2; assumption.
  - apply bytes_ok_cons in Hok as [Ha Hok]. apply bytes_ok_cons in Hok as [Hb Hok].
    apply bytes_ok_cons in Hok as [Hc _]. apply a85_group_part3; assumption.
Qed.

Lemma valpad_lt g : bytes_ok g -> (length g <= 3)%nat -> valpad g < 4294967296.
Proof.
  intros Hok Hl. destruct g as [|a [|b [|c [|d g]]]]; cbn [length] in Hl; try lia; unfold valpad, val4.
  - lia.
  - apply bytes_ok_cons in Hok as [Ha _]. lia.
  - apply bytes_ok_cons in Hok as [Ha Hok]. apply bytes_ok_cons in Hok as [Hb _]. lia.
  - apply bytes_ok_cons in Hok as [Ha Hok]. apply bytes_ok_cons in Hok as [Hb Hok].
    apply bytes_ok_cons in Hok as [Hc _]. lia.
Qed.

Lemma Forall_firstn {A} (P : A -> Prop) n l : Forall P l -> Forall P (firstn n l).
Proof. revert l; induction n; intros l H; cbn; [constructor|]. destruct l; [constructor|]. inversion H; subst. constructor; auto. Qed.

(* ---------- round trip *)
Lemma a85_roundtrip_gen x s : bytes_ok x -> a85_spelled x s ->
  forall acc, a85_go s [] acc = Ok (acc ++ x).
Proof.
  intros Hok Hs. induction Hs as [t Ht | a b c d x s1 s Hd Hs IH | x w s Hw Hs IH | g s1 t Hl Hd Ht]; intro acc.
  - rewrite a85_tail_finish by exact Ht. cbn. reflexivity.
  - apply bytes_ok_cons in Hok as [Ha Hok]. apply bytes_ok_cons in Hok as [Hb Hok].
    apply bytes_ok_cons in Hok as [Hc Hok]. apply bytes_ok_cons in Hok as [Hdd Hok].
    assert (val4 a b c d < 4294967296) as Hv by (unfold val4; lia).
    rewrite (a85_digits_run _ s1 s [] acc Hd (a85_digits_lt _ Hv)); cbn [length app a85_digits]; try lia.
    cbn [a85_digits length Nat.eqb].
    change [val4 a b c d / 52200625; (val4 a b c d / 614125) mod 85; (val4 a b c d / 7225) mod 85;
            (val4 a b c d / 85) mod 85; val4 a b c d mod 85] with (a85_digits (val4 a b c d)).
    rewrite a85_group_full by assumption. cbn [after_group].
    rewrite IH by exact Hok. rewrite <- app_assoc. reflexivity.
  - do 4 (apply bytes_ok_cons in Hok as [_ Hok]).
    rewrite a85_skip_ws by exact Hw. cbn [a85_go]. rewrite z_not_ws.
    replace (122 =? 126) with false by reflexivity. cbn [andb].
    rewrite N.eqb_refl. cbn [andb].
    rewrite IH by exact Hok. rewrite <- app_assoc. reflexivity.
  - assert (Forall (fun d => d < 85) (firstn (S (length g)) (a85_digits (valpad g)))) as Hlt.
    { apply Forall_firstn. apply a85_digits_lt. apply valpad_lt. exact Hok. lia. }
    assert (length (firstn (S (length g)) (a85_digits (valpad g))) = S (length g)) as Hlen.
    { rewrite firstn_length. cbn [a85_digits length]. lia. }
    rewrite (a85_digits_run _ s1 t [] acc Hd Hlt); cbn [length app]; try (rewrite Hlen; lia); try lia.
    rewrite Hlen.
    replace (Nat.eqb (S (length g)) 5) with false by (symmetry; apply Nat.eqb_neq; lia).
    rewrite a85_tail_finish by exact Ht.
    rewrite a85_group_part by assumption. reflexivity.
Qed.

Theorem a85_roundtrip x s : bytes_ok x -> a85_spelled x s -> a85_decode s = Ok x.
Proof. intros H1 H2. unfold a85_decode. rewrite (a85_roundtrip_gen x s H1 H2 []). reflexivity. Qed.

(* ---------- error, not garbage *)
(* a complete group whose value exceeds 2^32-1 *)
Theorem a85_group_overflow ds : length ds = 5%nat -> 4294967295 < a85_value ds -> a85_group ds = Err.
Proof.
  intros Hl Hv. destruct ds as [|a [|b [|c [|d [|e [|f ds]]]]]]; cbn [length] in Hl; try lia.
  unfold a85_group. cbn [length Nat.sub pad84].
  apply N.ltb_lt in Hv. rewrite Hv. reflexivity.
Qed.

(* a lone final digit *)
Theorem a85_lone_digit d : a85_group [d] = Err.
Proof. reflexivity. Qed.

(* group errors surface as decode errors: at the tail ... *)
Lemma a85_tail_err t ds acc : a85_tail t -> a85_group ds = Err -> a85_go t ds acc = Err.
Proof. intros Ht Hg. rewrite a85_tail_finish by exact Ht. rewrite Hg. reflexivity. Qed.

(* ... a foreign character anywhere before the end-of-data marker *)
Definition a85_foreign (c : N) (ds : list N) : Prop :=
  flt_is_ws c = false /\ c <> 126 /\ (c <> 122 \/ ds <> []) /\ (c < 33 \/ 117 < c).

Lemma a85_foreign_err c t ds acc : a85_foreign c ds -> a85_go (c :: t) ds acc = Err.
Proof.
  intros (H1 & H2 & H3 & H4). cbn [a85_go]. rewrite H1.
  replace (c =? 126) with false by (symmetry; apply N.eqb_neq; exact H2). cbn [andb].
  assert (((c =? 122) && match ds with [] => true | _ => false end) = false) as ->.
  { destruct H3 as [H3|H3]. apply N.eqb_neq in H3. rewrite H3. reflexivity.
    destruct ds; [contradiction|]. apply andb_false_r. }
  assert (((c <? 33) || (117 <? c)) = true) as ->.
  { apply orb_true_iff. destruct H4; [left; apply N.ltb_lt | right; apply N.ltb_lt]; assumption. }
  reflexivity.
Qed.

Theorem a85_lone_digit_decode d t : d < 85 -> a85_tail t -> a85_decode ((d + 33) :: t) = Err.
Proof.
  intros Hd Ht. unfold a85_decode. rewrite a85_digit_step by exact Hd. cbn [app length Nat.eqb].
  apply a85_tail_err. exact Ht. reflexivity.
Qed.

Theorem a85_overflow_decode ds s1 s : digits_spelled ds s1 -> Forall (fun d => d < 85) ds ->
  length ds = 5%nat -> 4294967295 < a85_value ds -> a85_decode (s1 ++ s) = Err.
Proof.
  intros Hsp Hlt Hl Hv. unfold a85_decode.
  rewrite (a85_digits_run ds s1 s [] [] Hsp Hlt); cbn [length app]; try lia.
  rewrite Hl. cbn [Nat.eqb]. rewrite a85_group_overflow by assumption. reflexivity.
Qed.
