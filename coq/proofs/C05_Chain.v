(* Filter chains: Stream.Decode applies the filters in array order with the
   i-th parameter object, and inverts any conforming chain encoding. *)
From Tabula Require Import base.Val base.ByteFacts model.C05_Filters proofs.C05_Hex proofs.C05_A85 proofs.C05_Pred.
From Coq Require Import Lia.
From Coq Require String.
Import (notations) String.
Open Scope N_scope.

Section Chain.
  (* zlib is an oracle: [inflate] is the library's decompressor, [deflate] any
     conforming compressor; the single assumption is that inflate inverts it. *)
  Variable inflate : bytes -> res bytes.
  Variable deflate : bytes -> bytes.
  Hypothesis inflate_deflate : forall x, inflate (deflate x) = Ok x.

  (* [pred_encodes p x z]: z is x after the prediction step that parameters p ask for *)
  Inductive pred_encodes : option params -> bytes -> bytes -> Prop :=
  | PE_noparams x : pred_encodes None x x
  | PE_nokey p x : plookup k_predictor p = None -> pred_encodes (Some p) x x
  | PE_one p x v : plookup k_predictor p = Some v -> get_int (Some p) k_predictor 1 = 1%Z ->
      pred_encodes (Some p) x x
  | PE_tiff p v rows :
      plookup k_predictor p = Some v -> get_int (Some p) k_predictor 1 = 2%Z ->
      get_int (Some p) k_bpc 8 = 8%Z ->
      (0 < get_int (Some p) k_columns 1 <= 2147483647)%Z ->
      (0 < get_int (Some p) k_colors 1 <= 2147483647)%Z ->
      trows_ok (Z.to_nat (get_int (Some p) k_columns 1 * get_int (Some p) k_colors 1)) rows ->
      pred_encodes (Some p) (concat rows)
                   (tiff_encode (Z.to_nat (get_int (Some p) k_colors 1)) rows)
  | PE_png p v rows enc :
      plookup k_predictor p = Some v ->
      (10 <= get_int (Some p) k_predictor 1 <= 15)%Z ->
      get_int (Some p) k_bpc 8 = 8%Z ->
      (0 < get_int (Some p) k_columns 1 <= 2147483647)%Z ->
      (0 < get_int (Some p) k_colors 1 <= 2147483647)%Z ->
      rows_ok (Z.to_nat (get_int (Some p) k_columns 1 * get_int (Some p) k_colors 1)) rows ->
      png_encode (Z.to_nat (get_int (Some p) k_colors 1)) [] rows = Some enc ->
      pred_encodes (Some p) (concat (map snd rows)) enc.

  Lemma apply_predictor_inverts p x z : pred_encodes p x z -> apply_predictor p z = Ok x.
  Proof.
    intros H. destruct H as [x | p x Hk | p x v Hk H1 | p v rows Hk H2 Hb Hc Hcol Hok | p v rows enc Hk Hr Hb Hc Hcol Hok He];
      unfold apply_predictor; try rewrite Hk; try reflexivity.
    - rewrite H1. reflexivity.
    - rewrite H2, Hb. cbn [Z.eqb Pos.eqb]. apply tiff_roundtrip; assumption.
    - rewrite Hb.
      replace (get_int (Some p) k_predictor 1 =? 1)%Z with false by lia.
      replace (get_int (Some p) k_predictor 1 =? 2)%Z with false by lia.
      replace ((10 <=? get_int (Some p) k_predictor 1) && (get_int (Some p) k_predictor 1 <=? 15))%Z%bool with true by lia.
      apply png_roundtrip; assumption.
  Qed.

  (* one stage: y is a conforming encoding of x for filter name n with parameters p *)
  Inductive stage_encodes : bytes -> option params -> bytes -> bytes -> Prop :=
  | SE_hex n p x y : filter_kind n = KHex -> bytes_ok y -> hex_spelled x y -> stage_encodes n p x y
  | SE_a85 n p x y : filter_kind n = KA85 -> bytes_ok x -> a85_spelled x y -> stage_encodes n p x y
  | SE_flate n p x z : filter_kind n = KFlate -> pred_encodes p x z -> stage_encodes n p x (deflate z)
  | SE_ident n p x : filter_kind n = KIdent -> stage_encodes n p x x.

  Lemma decode_one_inverts n p x y : stage_encodes n p x y -> decode_one inflate n p y = Ok x.
  Proof.
    intros [n' p' x' y' Hk Hok Hs | n' p' x' y' Hk Hok Hs | n' p' x' z Hk Hp | n' p' x' Hk];
      unfold decode_one; rewrite Hk.
    - apply hex_roundtrip; assumption.
    - apply a85_roundtrip; assumption.
    - rewrite inflate_deflate. cbn [res_bind]. apply apply_predictor_inverts. exact Hp.
    - reflexivity.
  Qed.

  (* a chain: the decoder's first filter was the encoder's last *)
  Inductive chain_encodes : list (bytes * option params) -> bytes -> bytes -> Prop :=
  | CE_nil x : chain_encodes [] x x
  | CE_cons n p fs x mid y :
      stage_encodes n p mid y -> chain_encodes fs x mid -> chain_encodes ((n, p) :: fs) x y.

  Theorem chain_roundtrip fs x y : chain_encodes fs x y -> decode_chain inflate fs y = Ok x.
  Proof.
    induction 1 as [x | n p fs x mid y Hs Hc IH]; cbn [decode_chain]; [reflexivity|].
    rewrite (decode_one_inverts _ _ _ _ Hs). cbn [res_bind]. exact IH.
  Qed.

  (* Stream.Decode: /Filter as a name or an array, /DecodeParms as dict, array, null/absent *)
  Lemma stream_chain_is_decode_chain l ps : forall i fs data,
    zip_filters l ps i = Some fs -> stream_chain inflate l ps i data = decode_chain inflate fs data.
  Proof.
    induction l as [|[n|] l IH]; intros i fs data H; cbn [zip_filters] in H.
    - inversion H. reflexivity.
    - destruct (zip_filters l ps (S i)) as [r|] eqn:E; [|discriminate]. inversion H; subst.
      cbn [stream_chain decode_chain]. destruct (decode_one inflate n (select_params ps i) data); cbn [res_bind]; try reflexivity.
      apply IH. exact E.
    - discriminate.
  Qed.

  Theorem stream_roundtrip_array l ps fs x y :
    zip_filters l ps 0 = Some fs -> chain_encodes fs x y ->
    stream_decode inflate (FSArray l) ps y = Ok x.
  Proof.
    intros Hz Hc. cbn [stream_decode]. rewrite (stream_chain_is_decode_chain _ _ _ _ _ Hz).
    apply chain_roundtrip. exact Hc.
  Qed.

  Theorem stream_roundtrip_name n ps x y :
    stage_encodes n (match ps with PSDict p => Some p | _ => None end) x y ->
    stream_decode inflate (FSName n) ps y = Ok x.
  Proof. intro H. cbn [stream_decode]. apply decode_one_inverts. exact H. Qed.

  Theorem stream_no_filter ps x : stream_decode inflate FSAbsent ps x = Ok x.
  Proof. reflexivity. Qed.

  (* a filter element that is not a name, or an unsupported filter, is an error
     as soon as the chain reaches it *)
  Theorem stream_non_name_error l1 l2 ps fs x y :
    zip_filters l1 ps 0 = Some fs -> chain_encodes fs x y ->
    stream_decode inflate (FSArray (l1 ++ None :: l2)) ps y = Err.
  Proof.
    intros Hz Hc. cbn [stream_decode].
    revert Hz Hc. generalize 0%nat. revert fs x y.
    assert (forall l i fs y x, zip_filters l ps i = Some fs -> chain_encodes fs x y ->
              stream_chain inflate (l ++ None :: l2) ps i y = Err) as G.
    { induction l as [|[n|] l IH]; intros i fs y x Hz Hc; cbn [zip_filters] in Hz.
      - reflexivity.
      - destruct (zip_filters l ps (S i)) as [r|] eqn:E; [|discriminate]. inversion Hz; subst.
        inversion Hc as [|? ? ? ? mid ? Hs Hc']; subst.
        cbn [app stream_chain]. rewrite (decode_one_inverts _ _ _ _ Hs). cbn [res_bind].
        eapply IH; eassumption.
      - discriminate. }
    intros fs x y i Hz Hc. eapply G; eassumption.
  Qed.
End Chain.

(* the dispatch table regenerated from decodeWithFilter: the supported names,
   abbreviations included, map to the three decoders *)
Theorem dispatch_names :
  filter_kind (bs "FlateDecode") = KFlate /\ filter_kind (bs "Fl") = KFlate /\
  filter_kind (bs "ASCIIHexDecode") = KHex /\ filter_kind (bs "AHx") = KHex /\
  filter_kind (bs "ASCII85Decode") = KA85 /\ filter_kind (bs "A85") = KA85.
Proof. vm_compute. repeat split; reflexivity. Qed.
