(* ASCIIHex: decode inverts every legal spelling; bad characters are errors. *)
From Tabula Require Import base.Val base.ByteFacts model.C05_Filters.
From Coq Require Import Lia.
Open Scope N_scope.

(* spec side: what a conforming ASCIIHex encoder may emit *)
Definition ws_run (w : bytes) : Prop := Forall (fun c => flt_is_ws c = true) w.
Definition hexchar (d c : N) : Prop := flt_hex_digit c = Some d.

(* the tail after the data: nothing, or optional whitespace then '>' then anything *)
Inductive hex_tail : bytes -> Prop :=
| HT_none w : ws_run w -> hex_tail w
| HT_eod w rest : ws_run w -> hex_tail (w ++ 62 :: rest).

Inductive hex_spelled : bytes -> bytes -> Prop :=
| HS_end t : hex_tail t -> hex_spelled [] t
| HS_byte b x w1 c1 w2 c2 s :
    ws_run w1 -> hexchar (b / 16) c1 -> ws_run w2 -> hexchar (b mod 16) c2 ->
    hex_spelled x s -> hex_spelled (b :: x) (w1 ++ c1 :: w2 ++ c2 :: s)
| HS_odd b w1 c1 t :   (* final byte with low nibble 0 may drop its second digit *)
    b mod 16 = 0 -> ws_run w1 -> hexchar (b / 16) c1 -> hex_tail t ->
    hex_spelled [b] (w1 ++ c1 :: t).

(* character facts, by enumeration of the byte domain over the regenerated
   definitions (re-proved whenever the Go character classes change) *)
Definition hexfact (c : N) : bool :=
  match flt_hex_digit c with
  | Some d => negb (flt_is_ws c) && negb (c =? 62) && (d <? 16)
  | None => true
  end.
Lemma hexfact_all : forallb hexfact all_bytes = true.
Proof. vm_compute. reflexivity. Qed.

Lemma hexchar_facts d c : c < 256 -> hexchar d c ->
  flt_is_ws c = false /\ (c =? 62) = false /\ d < 16.
Proof.
  intros Hc Hd. pose proof (byte_forall _ hexfact_all c Hc) as H.
  unfold hexfact in H. unfold hexchar in Hd. rewrite Hd in H.
  apply andb_true_iff in H as [H H3]. apply andb_true_iff in H as [H1 H2].
  apply negb_true_iff in H1. apply negb_true_iff in H2. apply N.ltb_lt in H3. auto.
Qed.

Definition eodfact : bool := negb (flt_is_ws 62).
Lemma eod_not_ws : flt_is_ws 62 = false.
Proof. vm_compute. reflexivity. Qed.

Lemma hex_skip_ws st w s acc : ws_run w -> hex_go st (w ++ s) acc = hex_go st s acc.
Proof.
  induction w as [|c w IH]; intro H; cbn [hex_go app]; [reflexivity|].
  inversion H as [|? ? Hc Hw]; subst. rewrite Hc. apply IH. exact Hw.
Qed.

Lemma hex_tail_none t acc : hex_tail t -> hex_go None t acc = Ok (rev acc).
Proof.
  intros [w Hw | w rest Hw].
  - rewrite <- (app_nil_r w). rewrite hex_skip_ws by exact Hw. reflexivity.
  - rewrite hex_skip_ws by exact Hw. cbn [hex_go]. rewrite eod_not_ws. rewrite N.eqb_refl. reflexivity.
Qed.

Lemma hex_tail_some b1 t acc : hex_tail t -> hex_go (Some b1) t acc = Ok (rev ((b1 * 16) :: acc)).
Proof.
  intros [w Hw | w rest Hw].
  - rewrite <- (app_nil_r w). rewrite hex_skip_ws by exact Hw. reflexivity.
  - rewrite hex_skip_ws by exact Hw. cbn [hex_go]. rewrite eod_not_ws. rewrite N.eqb_refl. reflexivity.
Qed.

Lemma hex_step_first d c t acc : c < 256 -> hexchar d c ->
  hex_go None (c :: t) acc = hex_go (Some d) t acc.
Proof.
  intros Hc Hd. destruct (hexchar_facts d c Hc Hd) as (H1 & H2 & _).
  cbn [hex_go]. rewrite H1, H2. unfold hexchar in Hd. rewrite Hd. reflexivity.
Qed.

Lemma hex_step_second b1 d c t acc : c < 256 -> hexchar d c ->
  hex_go (Some b1) (c :: t) acc = hex_go None t ((b1 * 16 + d) :: acc).
Proof.
  intros Hc Hd. destruct (hexchar_facts d c Hc Hd) as (H1 & H2 & _).
  cbn [hex_go]. rewrite H1, H2. unfold hexchar in Hd. rewrite Hd. reflexivity.
Qed.

Lemma hex_roundtrip_gen x : forall s acc, bytes_ok s -> hex_spelled x s ->
  hex_go None s acc = Ok (rev acc ++ x).
Proof.
  intros s acc Hok Hs. revert acc. induction Hs as [t Ht | b x w1 c1 w2 c2 s Hw1 Hc1 Hw2 Hc2 Hs IH | b w1 c1 t Hb Hw1 Hc1 Ht]; intro acc.
  - rewrite app_nil_r. apply hex_tail_none. exact Ht.
  - apply bytes_ok_app in Hok as [_ Hok]. apply bytes_ok_cons in Hok as [Hc1' Hok].
    apply bytes_ok_app in Hok as [_ Hok]. apply bytes_ok_cons in Hok as [Hc2' Hok].
    rewrite hex_skip_ws by exact Hw1.
    rewrite (hex_step_first _ _ _ _ Hc1' Hc1).
    rewrite hex_skip_ws by exact Hw2.
    rewrite (hex_step_second _ _ _ _ _ Hc2' Hc2).
    rewrite IH by exact Hok. simpl.
    replace (b / 16 * 16 + b mod 16) with b by (pose proof (N.div_mod b 16); lia).
    rewrite <- app_assoc. reflexivity.
  - apply bytes_ok_app in Hok as [_ Hok]. apply bytes_ok_cons in Hok as [Hc1' Hok].
    rewrite hex_skip_ws by exact Hw1.
    rewrite (hex_step_first _ _ _ _ Hc1' Hc1).
    rewrite hex_tail_some by exact Ht. simpl.
    replace (b / 16 * 16) with b by (pose proof (N.div_mod b 16); lia).
    reflexivity.
Qed.

Theorem hex_roundtrip x s : bytes_ok s -> hex_spelled x s -> hex_decode s = Ok x.
Proof. intros H1 H2. unfold hex_decode. rewrite (hex_roundtrip_gen x s [] H1 H2). reflexivity. Qed.

(* the canonical encoder is one of the spellings (non-vacuity, for every x) *)
Definition hex_char_of (d : N) : N := if d <? 10 then d + 48 else d + 55.
Fixpoint hex_encode (x : bytes) : bytes :=
  match x with
  | [] => [62]
  | b :: x' => hex_char_of (b / 16) :: hex_char_of (b mod 16) :: hex_encode x'
  end.

Definition nibfact (d : N) : bool :=
  match flt_hex_digit (hex_char_of d) with Some d' => d' =? d | None => false end.
Lemma nibfact_all : forallb nibfact (map N.of_nat (seq 0 16)) = true.
Proof. vm_compute. reflexivity. Qed.
Lemma hex_char_of_ok d : d < 16 -> hexchar d (hex_char_of d).
Proof.
  intro H. pose proof nibfact_all as A. rewrite forallb_forall in A.
  assert (In d (map N.of_nat (seq 0 16))) as Hin.
  { apply in_map_iff. exists (N.to_nat d). split. apply N2Nat.id. apply in_seq. lia. }
  specialize (A d Hin). unfold nibfact in A. unfold hexchar.
  destruct (flt_hex_digit (hex_char_of d)); [|discriminate]. apply N.eqb_eq in A. congruence.
Qed.

Lemma hex_encode_spelled x : bytes_ok x -> hex_spelled x (hex_encode x).
Proof.
  induction x as [|b x IH]; intro H; simpl.
  - apply HS_end. apply (HT_eod [] []). constructor.
  - apply bytes_ok_cons in H as [Hb H].
    apply (HS_byte b x [] _ [] _ _); try constructor.
    + apply hex_char_of_ok. apply N.div_lt_upper_bound; lia.
    + apply hex_char_of_ok. apply N.mod_lt. lia.
    + apply IH. exact H.
Qed.

(* error, not garbage: a byte that is neither whitespace, '>' nor a hex digit,
   reached before any '>', makes the whole decode fail *)
Definition hex_clean (p : bytes) : Prop :=
  Forall (fun c => flt_is_ws c = true \/ (flt_is_ws c = false /\ (c =? 62) = false /\ exists d, flt_hex_digit c = Some d)) p.

Lemma hex_bad_char_gen p : forall st acc c rest, hex_clean p ->
  flt_is_ws c = false -> (c =? 62) = false -> flt_hex_digit c = None ->
  hex_go st (p ++ c :: rest) acc = Err.
Proof.
  induction p as [|a p IH]; intros st acc c rest Hp H1 H2 H3; cbn [hex_go app].
  - rewrite H1, H2, H3. reflexivity.
  - inversion Hp as [|? ? Ha Hp']; subst.
    destruct Ha as [Ha | (Ha1 & Ha2 & d & Ha3)].
    + rewrite Ha. apply IH; assumption.
    + rewrite Ha1, Ha2, Ha3. destruct st; apply IH; assumption.
Qed.

Theorem hex_bad_char p c rest : hex_clean p ->
  flt_is_ws c = false -> (c =? 62) = false -> flt_hex_digit c = None ->
  hex_decode (p ++ c :: rest) = Err.
Proof. intros. unfold hex_decode. apply hex_bad_char_gen; assumption. Qed.
