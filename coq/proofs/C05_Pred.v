(* PNG and TIFF predictors: un-prediction inverts prediction for every row
   geometry and every per-row filter-type vector; malformed input is an error. *)
From Tabula Require Import base.Val base.ByteFacts model.C05_Filters.
From Coq Require Import Lia ZifyN ZifyNat ZifyBool.
Ltac Zify.zify_post_hook ::= Z.div_mod_to_equations.
Open Scope N_scope.

(* ---------- spec: the PNG encoder (prediction) *)
Fixpoint png_enc_row (t : N) (bpp : nat) (prev : bytes) (i : nat) (done_rev : bytes) (raw : bytes)
  : option bytes :=
  match raw with
  | [] => Some []
  | r :: raw' =>
    let left := nth (bpp - 1) done_rev 0 in
    let up := nth i prev 0 in
    let ul := if Nat.leb bpp i then nth (i - bpp) prev 0 else 0 in
    match png_pred t left up ul with
    | None => None
    | Some p =>
      match png_enc_row t bpp prev (S i) (r :: done_rev) raw' with
      | None => None
      | Some e => Some (((r + 256 - p mod 256) mod 256) :: e)
      end
    end
  end.

Lemma png_enc_row_length t bpp prev raw : forall i d e,
  png_enc_row t bpp prev i d raw = Some e -> length e = length raw.
Proof.
  induction raw as [|r raw IH]; intros i d e H; cbn [png_enc_row] in H.
  - inversion H. reflexivity.
  - destruct (png_pred t _ _ _); [|discriminate].
    destruct (png_enc_row t bpp prev (S i) (r :: d) raw) eqn:E; [|discriminate].
    inversion H; subst. cbn [length]. f_equal. eapply IH. exact E.
Qed.

Lemma png_row_roundtrip t bpp prev raw : forall i d e,
  bytes_ok raw -> png_enc_row t bpp prev i d raw = Some e ->
  png_dec_row t bpp prev i d e = Some (rev d ++ raw).
Proof.
  induction raw as [|r raw IH]; intros i d e Hok H; cbn [png_enc_row] in H.
  - inversion H; subst. cbn [png_dec_row]. rewrite app_nil_r. reflexivity.
  - apply bytes_ok_cons in Hok as [Hr Hok].
    destruct (png_pred t (nth (bpp - 1) d 0) (nth i prev 0) (if Nat.leb bpp i then nth (i - bpp) prev 0 else 0)) as [p|] eqn:Ep; [|discriminate].
    destruct (png_enc_row t bpp prev (S i) (r :: d) raw) as [e'|] eqn:E; [|discriminate].
    inversion H; subst. cbn [png_dec_row]. rewrite Ep.
    replace (((r + 256 - p mod 256) mod 256 + p) mod 256) with r by lia.
    rewrite (IH (S i) (r :: d) e' Hok E). cbn [rev]. rewrite <- app_assoc. reflexivity.
Qed.

(* types 0..4 always encode *)
Lemma png_enc_row_some t bpp prev raw : t <= 4 -> forall i d, exists e, png_enc_row t bpp prev i d raw = Some e.
Proof.
  intro Ht. induction raw as [|r raw IH]; intros i d; cbn [png_enc_row].
  - eexists. reflexivity.
  - assert (exists p, png_pred t (nth (bpp - 1) d 0) (nth i prev 0) (if Nat.leb bpp i then nth (i - bpp) prev 0 else 0) = Some p) as [p Hp].
    { unfold png_pred. destruct t as [|q]; [eexists; reflexivity|].
      destruct q as [[[q|q|]|[q|q|]|]|[[q|q|]|[q|q|]|]|]; try lia; eexists; reflexivity. }
    rewrite Hp. destruct (IH (S i) (r :: d)) as [e He]. rewrite He. eexists. reflexivity.
Qed.

(* whole image: rows of (type, raw row) *)
Fixpoint png_encode (bpp : nat) (prev : bytes) (rows : list (N * bytes)) : option bytes :=
  match rows with
  | [] => Some []
  | (t, row) :: rows' =>
    match png_enc_row t bpp prev 0 [] row, png_encode bpp row rows' with
    | Some e, Some rest => Some (t :: e ++ rest)
    | _, _ => None
    end
  end.

Definition rows_ok (rowlen : nat) (rows : list (N * bytes)) : Prop :=
  Forall (fun tr => length (snd tr) = rowlen /\ bytes_ok (snd tr)) rows.

Lemma firstn_app_exact {A} (a b : list A) n : length a = n -> firstn n (a ++ b) = a.
Proof. intro H. subst n. rewrite firstn_app, Nat.sub_diag, firstn_all. cbn. apply app_nil_r. Qed.
Lemma skipn_app_exact {A} (a b : list A) n : length a = n -> skipn n (a ++ b) = b.
Proof. intro H. subst n. rewrite skipn_app, Nat.sub_diag, skipn_all. reflexivity. Qed.

Lemma png_rows_roundtrip bpp rowlen rows : forall prev enc,
  rows_ok rowlen rows -> png_encode bpp prev rows = Some enc ->
  png_dec_rows bpp rowlen prev enc (length rows) = Ok (concat (map snd rows)).
Proof.
  induction rows as [|[t row] rows IH]; intros prev enc Hok H; cbn [png_encode] in H.
  - inversion H. reflexivity.
  - inversion Hok as [|? ? [Hl Hb] Hok']; subst. cbn [snd] in *.
    destruct (png_enc_row t bpp prev 0 [] row) as [e|] eqn:Ee; [|discriminate].
    destruct (png_encode bpp row rows) as [rest|] eqn:Er; [|discriminate].
    inversion H; subst. cbn [length png_dec_rows].
    pose proof (png_enc_row_length _ _ _ _ _ _ _ Ee) as Hle.
    rewrite firstn_app_exact by exact Hle. rewrite skipn_app_exact by exact Hle.
    rewrite (png_row_roundtrip _ _ _ _ _ _ _ Hb Ee). cbn [rev app].
    rewrite (IH row rest Hok' Er). reflexivity.
Qed.

Lemma png_encode_length bpp rowlen rows : forall prev enc,
  rows_ok rowlen rows -> png_encode bpp prev rows = Some enc ->
  length enc = (length rows * S rowlen)%nat.
Proof.
  induction rows as [|[t row] rows IH]; intros prev enc Hok H; cbn [png_encode] in H.
  - inversion H. reflexivity.
  - inversion Hok as [|? ? [Hl Hb] Hok']; subst. cbn [snd] in *.
    destruct (png_enc_row t bpp prev 0 [] row) as [e|] eqn:Ee; [|discriminate].
    destruct (png_encode bpp row rows) as [rest|] eqn:Er; [|discriminate].
    inversion H; subst. cbn [length]. rewrite app_length.
    rewrite (png_enc_row_length _ _ _ _ _ _ _ Ee). rewrite (IH row rest Hok' Er). lia.
Qed.

Lemma png_encode_some bpp rows : Forall (fun tr => fst tr <= 4) rows ->
  forall prev, exists enc, png_encode bpp prev rows = Some enc.
Proof.
  induction rows as [|[t row] rows IH]; intros Ht prev; cbn [png_encode].
  - eexists; reflexivity.
  - inversion Ht as [|? ? Ht1 Ht2]; subst. cbn [fst] in Ht1.
    destruct (png_enc_row_some t bpp prev row Ht1 0%nat []) as [e He]. rewrite He.
    destruct (IH Ht2 row) as [rest Hr]. rewrite Hr. eexists; reflexivity.
Qed.

Theorem png_roundtrip columns colors rows enc :
  (0 < columns <= 2147483647)%Z -> (0 < colors <= 2147483647)%Z ->
  rows_ok (Z.to_nat (columns * colors)) rows ->
  png_encode (Z.to_nat colors) [] rows = Some enc ->
  png_unpredict columns colors 8 enc = Ok (concat (map snd rows)).
Proof.
  intros Hc Hk Hok He. unfold png_unpredict. cbn [Z.eqb negb Pos.eqb].
  unfold geometry_ok.
  replace ((0 <? columns)%Z && (0 <? colors)%Z && (columns <=? 2147483647)%Z && (colors <=? 2147483647)%Z) with true by lia.
  cbn [negb].
  rewrite (png_encode_length _ _ _ _ _ Hok He).
  rewrite Nat.mod_mul by lia. cbn [Nat.eqb negb].
  rewrite Nat.div_mul by lia.
  apply png_rows_roundtrip; assumption.
Qed.

(* ---------- TIFF predictor 2 *)
Fixpoint tiff_enc_row (bpp : nat) (done_rev : bytes) (raw : bytes) : bytes :=
  match raw with
  | [] => []
  | r :: raw' =>
    let left := nth (bpp - 1) done_rev 0 in
    ((r + 256 - left mod 256) mod 256) :: tiff_enc_row bpp (r :: done_rev) raw'
  end.

Lemma tiff_enc_row_length bpp raw : forall d, length (tiff_enc_row bpp d raw) = length raw.
Proof. induction raw as [|r raw IH]; intro d; cbn; [reflexivity|]. f_equal. apply IH. Qed.

Lemma tiff_row_roundtrip bpp raw : forall d, bytes_ok raw ->
  tiff_dec_row bpp d (tiff_enc_row bpp d raw) = rev d ++ raw.
Proof.
  induction raw as [|r raw IH]; intros d Hok; cbn [tiff_enc_row tiff_dec_row].
  - rewrite app_nil_r. reflexivity.
  - apply bytes_ok_cons in Hok as [Hr Hok].
    replace (((r + 256 - nth (bpp - 1) d 0 mod 256) mod 256 + nth (bpp - 1) d 0) mod 256) with r by lia.
    rewrite IH by exact Hok. cbn [rev]. rewrite <- app_assoc. reflexivity.
Qed.

Fixpoint tiff_encode (bpp : nat) (rows : list bytes) : bytes :=
  match rows with
  | [] => []
  | row :: rows' => tiff_enc_row bpp [] row ++ tiff_encode bpp rows'
  end.

Definition trows_ok (rowlen : nat) (rows : list bytes) : Prop :=
  Forall (fun r => length r = rowlen /\ bytes_ok r) rows.

Lemma tiff_rows_roundtrip bpp rowlen rows : trows_ok rowlen rows ->
  tiff_dec_rows bpp rowlen (tiff_encode bpp rows) (length rows) = concat rows.
Proof.
  induction rows as [|row rows IH]; intro Hok; cbn [tiff_encode tiff_dec_rows length concat]; [reflexivity|].
  inversion Hok as [|? ? [Hl Hb] Hok']; subst.
  rewrite firstn_app_exact by apply tiff_enc_row_length.
  rewrite skipn_app_exact by apply tiff_enc_row_length.
  rewrite tiff_row_roundtrip by exact Hb. cbn [rev app]. rewrite IH by exact Hok'. reflexivity.
Qed.

Lemma tiff_encode_length bpp rowlen rows : trows_ok rowlen rows ->
  length (tiff_encode bpp rows) = (length rows * rowlen)%nat.
Proof.
  induction rows as [|row rows IH]; intro Hok; cbn [tiff_encode length]; [reflexivity|].
  inversion Hok as [|? ? [Hl Hb] Hok']; subst. rewrite app_length, tiff_enc_row_length, IH by exact Hok'. lia.
Qed.

Theorem tiff_roundtrip columns colors rows :
  (0 < columns <= 2147483647)%Z -> (0 < colors <= 2147483647)%Z ->
  trows_ok (Z.to_nat (columns * colors)) rows ->
  tiff_unpredict columns colors 8 (tiff_encode (Z.to_nat colors) rows) = Ok (concat rows).
Proof.
  intros Hc Hk Hok. unfold tiff_unpredict. cbn [Z.eqb negb Pos.eqb]. unfold geometry_ok.
  replace ((0 <? columns)%Z && (0 <? colors)%Z && (columns <=? 2147483647)%Z && (colors <=? 2147483647)%Z) with true by lia.
  cbn [negb]. rewrite (tiff_encode_length _ _ _ Hok).
  assert (Z.to_nat (columns * colors) <> 0)%nat as Hnz by nia.
  rewrite Nat.mod_mul by exact Hnz. cbn [Nat.eqb negb]. rewrite Nat.div_mul by exact Hnz.
  rewrite tiff_rows_roundtrip by exact Hok. reflexivity.
Qed.

(* ---------- error, not garbage *)
Theorem pred_bad_geometry_png columns colors bpc data :
  (columns <= 0 \/ colors <= 0)%Z -> png_unpredict columns colors bpc data = Err.
Proof.
  intro H. unfold png_unpredict. destruct (negb (bpc =? 8)%Z); [reflexivity|].
  unfold geometry_ok. replace ((0 <? columns)%Z && (0 <? colors)%Z) with false by lia. reflexivity.
Qed.
Theorem pred_bad_geometry_tiff columns colors bpc data :
  (columns <= 0 \/ colors <= 0)%Z -> tiff_unpredict columns colors bpc data = Err.
Proof.
  intro H. unfold tiff_unpredict. destruct (negb (bpc =? 8)%Z); [reflexivity|].
  unfold geometry_ok. replace ((0 <? columns)%Z && (0 <? colors)%Z) with false by lia. reflexivity.
Qed.
Theorem pred_bad_bpc columns colors bpc data : bpc <> 8%Z ->
  png_unpredict columns colors bpc data = Err /\ tiff_unpredict columns colors bpc data = Err.
Proof.
  intro H. unfold png_unpredict, tiff_unpredict.
  replace (bpc =? 8)%Z with false by lia. split; reflexivity.
Qed.
Theorem png_bad_length columns colors data :
  geometry_ok columns colors = true ->
  (length data mod S (Z.to_nat (columns * colors)) <> 0)%nat ->
  png_unpredict columns colors 8 data = Err.
Proof.
  intros Hg Hl. unfold png_unpredict. cbn [Z.eqb Pos.eqb negb]. rewrite Hg. cbn [negb].
  apply Nat.eqb_neq in Hl. rewrite Hl. reflexivity.
Qed.
(* a row whose filter type is above 4: the first such row is an error, whatever precedes *)
Theorem png_bad_rowtype bpp rowlen prev t row rest n : 4 < t -> row <> [] -> length row = rowlen ->
  png_dec_rows bpp rowlen prev (t :: row ++ rest) (S n) = Err.
Proof.
  intros Ht Hne Hl. cbn [png_dec_rows]. rewrite firstn_app_exact by exact Hl.
  destruct row as [|e row]; [contradiction|]. cbn [png_dec_row].
  assert (forall a b c, png_pred t a b c = None) as Hn.
  { intros. unfold png_pred. destruct t as [|q]; [lia|].
    destruct q as [[[q|q|]|[q|q|]|]|[[q|q|]|[q|q|]|]|]; try lia; reflexivity. }
  rewrite Hn. reflexivity.
Qed.
