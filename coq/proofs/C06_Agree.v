(* C06, the two parsers on the same bytes: every operand the content stream
   parser reads (C06_Stream) is tokenised by the document lexer into the tokens
   of the same tree, so the document parser gives it the same value. *)
From Tabula Require Import model.C17_Xlsx model.C06_Syntax proofs.C06_Lexical proofs.C06_Structure proofs.C06_Stream.
From Coq Require Import Lia ZifyN ZifyNat ZifyBool.
From Coq Require String.
Import (notations) String.
Open Scope N_scope.

(* ---------- gaps, as the lexer skips them ---------- *)

Lemma skip_ws_stops : forall rest, stops rest -> skip_ws rest = rest.
Proof. intros [|c r] H; [reflexivity|]. destruct H as [H _]. cbn [skip_ws]. rewrite H. reflexivity. Qed.

Lemma next_tok_ws : forall c s f, is_ws c = true -> next_tok (S f) (c :: s) = next_tok (S f) s.
Proof. intros c s f H. cbn [next_tok skip_ws]. rewrite H. reflexivity. Qed.

Lemma skip_line_comment : forall t e rest, forallb no_eol t = true -> (e = 10 \/ e = 13) ->
  skip_line (t ++ e :: rest) = (if (e =? 13) && (match rest with c2 :: _ => c2 =? 10 | [] => false end) then skipn 1 rest else rest).
Proof.
  induction t as [|x t IH]; intros e rest Ht He.
  - cbn [app skip_line]. destruct He as [-> | ->]; [reflexivity|].
    cbn [N.eqb Pos.eqb andb]. destruct rest as [|c2 r2]; [reflexivity|]. destruct (c2 =? 10); reflexivity.
  - cbn [forallb] in Ht. apply andb_true_iff in Ht. destruct Ht as [Hx Ht].
    unfold no_eol in Hx. apply negb_true_iff in Hx. apply orb_false_iff in Hx. destruct Hx as [H1 H2].
    cbn [app skip_line]. rewrite H1, H2. apply IH; assumption.
Qed.

Lemma next_tok_gap : forall g rest fuel,
  Forall gitem_ok g -> stops rest -> (length (gap_text g ++ rest) < fuel)%nat ->
  exists fuel', (length rest < fuel')%nat /\ next_tok fuel (gap_text g ++ rest) = next_tok fuel' rest.
Proof.
  induction g as [|i g IH]; intros rest fuel Hok Hs Hf.
  - exists fuel. split; [exact Hf|reflexivity].
  - inversion Hok as [|? ? Hi Hg]; subst.
    unfold gap_text in *. cbn [map concat] in *. rewrite <- app_assoc in *.
    destruct fuel as [|f]; [cbn in Hf; lia|].
    destruct i as [c|t e].
    + cbn [gitem_text app] in *. cbn in Hi. rewrite next_tok_ws by exact Hi.
      apply IH; [exact Hg|exact Hs|cbn [length] in Hf; lia].
    + cbn [gitem_text app] in *. destruct Hi as [Ht He]. rewrite <- app_assoc in *. cbn [app] in *.
      cbn [next_tok skip_ws]. change (is_ws 37) with false. cbv iota. cbn [N.eqb Pos.eqb]. cbv iota.
      rewrite skip_line_comment by assumption.
      cbn [length] in Hf. rewrite app_length in Hf. cbn [length] in Hf.
      destruct ((e =? 13) && match concat (map gitem_text g) ++ rest with c2 :: _ => c2 =? 10 | [] => false end) eqn:E.
      * (* CR LF: the line feed belongs to the gap that follows *)
        apply andb_true_iff in E. destruct E as [_ E].
        destruct g as [|[c|t2 e2] g'].
        -- cbn [map concat app] in E |- *. destruct rest as [|c2 r2]; [discriminate|].
           destruct Hs as [Hs _]. apply N.eqb_eq in E. subst c2. discriminate.
        -- cbn [map concat gitem_text app] in E |- *. apply N.eqb_eq in E. subst c. cbn [skipn].
           inversion Hg as [|? ? _ Hg']; subst.
           destruct f as [|f]; [cbn [map concat gitem_text app length] in Hf; lia|].
           destruct (IH rest (S f) Hg Hs) as (f' & Hf' & E2).
           { cbn [map concat gitem_text app length] in Hf |- *. lia. }
           exists f'. split; [exact Hf'|]. rewrite <- E2. cbn [map concat gitem_text app].
           rewrite next_tok_ws by reflexivity. reflexivity.
        -- cbn [map concat gitem_text app] in E. discriminate.
      * apply IH; [exact Hg|exact Hs|lia].
Qed.

(* ---------- one token ---------- *)

Lemma next_tok_step : forall f c r, is_ws c = false ->
  next_tok (S f) (c :: r) =
  (if c =? 37 then next_tok f (skip_line r)
   else if c =? 91 then (TAO, r)
   else if c =? 93 then (TAC, r)
   else if c =? 40 then
     match read_string (S (length r)) r 0 [] with Some (b, rest) => (TStr b, rest) | None => (TErr, []) end
   else if c =? 60 then
     if match r with c2 :: _ => c2 =? 60 | [] => false end then (TDO, skipn 1 r)
     else match read_hex_digits r [] with Some (ds, rest) => (THexS ds, rest) | None => (TErr, []) end
   else if c =? 62 then
     if match r with c2 :: _ => c2 =? 62 | [] => false end then (TDC, skipn 1 r) else (TErr, [])
   else if c =? 47 then
     match read_name_core (S (length r)) r [] with Some (b, rest) => (TNm b, rest) | None => (TErr, []) end
   else if is_digit c || (c =? 45) || (c =? 43) || (c =? 46) then
     let '(lex, dot, rest) := read_number (c :: r) [] false in
     ((if dot then TReal lex else TInt lex), rest)
   else if is_alpha c then
     let '(w, rest) := read_word (c :: r) [] in
     ((match w with [82] => TR | _ => TKw w end), rest)
   else (TErr, [])).
Proof. intros f c r H. cbn [next_tok skip_ws]. rewrite H. reflexivity. Qed.

Lemma read_number_digits : forall ds rest acc dot, forallb is_digit ds = true ->
  read_number (ds ++ rest) acc dot = read_number rest (rev ds ++ acc) dot.
Proof.
  induction ds as [|d ds IH]; intros rest acc dot H; [reflexivity|].
  cbn [forallb] in H. apply andb_true_iff in H. destruct H as [Hd H].
  cbn [app read_number]. assert (d <> 46) by (unfold is_digit in Hd; lia).
  destruct (N.eqb_spec d 46); [contradiction|]. rewrite Hd. cbn [orb].
  rewrite IH by exact H. cbn [rev]. rewrite <- app_assoc. reflexivity.
Qed.

Lemma read_number_stop : forall rest acc dot, acc <> [] -> sep_ok (hd_error rest) ->
  read_number rest acc dot = (rev acc, dot, rest).
Proof.
  intros [|c r] acc dot Ha H; [reflexivity|]. cbn in H. pose proof (sep_not_digit c H) as [H1 H2].
  cbn [read_number]. rewrite H2, H1. destruct acc; [contradiction|reflexivity].
Qed.

Lemma read_number_sign : forall sign rest, sign_ok sign ->
  read_number (sign ++ rest) [] false = read_number rest (rev sign) false.
Proof. intros sign rest [-> | [-> | ->]]; reflexivity. Qed.

Lemma read_number_int : forall sign ds follow,
  sign_ok sign -> forallb is_digit ds = true -> ds <> [] -> sep_ok (hd_error follow) ->
  read_number ((sign ++ ds) ++ follow) [] false = (sign ++ ds, false, follow).
Proof.
  intros sign ds follow Hs Hd Hne Hf. rewrite <- app_assoc. rewrite read_number_sign by exact Hs.
  rewrite read_number_digits by exact Hd. rewrite read_number_stop; [|destruct ds; [contradiction|]; cbn [rev]; intros E; apply app_eq_nil in E; destruct E as [E _]; apply app_eq_nil in E; destruct E; discriminate|exact Hf].
  rewrite rev_app_distr, !rev_involutive. reflexivity.
Qed.

Lemma read_number_real : forall sign ip fp follow,
  sign_ok sign -> forallb is_digit ip = true -> forallb is_digit fp = true -> sep_ok (hd_error follow) ->
  read_number ((sign ++ ip ++ 46 :: fp) ++ follow) [] false = (sign ++ ip ++ 46 :: fp, true, follow).
Proof.
  intros sign ip fp follow Hs Hi Hp Hf. rewrite <- !app_assoc. rewrite read_number_sign by exact Hs.
  rewrite read_number_digits by exact Hi. cbn [app read_number N.eqb Pos.eqb].
  rewrite read_number_digits by exact Hp.
  rewrite read_number_stop; [|intros E; apply app_eq_nil in E; destruct E; discriminate|exact Hf].
  rewrite !rev_app_distr. cbn [rev]. rewrite !rev_app_distr, !rev_involutive. cbn [rev app].
  rewrite <- !app_assoc. reflexivity.
Qed.

Lemma read_word_kw : forall w follow acc,
  forallb (fun c => is_alpha c || is_digit c) w = true -> sep_ok (hd_error follow) ->
  read_word (w ++ follow) acc = (rev acc ++ w, follow).
Proof.
  induction w as [|c w IH]; intros follow acc Hw Hf.
  - cbn [app]. rewrite app_nil_r. destruct follow as [|x xs]; [reflexivity|]. cbn in Hf.
    cbn [read_word]. assert (E : is_alpha x || is_digit x = false) by (unfold is_alpha, is_digit, is_ws, is_delim in *; lia).
    rewrite E. reflexivity.
  - cbn [forallb] in Hw. apply andb_true_iff in Hw. destruct Hw as [Hc Hw].
    cbn [app read_word]. rewrite Hc. rewrite IH by assumption. cbn [rev]. rewrite <- app_assoc. reflexivity.
Qed.

(* the digits of a hex string as written *)
Definition hdigits (items : list hitem) : bytes :=
  concat (map (fun h => match h with (u1, u2, c, _, _) => [hex_digit_of u1 (c / 16); hex_digit_of u2 (c mod 16)] end) items).

Lemma hex_pairs_hdigits : forall items, Forall hitem_ok items -> hex_pairs (hdigits items) = map hitem_byte items.
Proof.
  induction items as [|[[[[u1 u2] c] w1] w2] items IH]; intros H; [reflexivity|].
  inversion H as [|? ? Hh Hr]; subst. cbn in Hh. destruct Hh as (Hc & _).
  unfold hdigits in *. cbn [map concat app hex_pairs hitem_byte].
  destruct (hex_digit_facts u1 (c / 16) ltac:(lia)) as [_ A]. destruct (hex_digit_facts u2 (c mod 16) ltac:(lia)) as [_ B].
  rewrite A, B, IH by exact Hr. f_equal. lia.
Qed.

Lemma read_hex_exact : forall items tail acc pre,
  Forall hitem_ok items -> forallb is_ws pre = true ->
  read_hex_digits (pre ++ concat (map hitem_text items) ++ 62 :: tail) acc = Some (rev acc ++ hdigits items, tail).
Proof.
  induction items as [|[[[[u1 u2] c] w1] w2] items IH]; intros tail acc pre Hok Hp.
  - cbn [map concat app]. rewrite read_hex_ws by exact Hp. cbn. rewrite app_nil_r. reflexivity.
  - inversion Hok as [|? ? Hh Hr]; subst. cbn in Hh. destruct Hh as (Hc & Hw1 & Hw2).
    rewrite read_hex_ws by exact Hp.
    cbn [map concat hitem_text]. rewrite <- !app_assoc. cbn [app read_hex_digits].
    destruct (hex_not_gt_ws u1 (c / 16) ltac:(lia)) as [A1 A2].
    destruct (hex_digit_facts u1 (c / 16) ltac:(lia)) as [A3 A4].
    rewrite A1, A2, A3. rewrite read_hex_ws by exact Hw1. cbn [read_hex_digits].
    destruct (hex_not_gt_ws u2 (c mod 16) ltac:(lia)) as [B1 B2].
    destruct (hex_digit_facts u2 (c mod 16) ltac:(lia)) as [B3 B4].
    rewrite B1, B2, B3. rewrite IH by assumption.
    unfold hdigits. cbn [map concat rev app]. rewrite <- !app_assoc. reflexivity.
Qed.

(* ---------- the tree a written operand denotes for the document parser ---------- *)

Fixpoint to_w (w : cw) : wobj :=
  match w with
  | CNull => WNull
  | CBool b => WBool b
  | CInt s d => WInt (s ++ d)
  | CReal s i f => WReal (s ++ i ++ 46 :: f)
  | CStr items => WStr (concat (map sitem_bytes items))
  | CHex _ items => WHex (hdigits items)
  | CName items => WName (map nitem_byte items)
  | CArr _ elems => WArr ((fix go (l : list (cw * gap)) : list wobj :=
                             match l with [] => [] | e :: r => to_w (fst e) :: go r end) elems)
  | CDict _ ents => WDict ((fix go (l : list (list nitem * gap * cw * gap)) : list (bytes * wobj) :=
                              match l with
                              | [] => []
                              | e :: r => (map nitem_byte (fst (fst (fst e))), to_w (snd (fst e))) :: go r
                              end) ents)
  end.

Fixpoint etoks (l : list (cw * gap)) : list tok :=
  match l with [] => [] | e :: r => wtoks (to_w (fst e)) ++ etoks r end.
Fixpoint dtoks (l : list (list nitem * gap * cw * gap)) : list tok :=
  match l with [] => [] | e :: r => TNm (map nitem_byte (fst (fst (fst e)))) :: wtoks (to_w (snd (fst e))) ++ dtoks r end.

Lemma wtoks_arr : forall g0 elems, wtoks (to_w (CArr g0 elems)) = TAO :: etoks elems ++ [TAC].
Proof.
  intros g0 elems. cbn [to_w wtoks]. do 2 f_equal.
  induction elems as [|e r IH]; [reflexivity|]. cbn [etoks]. rewrite <- IH. reflexivity.
Qed.

Lemma wtoks_dict : forall g0 ents, wtoks (to_w (CDict g0 ents)) = TDO :: dtoks ents ++ [TDC].
Proof.
  intros g0 ents. cbn [to_w wtoks]. do 2 f_equal.
  induction ents as [|e r IH]; [reflexivity|]. cbn [dtoks]. rewrite <- IH. reflexivity.
Qed.

Lemma tokens_of_step : forall f s t rest,
  next_tok (S (length s)) s = (t, rest) -> t <> TEOF -> t <> TErr ->
  tokens_of (S f) s = t :: tokens_of f rest.
Proof.
  intros f s t rest H A B. cbn [tokens_of]. rewrite H. destruct t; try reflexivity; contradiction.
Qed.

(* one token after a gap *)
Lemma tokens_of_gap_tok : forall f g s t rest,
  Forall gitem_ok g -> stops s -> s <> [] ->
  (forall f', next_tok (S f') s = (t, rest)) -> t <> TEOF -> t <> TErr ->
  tokens_of (S f) (gap_text g ++ s) = t :: tokens_of f rest.
Proof.
  intros f g s t rest Hg Hs Hne Ht A B. apply tokens_of_step; try assumption.
  destruct (next_tok_gap g s (S (length (gap_text g ++ s))) Hg Hs ltac:(lia)) as (f' & Hf' & E).
  rewrite E. destruct f' as [|f']; [lia|]. apply Ht.
Qed.

Definition is_atom (w : cw) : bool := match w with CArr _ _ | CDict _ _ => false | _ => true end.

Lemma atom_tok : forall w follow f, is_atom w = true -> cok w (hd_error follow) ->
  exists t, wtoks (to_w w) = [t] /\ t <> TEOF /\ t <> TErr /\ next_tok (S f) (ctext w ++ follow) = (t, follow).
Proof.
  intros w follow f Ha Hok.
  destruct w as [|b|sign ds|sign ip fp|items|w0 items|items|g0 elems|g0 ents]; try discriminate.
  - exists (TKw (bs "null")). repeat split; try discriminate.
    cbn [ctext]. change (bs "null") with [110; 117; 108; 108]. cbn [app].
    rewrite next_tok_step by reflexivity. cbn [N.eqb Pos.eqb]. cbv iota.
    change (is_digit 110 || (110 =? 45) || (110 =? 43) || (110 =? 46)) with false. change (is_alpha 110) with true. cbv iota.
    pose proof (read_word_kw [110; 117; 108; 108] follow [] eq_refl Hok) as R. cbn [app rev] in R. rewrite R. reflexivity.
  - destruct b.
    + exists (TKw (bs "true")). repeat split; try discriminate.
      cbn [ctext]. change (bs "true") with [116; 114; 117; 101]. cbn [app].
      rewrite next_tok_step by reflexivity. cbn [N.eqb Pos.eqb]. cbv iota.
      change (is_digit 116 || (116 =? 45) || (116 =? 43) || (116 =? 46)) with false. change (is_alpha 116) with true. cbv iota.
      pose proof (read_word_kw [116; 114; 117; 101] follow [] eq_refl Hok) as R. cbn [app rev] in R. rewrite R. reflexivity.
    + exists (TKw (bs "false")). repeat split; try discriminate.
      cbn [ctext]. change (bs "false") with [102; 97; 108; 115; 101]. cbn [app].
      rewrite next_tok_step by reflexivity. cbn [N.eqb Pos.eqb]. cbv iota.
      change (is_digit 102 || (102 =? 45) || (102 =? 43) || (102 =? 46)) with false. change (is_alpha 102) with true. cbv iota.
      pose proof (read_word_kw [102; 97; 108; 115; 101] follow [] eq_refl Hok) as R. cbn [app rev] in R. rewrite R. reflexivity.
  - cbn [cok ctext to_w wtoks] in *. destruct Hok as (Hs & Hd & Hne & _ & Hn).
    exists (TInt (sign ++ ds)). repeat split; try discriminate.
    destruct (num_start sign ds Hs) as (c & r & E & Sc & Hc).
    { destruct ds as [|d ds]; [contradiction|]. exists d, ds. split; [reflexivity|].
      cbn [forallb] in Hd. apply andb_true_iff in Hd. left. apply Hd. }
    pose proof (read_number_int sign ds follow Hs Hd Hne Hn) as R.
    rewrite E in R |- *. cbn [app] in R |- *. rewrite next_tok_step by apply Sc.
    assert (X : (c =? 37) = false /\ (c =? 91) = false /\ (c =? 93) = false /\ (c =? 40) = false /\ (c =? 60) = false
                /\ (c =? 62) = false /\ (c =? 47) = false /\ (is_digit c || (c =? 45) || (c =? 43) || (c =? 46)) = true)
      by (unfold is_digit in *; lia).
    destruct X as (X1 & X2 & X3 & X4 & X5 & X6 & X7 & X8). rewrite X1, X2, X3, X4, X5, X6, X7, X8, R. reflexivity.
  - cbn [cok ctext to_w wtoks] in *. destruct Hok as (Hs & Hi & Hp & _ & Hn).
    exists (TReal (sign ++ ip ++ 46 :: fp)). repeat split; try discriminate.
    destruct (num_start sign (ip ++ 46 :: fp) Hs) as (c & r & E & Sc & Hc).
    { destruct ip as [|d ip]; [exists 46, fp; split; [reflexivity|right; reflexivity]|].
      exists d, (ip ++ 46 :: fp). split; [reflexivity|].
      cbn [forallb] in Hi. apply andb_true_iff in Hi. left. apply Hi. }
    pose proof (read_number_real sign ip fp follow Hs Hi Hp Hn) as R.
    rewrite E in R |- *. cbn [app] in R |- *. rewrite next_tok_step by apply Sc.
    assert (X : (c =? 37) = false /\ (c =? 91) = false /\ (c =? 93) = false /\ (c =? 40) = false /\ (c =? 60) = false
                /\ (c =? 62) = false /\ (c =? 47) = false /\ (is_digit c || (c =? 45) || (c =? 43) || (c =? 46)) = true)
      by (unfold is_digit in *; lia).
    destruct X as (X1 & X2 & X3 & X4 & X5 & X6 & X7 & X8). rewrite X1, X2, X3, X4, X5, X6, X7, X8, R. reflexivity.
  - cbn [cok ctext to_w wtoks] in *. destruct Hok as (Hi & Hb).
    exists (TStr (concat (map sitem_bytes items))). repeat split; try discriminate.
    cbn [app]. rewrite next_tok_step by reflexivity. cbn [N.eqb Pos.eqb]. cbv iota.
    rewrite <- app_assoc. cbn [app]. rewrite literal_string_reads_back by assumption. reflexivity.
  - cbn [cok ctext to_w wtoks] in *. destruct Hok as (Hw & Hi).
    exists (THexS (hdigits items)). repeat split; try discriminate.
    cbn [app]. rewrite next_tok_step by reflexivity. cbn [N.eqb Pos.eqb]. cbv iota.
    rewrite <- !app_assoc. cbn [app].
    pose proof (hex_first_not_lt w0 items follow Hw Hi) as NL.
    destruct (w0 ++ concat (map hitem_text items) ++ 62 :: follow) as [|c2 r2] eqn:E; [discriminate|].
    apply negb_true_iff in NL. rewrite NL. rewrite <- E.
    rewrite read_hex_exact by assumption. reflexivity.
  - cbn [cok ctext to_w wtoks] in *. destruct Hok as (Hi & Hn).
    exists (TNm (map nitem_byte items)). repeat split; try discriminate.
    cbn [app]. rewrite next_tok_step by reflexivity. cbn [N.eqb Pos.eqb]. cbv iota.
    unfold name_text. rewrite read_name_core_items; [reflexivity|exact Hi|apply sep_ok_ends_name, Hn|lia].
Qed.

(* ---------- a whole operand ---------- *)

Definition toks_ok (w : cw) : Prop :=
  forall g follow F, Forall gitem_ok g -> cok w (hd_error follow) ->
    tokens_of (length (wtoks (to_w w)) + F) (gap_text g ++ ctext w ++ follow)
    = wtoks (to_w w) ++ tokens_of F follow.

Fixpoint elems_toks_hyp (l : list (cw * gap)) (tail : bytes) : Prop :=
  match l with
  | [] => True
  | e :: r =>
      Forall gitem_ok (snd e) /\ toks_ok (fst e) /\
      cok (fst e) (hd_error (gap_text (snd e) ++ etext r ++ 93 :: tail)) /\
      elems_toks_hyp r tail
  end.

Lemma closing_bracket : forall g follow F, Forall gitem_ok g ->
  tokens_of (S F) (gap_text g ++ 93 :: follow) = TAC :: tokens_of F follow.
Proof.
  intros g follow F Hg. apply tokens_of_gap_tok; try assumption; try discriminate.
  - split; [reflexivity|discriminate].
  - intros f'. rewrite next_tok_step by reflexivity. reflexivity.
Qed.

Lemma tokens_elems : forall elems g tail F,
  Forall gitem_ok g -> elems_toks_hyp elems tail ->
  tokens_of (length (etoks elems) + S F) (gap_text g ++ etext elems ++ 93 :: tail)
  = etoks elems ++ TAC :: tokens_of F tail.
Proof.
  induction elems as [|e r IH]; intros g tail F Hg Hh.
  - cbn [etoks etext app length Nat.add]. apply closing_bracket, Hg.
  - destruct Hh as (Hg' & Ht & Hc & Hr). cbn [etoks etext]. rewrite app_length, <- !app_assoc.
    rewrite <- Nat.add_assoc. rewrite Ht by assumption. f_equal. apply IH; assumption.
Qed.

Fixpoint ents_toks_hyp (l : list (list nitem * gap * cw * gap)) (tail : bytes) : Prop :=
  match l with
  | [] => True
  | e :: r =>
      Forall nitem_ok (fst (fst (fst e))) /\ Forall gitem_ok (snd (fst (fst e))) /\
      sep_ok (hd_error (gap_text (snd (fst (fst e))) ++ ctext (snd (fst e)))) /\
      (exists c t, ctext (snd (fst e)) = c :: t) /\
      Forall gitem_ok (snd e) /\ toks_ok (snd (fst e)) /\
      cok (snd (fst e)) (hd_error (gap_text (snd e) ++ dtext r ++ 62 :: 62 :: tail)) /\
      ents_toks_hyp r tail
  end.

Lemma closing_dict : forall g follow F, Forall gitem_ok g ->
  tokens_of (S F) (gap_text g ++ 62 :: 62 :: follow) = TDC :: tokens_of F follow.
Proof.
  intros g follow F Hg. apply tokens_of_gap_tok; try assumption; try discriminate.
  - split; [reflexivity|discriminate].
  - intros f'. rewrite next_tok_step by reflexivity. reflexivity.
Qed.

Lemma tokens_ents : forall ents g tail F,
  Forall gitem_ok g -> ents_toks_hyp ents tail ->
  tokens_of (length (dtoks ents) + S F) (gap_text g ++ dtext ents ++ 62 :: 62 :: tail)
  = dtoks ents ++ TDC :: tokens_of F tail.
Proof.
  induction ents as [|e r IH]; intros g tail F Hg Hh.
  - cbn [dtoks dtext app length Nat.add]. apply closing_dict, Hg.
  - destruct e as [[[k g1] x] g2]. cbn [fst snd] in Hh.
    destruct Hh as (Hk & Hg1 & Hsep & (c & t & Ec) & Hg2 & Ht & Hc & Hr). cbn [fst snd] in *.
    cbn [dtoks dtext fst snd length Nat.add]. rewrite app_length. cbn [app]. rewrite <- !app_assoc. cbn [app].
    rewrite (tokens_of_gap_tok _ g (47 :: name_text k ++ gap_text g1 ++ ctext x ++ gap_text g2 ++ dtext r ++ 62 :: 62 :: tail)
               (TNm (map nitem_byte k)) (gap_text g1 ++ ctext x ++ gap_text g2 ++ dtext r ++ 62 :: 62 :: tail));
      try assumption; try discriminate.
    + f_equal. rewrite <- Nat.add_assoc. rewrite Ht by assumption. f_equal. apply IH; assumption.
    + split; [reflexivity|discriminate].
    + intros f'. rewrite next_tok_step by reflexivity. cbn [N.eqb Pos.eqb]. cbv iota.
      unfold name_text. rewrite read_name_core_items; [reflexivity|exact Hk| |lia].
      apply sep_ok_ends_name. rewrite Ec in Hsep |- *. destruct (gap_text g1) as [|z zs]; exact Hsep.
Qed.

Lemma operand_tokens : forall w, toks_ok w.
Proof.
  induction w as [|b|sign ds|sign ip fp|items|w0 items|items|g0 elems IH|g0 ents IH] using cw_ind2;
    try (intros g follow F Hg Hok;
         match goal with |- context [to_w ?w] =>
           destruct (atom_tok w follow 0 eq_refl Hok) as (t & Et & A & B & _); rewrite Et; cbn [length Nat.add app];
           destruct (ctext_start _ _ Hok) as (c & r & Ec & Sc);
           apply tokens_of_gap_tok; try assumption;
           [rewrite Ec; apply start_stops, Sc | rewrite Ec; discriminate
           | intros f'; destruct (atom_tok w follow f' eq_refl Hok) as (t' & Et' & _ & _ & Nt);
             rewrite Et in Et'; injection Et' as <-; exact Nt]
         end).
  - (* arrays *)
    intros g follow F Hg Hok. rewrite wtoks_arr, ctext_arr. destruct Hok as (Hg0 & Hel).
    cbn [length Nat.add app]. rewrite <- !app_assoc. cbn [app].
    rewrite (tokens_of_gap_tok _ g (91 :: gap_text g0 ++ etext elems ++ 93 :: follow) TAO
               (gap_text g0 ++ etext elems ++ 93 :: follow)); try assumption; try discriminate.
    + f_equal. rewrite app_length. cbn [length]. rewrite <- Nat.add_assoc. cbn [Nat.add].
      rewrite tokens_elems; [reflexivity|exact Hg0|].
      clear Hg0 Hg g. revert Hel. induction IH as [|e r He Hr IHr]; intros Hel; [exact I|].
      destruct Hel as (Hg & Hc & Hrest). cbn [elems_toks_hyp].
      split; [exact Hg|]. split; [exact He|]. split; [|apply IHr, Hrest].
      rewrite app_assoc. rewrite <- hd_error_snoc. rewrite <- app_assoc. exact Hc.
    + split; [reflexivity|discriminate].
    + intros f'. rewrite next_tok_step by reflexivity. reflexivity.
  - (* dictionaries *)
    intros g follow F Hg Hok. rewrite wtoks_dict, ctext_dict. destruct Hok as (Hg0 & Hel).
    cbn [length Nat.add app]. rewrite <- !app_assoc. cbn [app].
    rewrite (tokens_of_gap_tok _ g (60 :: 60 :: gap_text g0 ++ dtext ents ++ 62 :: 62 :: follow) TDO
               (gap_text g0 ++ dtext ents ++ 62 :: 62 :: follow)); try assumption; try discriminate.
    + f_equal. rewrite app_length. cbn [length]. rewrite <- Nat.add_assoc. cbn [Nat.add].
      rewrite tokens_ents; [reflexivity|exact Hg0|].
      clear Hg0 Hg g. revert Hel. induction IH as [|e r He Hr IHr]; intros Hel; [exact I|].
      destruct Hel as (Hk & Hg1 & Hsep & Hg2 & Hc & Hrest). cbn [ents_toks_hyp].
      destruct (ctext_start _ _ Hc) as (c & t & Ec & _).
      split; [exact Hk|]. split; [exact Hg1|]. split; [exact Hsep|]. split; [exists c, t; exact Ec|].
      split; [exact Hg2|]. split; [exact He|]. split; [|apply IHr, Hrest].
      rewrite app_assoc. rewrite <- hd_error_snoc2. rewrite <- app_assoc. exact Hc.
    + split; [reflexivity|discriminate].
    + intros f'. rewrite next_tok_step by reflexivity. reflexivity.
Qed.

(* ---------- the value is the same ---------- *)

Lemma cok_wf_value : forall w nxt, cok w nxt -> wf (to_w w) /\ wvalue (to_w w) = cvalue w /\ depth (to_w w) = cdepth w.
Proof.
  induction w as [|b|sign ds|sign ip fp|items|w0 items|items|g0 elems IH|g0 ents IH] using cw_ind2; intros nxt Hok.
  - repeat split.
  - repeat split.
  - cbn [cok] in Hok. destruct Hok as (_ & _ & _ & Ha & _). repeat split. exact Ha.
  - cbn [cok] in Hok. destruct Hok as (_ & _ & _ & Ha & _). repeat split. exact Ha.
  - repeat split.
  - cbn [cok] in Hok. destruct Hok as (_ & Hi). repeat split. cbn [to_w wvalue cvalue].
    rewrite hex_pairs_hdigits by exact Hi. reflexivity.
  - repeat split.
  - destruct Hok as (_ & Hel). cbn [to_w wf wvalue cvalue depth cdepth].
    revert Hel. induction IH as [|e r He Hr IHr]; intros Hel; [repeat split|].
    destruct Hel as (_ & Hc & Hrest). destruct (He _ Hc) as (A & B & C). destruct (IHr Hrest) as (A' & B' & C').
    split; [split; [exact A|exact A']|]. split.
    + rewrite B. injection B' as B'. rewrite B'. reflexivity.
    + rewrite C. injection C' as C'. rewrite C'. reflexivity.
  - destruct Hok as (_ & Hel). cbn [to_w wf wvalue cvalue depth cdepth].
    revert Hel. induction IH as [|e r He Hr IHr]; intros Hel; [repeat split|].
    destruct Hel as (_ & _ & _ & _ & Hc & Hrest). destruct (He _ Hc) as (A & B & C). destruct (IHr Hrest) as (A' & B' & C').
    split; [split; [exact A|exact A']|]. split.
    + rewrite B. injection B' as B'. rewrite B'. reflexivity.
    + rewrite C. injection C' as C'. rewrite C'. reflexivity.
Qed.

Lemma depth_le_toks : forall w, (depth w <= length (wtoks w))%nat.
Proof.
  induction w as [|b|l|l|s|d|s|ws IH|kvs IH|n g] using wobj_ind2; try (destruct b); try (cbn; lia).
  - cbn [depth wtoks length]. rewrite app_length. cbn [length]. apply le_n_S.
    induction IH as [|w ws Hw Hws IHws]; [cbn; lia|]. rewrite app_length. lia.
  - cbn [depth wtoks length]. rewrite app_length. cbn [length]. apply le_n_S.
    induction IH as [|[k w] kvs Hw Hws IHws]; [cbn; lia|]. cbn [snd] in Hw. cbn [length]. rewrite app_length. lia.
Qed.

Lemma ntoks_le_len : forall w nxt, cok w nxt -> (length (wtoks (to_w w)) <= length (ctext w))%nat.
Proof.
  induction w as [|b|sign ds|sign ip fp|items|w0 items|items|g0 elems IH|g0 ents IH] using cw_ind2; intros nxt Hok;
    try (destruct (ctext_start _ _ Hok) as (c & r & E & _); rewrite E; try destruct b; cbn; lia).
  - rewrite wtoks_arr, ctext_arr. destruct Hok as (_ & Hel). cbn [length]. rewrite !app_length. cbn [length].
    assert (L : (length (etoks elems) <= length (etext elems))%nat).
    { revert Hel. induction IH as [|e r He Hr IHr]; intros Hel; [cbn; lia|].
      destruct Hel as (_ & Hc & Hrest). cbn [etoks etext]. rewrite !app_length.
      specialize (He _ Hc). specialize (IHr Hrest). lia. }
    lia.
  - rewrite wtoks_dict, ctext_dict. destruct Hok as (_ & Hel). cbn [length]. rewrite !app_length. cbn [length].
    assert (L : (length (dtoks ents) <= length (dtext ents))%nat).
    { revert Hel. induction IH as [|e r He Hr IHr]; intros Hel; [cbn; lia|].
      destruct Hel as (_ & _ & _ & _ & Hc & Hrest). cbn [dtoks dtext length]. rewrite !app_length.
      specialize (He _ Hc). specialize (IHr Hrest). lia. }
    lia.
Qed.

Lemma tokens_gap_only : forall g F, Forall gitem_ok g -> tokens_of (S F) (gap_text g) = [TEOF].
Proof.
  intros g F Hg. cbn [tokens_of].
  destruct (next_tok_gap g [] (S (length (gap_text g))) Hg I) as (f' & Hf' & E); [rewrite app_nil_r; lia|].
  rewrite app_nil_r in E. rewrite E. destruct f' as [|f']; [cbn in Hf'; lia|]. reflexivity.
Qed.

(* the document parser and the content stream parser give a written operand the same value,
   whatever white space or comments follow it *)
Theorem both_parsers_read_the_same_value : forall w g,
  Forall gitem_ok g -> cok w (hd_error (gap_text g)) ->
  core_parse (ctext w ++ gap_text g) = POk (cvalue w) [TEOF]
  /\ cs_operand (S (length (ctext w ++ gap_text g))) (ctext w ++ gap_text g) = COk (cvalue w) (gap_text g).
Proof.
  intros w g Hg Hok. split.
  - unfold core_parse.
    pose proof (ntoks_le_len w _ Hok) as L.
    pose proof (operand_tokens w [] (gap_text g) (S (length (ctext w ++ gap_text g)) - length (wtoks (to_w w)))%nat
                  (Forall_nil _) Hok) as T.
    cbn [gap_text map concat app] in T.
    replace (length (wtoks (to_w w)) + (S (length (ctext w ++ gap_text g)) - length (wtoks (to_w w))))%nat
      with (S (length (ctext w ++ gap_text g))) in T by (rewrite app_length; lia).
    rewrite T.
    replace (S (length (ctext w ++ gap_text g)) - length (wtoks (to_w w)))%nat
      with (S (length (ctext w ++ gap_text g) - length (wtoks (to_w w)))) by (rewrite app_length; lia).
    rewrite tokens_gap_only by exact Hg.
    destruct (cok_wf_value w _ Hok) as (Hwf & Hv & Hd).
    rewrite <- Hv. apply object_tree_reads_back; [exact Hwf| |exact I].
    pose proof (depth_le_toks (to_w w)). rewrite app_length. lia.
  - apply operand_reads_back; [|exact Hok].
    pose proof (cdepth_le_len w). rewrite app_length. lia.
Qed.

Corollary both_parsers_agree_at_the_end_of_the_data : forall w, cok w None ->
  core_parse (ctext w) = POk (cvalue w) [TEOF]
  /\ cs_operand (S (length (ctext w))) (ctext w) = COk (cvalue w) [].
Proof.
  intros w H. pose proof (both_parsers_read_the_same_value w [] (Forall_nil _) H) as K.
  cbn [gap_text map concat] in K. rewrite !app_nil_r in K. exact K.
Qed.

(* [/A#20b (x\)y) <4 1> -12 .5 <</K[true null]>>] read by both *)
Definition demo_operand : cw :=
  CArr [GWs 32]
    [ (CName [NRaw 65; NEsc false false 32; NRaw 98], [GWs 32]);
      (CStr [SRaw 120; SEsc 41; SRaw 121], []);
      (CHex [] [(true, true, 65, [32], [])], [GCom (bs "c") 13; GWs 10]);
      (CInt [45] (bs "12"), [GWs 32]);
      (CReal [] [] (bs "5"), []);
      (CDict [] [([NRaw 75], [], CArr [] [(CBool true, [GWs 32]); (CNull, [])], [])], []) ].

Example demo_operand_ok : cok demo_operand None.
Proof.
  unfold demo_operand. cbn.
  repeat match goal with
         | |- _ /\ _ => split
         | |- True => exact I
         | |- Forall _ [] => constructor
         | |- Forall _ (_ :: _) => constructor
         | |- sign_ok [] => left; reflexivity
         | |- sign_ok [45] => right; right; reflexivity
         | |- gitem_ok _ => cbn
         | |- sitem_ok _ => cbn
         | |- nitem_ok _ => cbn
         | |- hitem_ok _ => cbn
         | |- _ <> _ => discriminate
         | |- _ \/ _ => first [left; reflexivity | right; reflexivity]
         | |- _ = _ => reflexivity
         | |- _ < _ => reflexivity
         end.
Qed.

Example demo_operand_value :
  cvalue demo_operand =
  OArr [OName (bs "A b"); OStr (bs "x)y"); OStr [65]; OInt (-12); OReal 5 1;
        ODict [(bs "K", OArr [OBool true; ONull])]]
  /\ core_parse (ctext demo_operand) = POk (cvalue demo_operand) [TEOF].
Proof. split; vm_compute; reflexivity. Qed.
