(* C06, lexical layer: strings of arbitrary bytes, names of arbitrary bytes and
   hex strings read back as written, under every spelling; the string reader is
   shared by both parsers, the name readers of the two parsers agree. *)
From Tabula Require Import model.C06_Syntax.
From Coq Require Import Lia ZifyN ZifyNat ZifyBool.
From Coq Require String.
Import (notations) String.
Open Scope N_scope.

Ltac Zify.zify_post_hook ::= Z.div_mod_to_equations.

(* ---------- literal strings ---------- *)

(* how one piece of a literal string may be written *)
Inductive sitem :=
| SRaw (c : N)                 (* the byte itself *)
| SEsc (c : N)                 (* backslash and a letter or the character: n r t b f ( ) \ *)
| SOct (c : N)                 (* backslash and three octal digits *)
| SCont (crlf : bool)          (* backslash and a line end: nothing *)
| SOpen | SClose.              (* a balanced pair of unescaped parentheses *)

Definition esc_letter (c : N) : option N :=
  if c =? 10 then Some 110 else if c =? 13 then Some 114 else if c =? 9 then Some 116
  else if c =? 8 then Some 98 else if c =? 12 then Some 102
  else if (c =? 40) || (c =? 41) || (c =? 92) then Some c else None.

Definition sitem_ok (i : sitem) : Prop :=
  match i with
  | SRaw c => c <> 40 /\ c <> 41 /\ c <> 92
  | SEsc c => esc_letter c <> None
  | SOct c => c < 256
  | _ => True
  end.

Definition sitem_text (i : sitem) : bytes :=
  match i with
  | SRaw c => [c]
  | SEsc c => [92; match esc_letter c with Some l => l | None => c end]
  | SOct c => [92; 48 + c / 64; 48 + (c / 8) mod 8; 48 + c mod 8]
  | SCont true => [92; 13; 10]
  | SCont false => [92; 10]
  | SOpen => [40]
  | SClose => [41]
  end.

Definition sitem_bytes (i : sitem) : bytes :=
  match i with
  | SRaw c | SEsc c | SOct c => [c]
  | SCont _ => []
  | SOpen => [40]
  | SClose => [41]
  end.

(* nesting of the unescaped parentheses *)
Fixpoint sbal (d : nat) (l : list sitem) : option nat :=
  match l with
  | [] => Some d
  | SOpen :: r => sbal (S d) r
  | SClose :: r => match d with O => None | S d' => sbal d' r end
  | _ :: r => sbal d r
  end.

Lemma read_string_item : forall i d d' fuel tail acc,
  sitem_ok i -> sbal d [i] = Some d' ->
  (length (sitem_text i ++ tail) < fuel)%nat ->
  exists fuel', (length tail < fuel')%nat /\
    read_string fuel (sitem_text i ++ tail) d acc = read_string fuel' tail d' (rev (sitem_bytes i) ++ acc).
Proof.
  intros i d d' fuel tail acc Hok Hb Hf.
  destruct fuel as [|f]; [cbn in Hf; lia|].
  destruct i as [c|c|c|crlf| |]; cbn [sitem_text sitem_bytes app rev] in *.
  - destruct Hok as (H1 & H2 & H3). cbn [sbal] in Hb. injection Hb as <-.
    exists f. split; [cbn [length] in Hf; lia|]. cbn [read_string].
    destruct (N.eqb_spec c 40); [contradiction|]. destruct (N.eqb_spec c 41); [contradiction|].
    destruct (N.eqb_spec c 92); [contradiction|]. reflexivity.
  - cbn [sbal] in Hb. injection Hb as <-. exists f. split; [cbn [length] in Hf; lia|].
    cbn [read_string N.eqb Pos.eqb]. cbn in Hok. unfold esc_letter in *.
    destruct (N.eqb_spec c 10) as [->|]; [reflexivity|].
    destruct (N.eqb_spec c 13) as [->|]; [reflexivity|].
    destruct (N.eqb_spec c 9) as [->|]; [reflexivity|].
    destruct (N.eqb_spec c 8) as [->|]; [reflexivity|].
    destruct (N.eqb_spec c 12) as [->|]; [reflexivity|].
    destruct ((c =? 40) || (c =? 41) || (c =? 92)) eqn:E; [|contradiction].
    assert (Hc : c = 40 \/ c = 41 \/ c = 92) by lia.
    destruct Hc as [->|[->| ->]]; reflexivity.
  - cbn [sbal] in Hb. injection Hb as <-. exists f. split; [cbn [length] in Hf; lia|].
    cbn in Hok.
    assert (B1 : c / 64 < 4) by lia. assert (B2 : (c / 8) mod 8 < 8) by lia. assert (B3 : c mod 8 < 8) by lia.
    cbn [read_string N.eqb Pos.eqb].
    assert (E1 : forall x, x < 8 -> (48 + x =? 110) = false /\ (48 + x =? 114) = false /\ (48 + x =? 116) = false
                              /\ (48 + x =? 98) = false /\ (48 + x =? 102) = false /\ (48 + x =? 13) = false
                              /\ (48 + x =? 10) = false /\ is_octal (48 + x) = true).
    { intros x Hx. unfold is_octal. repeat split; lia. }
    destruct (E1 (c / 64) ltac:(lia)) as (A1 & A2 & A3 & A4 & A5 & A6 & A7 & A8).
    rewrite A1, A2, A3, A4, A5, A6, A7, A8.
    destruct (E1 ((c / 8) mod 8) B2) as (_ & _ & _ & _ & _ & _ & _ & A9). rewrite A9.
    destruct (E1 (c mod 8) B3) as (_ & _ & _ & _ & _ & _ & _ & A10). rewrite A10.
    f_equal. f_equal. lia.
  - cbn [sbal] in Hb. injection Hb as <-. exists f. split; [destruct crlf; cbn [length app] in Hf; lia|].
    destruct crlf; reflexivity.
  - cbn [sbal] in Hb. injection Hb as <-. exists f. split; [cbn [length] in Hf; lia|]. reflexivity.
  - cbn [sbal] in Hb. destruct d as [|d0]; [discriminate|]. injection Hb as <-.
    exists f. split; [cbn [length] in Hf; lia|]. reflexivity.
Qed.

Lemma sbal_app : forall a b d d1, sbal d a = Some d1 -> sbal d (a ++ b) = sbal d1 b.
Proof.
  induction a as [|i a IH]; intros b d d1 H; [cbn in H; injection H as <-; reflexivity|].
  destruct i; cbn [app sbal] in *; try (apply IH; exact H).
  destruct d; [discriminate|apply IH; exact H].
Qed.

Lemma read_string_items : forall items d d' fuel tail acc,
  Forall sitem_ok items -> sbal d items = Some d' ->
  (length (concat (map sitem_text items) ++ tail) < fuel)%nat ->
  exists fuel', (length tail < fuel')%nat /\
    read_string fuel (concat (map sitem_text items) ++ tail) d acc
    = read_string fuel' tail d' (rev (concat (map sitem_bytes items)) ++ acc).
Proof.
  induction items as [|i items IH]; intros d d' fuel tail acc Hok Hb Hf.
  - cbn in *. injection Hb as <-. exists fuel. auto.
  - inversion Hok as [|? ? Hi Hr]; subst. cbn [map concat] in *. rewrite <- app_assoc in *.
    assert (exists d1, sbal d [i] = Some d1 /\ sbal d1 items = Some d') as (d1 & Hb1 & Hb2).
    { destruct i; cbn [sbal] in *; try (eexists; split; [reflexivity|exact Hb]).
      destruct d; [discriminate|]. eexists; split; [reflexivity|exact Hb]. }
    destruct (read_string_item i d d1 fuel (concat (map sitem_text items) ++ tail) acc Hi Hb1 Hf) as (f1 & Hf1 & E1).
    destruct (IH d1 d' f1 tail (rev (sitem_bytes i) ++ acc) Hr Hb2 Hf1) as (f2 & Hf2 & E2).
    exists f2. split; [exact Hf2|]. rewrite E1, E2. rewrite rev_app_distr, <- app_assoc. reflexivity.
Qed.

(* a string of arbitrary bytes, written with any mix of raw bytes, escapes, octal
   codes, line continuations and balanced parentheses, reads back as its bytes;
   both parsers use this reader *)
Theorem literal_string_reads_back : forall items tail,
  Forall sitem_ok items -> sbal 0 items = Some 0%nat ->
  read_string (S (length (concat (map sitem_text items) ++ 41 :: tail)))
              (concat (map sitem_text items) ++ 41 :: tail) 0 []
  = Some (concat (map sitem_bytes items), tail).
Proof.
  intros items tail Hok Hb.
  destruct (read_string_items items 0 0 (S (length (concat (map sitem_text items) ++ 41 :: tail)))
              (41 :: tail) [] Hok Hb ltac:(lia)) as (f & Hf & E).
  rewrite E. destruct f as [|f]; [cbn in Hf; lia|].
  cbn [read_string N.eqb Pos.eqb]. rewrite app_nil_r, rev_involutive. reflexivity.
Qed.

(* every byte has a spelling *)
Definition spell (c : N) : sitem := if (c =? 40) || (c =? 41) || (c =? 92) then SEsc c else SRaw c.

Lemma spell_bytes : forall s : bytes, concat (map (fun c => sitem_bytes (spell c)) s) = s.
Proof.
  induction s as [|c r IH]; [reflexivity|]. cbn [map concat]. rewrite IH. unfold spell.
  destruct ((c =? 40) || (c =? 41) || (c =? 92)); reflexivity.
Qed.

Lemma spell_ok : forall s : bytes, Forall sitem_ok (map spell s).
Proof.
  intros s. rewrite Forall_forall. intros i Hi. apply in_map_iff in Hi. destruct Hi as (c & <- & _).
  unfold spell. destruct ((c =? 40) || (c =? 41) || (c =? 92)) eqn:E; cbn [sitem_ok].
  - unfold esc_letter. rewrite E.
    destruct (c =? 10); [discriminate|]. destruct (c =? 13); [discriminate|]. destruct (c =? 9); [discriminate|].
    destruct (c =? 8); [discriminate|]. destruct (c =? 12); discriminate.
  - lia.
Qed.

Lemma spell_bal : forall (s : bytes) d, sbal d (map spell s) = Some d.
Proof.
  induction s as [|c r IH]; intros d; [reflexivity|]. cbn [map]. unfold spell at 1.
  destruct ((c =? 40) || (c =? 41) || (c =? 92)); cbn [sbal]; apply IH.
Qed.

Corollary every_byte_string_can_be_written : forall (s : bytes) tail,
  read_string (S (length (concat (map (fun c => sitem_text (spell c)) s) ++ 41 :: tail)))
              (concat (map (fun c => sitem_text (spell c)) s) ++ 41 :: tail) 0 []
  = Some (s, tail).
Proof.
  intros s tail.
  pose proof (literal_string_reads_back (map spell s) tail (spell_ok s) (spell_bal s 0%nat)) as H.
  rewrite !map_map in H. rewrite spell_bytes in H. exact H.
Qed.

(* ---------- names ---------- *)

Definition hex_digit_of (upper : bool) (v : N) : N :=
  if v <? 10 then 48 + v else if upper then 55 + v else 87 + v.

Inductive nitem := NRaw (c : N) | NEsc (upper1 upper2 : bool) (c : N).

Definition nitem_ok (i : nitem) : Prop :=
  match i with
  | NRaw c => is_ws c = false /\ is_delim c = false /\ c <> 35
  | NEsc _ _ c => c < 256
  end.

Definition nitem_text (i : nitem) : bytes :=
  match i with
  | NRaw c => [c]
  | NEsc u1 u2 c => [35; hex_digit_of u1 (c / 16); hex_digit_of u2 (c mod 16)]
  end.

Definition nitem_byte (i : nitem) : N := match i with NRaw c | NEsc _ _ c => c end.

Lemma hex_digit_facts : forall u v, v < 16 -> is_hex (hex_digit_of u v) = true /\ hex_val (hex_digit_of u v) = v.
Proof.
  intros u v Hv.
  assert (E : In v (map N.of_nat (seq 0 16))).
  { replace v with (N.of_nat (N.to_nat v)) by lia. apply in_map, in_seq. lia. }
  cbn in E. destruct u; repeat (destruct E as [<-|E]; [split; reflexivity|]); destruct E.
Qed.

Definition ends_name (tail : bytes) : Prop :=
  match tail with [] => True | c :: _ => is_ws c = true \/ is_delim c = true end.

Lemma read_name_core_items : forall items tail fuel acc,
  Forall nitem_ok items -> ends_name tail ->
  (length (concat (map nitem_text items) ++ tail) < fuel)%nat ->
  read_name_core fuel (concat (map nitem_text items) ++ tail) acc
  = Some (rev acc ++ map nitem_byte items, tail).
Proof.
  induction items as [|i items IH]; intros tail fuel acc Hok Ht Hf.
  - cbn [map concat app] in *. rewrite app_nil_r. destruct fuel as [|f]; [lia|].
    destruct tail as [|c r]; [reflexivity|]. cbn [read_name_core].
    destruct Ht as [Ht|Ht]; rewrite Ht; [reflexivity|rewrite orb_true_r; reflexivity].
  - inversion Hok as [|? ? Hi Hr]; subst. cbn [map concat] in *. rewrite <- app_assoc in *.
    destruct fuel as [|f]; [lia|].
    destruct i as [c|u1 u2 c]; cbn [nitem_text app nitem_byte] in *.
    + destruct Hi as (H1 & H2 & H3). cbn [read_name_core]. rewrite H1, H2. cbn [orb].
      destruct (N.eqb_spec c 35); [contradiction|].
      rewrite IH by (try assumption; cbn [length] in Hf; lia).
      cbn [rev]. rewrite <- app_assoc. reflexivity.
    + cbn in Hi. cbn [read_name_core N.eqb Pos.eqb is_ws is_delim orb].
      destruct (hex_digit_facts u1 (c / 16) ltac:(lia)) as [A1 A2].
      destruct (hex_digit_facts u2 (c mod 16) ltac:(lia)) as [B1 B2].
      rewrite A1, B1, A2, B2. cbn [andb].
      rewrite IH by (try assumption; cbn [length] in Hf; lia).
      cbn [rev]. rewrite <- app_assoc. cbn [app]. f_equal. f_equal. f_equal. f_equal. lia.
Qed.

Lemma read_name_cs_items : forall items tail fuel acc,
  Forall nitem_ok items -> ends_name tail ->
  (length (concat (map nitem_text items) ++ tail) < fuel)%nat ->
  read_name_cs fuel (concat (map nitem_text items) ++ tail) acc
  = (rev acc ++ map nitem_byte items, tail).
Proof.
  induction items as [|i items IH]; intros tail fuel acc Hok Ht Hf.
  - cbn [map concat app] in *. rewrite app_nil_r. destruct fuel as [|f]; [lia|].
    destruct tail as [|c r]; [reflexivity|]. cbn [read_name_cs].
    destruct Ht as [Ht|Ht]; rewrite Ht; [reflexivity|rewrite orb_true_r; reflexivity].
  - inversion Hok as [|? ? Hi Hr]; subst. cbn [map concat] in *. rewrite <- app_assoc in *.
    destruct fuel as [|f]; [lia|].
    destruct i as [c|u1 u2 c]; cbn [nitem_text app nitem_byte] in *.
    + destruct Hi as (H1 & H2 & H3). cbn [read_name_cs]. rewrite H1, H2. cbn [orb].
      destruct (N.eqb_spec c 35); [contradiction|].
      rewrite IH by (try assumption; cbn [length] in Hf; lia).
      cbn [rev]. rewrite <- app_assoc. reflexivity.
    + cbn in Hi. cbn [read_name_cs N.eqb Pos.eqb is_ws is_delim orb skipn].
      destruct (hex_digit_facts u1 (c / 16) ltac:(lia)) as [A1 A2].
      destruct (hex_digit_facts u2 (c mod 16) ltac:(lia)) as [B1 B2].
      rewrite A1, B1, A2, B2. cbn [andb].
      rewrite IH by (try assumption; cbn [length] in Hf; lia).
      cbn [rev]. rewrite <- app_assoc. cbn [app]. f_equal. f_equal. f_equal. f_equal. lia.
Qed.

(* a name of arbitrary bytes, each written raw (when regular) or as #xx in either
   case, reads back as its bytes - by the object parser and by the content stream
   parser, which therefore agree on it *)
Theorem name_reads_back_in_both_parsers : forall items tail,
  Forall nitem_ok items -> ends_name tail ->
  let text := concat (map nitem_text items) ++ tail in
  read_name_core (S (length text)) text [] = Some (map nitem_byte items, tail)
  /\ read_name_cs (S (length text)) text [] = (map nitem_byte items, tail).
Proof.
  intros items tail Hok Ht text. subst text. split.
  - rewrite read_name_core_items by (try assumption; lia). reflexivity.
  - rewrite read_name_cs_items by (try assumption; lia). reflexivity.
Qed.

(* ---------- hex strings ---------- *)

(* two digits per byte, either case, any whitespace after each digit *)
Definition hitem := (bool * bool * N * bytes * bytes)%type.
Definition hitem_ok (h : hitem) : Prop :=
  match h with (_, _, c, w1, w2) => c < 256 /\ forallb is_ws w1 = true /\ forallb is_ws w2 = true end.
Definition hitem_text (h : hitem) : bytes :=
  match h with (u1, u2, c, w1, w2) => [hex_digit_of u1 (c / 16)] ++ w1 ++ [hex_digit_of u2 (c mod 16)] ++ w2 end.
Definition hitem_byte (h : hitem) : N := match h with (_, _, c, _, _) => c end.

Lemma read_hex_ws : forall w rest acc, forallb is_ws w = true ->
  read_hex_digits (w ++ rest) acc = read_hex_digits rest acc.
Proof.
  induction w as [|c w IH]; intros rest acc H; [reflexivity|].
  cbn in H. apply andb_true_iff in H. destruct H as [H1 H2]. cbn [app read_hex_digits].
  assert (c <> 62) by (intros ->; discriminate).
  destruct (N.eqb_spec c 62); [contradiction|]. rewrite H1. apply IH, H2.
Qed.

Lemma hex_not_gt_ws : forall u v, v < 16 ->
  (hex_digit_of u v =? 62) = false /\ is_ws (hex_digit_of u v) = false.
Proof.
  intros u v Hv.
  assert (E : In v (map N.of_nat (seq 0 16))).
  { replace v with (N.of_nat (N.to_nat v)) by lia. apply in_map, in_seq. lia. }
  cbn in E. destruct u; repeat (destruct E as [<-|E]; [split; reflexivity|]); destruct E.
Qed.

Lemma read_hex_items : forall items tail acc pre,
  Forall hitem_ok items -> forallb is_ws pre = true ->
  exists ds, read_hex_digits (pre ++ concat (map hitem_text items) ++ 62 :: tail) acc = Some (rev acc ++ ds, tail)
             /\ hex_pairs ds = map hitem_byte items /\ Nat.even (length ds) = true.
Proof.
  induction items as [|[[[[u1 u2] c] w1] w2] items IH]; intros tail acc pre Hok Hp.
  - cbn [map concat app]. rewrite read_hex_ws by exact Hp. cbn. exists []. rewrite app_nil_r. auto.
  - inversion Hok as [|? ? Hh Hr]; subst. cbn in Hh. destruct Hh as (Hc & Hw1 & Hw2).
    rewrite read_hex_ws by exact Hp.
    cbn [map concat hitem_text]. rewrite <- !app_assoc. cbn [app read_hex_digits].
    destruct (hex_not_gt_ws u1 (c / 16) ltac:(lia)) as [A1 A2].
    destruct (hex_digit_facts u1 (c / 16) ltac:(lia)) as [A3 A4].
    rewrite A1, A2, A3. rewrite read_hex_ws by exact Hw1. cbn [read_hex_digits].
    destruct (hex_not_gt_ws u2 (c mod 16) ltac:(lia)) as [B1 B2].
    destruct (hex_digit_facts u2 (c mod 16) ltac:(lia)) as [B3 B4].
    rewrite B1, B2, B3.
    destruct (IH tail (hex_digit_of u2 (c mod 16) :: hex_digit_of u1 (c / 16) :: acc) w2 Hr Hw2) as (ds & E & P & Ev).
    rewrite E. exists (hex_digit_of u1 (c / 16) :: hex_digit_of u2 (c mod 16) :: ds).
    split; [cbn [rev]; rewrite <- !app_assoc; reflexivity|].
    split; [cbn [hex_pairs map hitem_byte]; rewrite A4, B4, P; f_equal; lia|exact Ev].
Qed.

(* a hex string with two digits per byte, in either case, with whitespace
   anywhere between digits, reads back as its bytes (object parser) *)
Theorem hex_string_reads_back : forall items tail,
  Forall hitem_ok items ->
  exists ds, read_hex_digits (concat (map hitem_text items) ++ 62 :: tail) [] = Some (ds, tail)
             /\ hex_pairs ds = map hitem_byte items.
Proof.
  intros items tail Hok.
  destruct (read_hex_items items tail [] [] Hok eq_refl) as (ds & E & P & _).
  exists ds. cbn [app rev] in E. auto.
Qed.

(* (a\051\n) with a nested pair and a continuation; /A#20b#2F; <4 1 6A> *)
Example lexical_examples :
  read_string 40 (bs "a(\051)\" ++ [10] ++ bs "x\n)rest") 0 [] = Some (bs "a())x" ++ [10], bs "rest")
  /\ read_name_core 20 (bs "A#20b#2F ") [] = Some ([65; 32; 98; 47], [32])
  /\ read_name_cs 20 (bs "A#20b#2F ") [] = ([65; 32; 98; 47], [32])
  /\ option_map (fun p => hex_pairs (fst p)) (read_hex_digits (bs "4 1 6A>") []) = Some [65; 106].
Proof. repeat split; vm_compute; reflexivity. Qed.
