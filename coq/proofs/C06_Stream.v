(* C06, content streams: every program of operands and operators, written with
   any legal spelling - whitespace and comments between tokens or none where a
   delimiter separates them, strings, names and hex strings spelled as the
   lexical layer allows, arrays and dictionaries nested to any depth - is read
   back by the content stream parser as the same operations: each operator with
   exactly the operands written before it, in order. *)
From Tabula Require Import model.C17_Xlsx model.C06_Syntax proofs.C06_Lexical.
From Coq Require Import Lia ZifyN ZifyNat ZifyBool.
From Coq Require String.
Import (notations) String.
Open Scope N_scope.

(* ---------- what may stand between two tokens ---------- *)

Inductive gitem := GWs (c : N) | GCom (text : bytes) (eol : N).
Definition gap := list gitem.

Definition no_eol (x : N) : bool := negb ((x =? 10) || (x =? 13)).

Definition gitem_ok (g : gitem) : Prop :=
  match g with
  | GWs c => is_ws c = true
  | GCom t e => forallb no_eol t = true /\ (e = 10 \/ e = 13)
  end.

Definition gitem_text (g : gitem) : bytes :=
  match g with GWs c => [c] | GCom t e => 37 :: t ++ [e] end.

Definition gap_text (g : gap) : bytes := concat (map gitem_text g).

(* the byte at which skipping stops *)
Definition stops (rest : bytes) : Prop :=
  match rest with [] => True | c :: _ => is_ws c = false /\ c <> 37 end.

Lemma cs_line_comment : forall t e rest, forallb no_eol t = true -> (e = 10 \/ e = 13) ->
  cs_line (t ++ e :: rest) = e :: rest.
Proof.
  induction t as [|x t IH]; intros e rest Ht He.
  - cbn [app cs_line]. destruct He as [-> | ->]; reflexivity.
  - cbn [forallb] in Ht. apply andb_true_iff in Ht. destruct Ht as [Hx Ht].
    cbn [app cs_line]. unfold no_eol in Hx. apply negb_true_iff in Hx. rewrite Hx. apply IH; assumption.
Qed.

Lemma cs_skip_stops : forall rest fuel, stops rest -> (0 < fuel)%nat -> cs_skip fuel rest = rest.
Proof.
  intros [|c r] fuel H Hf; (destruct fuel as [|f]; [lia|]); [reflexivity|].
  destruct H as [H1 H2]. cbn [cs_skip]. rewrite H1.
  destruct (N.eqb_spec c 37); [contradiction|reflexivity].
Qed.

Lemma gitem_text_len : forall g, (1 <= length (gitem_text g))%nat.
Proof. intros [c|t e]; cbn; lia. Qed.

Lemma cs_skip_gap : forall g rest fuel,
  Forall gitem_ok g -> stops rest -> (length (gap_text g ++ rest) < fuel)%nat ->
  cs_skip fuel (gap_text g ++ rest) = rest.
Proof.
  induction g as [|i g IH]; intros rest fuel Hok Hs Hf.
  - cbn [gap_text map concat app] in *. apply cs_skip_stops; [exact Hs|lia].
  - inversion Hok as [|? ? Hi Hg]; subst.
    unfold gap_text in *. cbn [map concat] in *. rewrite <- app_assoc in *.
    destruct i as [c|t e].
    + cbn [gitem_text app] in *. destruct fuel as [|f]; [cbn in Hf; lia|].
      cbn [cs_skip]. cbn in Hi. rewrite Hi. apply IH; [exact Hg|exact Hs|cbn [length] in Hf; lia].
    + cbn [gitem_text app] in *. destruct Hi as [Ht He].
      destruct fuel as [|f]; [cbn in Hf; lia|].
      cbn [cs_skip]. change (is_ws 37) with false. cbn [N.eqb Pos.eqb]. cbv iota.
      rewrite <- app_assoc. cbn [app]. rewrite cs_line_comment by assumption.
      rewrite <- app_assoc in Hf. cbn [app length] in Hf. rewrite app_length in Hf. cbn [length] in Hf.
      destruct f as [|f]; [lia|].
      cbn [cs_skip]. assert (Hw : is_ws e = true) by (destruct He as [-> | ->]; reflexivity). rewrite Hw.
      apply IH; [exact Hg|exact Hs|lia].
Qed.

(* ---------- character classes ---------- *)

Lemma digit_not_sep : forall c, is_digit c = true -> is_ws c = false /\ is_delim c = false /\ c <> 46.
Proof. intros c H. unfold is_digit, is_ws, is_delim in *. lia. Qed.

Definition sep_ok (nxt : option N) : Prop :=
  match nxt with None => True | Some c => is_ws c = true \/ is_delim c = true end.

Lemma sep_ok_ends_name : forall rest, sep_ok (hd_error rest) -> ends_name rest.
Proof. intros [|c r] H; exact H. Qed.

Lemma sep_not_digit : forall c, (is_ws c = true \/ is_delim c = true) -> is_digit c = false /\ (c =? 46) = false.
Proof. intros c H. unfold is_digit, is_ws, is_delim in *. lia. Qed.

(* ---------- numbers ---------- *)

Definition sign_ok (sign : bytes) : Prop := sign = [] \/ sign = [43] \/ sign = [45].

Lemma cs_digits_run : forall ds rest acc dot,
  forallb is_digit ds = true ->
  cs_digits (ds ++ rest) acc dot = cs_digits rest (rev ds ++ acc) dot.
Proof.
  induction ds as [|d ds IH]; intros rest acc dot H; [reflexivity|].
  cbn [forallb] in H. apply andb_true_iff in H. destruct H as [Hd H].
  cbn [app cs_digits]. rewrite Hd. rewrite IH by exact H. cbn [rev]. rewrite <- app_assoc. reflexivity.
Qed.

Lemma cs_digits_stop : forall rest acc dot, sep_ok (hd_error rest) ->
  cs_digits rest acc dot = (rev acc, dot, rest).
Proof.
  intros [|c r] acc dot H; [reflexivity|]. cbn in H. apply sep_not_digit in H. destruct H as [H1 H2].
  cbn [cs_digits]. rewrite H1, H2. reflexivity.
Qed.

Lemma split_sign : forall sign body rest,
  sign_ok sign -> (match body ++ rest with c :: _ => (c =? 43) || (c =? 45) = false | [] => True end) ->
  cs_sign ((sign ++ body) ++ rest) = (sign, body ++ rest).
Proof.
  intros sign body rest [-> | [-> | ->]] H; try reflexivity.
  cbn [app]. unfold cs_sign. destruct (body ++ rest) as [|c r]; [reflexivity|]. rewrite H. reflexivity.
Qed.

Lemma cs_number_int : forall sign ds rest z,
  sign_ok sign -> forallb is_digit ds = true -> ds <> [] -> atoi (sign ++ ds) = Some z ->
  sep_ok (hd_error rest) ->
  cs_number ((sign ++ ds) ++ rest) = Some (OInt z, rest).
Proof.
  intros sign ds rest z Hs Hd Hne Ha Hr. unfold cs_number.
  rewrite (split_sign sign ds rest Hs).
  - rewrite cs_digits_run by exact Hd. rewrite cs_digits_stop by exact Hr.
    rewrite app_nil_r, rev_involutive. rewrite Ha. reflexivity.
  - destruct ds as [|d ds]; [contradiction|]. cbn [app forallb] in *.
    apply andb_true_iff in Hd. destruct Hd as [Hd _]. unfold is_digit in Hd. lia.
Qed.

Lemma cs_number_real : forall sign ip fp rest o,
  sign_ok sign -> forallb is_digit ip = true -> forallb is_digit fp = true ->
  parse_real (sign ++ ip ++ 46 :: fp) = Some o -> sep_ok (hd_error rest) ->
  cs_number ((sign ++ ip ++ 46 :: fp) ++ rest) = Some (o, rest).
Proof.
  intros sign ip fp rest o Hs Hi Hf Hp Hr. unfold cs_number.
  rewrite (split_sign sign (ip ++ 46 :: fp) rest Hs).
  - rewrite <- app_assoc. rewrite cs_digits_run by exact Hi. cbn [app cs_digits].
    change (is_digit 46) with false. cbn [N.eqb Pos.eqb andb negb]. cbv iota.
    rewrite cs_digits_run by exact Hf. rewrite cs_digits_stop by exact Hr.
    cbn [rev]. rewrite rev_app_distr. cbn [rev app]. rewrite rev_app_distr, !rev_involutive.
    cbn [rev app]. rewrite <- app_assoc. cbn [app]. rewrite Hp. reflexivity.
  - destruct ip as [|d ip]; [reflexivity|]. cbn [app forallb] in *.
    apply andb_true_iff in Hi. destruct Hi as [Hd _]. unfold is_digit in Hd. lia.
Qed.

(* ---------- hex strings in a content stream ---------- *)

Lemma gap_of_ws : forall w, forallb is_ws w = true ->
  gap_text (map GWs w) = w /\ Forall gitem_ok (map GWs w).
Proof.
  induction w as [|c w IH]; intros H; [split; [reflexivity|constructor]|].
  cbn [forallb] in H. apply andb_true_iff in H. destruct H as [Hc H]. destruct (IH H) as [E F].
  split; [unfold gap_text in *; cbn [map concat gitem_text app]; rewrite E; reflexivity|].
  constructor; [exact Hc|exact F].
Qed.

Lemma ws_not_gt : forall c, is_ws c = true -> (c =? 62) = false.
Proof. intros c H. unfold is_ws in H. lia. Qed.

Lemma cs_hex_ws : forall w rest acc fuel,
  forallb is_ws w = true -> (length (w ++ rest) < fuel)%nat ->
  exists fuel', (length rest < fuel')%nat /\ cs_hex fuel (w ++ rest) acc = cs_hex fuel' rest acc.
Proof.
  induction w as [|c w IH]; intros rest acc fuel H Hf; [exists fuel; split; [exact Hf|reflexivity]|].
  cbn [forallb] in H. apply andb_true_iff in H. destruct H as [Hc H].
  destruct fuel as [|f]; [cbn in Hf; lia|].
  cbn [app cs_hex]. rewrite (ws_not_gt c Hc), Hc. apply IH; [exact H|cbn [app length] in Hf; lia].
Qed.

Lemma hex_digit_stops : forall u v, v < 16 -> stops (hex_digit_of u v :: []) /\ (hex_digit_of u v =? 37) = false.
Proof.
  intros u v Hv.
  assert (E : In v (map N.of_nat (seq 0 16))).
  { replace v with (N.of_nat (N.to_nat v)) by lia. apply in_map, in_seq. lia. }
  cbn in E. destruct u; repeat (destruct E as [<-|E]; [repeat split; discriminate|]); destruct E.
Qed.

Lemma cs_hex_item : forall h rest acc fuel,
  hitem_ok h -> (length (hitem_text h ++ rest) < fuel)%nat ->
  exists fuel', (length rest < fuel')%nat /\
    cs_hex fuel (hitem_text h ++ rest) acc = cs_hex fuel' rest (hitem_byte h :: acc).
Proof.
  intros [[[[u1 u2] c] w1] w2] rest acc fuel (Hc & Hw1 & Hw2) Hf.
  cbn [hitem_text hitem_byte] in *. rewrite <- !app_assoc in *. cbn [app] in *.
  destruct fuel as [|f]; [cbn in Hf; lia|].
  destruct (hex_not_gt_ws u1 (c / 16) ltac:(lia)) as [A1 A2].
  destruct (hex_digit_facts u1 (c / 16) ltac:(lia)) as [A3 A4].
  destruct (hex_not_gt_ws u2 (c mod 16) ltac:(lia)) as [B1 B2].
  destruct (hex_digit_facts u2 (c mod 16) ltac:(lia)) as [B3 B4].
  assert (V : hex_val (hex_digit_of u1 (c / 16)) * 16 + hex_val (hex_digit_of u2 (c mod 16)) = c)
    by (rewrite A4, B4; lia).
  cbn [cs_hex]. rewrite A1, A2, A3. cbn [negb].
  cbn [length] in Hf. rewrite app_length in Hf. cbn [length] in Hf. rewrite app_length in Hf.
  destruct w1 as [|x w1].
  - cbn [app]. rewrite B1, B2, B3, V. apply cs_hex_ws; [exact Hw2|rewrite app_length; cbn [length] in *; lia].
  - cbn [app]. cbn [forallb] in Hw1. apply andb_true_iff in Hw1. destruct Hw1 as [Hx Hw1].
    rewrite (ws_not_gt x Hx), Hx.
    destruct (gap_of_ws (x :: w1)) as [G1 G2]; [cbn [forallb]; rewrite Hx, Hw1; reflexivity|].
    pose proof (cs_skip_gap (map GWs (x :: w1)) (hex_digit_of u2 (c mod 16) :: w2 ++ rest)
                  (S (length (x :: w1 ++ hex_digit_of u2 (c mod 16) :: w2 ++ rest))) G2) as K.
    rewrite G1 in K. cbn [app] in K. rewrite K.
    + rewrite B1, B3, V. apply cs_hex_ws; [exact Hw2|rewrite app_length; cbn [length] in *; lia].
    + destruct (hex_digit_stops u2 (c mod 16) ltac:(lia)) as [[S1 S2] _]. split; assumption.
    + lia.
Qed.

Lemma cs_hex_items : forall items tail acc fuel,
  Forall hitem_ok items -> (length (concat (map hitem_text items) ++ 62%N :: tail) < fuel)%nat ->
  cs_hex fuel (concat (map hitem_text items) ++ 62 :: tail) acc = Some (rev acc ++ map hitem_byte items, tail).
Proof.
  induction items as [|h items IH]; intros tail acc fuel Hok Hf.
  - cbn [map concat app] in *. destruct fuel as [|f]; [cbn in Hf; lia|]. cbn. rewrite app_nil_r. reflexivity.
  - inversion Hok as [|? ? Hh Hr]; subst. cbn [map concat] in *. rewrite <- app_assoc in *.
    destruct (cs_hex_item h (concat (map hitem_text items) ++ 62 :: tail) acc fuel Hh Hf) as (f' & Hf' & E).
    rewrite E. rewrite IH by assumption. cbn [rev]. rewrite <- app_assoc. reflexivity.
Qed.

(* ---------- operands as written ---------- *)

Inductive cw :=
| CNull | CBool (b : bool)
| CInt (sign ds : bytes) | CReal (sign ip fp : bytes)
| CStr (items : list sitem) | CHex (w0 : bytes) (items : list hitem) | CName (items : list nitem)
| CArr (g0 : gap) (elems : list (cw * gap))
| CDict (g0 : gap) (ents : list (list nitem * gap * cw * gap)).

Section CwInd.
  Variable P : cw -> Prop.
  Hypothesis H0 : P CNull.
  Hypothesis H1 : forall b, P (CBool b).
  Hypothesis H2 : forall s d, P (CInt s d).
  Hypothesis H3 : forall s i f, P (CReal s i f).
  Hypothesis H4 : forall i, P (CStr i).
  Hypothesis H5 : forall w i, P (CHex w i).
  Hypothesis H6 : forall i, P (CName i).
  Hypothesis H7 : forall g l, Forall (fun e => P (fst e)) l -> P (CArr g l).
  Hypothesis H8 : forall g l, Forall (fun e => P (snd (fst e))) l -> P (CDict g l).
  Fixpoint cw_ind2 (w : cw) : P w :=
    match w with
    | CNull => H0 | CBool b => H1 b | CInt s d => H2 s d | CReal s i f => H3 s i f
    | CStr i => H4 i | CHex w0 i => H5 w0 i | CName i => H6 i
    | CArr g l => H7 g l ((fix go (l : list (cw * gap)) : Forall (fun e => P (fst e)) l :=
                            match l with [] => Forall_nil _ | x :: r => Forall_cons x (cw_ind2 (fst x)) (go r) end) l)
    | CDict g l => H8 g l ((fix go (l : list (list nitem * gap * cw * gap)) : Forall (fun e => P (snd (fst e))) l :=
                              match l with [] => Forall_nil _ | x :: r => Forall_cons x (cw_ind2 (snd (fst x))) (go r) end) l)
    end.
End CwInd.

Definition name_text (k : list nitem) : bytes := concat (map nitem_text k).

Fixpoint ctext (w : cw) : bytes :=
  match w with
  | CNull => bs "null"
  | CBool true => bs "true"
  | CBool false => bs "false"
  | CInt sign ds => sign ++ ds
  | CReal sign ip fp => sign ++ ip ++ 46 :: fp
  | CStr items => 40 :: concat (map sitem_text items) ++ [41]
  | CHex w0 items => 60 :: w0 ++ concat (map hitem_text items) ++ [62]
  | CName items => 47 :: name_text items
  | CArr g0 elems =>
      91 :: gap_text g0 ++
      (fix go (l : list (cw * gap)) : bytes :=
         match l with [] => [] | e :: r => ctext (fst e) ++ gap_text (snd e) ++ go r end) elems ++ [93]
  | CDict g0 ents =>
      60 :: 60 :: gap_text g0 ++
      (fix go (l : list (list nitem * gap * cw * gap)) : bytes :=
         match l with
         | [] => []
         | e :: r => 47 :: name_text (fst (fst (fst e))) ++ gap_text (snd (fst (fst e))) ++
                     ctext (snd (fst e)) ++ gap_text (snd e) ++ go r
         end) ents ++ [62; 62]
  end.

Fixpoint etext (l : list (cw * gap)) : bytes :=
  match l with [] => [] | e :: r => ctext (fst e) ++ gap_text (snd e) ++ etext r end.

Fixpoint dtext (l : list (list nitem * gap * cw * gap)) : bytes :=
  match l with
  | [] => []
  | e :: r => 47 :: name_text (fst (fst (fst e))) ++ gap_text (snd (fst (fst e))) ++
              ctext (snd (fst e)) ++ gap_text (snd e) ++ dtext r
  end.

Lemma ctext_arr : forall g0 elems, ctext (CArr g0 elems) = 91 :: gap_text g0 ++ etext elems ++ [93].
Proof. reflexivity. Qed.

Lemma ctext_dict : forall g0 ents, ctext (CDict g0 ents) = 60 :: 60 :: gap_text g0 ++ dtext ents ++ [62; 62].
Proof. reflexivity. Qed.

Definition cdummy : obj := ONull.

Fixpoint cvalue (w : cw) : obj :=
  match w with
  | CNull => ONull
  | CBool b => OBool b
  | CInt sign ds => match atoi (sign ++ ds) with Some z => OInt z | None => cdummy end
  | CReal sign ip fp => match parse_real (sign ++ ip ++ 46 :: fp) with Some o => o | None => cdummy end
  | CStr items => OStr (concat (map sitem_bytes items))
  | CHex _ items => OStr (map hitem_byte items)
  | CName items => OName (map nitem_byte items)
  | CArr _ elems => OArr ((fix go (l : list (cw * gap)) : list obj :=
                             match l with [] => [] | e :: r => cvalue (fst e) :: go r end) elems)
  | CDict _ ents => ODict ((fix go (l : list (list nitem * gap * cw * gap)) : list (bytes * obj) :=
                              match l with
                              | [] => []
                              | e :: r => (map nitem_byte (fst (fst (fst e))), cvalue (snd (fst e))) :: go r
                              end) ents)
  end.

Fixpoint evalue (l : list (cw * gap)) : list obj :=
  match l with [] => [] | e :: r => cvalue (fst e) :: evalue r end.
Fixpoint dvalue (l : list (list nitem * gap * cw * gap)) : list (bytes * obj) :=
  match l with [] => [] | e :: r => (map nitem_byte (fst (fst (fst e))), cvalue (snd (fst e))) :: dvalue r end.

Lemma cvalue_arr : forall g0 elems, cvalue (CArr g0 elems) = OArr (evalue elems).
Proof. reflexivity. Qed.

Lemma cvalue_dict : forall g0 ents, cvalue (CDict g0 ents) = ODict (dvalue ents).
Proof. reflexivity. Qed.

(* well-formedness, given the byte that follows (None at the end of the data):
   numbers, names and keywords must be followed by whitespace or a delimiter *)
Fixpoint cok (w : cw) (nxt : option N) : Prop :=
  match w with
  | CNull | CBool _ => sep_ok nxt
  | CInt sign ds =>
      sign_ok sign /\ forallb is_digit ds = true /\ ds <> [] /\ atoi (sign ++ ds) <> None /\ sep_ok nxt
  | CReal sign ip fp =>
      sign_ok sign /\ forallb is_digit ip = true /\ forallb is_digit fp = true /\
      parse_real (sign ++ ip ++ 46 :: fp) <> None /\ sep_ok nxt
  | CStr items => Forall sitem_ok items /\ sbal 0 items = Some 0%nat
  | CHex w0 items => forallb is_ws w0 = true /\ Forall hitem_ok items
  | CName items => Forall nitem_ok items /\ sep_ok nxt
  | CArr g0 elems =>
      Forall gitem_ok g0 /\
      (fix go (l : list (cw * gap)) : Prop :=
         match l with
         | [] => True
         | e :: r => Forall gitem_ok (snd e) /\ cok (fst e) (hd_error (gap_text (snd e) ++ etext r ++ [93])) /\ go r
         end) elems
  | CDict g0 ents =>
      Forall gitem_ok g0 /\
      (fix go (l : list (list nitem * gap * cw * gap)) : Prop :=
         match l with
         | [] => True
         | e :: r =>
             Forall nitem_ok (fst (fst (fst e))) /\ Forall gitem_ok (snd (fst (fst e))) /\
             sep_ok (hd_error (gap_text (snd (fst (fst e))) ++ ctext (snd (fst e)))) /\
             Forall gitem_ok (snd e) /\
             cok (snd (fst e)) (hd_error (gap_text (snd e) ++ dtext r ++ [62; 62])) /\ go r
         end) ents
  end.

Fixpoint cdepth (w : cw) : nat :=
  match w with
  | CArr _ l => S ((fix go (l : list (cw * gap)) : nat :=
                      match l with [] => 0 | e :: r => Nat.max (cdepth (fst e)) (go r) end) l)
  | CDict _ l => S ((fix go (l : list (list nitem * gap * cw * gap)) : nat :=
                       match l with [] => 0 | e :: r => Nat.max (cdepth (snd (fst e))) (go r) end) l)
  | _ => 1
  end%nat.

(* every operand starts with a byte that is neither whitespace, a comment sign nor a closing bracket *)
Definition start_ok (c : N) : Prop := is_ws c = false /\ c <> 37 /\ c <> 93.

Lemma digit_start : forall c, is_digit c = true -> start_ok c.
Proof. intros c H. unfold start_ok, is_digit, is_ws in *. lia. Qed.

Lemma num_start : forall sign body, sign_ok sign ->
  (exists c r, body = c :: r /\ (is_digit c = true \/ c = 46)) ->
  exists c r, sign ++ body = c :: r /\ start_ok c /\
              ((c =? 45) || (c =? 43) || (c =? 46) || is_digit c) = true.
Proof.
  intros sign body Hs (c & r & -> & Hc).
  destruct Hs as [-> | [-> | ->]].
  - exists c, r. split; [reflexivity|]. destruct Hc as [Hc | ->].
    + split; [apply digit_start, Hc|]. rewrite Hc. rewrite !orb_true_r. reflexivity.
    + split; [repeat split; discriminate|reflexivity].
  - exists 43, (c :: r). repeat split; discriminate.
  - exists 45, (c :: r). repeat split; discriminate.
Qed.

Lemma ctext_start : forall w nxt, cok w nxt -> exists c r, ctext w = c :: r /\ start_ok c.
Proof.
  intros w nxt H. destruct w as [|[|]|sign ds|sign ip fp|items|w0 items|items|g0 elems|g0 ents].
  - eexists _, _. split; [reflexivity|repeat split; discriminate].
  - eexists _, _. split; [reflexivity|repeat split; discriminate].
  - eexists _, _. split; [reflexivity|repeat split; discriminate].
  - cbn [cok ctext] in *. destruct H as (Hs & Hd & Hne & _).
    destruct (num_start sign ds Hs) as (c & r & E & S1 & _).
    + destruct ds as [|d ds]; [contradiction|]. exists d, ds. split; [reflexivity|].
      cbn [forallb] in Hd. apply andb_true_iff in Hd. left. apply Hd.
    + exists c, r. auto.
  - cbn [cok ctext] in *. destruct H as (Hs & Hi & _).
    destruct (num_start sign (ip ++ 46 :: fp) Hs) as (c & r & E & S1 & _).
    + destruct ip as [|d ip]; [exists 46, fp; split; [reflexivity|right; reflexivity]|].
      exists d, (ip ++ 46 :: fp). split; [reflexivity|].
      cbn [forallb] in Hi. apply andb_true_iff in Hi. left. apply Hi.
    + exists c, r. auto.
  - eexists _, _. split; [reflexivity|repeat split; discriminate].
  - eexists _, _. split; [reflexivity|repeat split; discriminate].
  - eexists _, _. split; [reflexivity|repeat split; discriminate].
  - rewrite ctext_arr. eexists _, _. split; [reflexivity|repeat split; discriminate].
  - rewrite ctext_dict. eexists _, _. split; [reflexivity|repeat split; discriminate].
Qed.

Lemma start_stops : forall c r, start_ok c -> stops (c :: r).
Proof. intros c r (A & B & _). split; assumption. Qed.

Lemma hd_error_snoc : forall (a : bytes) c tail, hd_error (a ++ [c]) = hd_error (a ++ c :: tail).
Proof. intros [|x a] c tail; reflexivity. Qed.

Lemma hd_error_snoc2 : forall (a : bytes) c d tail, hd_error (a ++ [c; d]) = hd_error (a ++ c :: d :: tail).
Proof. intros [|x a] c d tail; reflexivity. Qed.

Lemma cs_operand_gap : forall g rest fuel, Forall gitem_ok g -> stops rest ->
  cs_operand fuel (gap_text g ++ rest) = cs_operand fuel rest.
Proof.
  intros g rest [|f] Hg Hs; [reflexivity|]. cbn [cs_operand].
  rewrite cs_skip_gap by (try assumption; lia). rewrite cs_skip_stops by (try assumption; lia). reflexivity.
Qed.

(* ---------- arrays ---------- *)

Fixpoint elems_hyp (P : bytes -> cres) (l : list (cw * gap)) (tail : bytes) : Prop :=
  match l with
  | [] => True
  | e :: r =>
      Forall gitem_ok (snd e) /\
      (exists c t, ctext (fst e) = c :: t /\ start_ok c) /\
      P (ctext (fst e) ++ gap_text (snd e) ++ etext r ++ 93 :: tail)
        = COk (cvalue (fst e)) (gap_text (snd e) ++ etext r ++ 93 :: tail) /\
      elems_hyp P r tail
  end.

Lemma cs_arr_elems : forall P elems g acc tail fuelg,
  Forall gitem_ok g -> elems_hyp P elems tail -> (length elems < fuelg)%nat ->
  cs_arr P fuelg (gap_text g ++ etext elems ++ 93 :: tail) acc = COk (OArr (rev acc ++ evalue elems)) tail.
Proof.
  intros P elems. induction elems as [|e r IH]; intros g acc tail fuelg Hg Hh Hf.
  - destruct fuelg as [|n]; [cbn in Hf; lia|]. cbn [etext app cs_arr evalue].
    destruct (gap_text g ++ 93 :: tail) as [|x xs] eqn:E; [destruct (gap_text g); discriminate|].
    rewrite <- E. rewrite cs_skip_gap; [|exact Hg|split; [reflexivity|discriminate]|lia].
    cbn [N.eqb Pos.eqb]. rewrite app_nil_r. reflexivity.
  - destruct fuelg as [|n]; [cbn in Hf; lia|].
    destruct Hh as (Hg' & (c & t & Ec & Sc) & HP & Hr).
    cbn [etext cs_arr evalue].
    destruct (gap_text g ++ (ctext (fst e) ++ gap_text (snd e) ++ etext r) ++ 93 :: tail) as [|x xs] eqn:E.
    { rewrite Ec in E. destruct (gap_text g); discriminate. }
    rewrite <- E. rewrite <- !app_assoc.
    rewrite cs_skip_gap; [|exact Hg|rewrite Ec; apply start_stops, Sc|lia].
    pose proof HP as HP'. rewrite Ec in HP' |- *. cbn [app] in HP' |- *.
    destruct Sc as (_ & _ & S93). destruct (N.eqb_spec c 93); [contradiction|].
    rewrite HP'. rewrite IH; [|exact Hg'|exact Hr|cbn [length] in Hf; lia].
    cbn [rev]. rewrite <- app_assoc. reflexivity.
Qed.

(* ---------- dictionaries ---------- *)

Fixpoint ents_hyp (P : bytes -> cres) (l : list (list nitem * gap * cw * gap)) (tail : bytes) : Prop :=
  match l with
  | [] => True
  | e :: r =>
      Forall nitem_ok (fst (fst (fst e))) /\
      sep_ok (hd_error (gap_text (snd (fst (fst e))) ++ ctext (snd (fst e)))) /\
      (exists c t, ctext (snd (fst e)) = c :: t) /\
      Forall gitem_ok (snd e) /\
      P (gap_text (snd (fst (fst e))) ++ ctext (snd (fst e)) ++ gap_text (snd e) ++ dtext r ++ 62 :: 62 :: tail)
        = COk (cvalue (snd (fst e))) (gap_text (snd e) ++ dtext r ++ 62 :: 62 :: tail) /\
      ents_hyp P r tail
  end.

Lemma cs_dict_ents : forall P ents g acc tail fuelg,
  Forall gitem_ok g -> ents_hyp P ents tail -> (length ents < fuelg)%nat ->
  cs_dict P fuelg (gap_text g ++ dtext ents ++ 62 :: 62 :: tail) acc = COk (ODict (rev acc ++ dvalue ents)) tail.
Proof.
  intros P ents. induction ents as [|e r IH]; intros g acc tail fuelg Hg Hh Hf.
  - destruct fuelg as [|n]; [cbn in Hf; lia|]. cbn [dtext app cs_dict dvalue].
    destruct (gap_text g ++ 62 :: 62 :: tail) as [|x xs] eqn:E; [destruct (gap_text g); discriminate|].
    rewrite <- E. rewrite cs_skip_gap; [|exact Hg|split; [reflexivity|discriminate]|lia].
    cbn [N.eqb Pos.eqb]. rewrite app_nil_r. reflexivity.
  - destruct fuelg as [|n]; [cbn in Hf; lia|].
    destruct e as [[[k g1] x] g2]. cbn [fst snd] in *.
    destruct Hh as (Hk & Hsep & (c & t & Ec) & Hg2 & HP & Hr). cbn [fst snd] in *.
    cbn [dtext cs_dict dvalue fst snd].
    destruct (gap_text g ++ (47 :: name_text k ++ gap_text g1 ++ ctext x ++ gap_text g2 ++ dtext r) ++ 62 :: 62 :: tail)
      as [|y ys] eqn:E; [destruct (gap_text g); discriminate|].
    rewrite <- E. cbn [app]. rewrite <- !app_assoc.
    rewrite cs_skip_gap; [|exact Hg|split; [reflexivity|discriminate]|lia].
    cbn [N.eqb Pos.eqb]. unfold name_text.
    rewrite read_name_cs_items; [|exact Hk| |lia].
    + cbn [app rev]. rewrite HP. rewrite IH; [|exact Hg2|exact Hr|cbn [length] in Hf; lia].
      cbn [rev]. rewrite <- app_assoc. reflexivity.
    + apply sep_ok_ends_name. rewrite Ec in Hsep |- *.
      destruct (gap_text g1) as [|z zs]; exact Hsep.
Qed.

(* ---------- one operand ---------- *)

Definition operand_ok (fuel : nat) (w : cw) : Prop :=
  forall follow, cok w (hd_error follow) -> cs_operand fuel (ctext w ++ follow) = COk (cvalue w) follow.

Lemma cs_operand_step : forall f c r, start_ok c ->
  cs_operand (S f) (c :: r) =
  (let s := c :: r in
   if (c =? 45) || (c =? 43) || (c =? 46) || is_digit c then
     match cs_number s with Some (o, rest) => COk o rest | None => CErr end
   else if c =? 40 then
     match read_string (S (length r)) r 0 [] with Some (b, rest) => COk (OStr b) rest | None => CErr end
   else if (c =? 60) && (match r with c2 :: _ => negb (c2 =? 60) | [] => false end) then
     match cs_hex (S (length r)) r [] with Some (b, rest) => COk (OStr b) rest | None => CErr end
   else if c =? 47 then
     let '(b, rest) := read_name_cs (S (length r)) r [] in COk (OName b) rest
   else if c =? 91 then cs_arr (cs_operand f) (S (length r)) r []
   else if (c =? 60) && (match r with c2 :: _ => c2 =? 60 | [] => false end) then
     cs_dict (cs_operand f) (S (length r)) (skipn 1 r) []
   else
     match keyword_at s with
     | Some (o, rest) => COk o rest
     | None => CErr
     end).
Proof.
  intros f c r Hc. cbn [cs_operand]. rewrite cs_skip_stops; [reflexivity|apply start_stops, Hc|lia].
Qed.

Lemma sep_ok_ends : forall follow, sep_ok (hd_error follow) -> kw_ends follow = true.
Proof. intros [|c r] H; [reflexivity|]. cbn in H. unfold kw_ends. destruct H as [-> | ->]; [reflexivity|apply orb_true_r]. Qed.

Lemma hex_first_not_lt : forall w0 items tail, forallb is_ws w0 = true -> Forall hitem_ok items ->
  (match w0 ++ concat (map hitem_text items) ++ 62 :: tail with c2 :: _ => negb (c2 =? 60) | [] => false end) = true.
Proof.
  intros w0 items tail Hw Hi. destruct w0 as [|x w0].
  - destruct items as [|[[[[u1 u2] c] w1] w2] items]; [reflexivity|].
    inversion Hi as [|? ? Hh _]; subst. cbn in Hh. destruct Hh as (Hc & _). cbn [map concat hitem_text app].
    assert (E : In (c / 16) (map N.of_nat (seq 0 16))).
    { replace (c / 16) with (N.of_nat (N.to_nat (c / 16))) by lia. apply in_map, in_seq. lia. }
    cbn in E. destruct u1; repeat (destruct E as [<-|E]; [reflexivity|]); destruct E.
  - cbn [forallb] in Hw. apply andb_true_iff in Hw. destruct Hw as [Hx _]. cbn [app].
    unfold is_ws in Hx. apply negb_true_iff. lia.
Qed.

Lemma cdepth_pos : forall w, (1 <= cdepth w)%nat.
Proof. destruct w; cbn; lia. Qed.

(* an operand written in any of these ways is read as its value, whatever follows it *)
Theorem operand_reads_back : forall w fuel, (cdepth w <= fuel)%nat -> operand_ok fuel w.
Proof.
  induction w as [|b|sign ds|sign ip fp|items|w0 items|items|g0 elems IH|g0 ents IH] using cw_ind2;
    intros fuel Hd follow Hok; (destruct fuel as [|f]; [pose proof (cdepth_pos CNull); cbn in Hd; lia|]).
  - cbn [ctext]. change (bs "null") with [110; 117; 108; 108]. cbn [app].
    rewrite cs_operand_step by (repeat split; discriminate).
    cbn. unfold keyword_at. cbn [has_prefix N.eqb Pos.eqb andb skipn]. rewrite ?sep_ok_ends by exact Hok. reflexivity.
  - destruct b; cbn [ctext].
    + change (bs "true") with [116; 114; 117; 101]. cbn [app].
      rewrite cs_operand_step by (repeat split; discriminate).
      cbn. unfold keyword_at. cbn [has_prefix N.eqb Pos.eqb andb skipn]. rewrite ?sep_ok_ends by exact Hok. reflexivity.
    + change (bs "false") with [102; 97; 108; 115; 101]. cbn [app].
      rewrite cs_operand_step by (repeat split; discriminate).
      cbn. unfold keyword_at. cbn [has_prefix N.eqb Pos.eqb andb skipn]. rewrite ?sep_ok_ends by exact Hok. reflexivity.
  - cbn [cok ctext cvalue] in *. destruct Hok as (Hs & Hdg & Hne & Ha & Hn).
    destruct (atoi (sign ++ ds)) as [z|] eqn:Ez; [|contradiction].
    destruct (num_start sign ds Hs) as (c & r & E & Sc & Hc).
    { destruct ds as [|d ds]; [contradiction|]. exists d, ds. split; [reflexivity|].
      cbn [forallb] in Hdg. apply andb_true_iff in Hdg. left. apply Hdg. }
    pose proof (cs_number_int sign ds follow z Hs Hdg Hne Ez Hn) as K.
    rewrite E in K |- *. cbn [app] in K |- *. rewrite cs_operand_step by exact Sc.
    cbv zeta. rewrite Hc, K. reflexivity.
  - cbn [cok ctext cvalue] in *. destruct Hok as (Hs & Hi & Hf & Hp & Hn).
    destruct (parse_real (sign ++ ip ++ 46 :: fp)) as [o|] eqn:Eo; [|contradiction].
    destruct (num_start sign (ip ++ 46 :: fp) Hs) as (c & r & E & Sc & Hc).
    { destruct ip as [|d ip]; [exists 46, fp; split; [reflexivity|right; reflexivity]|].
      exists d, (ip ++ 46 :: fp). split; [reflexivity|].
      cbn [forallb] in Hi. apply andb_true_iff in Hi. left. apply Hi. }
    pose proof (cs_number_real sign ip fp follow o Hs Hi Hf Eo Hn) as K.
    rewrite E in K |- *. cbn [app] in K |- *. rewrite cs_operand_step by exact Sc.
    cbv zeta. rewrite Hc, K. reflexivity.
  - cbn [cok ctext cvalue] in *. destruct Hok as (Hi & Hb). cbn [app].
    rewrite cs_operand_step by (repeat split; discriminate).
    cbv zeta. change ((40 =? 45) || (40 =? 43) || (40 =? 46) || is_digit 40) with false.
    change (40 =? 40) with true. cbv iota. rewrite <- app_assoc. cbn [app].
    rewrite literal_string_reads_back by assumption. reflexivity.
  - cbn [cok ctext cvalue] in *. destruct Hok as (Hw & Hi). cbn [app].
    rewrite cs_operand_step by (repeat split; discriminate).
    cbv zeta. change ((60 =? 45) || (60 =? 43) || (60 =? 46) || is_digit 60) with false.
    change (60 =? 40) with false. change (60 =? 60) with true. cbv iota.
    rewrite <- !app_assoc. cbn [app]. rewrite hex_first_not_lt by assumption. cbn [andb].
    destruct (cs_hex_ws w0 (concat (map hitem_text items) ++ 62 :: follow) []
                (S (length (w0 ++ concat (map hitem_text items) ++ 62 :: follow))) Hw ltac:(lia)) as (f' & Hf' & E).
    rewrite E. rewrite cs_hex_items by assumption. reflexivity.
  - cbn [cok ctext cvalue] in *. destruct Hok as (Hi & Hn). cbn [app].
    rewrite cs_operand_step by (repeat split; discriminate).
    cbv zeta. change ((47 =? 45) || (47 =? 43) || (47 =? 46) || is_digit 47) with false.
    change (47 =? 40) with false. change (47 =? 60) with false. change (47 =? 47) with true. cbv iota.
    cbn [andb]. unfold name_text.
    rewrite read_name_cs_items; [reflexivity|exact Hi|apply sep_ok_ends_name, Hn|lia].
  - (* arrays *)
    rewrite ctext_arr, cvalue_arr. cbn [app].
    rewrite cs_operand_step by (repeat split; discriminate).
    cbv zeta. change ((91 =? 45) || (91 =? 43) || (91 =? 46) || is_digit 91) with false.
    change (91 =? 40) with false. change (91 =? 60) with false. change (91 =? 47) with false.
    change (91 =? 91) with true. cbv iota. cbn [andb].
    rewrite <- !app_assoc. cbn [app].
    destruct Hok as (Hg0 & Hel).
    rewrite cs_arr_elems; [reflexivity|exact Hg0| |].
    + cbn [cdepth] in Hd. apply le_S_n in Hd. clear Hg0. revert Hel Hd.
      induction IH as [|e r He Hr IHr]; intros Hel Hd; [exact I|].
      destruct Hel as (Hg & Hc & Hrest).
      cbn [elems_hyp]. split; [exact Hg|]. split; [eapply ctext_start; exact Hc|]. split.
      * apply He; [lia|]. rewrite app_assoc. rewrite <- hd_error_snoc. rewrite <- app_assoc. exact Hc.
      * apply IHr; [exact Hrest|lia].
    + rewrite !app_length. cbn [length].
      assert (L : (length elems <= length (etext elems))%nat).
      { clear - Hel. revert Hel. induction elems as [|e r IHl]; intros Hel; [cbn; lia|].
        destruct Hel as (_ & Hc & Hrest). destruct (ctext_start _ _ Hc) as (c & t & E & _).
        cbn [etext length]. rewrite !app_length, E. cbn [length]. specialize (IHl Hrest). lia. }
      lia.
  - (* dictionaries *)
    rewrite ctext_dict, cvalue_dict. cbn [app].
    rewrite cs_operand_step by (repeat split; discriminate).
    cbv zeta. change ((60 =? 45) || (60 =? 43) || (60 =? 46) || is_digit 60) with false.
    change (60 =? 40) with false. change (60 =? 60) with true. cbn [negb andb].
    change (60 =? 47) with false. change (60 =? 91) with false. cbv iota. cbn [skipn].
    rewrite <- !app_assoc. cbn [app].
    destruct Hok as (Hg0 & Hel).
    rewrite cs_dict_ents; [reflexivity|exact Hg0| |].
    + cbn [cdepth] in Hd. apply le_S_n in Hd. clear Hg0. revert Hel Hd.
      induction IH as [|e r He Hr IHr]; intros Hel Hd; [exact I|].
      destruct Hel as (Hk & Hg1 & Hsep & Hg2 & Hc & Hrest).
      destruct (ctext_start _ _ Hc) as (c & t & Ec & Sc).
      cbn [ents_hyp]. split; [exact Hk|]. split; [exact Hsep|]. split; [exists c, t; exact Ec|].
      split; [exact Hg2|]. split.
      * rewrite cs_operand_gap; [|exact Hg1|rewrite Ec; apply start_stops, Sc].
        apply He; [lia|]. rewrite app_assoc. rewrite <- hd_error_snoc2. rewrite <- app_assoc. exact Hc.
      * apply IHr; [exact Hrest|lia].
    + cbn [length]. rewrite !app_length. cbn [length].
      assert (L : (length ents <= length (dtext ents))%nat).
      { clear - Hel. revert Hel. induction ents as [|e r IHl]; intros Hel; [cbn; lia|].
        destruct Hel as (_ & _ & _ & _ & _ & Hrest).
        cbn [dtext length]. rewrite !app_length. specialize (IHl Hrest). lia. }
      lia.
Qed.

(* ---------- operators ---------- *)

Lemma op_char_not_sep : forall c, is_op_char c = true -> is_ws c = false /\ is_delim c = false.
Proof. intros c H. unfold is_op_char, is_alpha, is_ws, is_delim in *. lia. Qed.

Lemma sep_not_op_char : forall c, (is_ws c = true \/ is_delim c = true) -> is_op_char c = false.
Proof. intros c H. unfold is_op_char, is_alpha, is_ws, is_delim in *. lia. Qed.

Lemma read_op_run : forall n follow acc,
  forallb is_op_char n = true -> sep_ok (hd_error follow) ->
  read_op (n ++ follow) acc = (rev acc ++ n, follow).
Proof.
  induction n as [|c n IH]; intros follow acc Hn Hf.
  - cbn [app]. rewrite app_nil_r. destruct follow as [|x xs]; [reflexivity|].
    cbn [read_op]. cbn in Hf. rewrite (sep_not_op_char x Hf). reflexivity.
  - cbn [forallb] in Hn. apply andb_true_iff in Hn. destruct Hn as [Hc Hn].
    cbn [app read_op]. rewrite Hc. rewrite IH by assumption. cbn [rev]. rewrite <- app_assoc. reflexivity.
Qed.

(* a word made of operator characters that is not the keyword itself is not taken for it *)
Lemma prefix_ends_false : forall kw name follow,
  forallb is_op_char kw = true -> forallb is_op_char name = true -> name <> kw ->
  sep_ok (hd_error follow) ->
  has_prefix kw (name ++ follow) && kw_ends (skipn (length kw) (name ++ follow)) = false.
Proof.
  induction kw as [|k kw IH]; intros name follow Hk Hn Hne Hf.
  - cbn [has_prefix length skipn andb]. destruct name as [|c name]; [contradiction|].
    cbn [forallb] in Hn. apply andb_true_iff in Hn. destruct Hn as [Hc _].
    destruct (op_char_not_sep c Hc) as [A B]. cbn [app kw_ends]. rewrite A, B. reflexivity.
  - cbn [forallb] in Hk. apply andb_true_iff in Hk. destruct Hk as [Hk0 Hk].
    destruct name as [|c name].
    + cbn [app]. destruct follow as [|x xs]; [reflexivity|]. cbn [has_prefix].
      cbn in Hf. pose proof (sep_not_op_char x Hf) as Hx.
      destruct (N.eqb_spec k x) as [->|]; [congruence|reflexivity].
    + cbn [forallb] in Hn. apply andb_true_iff in Hn. destruct Hn as [Hc Hn].
      cbn [app has_prefix length skipn].
      destruct (N.eqb_spec k c) as [->|]; [|reflexivity]. cbn [andb].
      apply IH; try assumption. intros ->. apply Hne. reflexivity.
Qed.

Definition op_ok (name : bytes) : Prop :=
  (exists c r, name = c :: r /\ (is_alpha c || (c =? 39) || (c =? 34)) = true) /\
  forallb is_op_char name = true /\
  name <> bs "true" /\ name <> bs "false" /\ name <> bs "null".

Lemma keyword_at_op : forall name follow, op_ok name -> sep_ok (hd_error follow) ->
  keyword_at (name ++ follow) = None.
Proof.
  intros name follow (_ & Hn & H1 & H2 & H3) Hf. unfold keyword_at.
  change 4%nat with (length (bs "true")) at 1. rewrite prefix_ends_false by (try assumption; reflexivity).
  change 5%nat with (length (bs "false")) at 1. rewrite prefix_ends_false by (try assumption; reflexivity).
  change 4%nat with (length (bs "null")) at 1. rewrite prefix_ends_false by (try assumption; reflexivity).
  reflexivity.
Qed.

Lemma keyword_at_other : forall c r, c <> 116 -> c <> 102 -> c <> 110 -> keyword_at (c :: r) = None.
Proof.
  intros c r A B C. unfold keyword_at.
  change (bs "true") with [116; 114; 117; 101]. change (bs "false") with [102; 97; 108; 115; 101].
  change (bs "null") with [110; 117; 108; 108]. cbn [has_prefix].
  destruct (N.eqb_spec 116 c); [congruence|]. destruct (N.eqb_spec 102 c); [congruence|].
  destruct (N.eqb_spec 110 c); [congruence|]. reflexivity.
Qed.

(* ---------- programs ---------- *)

Definition is_kw (w : cw) : bool := match w with CNull | CBool _ => true | _ => false end.

Definition plain_start (c : N) : Prop :=
  start_ok c /\ c <> 116 /\ c <> 102 /\ c <> 110 /\ (is_alpha c || (c =? 39) || (c =? 34)) = false.

Lemma digit_plain : forall c, is_digit c = true -> plain_start c.
Proof. intros c H. unfold plain_start, start_ok, is_digit, is_ws, is_alpha in *. lia. Qed.

Lemma num_plain : forall sign body, sign_ok sign ->
  (exists c r, body = c :: r /\ (is_digit c = true \/ c = 46)) ->
  exists c r, sign ++ body = c :: r /\ plain_start c.
Proof.
  intros sign body Hs (c & r & -> & Hc).
  destruct Hs as [-> | [-> | ->]].
  - exists c, r. split; [reflexivity|]. destruct Hc as [Hc | ->]; [apply digit_plain, Hc|].
    unfold plain_start, start_ok. repeat split; try discriminate.
  - exists 43, (c :: r). unfold plain_start, start_ok. repeat split; try discriminate.
  - exists 45, (c :: r). unfold plain_start, start_ok. repeat split; try discriminate.
Qed.

Lemma ctext_plain : forall w nxt, cok w nxt -> is_kw w = false -> exists c r, ctext w = c :: r /\ plain_start c.
Proof.
  intros w nxt H K. destruct w as [|b|sign ds|sign ip fp|items|w0 items|items|g0 elems|g0 ents]; try discriminate.
  - cbn [cok ctext] in *. destruct H as (Hs & Hd & Hne & _). apply num_plain; [exact Hs|].
    destruct ds as [|d ds]; [contradiction|]. exists d, ds. split; [reflexivity|].
    cbn [forallb] in Hd. apply andb_true_iff in Hd. left. apply Hd.
  - cbn [cok ctext] in *. destruct H as (Hs & Hi & _). apply num_plain; [exact Hs|].
    destruct ip as [|d ip]; [exists 46, fp; split; [reflexivity|right; reflexivity]|].
    exists d, (ip ++ 46 :: fp). split; [reflexivity|].
    cbn [forallb] in Hi. apply andb_true_iff in Hi. left. apply Hi.
  - eexists _, _. split; [reflexivity|unfold plain_start, start_ok; repeat split; discriminate].
  - eexists _, _. split; [reflexivity|unfold plain_start, start_ok; repeat split; discriminate].
  - eexists _, _. split; [reflexivity|unfold plain_start, start_ok; repeat split; discriminate].
  - rewrite ctext_arr. eexists _, _. split; [reflexivity|unfold plain_start, start_ok; repeat split; discriminate].
  - rewrite ctext_dict. eexists _, _. split; [reflexivity|unfold plain_start, start_ok; repeat split; discriminate].
Qed.

Lemma keyword_at_kw : forall w follow, is_kw w = true -> cok w (hd_error follow) ->
  keyword_at (ctext w ++ follow) = Some (cvalue w, follow).
Proof.
  intros w follow K H. destruct w as [|[|]| | | | | | |]; try discriminate; cbn [cok ctext cvalue] in *.
  - change (bs "null") with [110; 117; 108; 108]. unfold keyword_at.
    cbn [app bs has_prefix N.eqb Pos.eqb andb skipn]. cbn. rewrite ?sep_ok_ends by exact H. reflexivity.
  - change (bs "true") with [116; 114; 117; 101]. unfold keyword_at.
    cbn. rewrite ?sep_ok_ends by exact H. reflexivity.
  - change (bs "false") with [102; 97; 108; 115; 101]. unfold keyword_at.
    cbn. rewrite ?sep_ok_ends by exact H. reflexivity.
Qed.

Lemma cdepth_le_len : forall w, (cdepth w <= S (length (ctext w)))%nat.
Proof.
  induction w as [|b|sign ds|sign ip fp|items|w0 items|items|g0 elems IH|g0 ents IH] using cw_ind2;
    try (cbn [cdepth]; lia).
  - rewrite ctext_arr. cbn [cdepth length]. rewrite !app_length. cbn [length].
    apply le_n_S.
    assert (L : ((fix go (l : list (cw * gap)) : nat :=
                    match l with [] => 0 | e :: r => Nat.max (cdepth (fst e)) (go r) end) elems
                 <= S (length (etext elems)))%nat).
    { induction IH as [|e r He Hr IHr]; [lia|]. cbn [etext]. rewrite !app_length. lia. }
    lia.
  - rewrite ctext_dict. cbn [cdepth length]. rewrite !app_length. cbn [length].
    apply le_n_S.
    assert (L : ((fix go (l : list (list nitem * gap * cw * gap)) : nat :=
                    match l with [] => 0 | e :: r => Nat.max (cdepth (snd (fst e))) (go r) end) ents
                 <= S (length (dtext ents)))%nat).
    { induction IH as [|e r He Hr IHr]; [lia|]. cbn [dtext length]. rewrite !app_length. lia. }
    lia.
Qed.

Inductive item := IOperand (w : cw) | IOp (name : bytes).
Definition itext (i : item) : bytes := match i with IOperand w => ctext w | IOp n => n end.

Fixpoint ptext (p : list (item * gap)) : bytes :=
  match p with [] => [] | e :: r => itext (fst e) ++ gap_text (snd e) ++ ptext r end.

Definition item_ok (i : item) (nxt : option N) : Prop :=
  match i with IOperand w => cok w nxt | IOp n => op_ok n /\ sep_ok nxt end.

Fixpoint prog_ok (p : list (item * gap)) : Prop :=
  match p with
  | [] => True
  | e :: r => Forall gitem_ok (snd e) /\ item_ok (fst e) (hd_error (gap_text (snd e) ++ ptext r)) /\ prog_ok r
  end.

(* what the program means: each operator with the operands written since the previous one *)
Fixpoint group (p : list (item * gap)) (stack : list obj) : list (bytes * list obj) :=
  match p with
  | [] => []
  | e :: r => match fst e with
              | IOperand w => group r (stack ++ [cvalue w])
              | IOp n => (n, stack) :: group r []
              end
  end.

Lemma cs_parse_step : forall f c r stack ops, start_ok c ->
  cs_parse (S f) (c :: r) stack ops =
  match keyword_at (c :: r) with
  | Some (o, rest) => cs_parse f rest (stack ++ [o]) ops
  | None =>
      if is_alpha c || (c =? 39) || (c =? 34) then
        let '(op, rest) := read_op (c :: r) [] in cs_parse f rest [] ((op, stack) :: ops)
      else
        match cs_operand (S (length (c :: r))) (c :: r) with
        | COk o rest => cs_parse f rest (stack ++ [o]) ops
        | CErr => None
        end
  end.
Proof.
  intros f c r stack ops Hc. cbn [cs_parse]. rewrite cs_skip_stops; [reflexivity|apply start_stops, Hc|lia].
Qed.

Lemma cs_parse_gap : forall g rest fuel stack ops, Forall gitem_ok g -> stops rest ->
  cs_parse fuel (gap_text g ++ rest) stack ops = cs_parse fuel rest stack ops.
Proof.
  intros g rest [|f] stack ops Hg Hs; [reflexivity|]. cbn [cs_parse].
  rewrite cs_skip_gap by (try assumption; lia). rewrite cs_skip_stops by (try assumption; lia). reflexivity.
Qed.

Lemma op_start : forall n, op_ok n -> exists c r, n = c :: r /\ start_ok c /\ (is_alpha c || (c =? 39) || (c =? 34)) = true.
Proof.
  intros n ((c & r & -> & Hc) & _). exists c, r. split; [reflexivity|]. split; [|exact Hc].
  unfold start_ok, is_alpha, is_ws in *. lia.
Qed.

Lemma item_start : forall i nxt, item_ok i nxt -> exists c r, itext i = c :: r /\ start_ok c.
Proof.
  intros [w|n] nxt H; cbn [item_ok itext] in *.
  - eapply ctext_start; exact H.
  - destruct H as [H _]. destruct (op_start n H) as (c & r & E & S1 & _). exists c, r. auto.
Qed.

Lemma ptext_stops : forall p, prog_ok p -> stops (ptext p).
Proof.
  intros [|e r] H; [exact I|]. destruct H as (_ & Hi & _). destruct (item_start _ _ Hi) as (c & t & E & Sc).
  cbn [ptext]. rewrite E. apply start_stops, Sc.
Qed.

Lemma cs_parse_prog : forall p g stack ops fuel,
  Forall gitem_ok g -> prog_ok p -> (length p < fuel)%nat ->
  cs_parse fuel (gap_text g ++ ptext p) stack ops = Some (rev ops ++ group p stack).
Proof.
  induction p as [|e r IH]; intros g stack ops fuel Hg Hp Hf.
  - destruct fuel as [|f]; [cbn in Hf; lia|]. cbn [ptext cs_parse group].
    rewrite cs_skip_gap; [rewrite app_nil_r; reflexivity|exact Hg|exact I|lia].
  - rewrite cs_parse_gap; [|exact Hg|apply ptext_stops, Hp].
    destruct fuel as [|f]; [cbn in Hf; lia|].
    destruct Hp as (Hg' & Hi & Hr). destruct e as [i g']. cbn [fst snd] in *. cbn [ptext group fst snd].
    assert (Hf' : (length r < f)%nat) by (cbn [length] in Hf; lia).
    destruct i as [w|n]; cbn [item_ok itext] in *.
    + destruct (is_kw w) eqn:K.
      * destruct (ctext_start _ _ Hi) as (c & t & E & Sc).
        pose proof (keyword_at_kw w (gap_text g' ++ ptext r) K Hi) as KW.
        rewrite E in KW |- *. cbn [app] in KW |- *. rewrite cs_parse_step by exact Sc. rewrite KW.
        apply IH; assumption.
      * destruct (ctext_plain _ _ Hi K) as (c & t & E & Sc & A & B & C & D).
        assert (L : (cdepth w <= S (length (ctext w ++ gap_text g' ++ ptext r)))%nat).
        { pose proof (cdepth_le_len w). rewrite app_length. lia. }
        pose proof (operand_reads_back w _ L (gap_text g' ++ ptext r) Hi) as OP.
        rewrite E in OP |- *. cbn [app] in OP |- *. rewrite cs_parse_step by exact Sc.
        rewrite keyword_at_other by assumption. rewrite D. rewrite OP. apply IH; assumption.
    + destruct Hi as (Hn & Hs). destruct (op_start n Hn) as (c & t & E & Sc & Hc).
      pose proof (keyword_at_op n (gap_text g' ++ ptext r) Hn Hs) as KW.
      pose proof (read_op_run n (gap_text g' ++ ptext r) [] (proj1 (proj2 Hn)) Hs) as RO.
      rewrite E in KW, RO |- *. cbn [app] in KW, RO |- *. rewrite cs_parse_step by exact Sc.
      rewrite KW, Hc, RO. cbn [rev app]. rewrite IH by assumption. cbn [rev]. rewrite <- app_assoc. reflexivity.
Qed.

Lemma ptext_len : forall p, prog_ok p -> (length p <= length (ptext p))%nat.
Proof.
  induction p as [|e r IH]; intros H; [cbn; lia|]. destruct H as (_ & Hi & Hr).
  destruct (item_start _ _ Hi) as (c & t & E & _). cbn [ptext length]. rewrite !app_length, E. cbn [length].
  specialize (IH Hr). lia.
Qed.

(* the property's last clause for content streams of any length: operator/operand grouping is preserved,
   and every operand keeps its value *)
Theorem content_stream_reads_back : forall g0 p,
  Forall gitem_ok g0 -> prog_ok p ->
  cs_parse_all (gap_text g0 ++ ptext p) = Some (group p []).
Proof.
  intros g0 p Hg Hp. unfold cs_parse_all.
  rewrite cs_parse_prog; [reflexivity|exact Hg|exact Hp|].
  pose proof (ptext_len p Hp). rewrite app_length. lia.
Qed.

(* the same for a content stream laid out one statement per line: operands separated by a blank,
   then the operator and a line feed *)
Definition stmt_items (s : list cw * bytes) : list (item * gap) :=
  map (fun w => (IOperand w, [GWs 32])) (fst s) ++ [(IOp (snd s), [GWs 10])].

Definition stmt_ok (s : list cw * bytes) : Prop :=
  Forall (fun w => cok w (Some 32)) (fst s) /\ op_ok (snd s).

Lemma group_operands : forall ws rest stack,
  group (map (fun w => (IOperand w, [GWs 32])) ws ++ rest) stack = group rest (stack ++ map cvalue ws).
Proof.
  induction ws as [|w ws IH]; intros rest stack; [cbn [map app]; rewrite app_nil_r; reflexivity|].
  cbn [map app group fst]. rewrite IH. rewrite <- app_assoc. reflexivity.
Qed.

Lemma group_stmts : forall stmts,
  group (concat (map stmt_items stmts)) [] = map (fun s => (snd s, map cvalue (fst s))) stmts.
Proof.
  induction stmts as [|s r IH]; [reflexivity|]. cbn [map concat]. unfold stmt_items at 1.
  rewrite <- app_assoc. rewrite group_operands. cbn [app group fst]. rewrite IH. reflexivity.
Qed.

Lemma prog_ok_stmts : forall stmts, Forall stmt_ok stmts -> prog_ok (concat (map stmt_items stmts)).
Proof.
  induction stmts as [|s r IH]; intros H; [exact I|].
  inversion H as [|? ? (Hw & Ho) Hr]; subst. specialize (IH Hr).
  cbn [map concat]. unfold stmt_items at 1. rewrite <- app_assoc.
  destruct s as [ws n]. cbn [fst snd] in *. clear H. cbn [app].
  induction Hw as [|w ws Hw1 Hws IHws].
  - cbn [map app prog_ok fst snd item_ok]. split; [repeat constructor|]. split; [|exact IH].
    split; [exact Ho|]. left. reflexivity.
  - cbn [map app prog_ok fst snd item_ok]. split; [repeat constructor|]. split; [exact Hw1|exact IHws].
Qed.

Corollary statements_read_back : forall stmts,
  Forall stmt_ok stmts ->
  cs_parse_all (ptext (concat (map stmt_items stmts))) = Some (map (fun s => (snd s, map cvalue (fst s))) stmts).
Proof.
  intros stmts H. rewrite <- group_stmts.
  apply (content_stream_reads_back [] (concat (map stmt_items stmts))); [constructor|apply prog_ok_stmts, H].
Qed.

(* BT /F#31 12 Tf 72.5 -700 Td (He\(l)\)lo) Tj [(A) -120 <4 1>]TJ % note
   /P<</MCID 0>>BDC true n ET : the hypotheses can be met, and the parse is the grouping *)
Definition demo_prog : list (item * gap) :=
  [ (IOp (bs "BT"), [GWs 32]);
    (IOperand (CName [NRaw 70; NEsc false true 49]), [GWs 32]);
    (IOperand (CInt [] (bs "12")), [GWs 32]); (IOp (bs "Tf"), [GWs 10]);
    (IOperand (CReal [] (bs "72") (bs "5")), [GWs 32]); (IOperand (CInt [45] (bs "700")), [GWs 32]);
    (IOp (bs "Td"), [GWs 13; GWs 10]);
    (IOperand (CStr [SRaw 72; SRaw 101; SEsc 40; SRaw 108; SOpen; SClose; SEsc 41; SRaw 108; SRaw 111]), []);
    (IOp (bs "Tj"), [GWs 32]);
    (IOperand (CArr [] [(CStr [SRaw 65], [GWs 32]); (CInt [45] (bs "120"), [GWs 32]);
                        (CHex [] [(false, false, 65, [32], [])], [])]), []);
    (IOp (bs "TJ"), [GWs 32; GCom (bs " note") 10]);
    (IOperand (CName [NRaw 80]), []);
    (IOperand (CDict [] [([NRaw 77; NRaw 67; NRaw 73; NRaw 68], [GWs 32], CInt [] (bs "0"), [])]), []);
    (IOp (bs "BDC"), [GWs 32]);
    (IOperand (CBool true), [GWs 32]); (IOp (bs "n"), [GWs 32]);
    (IOp (bs "ET"), []) ].

Example demo_prog_meets_the_hypotheses : prog_ok demo_prog.
Proof.
  unfold demo_prog. cbn.
  repeat match goal with
         | |- _ /\ _ => split
         | |- True => exact I
         | |- Forall _ [] => constructor
         | |- Forall _ (_ :: _) => constructor
         | |- sign_ok [] => left; reflexivity
         | |- sign_ok [45] => right; right; reflexivity
         | |- op_ok _ => unfold op_ok; cbn
         | |- gitem_ok _ => cbn
         | |- sitem_ok _ => cbn
         | |- nitem_ok _ => cbn
         | |- hitem_ok _ => cbn
         | |- exists c r, _ :: _ = c :: r /\ _ => eexists _, _; split; [reflexivity|reflexivity]
         | |- _ <> _ => discriminate
         | |- _ \/ _ => first [left; reflexivity | right; reflexivity]
         | |- _ = _ => reflexivity
         | |- _ < _ => reflexivity
         end.
Qed.

Example demo_prog_parses :
  cs_parse_all (ptext demo_prog) = Some (group demo_prog [])
  /\ group demo_prog [] =
     [ (bs "BT", []); (bs "Tf", [OName (bs "F1"); OInt 12]); (bs "Td", [OReal 725 1; OInt (-700)]);
       (bs "Tj", [OStr (bs "He(l())lo")]);
       (bs "TJ", [OArr [OStr (bs "A"); OInt (-120); OStr [65]]]);
       (bs "BDC", [OName (bs "P"); ODict [(bs "MCID", OInt 0)]]);
       (bs "n", [OBool true]); (bs "ET", []) ].
Proof. split; vm_compute; reflexivity. Qed.
