(* C06, structural layer: the object parser reads any written object tree back,
   token for token, including the two-token lookahead for "n g R". *)
From Tabula Require Import model.C17_Xlsx model.C06_Syntax.
From Coq Require Import Lia.
From Coq Require String.
Import (notations) String.
Open Scope N_scope.

(* an object as written: numbers by their lexemes, strings literal or hex *)
Inductive wobj :=
| WNull | WBool (b : bool)
| WInt (lex : bytes) | WReal (lex : bytes)
| WStr (s : bytes) | WHex (digits : bytes) | WName (s : bytes)
| WArr (l : list wobj) | WDict (l : list (bytes * wobj))
| WRef (n g : bytes).

Section WobjInd.
  Variable P : wobj -> Prop.
  Hypothesis H0 : P WNull.
  Hypothesis H1 : forall b, P (WBool b).
  Hypothesis H2 : forall l, P (WInt l).
  Hypothesis H3 : forall l, P (WReal l).
  Hypothesis H4 : forall s, P (WStr s).
  Hypothesis H5 : forall d, P (WHex d).
  Hypothesis H6 : forall s, P (WName s).
  Hypothesis H7 : forall l, Forall P l -> P (WArr l).
  Hypothesis H8 : forall l, Forall (fun kv => P (snd kv)) l -> P (WDict l).
  Hypothesis H9 : forall n g, P (WRef n g).
  Fixpoint wobj_ind2 (w : wobj) : P w :=
    match w with
    | WNull => H0 | WBool b => H1 b | WInt l => H2 l | WReal l => H3 l | WStr s => H4 s | WHex d => H5 d
    | WName s => H6 s | WRef n g => H9 n g
    | WArr l => H7 l ((fix go (l : list wobj) : Forall P l :=
                         match l with [] => Forall_nil P | x :: r => Forall_cons x (wobj_ind2 x) (go r) end) l)
    | WDict l => H8 l ((fix go (l : list (bytes * wobj)) : Forall (fun kv => P (snd kv)) l :=
                          match l with
                          | [] => Forall_nil _
                          | x :: r => Forall_cons x (wobj_ind2 (snd x)) (go r)
                          end) l)
    end.
End WobjInd.

Fixpoint wtoks (w : wobj) : list tok :=
  match w with
  | WNull => [TKw (bs "null")]
  | WBool true => [TKw (bs "true")]
  | WBool false => [TKw (bs "false")]
  | WInt l => [TInt l]
  | WReal l => [TReal l]
  | WStr s => [TStr s]
  | WHex d => [THexS d]
  | WName s => [TNm s]
  | WArr l => TAO :: (fix go (l : list wobj) : list tok := match l with [] => [] | x :: r => wtoks x ++ go r end) l ++ [TAC]
  | WDict l => TDO :: (fix go (l : list (bytes * wobj)) : list tok :=
                         match l with [] => [] | (k, x) :: r => TNm k :: wtoks x ++ go r end) l ++ [TDC]
  | WRef n g => [TInt n; TInt g; TR]
  end.

Definition dummy : obj := ONull.

(* the value a written object denotes (lexemes through strconv) *)
Fixpoint wvalue (w : wobj) : obj :=
  match w with
  | WNull => ONull
  | WBool b => OBool b
  | WInt l => match atoi l with Some z => OInt z | None => dummy end
  | WReal l => match parse_real l with Some o => o | None => dummy end
  | WStr s => OStr s
  | WHex d => OStr (hex_pairs d)
  | WName s => OName s
  | WArr l => OArr ((fix go (l : list wobj) : list obj := match l with [] => [] | x :: r => wvalue x :: go r end) l)
  | WDict l => ODict ((fix go (l : list (bytes * wobj)) : list (bytes * obj) :=
                         match l with [] => [] | (k, x) :: r => (k, wvalue x) :: go r end) l)
  | WRef n g => match atoi n, atoi g with Some a, Some b => ORef a b | _, _ => dummy end
  end.

Fixpoint wf (w : wobj) : Prop :=
  match w with
  | WInt l => atoi l <> None
  | WReal l => parse_real l <> None
  | WRef n g => atoi n <> None /\ atoi g <> None
  | WArr l => (fix go (l : list wobj) : Prop := match l with [] => True | x :: r => wf x /\ go r end) l
  | WDict l => (fix go (l : list (bytes * wobj)) : Prop := match l with [] => True | (_, x) :: r => wf x /\ go r end) l
  | _ => True
  end.

Fixpoint depth (w : wobj) : nat :=
  match w with
  | WArr l => S ((fix go (l : list wobj) : nat := match l with [] => 0 | x :: r => Nat.max (depth x) (go r) end) l)
  | WDict l => S ((fix go (l : list (bytes * wobj)) : nat := match l with [] => 0 | (_, x) :: r => Nat.max (depth x) (go r) end) l)
  | _ => 1
  end%nat.

(* what may follow an object: not a lexer failure, and not something that would
   turn a preceding integer into a reference *)
Definition head_ok (r : list tok) : Prop :=
  match r with TErr :: _ => False | TR :: _ => False | _ => True end.
Definition follow_ok (r : list tok) : Prop :=
  match r with
  | TErr :: _ => False
  | TInt _ :: TR :: _ => False
  | TInt _ :: TErr :: _ => False
  | _ => True
  end.

Lemma head_ok_wtoks : forall w r, head_ok (wtoks w ++ r).
Proof. intros w r. destruct w as [| [|] | | | | | | | |]; cbn; exact I. Qed.

Lemma follow_ok_wtoks : forall w r, head_ok r -> follow_ok (wtoks w ++ r).
Proof.
  intros w r Hr. destruct w as [| [|] | l | | | | | | |]; cbn; try exact I.
  destruct r as [|t r]; [exact I|]. destruct t; cbn in Hr; try exact I; contradiction.
Qed.

Lemma follow_ok_hd : forall r, follow_ok r -> match hd_tok r with TErr => False | _ => True end.
Proof. intros [|t r] H; [exact I|]. destruct t; cbn in *; auto. Qed.

Definition elem_ok (fuel : nat) (w : wobj) : Prop :=
  forall rest, follow_ok rest -> parse_obj fuel (wtoks w ++ rest) = POk (wvalue w) rest.

Lemma parse_arr_elems : forall fuel ws rest acc g,
  Forall (elem_ok fuel) ws -> follow_ok rest -> (length ws < g)%nat ->
  parse_arr (parse_obj fuel) g
    ((fix go (l : list wobj) : list tok := match l with [] => [] | x :: r => wtoks x ++ go r end) ws ++ TAC :: rest) acc
  = POk (OArr (rev acc ++ (fix go (l : list wobj) : list obj := match l with [] => [] | x :: r => wvalue x :: go r end) ws)) rest.
Proof.
  intros fuel ws. induction ws as [|w ws IH]; intros rest acc g Hall Hf Hg.
  - destruct g as [|g]; [lia|]. cbn [app parse_arr].
    pose proof (follow_ok_hd rest Hf) as Hh. destruct (hd_tok rest); try contradiction; rewrite app_nil_r; reflexivity.
  - inversion Hall as [|? ? Hw Hr]; subst. destruct g as [|g]; [cbn in Hg; lia|].
    rewrite <- app_assoc.
    set (tail := (fix go (l : list wobj) : list tok := match l with [] => [] | x :: r => wtoks x ++ go r end) ws ++ TAC :: rest).
    assert (Hft : follow_ok tail).
    { subst tail. destruct ws as [|w2 ws2]; [exact I|]. rewrite <- app_assoc. apply follow_ok_wtoks.
      destruct ws2 as [|w3 ws3]; [exact I|]. rewrite <- app_assoc. apply head_ok_wtoks. }
    pose proof (Hw tail Hft) as E.
    cbn [parse_arr].
    assert (Hhead : match wtoks w ++ tail with TAC :: _ => False | TEOF :: _ => False | [] => False | _ => True end).
    { destruct w as [| [|] | | | | | | | |]; cbn; exact I. }
    destruct (wtoks w ++ tail) as [|t0 r0] eqn:Et; [contradiction|].
    destruct t0; try contradiction; rewrite E; subst tail;
      rewrite IH by (try assumption; cbn [length] in Hg; lia);
      cbn [rev]; rewrite <- app_assoc; reflexivity.
Qed.

Lemma parse_dict_elems : forall fuel kvs rest acc g,
  Forall (fun kv => elem_ok fuel (snd kv)) kvs -> follow_ok rest -> (length kvs < g)%nat ->
  parse_dict (parse_obj fuel) g
    ((fix go (l : list (bytes * wobj)) : list tok :=
        match l with [] => [] | (k, x) :: r => TNm k :: wtoks x ++ go r end) kvs ++ TDC :: rest) acc
  = POk (ODict (rev acc ++ (fix go (l : list (bytes * wobj)) : list (bytes * obj) :=
                              match l with [] => [] | (k, x) :: r => (k, wvalue x) :: go r end) kvs)) rest.
Proof.
  intros fuel kvs. induction kvs as [|[k w] kvs IH]; intros rest acc g Hall Hf Hg.
  - destruct g as [|g]; [lia|]. cbn [app parse_dict].
    pose proof (follow_ok_hd rest Hf) as Hh. destruct (hd_tok rest); try contradiction; rewrite app_nil_r; reflexivity.
  - inversion Hall as [|? ? Hw Hr]; subst. cbn [snd] in Hw. destruct g as [|g]; [cbn in Hg; lia|].
    cbn [app parse_dict]. rewrite <- app_assoc.
    set (tail := (fix go (l : list (bytes * wobj)) : list tok :=
                    match l with [] => [] | (k, x) :: r => TNm k :: wtoks x ++ go r end) kvs ++ TDC :: rest).
    assert (Hft : follow_ok tail).
    { subst tail. destruct kvs as [|[k2 w2] kvs2]; exact I. }
    rewrite (Hw tail Hft). subst tail.
    rewrite IH by (try assumption; cbn [length] in Hg; lia).
    cbn [rev]. rewrite <- app_assoc. reflexivity.
Qed.

Lemma wtoks_nonempty : forall w, (1 <= length (wtoks w))%nat.
Proof. intros w. destruct w as [| [|] | | | | | | | |]; cbn [wtoks length]; lia. Qed.

Lemma arr_toks_len : forall ws,
  (length ws <= length ((fix go (l : list wobj) : list tok := match l with [] => [] | x :: r => wtoks x ++ go r end) ws))%nat.
Proof.
  induction ws as [|w ws IH]; [cbn; lia|]. rewrite app_length. cbn [length].
  pose proof (wtoks_nonempty w). lia.
Qed.

Lemma dict_toks_len : forall kvs,
  (length kvs <= length ((fix go (l : list (bytes * wobj)) : list tok :=
                            match l with [] => [] | (k, x) :: r => TNm k :: wtoks x ++ go r end) kvs))%nat.
Proof.
  induction kvs as [|[k w] kvs IH]; [cbn; lia|]. cbn [length]. rewrite app_length. lia.
Qed.

Lemma elem_ok_mono : forall w fuel, elem_ok fuel w -> True.
Proof. auto. Qed.

(* every written object tree, to any depth, is read back as its value, whatever
   follows it (another object, a closing bracket, the end of input) *)
Theorem object_tree_reads_back : forall w fuel,
  wf w -> (depth w <= fuel)%nat -> elem_ok fuel w.
Proof.
  induction w as [|b|l|l|s|d|s|ws IH|kvs IH|n g] using wobj_ind2; intros fuel Hwf Hd rest Hf;
    (destruct fuel as [|f]; [cbn in Hd; lia|]); pose proof (follow_ok_hd rest Hf) as Hh.
  - cbn. destruct (hd_tok rest); try contradiction; reflexivity.
  - destruct b; cbn; destruct (hd_tok rest); try contradiction; reflexivity.
  - cbn [wtoks app parse_obj wvalue]. cbn in Hwf.
    destruct (atoi l) as [z|] eqn:Ez; [|contradiction]. unfold int_of. rewrite Ez. clear Hh.
    destruct rest as [|t r]; [reflexivity|].
    destruct t as [kw|s2| | | | | | | | | | |]; cbn [hd_tok] in *; try reflexivity; try contradiction.
    destruct (atoi s2) as [z2|]; [|reflexivity].
    destruct r as [|t2 r2]; [reflexivity|].
    destruct t2; cbn in Hf; try contradiction; reflexivity.
  - cbn [wtoks app parse_obj wvalue]. cbn in Hwf.
    destruct (parse_real l) eqn:Er; [|contradiction].
    destruct (hd_tok rest); try contradiction; reflexivity.
  - cbn. destruct (hd_tok rest); try contradiction; reflexivity.
  - cbn. destruct (hd_tok rest); try contradiction; reflexivity.
  - cbn. destruct (hd_tok rest); try contradiction; reflexivity.
  - (* arrays *)
    cbn [wtoks app parse_obj wvalue]. rewrite <- app_assoc. cbn [app].
    rewrite parse_arr_elems; [reflexivity| |exact Hf|].
    + cbn [wf depth] in *. clear Hf Hh rest.
      induction IH as [|w ws Hw Hws IHws]; [constructor|].
      destruct Hwf as [Hw1 Hw2]. constructor.
      * apply Hw; [exact Hw1|lia].
      * apply IHws; [exact Hw2|lia].
    + rewrite !app_length. pose proof (arr_toks_len ws). cbn [length]. lia.
  - (* dictionaries *)
    cbn [wtoks app parse_obj wvalue]. rewrite <- app_assoc. cbn [app].
    rewrite parse_dict_elems; [reflexivity| |exact Hf|].
    + cbn [wf depth] in *. clear Hf Hh rest.
      induction IH as [|[k w] kvs Hw Hws IHws]; [constructor|].
      destruct Hwf as [Hw1 Hw2]. constructor.
      * cbn [snd] in *. apply Hw; [exact Hw1|lia].
      * apply IHws; [exact Hw2|lia].
    + rewrite !app_length. pose proof (dict_toks_len kvs). cbn [length]. lia.
  - (* references *)
    cbn [wtoks app parse_obj wvalue]. cbn in Hwf. destruct Hwf as [Hn Hg].
    destruct (atoi n) as [a|] eqn:En; [|contradiction]. destruct (atoi g) as [b|] eqn:Eg; [|contradiction].
    unfold int_of. rewrite En, Eg. cbn [hd_tok].
    destruct (hd_tok rest); try contradiction; reflexivity.
Qed.

(* the anchored mechanism: plain integers are not swallowed by the lookahead
   for references, and a reference between integers is still found *)
Corollary integers_and_references_in_an_array : forall a b c n g rest,
  atoi a <> None -> atoi b <> None -> atoi c <> None -> atoi n <> None -> atoi g <> None -> follow_ok rest ->
  parse_obj 2 (wtoks (WArr [WInt a; WInt b; WRef n g; WInt c]) ++ rest)
  = POk (wvalue (WArr [WInt a; WInt b; WRef n g; WInt c])) rest.
Proof.
  intros a b c n g rest Ha Hb Hc Hn Hg Hf.
  apply (object_tree_reads_back (WArr [WInt a; WInt b; WRef n g; WInt c]) 2); [cbn; auto|cbn; lia|exact Hf].
Qed.

Example tree_example :
  core_parse (bs "<</K[1 2 0 R(a)]/V<41>>> ") =
  POk (ODict [([75], OArr [OInt 1; ORef 2 0; OStr [97]]); ([86], OStr [65])]) [TEOF].
Proof. vm_compute. reflexivity. Qed.
