(* C07: encodings against the reference tables, UTF-16 round trip, valid UTF-8
   on every path, CMap scanning and lookup. *)
From Tabula Require Import base.Utf8 model.C16_Docs model.C07_Font model.C07_RefEncodings gen.GenEncodings.
From Coq Require Import Lia ZifyN ZifyNat ZifyBool.
From Coq Require String.
Import (notations) String.
Open Scope Z_scope.

(* ---------- encodings ---------- *)

Definition table_ok (t : list Z) (ref : list (list Z)) : bool :=
  forallb (fun b => existsb (Z.eqb (nth b t 0)) (nth b ref [])) (seq 0 256).

Definition table_named (name : bytes) : list Z :=
  (fix go (l : list (list N * list Z)) : list Z :=
     match l with
     | [] => get_encoding_default
     | (n, t) :: r => if bytes_eqb n name then t else go r
     end) get_encoding_table.

Lemma table_ok_spec t ref : table_ok t ref = true ->
  forall b, (b < 256)%nat -> In (nth b t 0) (nth b ref []).
Proof.
  intros H b Hb. unfold table_ok in H. rewrite forallb_forall in H.
  specialize (H b). rewrite in_seq in H. specialize (H ltac:(lia)).
  apply existsb_exists in H. destruct H as (x & Hin & E). apply Z.eqb_eq in E. subst x. exact Hin.
Qed.

(* every code of every named encoding decodes to a code point the annex allows
   (0 = no character); the tables are the ones generated from the source *)
Theorem encodings_follow_the_annex : forall b, (b < 256)%nat ->
  In (nth b (table_named (bs "StandardEncoding")) 0) (nth b ref_standard [])
  /\ In (nth b (table_named (bs "WinAnsiEncoding")) 0) (nth b ref_winansi [])
  /\ In (nth b (table_named (bs "MacRomanEncoding")) 0) (nth b ref_macroman [])
  /\ In (nth b (table_named (bs "PDFDocEncoding")) 0) (nth b ref_pdfdoc [])
  /\ In (nth b (table_named (bs "SymbolEncoding")) 0) (nth b ref_symbol [])
  /\ In (nth b (table_named (bs "ZapfDingbatsEncoding")) 0) (nth b ref_zapfdingbats []).
Proof.
  intros b Hb.
  repeat split; apply table_ok_spec; try exact Hb; vm_compute; reflexivity.
Qed.

(* an unknown name is read with WinAnsiEncoding *)
Theorem unknown_encoding_is_winansi :
  table_named (bs "NoSuchEncoding") = table_named (bs "WinAnsiEncoding").
Proof. vm_compute. reflexivity. Qed.

(* ---------- UTF-16 ---------- *)

Definition scalar (r : Z) : Prop := 0 <= r <= 1114111 /\ ~ (55296 <= r <= 57343).

Definition utf16_units (r : Z) : list Z :=
  if r <? 65536 then [r] else [55296 + (r - 65536) / 1024; 56320 + (r - 65536) mod 1024].

Definition unit_bytes (be : bool) (u : Z) : bytes :=
  if be then [Z.to_N (u / 256); Z.to_N (u mod 256)] else [Z.to_N (u mod 256); Z.to_N (u / 256)].

Lemma utf16_runes_units : forall rs, Forall scalar rs ->
  utf16_runes (concat (map utf16_units rs)) = rs.
Proof.
  induction 1 as [|r rs Hr Hrs IH]; [reflexivity|].
  cbn [map concat]. unfold utf16_units at 1. destruct Hr as [Hr1 Hr2].
  destruct (Z.ltb_spec r 65536) as [Hlt|Hge].
  - cbn [app utf16_runes]. unfold is_high, is_low.
    assert (E1 : (55296 <=? r) && (r <=? 56319) = false).
    { destruct (Z.leb_spec 55296 r), (Z.leb_spec r 56319); try reflexivity. exfalso. apply Hr2. lia. }
    assert (E2 : (56320 <=? r) && (r <=? 57343) = false).
    { destruct (Z.leb_spec 56320 r), (Z.leb_spec r 57343); try reflexivity. exfalso. apply Hr2. lia. }
    rewrite E1, E2, IH. reflexivity.
  - cbn [app utf16_runes]. unfold is_high, is_low.
    pose proof (Z.div_mod (r - 65536) 1024 ltac:(lia)) as D.
    pose proof (Z.mod_pos_bound (r - 65536) 1024 ltac:(lia)) as M.
    assert (0 <= (r - 65536) / 1024 <= 1023) by (split; [apply Z.div_pos; lia|assert ((r - 65536) / 1024 < 1024) by (apply Z.div_lt_upper_bound; lia); lia]).
    assert (E1 : (55296 <=? 55296 + (r - 65536) / 1024) && (55296 + (r - 65536) / 1024 <=? 56319) = true).
    { apply andb_true_iff. split; apply Z.leb_le; lia. }
    assert (E2 : (56320 <=? 56320 + (r - 65536) mod 1024) && (56320 + (r - 65536) mod 1024 <=? 57343) = true).
    { apply andb_true_iff. split; apply Z.leb_le; lia. }
    rewrite E1, E2, IH. f_equal. lia.
Qed.

Lemma units_of_bytes : forall be us fuel,
  Forall (fun u => 0 <= u < 65536) us -> (2 * length us < fuel)%nat ->
  units_of be (concat (map (unit_bytes be) us)) fuel = us.
Proof.
  intros be us. induction us as [|u r IH]; intros fuel Hu Hf.
  - destruct fuel; reflexivity.
  - inversion Hu as [|? ? H1 H2]; subst. destruct fuel as [|f]; [cbn in Hf; lia|].
    cbn [map concat]. unfold unit_bytes at 1.
    pose proof (Z.div_mod u 256 ltac:(lia)) as D.
    pose proof (Z.mod_pos_bound u 256 ltac:(lia)) as M.
    assert (0 <= u / 256) by (apply Z.div_pos; lia).
    destruct be; cbn [app units_of]; rewrite !Z2N.id by lia; rewrite IH by (try assumption; cbn [length] in Hf; lia);
      f_equal; lia.
Qed.

(* every Unicode text survives UTF-16, either byte order: the decoders invert the encoding *)
Theorem utf16_round_trip : forall be rs, Forall scalar rs ->
  decode_utf16 be (concat (map (unit_bytes be) (concat (map utf16_units rs)))) = rs.
Proof.
  intros be rs H. unfold decode_utf16.
  rewrite units_of_bytes.
  - apply utf16_runes_units, H.
  - clear be. induction H as [|r rs [Hr1 Hr2] Hrs IH]; [constructor|].
    cbn [map concat]. apply Forall_app. split; [|exact IH].
    unfold utf16_units. destruct (Z.ltb_spec r 65536).
    + repeat constructor; lia.
    + pose proof (Z.mod_pos_bound (r - 65536) 1024 ltac:(lia)).
      assert (0 <= (r - 65536) / 1024 <= 1023) by (split; [apply Z.div_pos; lia|assert ((r - 65536) / 1024 < 1024) by (apply Z.div_lt_upper_bound; lia); lia]).
      repeat constructor; lia.
  - assert (L : forall us, length (concat (map (unit_bytes be) us)) = (2 * length us)%nat).
    { induction us as [|u r IHu]; [reflexivity|]. cbn [map concat]. rewrite app_length, IHu.
      unfold unit_bytes. destruct be; cbn [length]; lia. }
    rewrite L. lia.
Qed.

Example utf16_example :
  scalar 119808 /\ decode_utf16 true [216; 53; 220; 0; 0; 65]%N = [119808; 65].
Proof. split; [unfold scalar; lia|reflexivity]. Qed.

(* ---------- valid UTF-8 on every path ---------- *)

Ltac Zify.zify_post_hook ::= Z.div_mod_to_equations.

Lemma utf8_encode_valid : forall c : N, (c <= 1114111)%N -> ~ (55296 <= c <= 57343)%N -> uchar (utf8_encode c).
Proof.
  intros c Hc Hs. unfold utf8_encode.
  destruct (N.ltb_spec c 128) as [H1|H1]; [apply U1; exact H1|].
  destruct (N.ltb_spec c 2048) as [H2|H2].
  { apply U2; unfold is_cont; lia. }
  destruct ((55296 <=? c) && (c <=? 57343))%N eqn:E; [exfalso; apply Hs; lia|].
  destruct (N.ltb_spec c 65536) as [H3|H3].
  { destruct (N.eq_dec (c / 4096) 0) as [E0|E0].
    - replace (224 + c / 4096)%N with 224%N by lia. apply U3a; unfold is_cont; lia.
    - destruct (N.eq_dec (c / 4096) 13) as [E13|E13].
      + replace (224 + c / 4096)%N with 237%N by lia. apply U3c; unfold is_cont; lia.
      + apply U3b; unfold is_cont; lia. }
  destruct (N.eq_dec (c / 262144) 0) as [E0|E0].
  - replace (240 + c / 262144)%N with 240%N by lia. apply U4a; unfold is_cont; lia.
  - destruct (N.eq_dec (c / 262144) 4) as [E4|E4].
    + replace (240 + c / 262144)%N with 244%N by lia. apply U4c; unfold is_cont; lia.
    + apply U4b; unfold is_cont; lia.
Qed.

Lemma rune_bytes_valid : forall r, uchar (rune_bytes r).
Proof.
  intros r. unfold rune_bytes, rune_ok.
  destruct ((0 <=? r) && (r <=? 1114111) && negb ((55296 <=? r) && (r <=? 57343))) eqn:E.
  - apply utf8_encode_valid; lia.
  - apply U3b; unfold is_cont; lia.
Qed.

(* whatever runes a decoding path produces, the text is valid UTF-8 *)
Theorem decoded_text_is_valid_utf8 : forall rs, valid_utf8 (runes_bytes rs).
Proof.
  induction rs as [|r rs IH]; [constructor|].
  unfold runes_bytes. cbn [map concat]. constructor; [apply rune_bytes_valid|exact IH].
Qed.

Corollary every_path_returns_valid_utf8 : forall t c be data,
  valid_utf8 (runes_bytes (table_decode t data))
  /\ valid_utf8 (runes_bytes (decode_utf16 be data))
  /\ valid_utf8 (runes_bytes (lookup_string c data)).
Proof. intros. repeat split; apply decoded_text_is_valid_utf8. Qed.

(* ---------- the CMap scanner ---------- *)

Definition tok_text (t : token) : bytes :=
  match t with THex h => [60%N] ++ h ++ [62%N] | TOpen => [91%N] | TClose => [93%N] end.

Definition sep_ok (s : bytes) : Prop := Forall (fun c => c <> 60%N /\ c <> 91%N /\ c <> 93%N) s.
Definition tok_ok (t : token) : Prop := match t with THex h => Forall (fun c => c <> 62%N) h | _ => True end.

(* tokens written with any separators (blanks, tabs, LF, CR, CRLF, nothing) *)
Definition render (ps : list (bytes * token)) (trail : bytes) : bytes :=
  concat (map (fun p => fst p ++ tok_text (snd p)) ps) ++ trail.

Lemma until_gt_hex : forall h acc rest, Forall (fun c => c <> 62%N) h ->
  until_gt (h ++ 62%N :: rest) acc = Some (rev acc ++ h, rest).
Proof.
  induction h as [|c h IH]; intros acc rest Hh.
  - cbn. rewrite app_nil_r. reflexivity.
  - inversion Hh as [|? ? Hc Hr]; subst. cbn [app until_gt].
    destruct (N.eqb_spec c 62); [contradiction|].
    rewrite IH by exact Hr. cbn [rev]. rewrite <- app_assoc. reflexivity.
Qed.

Lemma tokens_skip : forall sep rest fuel, sep_ok sep ->
  tokens (length sep + fuel) (sep ++ rest) = tokens fuel rest.
Proof.
  induction sep as [|c sep IH]; intros rest fuel Hs; [reflexivity|].
  inversion Hs as [|? ? (H1 & H2 & H3) Hr]; subst. cbn [length Nat.add app tokens].
  destruct (N.eqb_spec c 60); [contradiction|].
  destruct (N.eqb_spec c 91); [contradiction|].
  destruct (N.eqb_spec c 93); [contradiction|].
  apply IH, Hr.
Qed.

Lemma tokens_trail : forall trail fuel, sep_ok trail -> tokens fuel trail = [].
Proof.
  induction trail as [|c t IH]; intros fuel Hs; destruct fuel; try reflexivity.
  inversion Hs as [|? ? (H1 & H2 & H3) Hr]; subst. cbn [tokens].
  destruct (N.eqb_spec c 60); [contradiction|].
  destruct (N.eqb_spec c 91); [contradiction|].
  destruct (N.eqb_spec c 93); [contradiction|].
  apply IH, Hr.
Qed.

(* the scanner returns exactly the tokens written, whatever separates them *)
Theorem tokens_of_any_layout : forall ps trail fuel,
  Forall (fun p => sep_ok (fst p) /\ tok_ok (snd p)) ps -> sep_ok trail ->
  (length (render ps trail) < fuel)%nat ->
  tokens fuel (render ps trail) = map snd ps.
Proof.
  induction ps as [|[sep t] ps IH]; intros trail fuel Hps Ht Hf.
  - cbn. apply tokens_trail, Ht.
  - inversion Hps as [|? ? [Hs Hk] Hr]; subst. cbn [fst snd] in *.
    unfold render in *. cbn [map concat fst snd] in *. rewrite <- !app_assoc in *.
    rewrite !app_length in Hf.
    replace fuel with (length sep + (fuel - length sep))%nat by lia.
    rewrite tokens_skip by exact Hs.
    destruct t as [h| |]; cbn [tok_text app] in *.
    + remember (fuel - length sep)%nat as f1. destruct f1 as [|f1]; [cbn [length] in Hf; rewrite app_length in Hf; cbn [length] in Hf; lia|].
      cbn [tokens N.eqb Pos.eqb]. rewrite <- app_assoc. cbn [app].
      rewrite until_gt_hex by exact Hk. cbn [rev app map snd]. f_equal.
      apply IH; try assumption. rewrite !app_length in *. cbn [length] in *. rewrite app_length in Hf. cbn [length] in Hf. lia.
    + remember (fuel - length sep)%nat as f1. destruct f1 as [|f1]; [cbn [length] in Hf; lia|].
      cbn [tokens N.eqb Pos.eqb map snd]. f_equal.
      apply IH; try assumption. rewrite !app_length in *. cbn [length] in *. lia.
    + remember (fuel - length sep)%nat as f1. destruct f1 as [|f1]; [cbn [length] in Hf; lia|].
      cbn [tokens N.eqb Pos.eqb map snd]. f_equal.
      apply IH; try assumption. rewrite !app_length in *. cbn [length] in *. lia.
Qed.

(* ---------- lookup ---------- *)

Lemma last_char_app : forall code l1 l2 found,
  last_char code (l1 ++ l2) found = last_char code l2 (last_char code l1 found).
Proof. intros code l1. induction l1 as [|[k t] r IH]; intros l2 found; [reflexivity|]. cbn [app last_char]. apply IH. Qed.

Lemma last_char_absent : forall code l found,
  Forall (fun p => fst p <> code) l -> last_char code l found = found.
Proof.
  intros code l. induction l as [|[k t] r IH]; intros found H; [reflexivity|].
  inversion H as [|? ? H1 H2]; subst. cbn [last_char fst] in *.
  destruct (Z.eqb_spec k code); [contradiction|]. apply IH, H2.
Qed.

(* a code with one character mapping, wherever it stands among the others, decodes to its text *)
Theorem lookup_of_a_mapped_code : forall c before after code text,
  cm_chars c = before ++ (code, text) :: after ->
  Forall (fun p => fst p <> code) after -> text <> [] ->
  lookup c code = Some text.
Proof.
  intros c before after code text E Ha Ht. unfold lookup. rewrite E, last_char_app.
  cbn [last_char]. rewrite Z.eqb_refl, last_char_absent by exact Ha.
  destruct text; [contradiction|reflexivity].
Qed.

(* a code inside a range (and without a character mapping) decodes to the range's start plus its offset *)
Theorem lookup_in_a_range : forall c s e d code rest,
  Forall (fun p => fst p <> code) (cm_chars c) ->
  cm_ranges c = (s, e, d) :: rest -> s <= code <= e -> 0 <= d -> d + (code - s) < 2147483648 ->
  lookup c code = Some [d + (code - s)].
Proof.
  intros c s e d code rest Hc Hr Hin Hd Hb. unfold lookup.
  rewrite last_char_absent by exact Hc. rewrite Hr. cbn [first_range].
  replace ((s <=? code) && (code <=? e)) with true by lia.
  rewrite Z.mod_small by lia.
  replace (d + (code - s) <? 2147483648) with true by lia. reflexivity.
Qed.

(* a range whose destination is a surrogate pair or a longer string: the last unit counts up *)
Theorem expanded_range_counts_up_in_the_last_unit : forall n code last prefix c,
  cm_chars (expand_range n code last prefix c)
  = cm_chars c ++ map (fun k => (code + Z.of_nat k, cmap_utf16 (prefix ++ [(last + Z.of_nat k) mod 65536]))) (seq 0 n).
Proof.
  induction n as [|n IH]; intros code last prefix c.
  - cbn. rewrite app_nil_r. reflexivity.
  - cbn [expand_range]. rewrite IH. cbn [add_char cm_chars seq map]. rewrite <- app_assoc. cbn [app].
    rewrite !Z.add_0_r. f_equal. f_equal. rewrite <- seq_shift, map_map.
    apply map_ext. intros k. rewrite Nat2Z.inj_succ. f_equal; [lia|]. f_equal. f_equal. f_equal. lia.
Qed.

(* a string made of whole codes decodes code by code, in order *)
Theorem lookup_width_decodes_code_by_code : forall c w chunks texts fuel,
  (0 < w)%nat -> Forall (fun ch => length ch = w) chunks ->
  Forall2 (fun ch t => lookup c (code_of ch 0) = Some t) chunks texts ->
  (length (concat chunks) < fuel)%nat ->
  lookup_width c w fuel (concat chunks) = concat texts.
Proof.
  intros c w chunks texts fuel Hw Hl H. revert fuel Hl.
  induction H as [|ch t chunks texts Hct Hrest IH]; intros fuel Hl Hf.
  - destruct fuel; reflexivity.
  - inversion Hl as [|? ? L1 L2]; subst.
    destruct fuel as [|f]; [lia|]. cbn [concat] in *. rewrite app_length in Hf.
    cbn [lookup_width].
    destruct (ch ++ concat chunks) as [|x xs] eqn:E.
    { destruct ch; [cbn in Hw; lia|discriminate]. }
    rewrite <- E.
    replace (Nat.ltb (length (ch ++ concat chunks)) (length ch)) with false
      by (symmetry; apply Nat.ltb_ge; rewrite app_length; lia).
    rewrite firstn_app, Nat.sub_diag, firstn_all, firstn_O, app_nil_r.
    rewrite skipn_app, Nat.sub_diag, skipn_all, skipn_O. cbn [app].
    rewrite Hct. f_equal. apply IH; [exact L2|lia].
Qed.

(* a surrogate-pair destination over two codes, written with CR line ends *)
Example cmap_example :
  let prog := bs "1 begincodespacerange" ++ [13%N] ++ bs "<00><FF>" ++ [13%N] ++ bs "endcodespacerange" ++ [13%N]
              ++ bs "1 beginbfrange" ++ [13%N] ++ bs "<01><02><D835DC00>" ++ [13%N] ++ bs "<05> <06> [<0041> <00660069>]"
              ++ [13%N] ++ bs "endbfrange" in
  lookup_string (parse_cmap prog) [1; 2; 5; 6]%N = [119808; 119809; 65; 102; 105].
Proof. vm_compute. reflexivity. Qed.
