(* C08 corollaries stated one by one. *)
From Tabula Require Import base.Val model.C08_Gfx proofs.C08_Iso.
From Coq Require Import Lia.
Open Scope Z_scope.

(* cm pre-multiplies: a point is mapped through the new matrix first, then the old CTM *)
Theorem cm_premultiplies g m p :
  transform (g_ctm (upd_ctm g (mmul m (g_ctm g)))) p = transform (g_ctm g) (transform m p).
Proof. cbn [upd_ctm g_ctm]. apply transform_mmul. Qed.

(* Td pre-multiplies the text line matrix: the translation acts in text space *)
Theorem Td_premultiplies g tx ty p :
  transform (g_tlm (translate_text g tx ty)) p = transform (g_tlm g) (transform (translate tx ty) p) /\
  g_tm (translate_text g tx ty) = g_tlm (translate_text g tx ty).
Proof. cbn [translate_text g_tlm g_tm]. split; [apply transform_mmul|reflexivity]. Qed.

(* BT resets both text matrices *)
Theorem BT_resets s s' : step true s OBT = Ok s' ->
  g_tm (x_g s') = ident /\ g_tlm (x_g s') = ident /\ g_ctm (x_g s') = g_ctm (x_g s).
Proof. cbn [step]. intro H. inversion H; subst. cbn. auto. Qed.

(* Tstar, quote and double-quote move by the leading, relative to the line matrix; TD sets the leading *)
Theorem Tstar_relative_to_line_matrix s s' : step true s OTstar = Ok s' ->
  g_tlm (x_g s') = mmul (translate 0 (- g_lead (x_g s))) (g_tlm (x_g s)).
Proof. cbn [step]. intro H. inversion H; subst. reflexivity. Qed.

Theorem quote_is_Tstar_then_show s :
  step true s OQuote = res_bind (step true s OTstar) (fun s1 => step true s1 OTj) /\
  forall a b, step true s (ODQuote a b) = res_bind (step true s OTstar) (fun s1 => step true s1 OTj).
Proof. split; reflexivity. Qed.

Theorem TD_sets_leading s tx ty s' : step true s (OTD tx ty) = Ok s' ->
  g_lead (x_g s') = - ty /\ g_tlm (x_g s') = mmul (translate tx ty) (g_tlm (x_g s)).
Proof. cbn [step]. intro H. inversion H; subst. cbn. auto. Qed.

(* q ... Q restores the whole saved state, for any balanced program in between, at any depth *)
Definition plain (o : op) : Prop :=
  match o with Oq | OQ | OForm _ _ => False | _ => True end.

Inductive balanced : list op -> Prop :=
| B_nil : balanced []
| B_op o l : plain o -> balanced l -> balanced (o :: l)
| B_q l1 l2 : balanced l1 -> balanced l2 -> balanced (Oq :: l1 ++ OQ :: l2).

Lemma run_ops_app l1 l2 s :
  run_ops (l1 ++ l2) s = res_bind (run_ops l1 s) (run_ops l2).
Proof.
  revert s. induction l1 as [|o l1 IH]; intro s; cbn [app run_ops res_bind]; [reflexivity|].
  destruct (step true s o); cbn [res_bind]; auto.
Qed.

Lemma show_stack s : x_stack (show s) = x_stack s.
Proof.
  unfold show. destruct (g_tm (x_g s)) as [[[[[a b] c] d] e] f].
  destruct (g_ctm (x_g s)) as [[[[[ca cb] cc] cd] ce] cf]. reflexivity.
Qed.

Lemma plain_keeps_stack o s : plain o -> exists s', step true s o = Ok s' /\ x_stack s' = x_stack s.
Proof.
  destruct o; cbn [plain]; intro H; try contradiction; cbn [step]; eexists; (split; [reflexivity|try reflexivity; rewrite show_stack; reflexivity]).
Qed.

Lemma balanced_keeps_stack l : balanced l -> forall s, exists s', run_ops l s = Ok s' /\ x_stack s' = x_stack s.
Proof.
  induction 1 as [|o l Ho Hl IH|l1 l2 H1 IH1 H2 IH2]; intro s.
  - exists s. split; reflexivity.
  - destruct (plain_keeps_stack o s Ho) as [s1 [E1 S1]]. destruct (IH s1) as [s2 [E2 S2]].
    exists s2. cbn [run_ops]. rewrite E1. split; [exact E2|congruence].
  - cbn [run_ops step]. rewrite run_ops_app.
    destruct (IH1 (save s)) as [s1 [E1 S1]]. rewrite E1. cbn [res_bind run_ops step].
    unfold restore. rewrite S1. cbn [save x_stack].
    destruct (IH2 {| x_g := x_g s; x_stack := x_stack s; x_out := x_out s1 |}) as [s2 [E2 S2]].
    rewrite E2. exists s2. split; [reflexivity|exact S2].
Qed.

Theorem q_Q_restores_exactly l s : balanced l ->
  exists s', run_ops (Oq :: l ++ [OQ]) s = Ok s' /\ x_g s' = x_g s /\ x_stack s' = x_stack s.
Proof.
  intro H. cbn [run_ops step]. rewrite run_ops_app.
  destruct (balanced_keeps_stack l H (save s)) as [s1 [E1 S1]]. rewrite E1.
  cbn [res_bind run_ops step]. unfold restore. rewrite S1. cbn [save x_stack].
  eexists. split; [reflexivity|]. split; reflexivity.
Qed.


(* font size: for similarity matrices (uniform scale and rotation) the squared
   vertical scale of the CTM is the product of the squared scale factors *)
Definition similarity (m : mat) (k2 : Z) : Prop :=
  let '(a, b, c, d, e, f) := m in d = a /\ c = - b /\ k2 = a * a + b * b.

Lemma lin_similarity m k2 v : similarity m k2 ->
  let '(x, y) := lin m v in x * x + y * y = k2 * (fst v * fst v + snd v * snd v).
Proof.
  destruct m as [[[[[a b] c] d] e] f]. destruct v as [x y]. cbn [similarity lin fst snd].
  intros (-> & -> & ->). ring.
Qed.

Theorem font_size_similarity cms ks : Forall2 similarity cms ks ->
  forall v, let '(x, y) := fold_left (fun v m => lin m v) cms v in
  x * x + y * y = fold_right Z.mul 1 ks * (fst v * fst v + snd v * snd v).
Proof.
  induction 1 as [|m k cms ks Hm Hr IH]; intro v; cbn [fold_left fold_right].
  - destruct v; cbn [fst snd]. ring.
  - specialize (IH (lin m v)). pose proof (lin_similarity m k v Hm) as L.
    destruct (lin m v) as [x1 y1] eqn:E1. cbn [fst snd] in IH.
    destruct (fold_left (fun v0 m0 => lin m0 v0) cms (x1, y1)) as [x y]. rewrite IH, L. ring.
Qed.

Corollary font_size_scale g ks : Forall2 similarity (i_cms g) ks ->
  let '(_, _, sq) := iso_shown g in sq = fold_right Z.mul 1 ks.
Proof.
  intro H. unfold iso_shown. destruct (i_tmb g) as [[[[[a b] c] d] e] f].
  pose proof (font_size_similarity _ _ H (0, 1)) as F. unfold iso_vertical.
  destruct (fold_left (fun v m => lin m v) (i_cms g) (0, 1)) as [vx vy]. cbn [fst snd] in F.
  rewrite F. ring.
Qed.
