(* C08: the implementation's matrix bookkeeping refines the ISO 32000 imaging
   model written as successive point transformations. *)
From Tabula Require Import base.Val model.C08_Gfx.
From Coq Require Import Lia.
Open Scope Z_scope.

Ltac mat_eq := cbv [mmul ident transform translate fst snd]; repeat match goal with |- (_, _) = (_, _) => apply f_equal2 end; ring.
(* ---------- matrix algebra (row-vector convention) *)
Lemma transform_mmul A B p : transform (mmul A B) p = transform B (transform A p).
Proof.
  destruct A as [[[[[a b] c] d] e] f]. destruct B as [[[[[a' b'] c'] d'] e'] f']. destruct p as [x y].
  mat_eq.
Qed.

Lemma mmul_assoc A B C : mmul (mmul A B) C = mmul A (mmul B C).
Proof.
  destruct A as [[[[[a b] c] d] e] f]. destruct B as [[[[[a' b'] c'] d'] e'] f'].
  destruct C as [[[[[a2 b2] c2] d2] e2] f2]. mat_eq.
Qed.

Lemma mmul_ident_r A : mmul A ident = A.
Proof. destruct A as [[[[[a b] c] d] e] f]. mat_eq. Qed.
Lemma mmul_ident_l A : mmul ident A = A.
Proof. destruct A as [[[[[a b] c] d] e] f]. mat_eq. Qed.
Lemma transform_ident p : transform ident p = p.
Proof. destruct p as [x y]. mat_eq. Qed.

(* ---------- the ISO semantics: what is in force, not its product *)
Record igs := {
  i_cms : list mat;      (* cm matrices in force, most recent first (incl. form /Matrix) *)
  i_tmb : mat;           (* operand of the last Tm, identity after BT *)
  i_td : Z * Z;          (* sum of the Td-family translations since then *)
  i_lead : Z; i_fs : Z; i_clean : bool
}.

Definition i0 : igs := {| i_cms := []; i_tmb := ident; i_td := (0, 0); i_lead := 0; i_fs := 12; i_clean := true |}.

(* text-space origin -> text matrix -> each cm, most recent first (8.3.4, 9.4.2) *)
Definition iso_position (g : igs) : Z * Z :=
  fold_left (fun p m => transform m p) (i_cms g) (transform (i_tmb g) (i_td g)).

Definition lin (m : mat) (v : Z * Z) : Z * Z :=
  let '(a, b, c, d, e, f) := m in let '(x, y) := v in (a * x + c * y, b * x + d * y).

Ltac mat_eq2 := cbv [mmul ident transform translate fst snd lin]; repeat match goal with |- (_, _) = (_, _) => apply f_equal2 end; ring.
(* image of the vertical unit vector under the linear parts of the cms *)
Definition iso_vertical (g : igs) : Z * Z := fold_left (fun v m => lin m v) (i_cms g) (0, 1).

Definition iso_shown (g : igs) : shown :=
  let '(a, b, c, d, e, f) := i_tmb g in
  let '(vx, vy) := iso_vertical g in
  (if i_clean g then Some (iso_position g) else None,
   i_fs g * Z.max (zabs a) (zabs d), vx * vx + vy * vy).

Record istate := { is_g : igs; is_stack : list igs; is_out : list shown }.

Definition iset (s : istate) (g : igs) : istate := {| is_g := g; is_stack := is_stack s; is_out := is_out s |}.
Definition itd (g : igs) (tx ty : Z) : igs :=
  {| i_cms := i_cms g; i_tmb := i_tmb g; i_td := (fst (i_td g) + tx, snd (i_td g) + ty);
     i_lead := i_lead g; i_fs := i_fs g; i_clean := true |}.
Definition ishow (s : istate) : istate :=
  let g := is_g s in
  {| is_g := {| i_cms := i_cms g; i_tmb := i_tmb g; i_td := i_td g; i_lead := i_lead g; i_fs := i_fs g; i_clean := false |};
     is_stack := is_stack s; is_out := is_out s ++ [iso_shown g] |}.
Definition irestore (s : istate) : res istate :=
  match is_stack s with
  | [] => Err
  | g :: st => Ok {| is_g := g; is_stack := st; is_out := is_out s |}
  end.
Definition isave (s : istate) : istate := {| is_g := is_g s; is_stack := is_g s :: is_stack s; is_out := is_out s |}.
Definition icm (g : igs) (m : mat) : igs :=
  {| i_cms := m :: i_cms g; i_tmb := i_tmb g; i_td := i_td g; i_lead := i_lead g; i_fs := i_fs g; i_clean := i_clean g |}.

Fixpoint istep (toplevel : bool) (s : istate) (o : op) {struct o} : res istate :=
  let g := is_g s in
  match o with
  | Oq => Ok (isave s)
  | OQ => match irestore s with Ok s' => Ok s' | _ => if toplevel then Err else Ok s end
  | Ocm m => Ok (iset s (icm g m))
  | OBT => Ok (iset s {| i_cms := i_cms g; i_tmb := ident; i_td := (0, 0); i_lead := i_lead g; i_fs := i_fs g; i_clean := true |})
  | OET => Ok s
  | OTf sz => Ok (iset s {| i_cms := i_cms g; i_tmb := i_tmb g; i_td := i_td g; i_lead := i_lead g; i_fs := sz; i_clean := i_clean g |})
  | OTm m => Ok (iset s {| i_cms := i_cms g; i_tmb := m; i_td := (0, 0); i_lead := i_lead g; i_fs := i_fs g; i_clean := true |})
  | OTd tx ty => Ok (iset s (itd g tx ty))
  | OTD tx ty =>
    Ok (iset s (itd {| i_cms := i_cms g; i_tmb := i_tmb g; i_td := i_td g; i_lead := - ty; i_fs := i_fs g; i_clean := i_clean g |} tx ty))
  | OTstar => Ok (iset s (itd g 0 (- i_lead g)))
  | OTL l => Ok (iset s {| i_cms := i_cms g; i_tmb := i_tmb g; i_td := i_td g; i_lead := l; i_fs := i_fs g; i_clean := i_clean g |})
  | OTc _ | OTw _ | OTz _ => Ok s
  | OTj => Ok (ishow s)
  | OQuote => Ok (ishow (iset s (itd g 0 (- i_lead g))))
  | ODQuote _ _ => Ok (ishow (iset s (itd g 0 (- i_lead g))))
  | OForm m body =>
    let s1 := isave s in
    let s2 := match m with Some mm => iset s1 (icm (is_g s1) mm) | None => s1 end in
    let s3 := (fix run (l : list op) (s : istate) : istate :=
                 match l with
                 | [] => s
                 | o' :: l' => match istep false s o' with Ok s' => run l' s' | _ => run l' s end
                 end) body s2 in
    match irestore s3 with Ok s4 => Ok s4 | _ => Ok s3 end
  end.

Fixpoint irun_ops (l : list op) (s : istate) : res istate :=
  match l with
  | [] => Ok s
  | o :: l' => match istep true s o with
               | Ok s' => irun_ops l' s'
               | Err => Err | Panic => Panic | Diverge => Diverge
               end
  end.

Definition ix0 : istate := {| is_g := i0; is_stack := []; is_out := [] |}.
Definition iso_run (prog : list op) : res (list shown) := res_map is_out (irun_ops prog ix0).

(* ---------- abstraction: the matrices the implementation keeps *)
Definition ctm_of (cms : list mat) : mat := fold_right mmul ident cms.

Definition conc (g : igs) : gstate :=
  let tlm := mmul (translate (fst (i_td g)) (snd (i_td g))) (i_tmb g) in
  {| g_ctm := ctm_of (i_cms g); g_tm := tlm; g_tlm := tlm; g_lead := i_lead g; g_fs := i_fs g; g_clean := i_clean g |}.

Definition concx (s : istate) : xstate :=
  {| x_g := conc (is_g s); x_stack := map conc (is_stack s); x_out := is_out s |}.

Lemma transform_ctm_of cms p : transform (ctm_of cms) p = fold_left (fun p m => transform m p) cms p.
Proof.
  revert p. induction cms as [|m cms IH]; intro p; cbn [ctm_of fold_right fold_left].
  - apply transform_ident.
  - rewrite transform_mmul. apply IH.
Qed.

Lemma lin_ctm_of cms : forall v,
  (let '(a, b, c, d, e, f) := ctm_of cms in (a * fst v + c * snd v, b * fst v + d * snd v)) =
  fold_left (fun v m => lin m v) cms v.
Proof.
  induction cms as [|m cms IH]; intros [x y]; cbn [ctm_of fold_right fold_left].
  - mat_eq2.
  - rewrite <- IH. fold (ctm_of cms).
    destruct m as [[[[[a b] c] d] e] f]. destruct (ctm_of cms) as [[[[[a' b'] c'] d'] e'] f'].
    mat_eq2.
Qed.

Lemma conc_shown g :
  (let gg := conc g in
   let '(a, b, c, d, e, f) := g_tm gg in
   let '(ca, cb, cc, cd, ce, cf) := g_ctm gg in
   (if g_clean gg then Some (transform (g_ctm gg) (e, f)) else None,
    g_fs gg * Z.max (zabs a) (zabs d), cc * cc + cd * cd)) = iso_shown g.
Proof.
  unfold iso_shown, iso_position, iso_vertical. cbn [conc g_tm g_ctm g_clean g_fs].
  destruct (i_tmb g) as [[[[[a b] c] d] e] f] eqn:Et. destruct (i_td g) as [tx ty]. cbn [fst snd].
  cbn [translate mmul].
  pose proof (lin_ctm_of (i_cms g) (0, 1)) as L. cbn [fst snd] in L.
  pose proof (transform_ctm_of (i_cms g)) as T.
  destruct (ctm_of (i_cms g)) as [[[[[ca cb] cc] cd] ce] cf] eqn:Ec.
  destruct (fold_left (fun v m => lin m v) (i_cms g) (0, 1)) as [vx vy].
  inversion L; subst.
  replace (1 * a + 0 * c) with a by ring. replace (0 * b + 1 * d) with d by ring.
  f_equal; [f_equal|ring].
  destruct (i_clean g); [|reflexivity]. f_equal.
  rewrite <- T. cbn [transform]. f_equal; ring.
Qed.

Lemma show_conc s : show (concx s) = concx (ishow s).
Proof.
  unfold show, ishow, concx. cbn [x_g x_stack x_out is_g is_stack is_out].
  pose proof (conc_shown (is_g s)) as H. cbv zeta in H.
  destruct (g_tm (conc (is_g s))) as [[[[[a b] c] d] e] f] eqn:Etm.
  destruct (g_ctm (conc (is_g s))) as [[[[[ca cb] cc] cd] ce] cf] eqn:Ectm.
  rewrite H. rewrite <- Etm, <- Ectm. unfold conc.
  cbn [i_cms i_tmb i_td i_lead i_fs i_clean g_ctm g_tm g_tlm g_lead g_fs g_clean]. reflexivity.
Qed.

Lemma translate_text_conc g tx ty : translate_text (conc g) tx ty = conc (itd g tx ty).
Proof.
  unfold translate_text, conc, itd. cbn [g_tlm g_ctm g_lead g_fs i_cms i_tmb i_td i_lead i_fs i_clean fst snd].
  assert (mmul (translate tx ty) (mmul (translate (fst (i_td g)) (snd (i_td g))) (i_tmb g)) =
          mmul (translate (fst (i_td g) + tx) (snd (i_td g) + ty)) (i_tmb g)) as E.
  { rewrite <- mmul_assoc. f_equal. unfold translate. mat_eq. }
  rewrite E. reflexivity.
Qed.

Lemma restore_conc s : restore (concx s) = res_map concx (irestore s).
Proof. unfold restore, irestore, concx. cbn. destruct (is_stack s); reflexivity. Qed.

Lemma set_conc s g : set_g (concx s) (conc g) = concx (iset s g).
Proof. reflexivity. Qed.

(* induction principle for the nested operator type *)
Section OpInd.
  Variable P : op -> Prop.
  Hypothesis Hq : P Oq. Hypothesis HQ : P OQ. Hypothesis Hcm : forall m, P (Ocm m).
  Hypothesis HBT : P OBT. Hypothesis HET : P OET. Hypothesis HTf : forall z, P (OTf z).
  Hypothesis HTm : forall m, P (OTm m). Hypothesis HTd : forall x y, P (OTd x y).
  Hypothesis HTD : forall x y, P (OTD x y). Hypothesis HTs : P OTstar. Hypothesis HTL : forall l, P (OTL l).
  Hypothesis HTc : forall z, P (OTc z). Hypothesis HTw : forall z, P (OTw z). Hypothesis HTz : forall z, P (OTz z).
  Hypothesis HTj : P OTj. Hypothesis HQu : P OQuote. Hypothesis HDQ : forall a b, P (ODQuote a b).
  Hypothesis HForm : forall m body, Forall P body -> P (OForm m body).
  Fixpoint op_ind' (o : op) : P o :=
    match o with
    | Oq => Hq | OQ => HQ | Ocm m => Hcm m | OBT => HBT | OET => HET | OTf z => HTf z
    | OTm m => HTm m | OTd x y => HTd x y | OTD x y => HTD x y | OTstar => HTs | OTL l => HTL l
    | OTc z => HTc z | OTw z => HTw z | OTz z => HTz z | OTj => HTj | OQuote => HQu
    | ODQuote a b => HDQ a b
    | OForm m body => HForm m body ((fix go (l : list op) : Forall P l :=
                                       match l with [] => Forall_nil P | o' :: l' => Forall_cons o' (op_ind' o') (go l') end) body)
    end.
End OpInd.

Lemma step_conc o : forall top s, step top (concx s) o = res_map concx (istep top s o).
Proof.
  induction o using op_ind'; intros top s; cbn [step istep]; try reflexivity.
  - (* Q *) rewrite restore_conc. destruct (irestore s); cbn [res_map res_bind]; try reflexivity; destruct top; reflexivity.
  - (* Tm *) cbn [res_map res_bind]. f_equal. unfold concx, set_g, iset, conc.
    cbn [is_g is_stack is_out x_g x_stack x_out i_cms i_tmb i_td i_lead i_fs i_clean g_ctm g_lead g_fs fst snd].
    change (translate 0 0) with ident. rewrite mmul_ident_l. reflexivity.
  - (* Td *) cbn [x_g concx]. rewrite translate_text_conc. reflexivity.
  - (* TD *) cbn [x_g concx].
    change {| g_ctm := g_ctm (conc (is_g s)); g_tm := g_tm (conc (is_g s)); g_tlm := g_tlm (conc (is_g s));
              g_lead := - y; g_fs := g_fs (conc (is_g s)); g_clean := g_clean (conc (is_g s)) |}
      with (conc {| i_cms := i_cms (is_g s); i_tmb := i_tmb (is_g s); i_td := i_td (is_g s); i_lead := - y;
                    i_fs := i_fs (is_g s); i_clean := i_clean (is_g s) |}).
    rewrite translate_text_conc. reflexivity.
  - (* T* *) cbn [x_g concx]. change (g_lead (conc (is_g s))) with (i_lead (is_g s)).
    rewrite translate_text_conc. reflexivity.
  - (* Tj *) cbn [res_map res_bind]. f_equal. apply show_conc.
  - (* quote *) cbn [x_g concx]. change (g_lead (conc (is_g s))) with (i_lead (is_g s)).
    rewrite translate_text_conc. cbn [res_map res_bind]. f_equal. rewrite set_conc. apply show_conc.
  - (* dquote *) cbn [x_g concx]. change (g_lead (conc (is_g s))) with (i_lead (is_g s)).
    rewrite translate_text_conc. cbn [res_map res_bind]. f_equal. rewrite set_conc. apply show_conc.
  - (* Form *)
    set (runx := fix run (l : list op) (s0 : xstate) : xstate :=
                   match l with [] => s0 | o' :: l' => match step false s0 o' with Ok s' => run l' s' | _ => run l' s0 end end).
    set (runi := fix run (l : list op) (s0 : istate) : istate :=
                   match l with [] => s0 | o' :: l' => match istep false s0 o' with Ok s' => run l' s' | _ => run l' s0 end end).
    assert (forall s0, runx body (concx s0) = concx (runi body s0)) as Hrun.
    { induction H as [|o' l' Ho' Hl' IHl]; intro s0; cbn [runx runi]; [reflexivity|].
      rewrite Ho'. destruct (istep false s0 o'); cbn [res_map res_bind]; apply IHl. }
    assert ((match m with
             | Some mm => set_g (save (concx s)) (upd_ctm (x_g (save (concx s))) (mmul mm (g_ctm (x_g (save (concx s))))))
             | None => save (concx s) end) =
            concx (match m with Some mm => iset (isave s) (icm (is_g (isave s)) mm) | None => isave s end)) as E.
    { destruct m; reflexivity. }
    rewrite E, Hrun, restore_conc.
    destruct (irestore _); cbn [res_map res_bind]; reflexivity.
Qed.

Lemma run_conc prog : forall s, run_ops prog (concx s) = res_map concx (irun_ops prog s).
Proof.
  induction prog as [|o prog IH]; intro s; cbn [run_ops irun_ops]; [reflexivity|].
  rewrite step_conc. destruct (istep true s o); cbn [res_map res_bind]; try reflexivity. apply IH.
Qed.

Theorem impl_refines_iso prog : impl_run prog = iso_run prog.
Proof.
  unfold impl_run, iso_run. change x0 with (concx ix0). rewrite run_conc.
  destruct (irun_ops prog ix0); reflexivity.
Qed.
