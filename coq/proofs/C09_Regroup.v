(* C09: regrouping neither loses, invents nor duplicates - for every decision
   oracle. *)
From Tabula Require Import model.C09_Regroup.
From Coq Require Import Permutation Lia.
Open Scope nat_scope.

Lemma insert_by_perm : forall pos x l, Permutation (insert_by pos x l) (x :: l).
Proof.
  intros pos x l. induction l as [|y r IH]; [apply Permutation_refl|].
  cbn [insert_by]. destruct (Nat.leb (pos x) (pos y)); [apply Permutation_refl|].
  eapply perm_trans; [apply perm_skip, IH|apply perm_swap].
Qed.

Lemma sort_by_perm : forall pos l, Permutation (sort_by pos l) l.
Proof.
  intros pos l. induction l as [|x r IH]; [constructor|].
  cbn [sort_by fold_right]. eapply perm_trans; [apply insert_by_perm|apply perm_skip, IH].
Qed.

Lemma filter_partition_perm : forall (f : nat -> bool) l,
  Permutation (filter f l ++ filter (fun x => negb (f x)) l) l.
Proof.
  intros f l. induction l as [|x r IH]; [constructor|].
  cbn [filter]. destruct (f x); cbn [negb app].
  - apply perm_skip, IH.
  - eapply perm_trans; [apply Permutation_sym, Permutation_middle|apply perm_skip, IH].
Qed.

Lemma filter_filter : forall (f g : nat -> bool) l,
  filter f (filter g l) = filter (fun x => g x && f x) l.
Proof.
  intros f g l. induction l as [|x r IH]; [reflexivity|]. cbn [filter].
  destruct (g x); cbn [filter andb]; [destruct (f x); rewrite IH; reflexivity|exact IH].
Qed.

(* the groups g..g+k-1 and the rest *)
Lemma groups_from_perm : forall (key : nat -> nat) k g (l : list nat),
  Permutation (concat (map (fun j => filter (fun x => Nat.eqb (key x) j) l) (seq g k))
               ++ filter (fun x => Nat.ltb (key x) g || Nat.leb (g + k) (key x)) l) l.
Proof.
  intros key k. induction k as [|k IH]; intros g l.
  - cbn [seq map concat app]. rewrite (filter_ext _ (fun _ => true)); [|intros x; rewrite Nat.add_0_r;
      destruct (Nat.ltb_spec (key x) g), (Nat.leb_spec g (key x)); try reflexivity; lia].
    assert (E : filter (fun _ : nat => true) l = l) by (induction l as [|a r IHl]; [reflexivity|cbn; rewrite IHl; reflexivity]).
    rewrite E. apply Permutation_refl.
  - cbn [seq map concat]. rewrite <- app_assoc.
    eapply perm_trans; [|apply (filter_partition_perm (fun x => Nat.eqb (key x) g) l)].
    apply Permutation_app_head.
    (* the remaining groups and the rest are exactly the fragments whose key is not g *)
    set (l' := filter (fun x => negb (Nat.eqb (key x) g)) l).
    assert (E1 : map (fun j => filter (fun x => Nat.eqb (key x) j) l) (seq (S g) k)
                 = map (fun j => filter (fun x => Nat.eqb (key x) j) l') (seq (S g) k)).
    { apply map_ext_in. intros j Hj. apply in_seq in Hj. subst l'.
      rewrite filter_filter. apply filter_ext. intros x.
      destruct (Nat.eqb_spec (key x) j), (Nat.eqb_spec (key x) g); cbn; try reflexivity; lia. }
    assert (E2 : filter (fun x => Nat.ltb (key x) g || Nat.leb (g + S k) (key x)) l
                 = filter (fun x => Nat.ltb (key x) (S g) || Nat.leb (S g + k) (key x)) l').
    { subst l'. rewrite filter_filter. apply filter_ext. intros x.
      destruct (Nat.eqb_spec (key x) g), (Nat.ltb_spec (key x) g), (Nat.leb_spec (g + S k) (key x)),
        (Nat.ltb_spec (key x) (S g)), (Nat.leb_spec (S g + k) (key x)); cbn; try reflexivity; lia. }
    rewrite E1, E2. apply IH.
Qed.

Lemma concat_map_perm : forall A (f g : nat -> list A) l,
  (forall j, Permutation (f j) (g j)) -> Permutation (concat (map f l)) (concat (map g l)).
Proof.
  intros A f g l H. induction l as [|j r IH]; [constructor|]. cbn [map concat]. apply Permutation_app; [apply H|exact IH].
Qed.

(* every stage: the groups together with what the stage drops are the input,
   as a multiset, whatever the decisions are *)
Theorem regrouping_conserves_fragments : forall key pos k frags,
  Permutation (concat (regroup key pos k frags) ++ dropped key k frags) frags.
Proof.
  intros key pos k frags. unfold regroup, dropped.
  eapply perm_trans; [|apply (groups_from_perm key k 0 frags)].
  apply Permutation_app.
  - apply concat_map_perm. intros j. apply sort_by_perm.
  - cbn [Nat.add]. rewrite (filter_ext _ (fun x => Nat.ltb (key x) 0 || Nat.leb k (key x))); [apply Permutation_refl|].
    intros x. destruct (Nat.ltb_spec (key x) 0); [lia|reflexivity].
Qed.

(* when no key points outside the groups nothing is dropped *)
Corollary nothing_dropped_when_every_fragment_has_a_group : forall key pos k frags,
  (forall x, In x frags -> key x < k) ->
  dropped key k frags = [] /\ Permutation (concat (regroup key pos k frags)) frags.
Proof.
  intros key pos k frags H.
  assert (E : dropped key k frags = []).
  { unfold dropped. induction frags as [|x r IH]; [reflexivity|]. cbn [filter].
    destruct (Nat.leb_spec k (key x)); [specialize (H x (or_introl eq_refl)); lia|].
    apply IH. intros y Hy. apply H. right. exact Hy. }
  split; [exact E|]. pose proof (regrouping_conserves_fragments key pos k frags) as P.
  rewrite E, app_nil_r in P. exact P.
Qed.

(* each input fragment is assigned to exactly one group *)
Theorem each_fragment_in_exactly_one_group : forall key pos k frags x g,
  NoDup frags -> In x frags -> g < k ->
  (In x (nth g (regroup key pos k frags) []) <-> key x = g).
Proof.
  intros key pos k frags x g Hnd Hin Hg. unfold regroup.
  rewrite (nth_indep _ [] (sort_by pos (filter (fun y => Nat.eqb (key y) 0) frags))) by (rewrite map_length, seq_length; exact Hg).
  rewrite (map_nth (fun j => sort_by pos (filter (fun y => Nat.eqb (key y) j) frags)) (seq 0 k) 0 g).
  rewrite seq_nth by exact Hg. cbn [Nat.add].
  split.
  - intros H. apply (Permutation_in _ (sort_by_perm pos _)) in H. apply filter_In in H. destruct H as [_ H].
    apply Nat.eqb_eq in H. exact H.
  - intros H. apply (Permutation_in _ (Permutation_sym (sort_by_perm pos _))). apply filter_In. split; [exact Hin|].
    apply Nat.eqb_eq. exact H.
Qed.

Theorem no_fragment_is_duplicated : forall key pos k frags,
  NoDup frags -> NoDup (concat (regroup key pos k frags) ++ dropped key k frags).
Proof.
  intros key pos k frags H. eapply Permutation_NoDup; [apply Permutation_sym, regrouping_conserves_fragments|exact H].
Qed.

(* two-level stages (paragraphs of lines, sections of lines) *)
Theorem two_level_regrouping_conserves_fragments : forall key1 key2 pos k1 k2 frags,
  (forall x, In x frags -> key1 x < k1 /\ key2 x < k2) ->
  Permutation (concat (map (@concat nat) (regroup2 key1 key2 pos k1 k2 frags))) frags.
Proof.
  intros key1 key2 pos k1 k2 frags H. unfold regroup2. rewrite map_map.
  eapply perm_trans.
  - apply concat_map_perm. intros j.
    apply (proj2 (nothing_dropped_when_every_fragment_has_a_group key2 pos k2 _
                    (fun x Hx => proj2 (H x (proj1 (proj1 (filter_In _ _ _) Hx)))))).
  - pose proof (nothing_dropped_when_every_fragment_has_a_group key1 (fun _ => 0) k1 frags (fun x Hx => proj1 (H x Hx))) as [_ P].
    unfold regroup in P. eapply perm_trans; [|exact P].
    apply concat_map_perm. intros j. apply Permutation_sym, sort_by_perm.
Qed.

(* ---------- text assembly ---------- *)

Lemma nonws_app : forall a b, nonws (a ++ b) = nonws a ++ nonws b.
Proof. intros a b. unfold nonws. apply filter_app. Qed.

(* joining the texts of a group with whitespace separators keeps exactly the
   non-whitespace characters of the fragments, in the group's order *)
Theorem assembling_text_keeps_the_characters : forall text sep l,
  (forall x, nonws (sep x) = []) ->
  nonws (assemble text sep l) = concat (map (fun x => nonws (text x)) l).
Proof.
  intros text sep l Hs. induction l as [|x r IH]; [reflexivity|].
  cbn [assemble map concat]. rewrite !nonws_app, Hs, IH. reflexivity.
Qed.

(* and a regrouped page renders, as a multiset of characters, the input *)
Theorem rendered_text_is_the_input_as_a_multiset : forall key pos k frags text sep,
  (forall x, In x frags -> key x < k) -> (forall x, nonws (sep x) = []) ->
  Permutation (concat (map (fun g => nonws (assemble text sep g)) (regroup key pos k frags)))
              (concat (map (fun x => nonws (text x)) frags)).
Proof.
  intros key pos k frags text sep Hk Hs.
  rewrite (map_ext _ (fun g => concat (map (fun x => nonws (text x)) g)))
    by (intros g; apply assembling_text_keeps_the_characters, Hs).
  assert (E : forall gs : list (list nat),
             concat (map (fun g => concat (map (fun x => nonws (text x)) g)) gs)
             = flat_map (fun x => nonws (text x)) (concat gs)).
  { induction gs as [|g r IH]; [reflexivity|]. cbn [map concat]. rewrite IH, flat_map_app, !flat_map_concat_map. reflexivity. }
  rewrite E, <- flat_map_concat_map.
  apply Permutation_flat_map.
  exact (proj2 (nothing_dropped_when_every_fragment_has_a_group key pos k frags Hk)).
Qed.
