(* C10: page selection is a set operation; text is a join; handles are released. *)
From Tabula Require Import base.Val base.ListX model.C10_Pages.
From Coq Require Import Lia Sorted.
Open Scope Z_scope.

(* ---------- sorting and de-duplication *)
Lemma insert_z_in x y l : In y (insert_z x l) <-> y = x \/ In y l.
Proof.
  induction l as [|z l IH]; cbn [insert_z]; [cbn; intuition|].
  destruct (x <=? z); cbn; [intuition|]. rewrite IH. intuition.
Qed.

Lemma sort_ints_in y l : In y (sort_ints l) <-> In y l.
Proof.
  induction l as [|x l IH]; cbn [sort_ints fold_right]; [reflexivity|].
  fold (sort_ints l). rewrite insert_z_in, IH. cbn. intuition.
Qed.

Lemma insert_z_sorted x l : StronglySorted Z.le l -> StronglySorted Z.le (insert_z x l).
Proof.
  induction 1 as [|z l Hs IH Hf]; cbn [insert_z]; [repeat constructor|].
  destruct (x <=? z) eqn:E.
  - constructor; [constructor; assumption|]. constructor; [lia|].
    eapply Forall_impl; [|exact Hf]. intros; lia.
  - constructor; [exact IH|]. apply Forall_forall. intros y Hy. apply insert_z_in in Hy as [->|Hy]; [lia|].
    rewrite Forall_forall in Hf. apply Hf. exact Hy.
Qed.

Lemma sort_ints_sorted l : StronglySorted Z.le (sort_ints l).
Proof. induction l as [|x l IH]; cbn [sort_ints fold_right]; [constructor|]. apply insert_z_sorted. exact IH. Qed.

Lemma insert_z_nodup x l : ~ In x l -> NoDup l -> NoDup (insert_z x l).
Proof.
  induction l as [|z l IH]; intros Hn Hd; cbn [insert_z]; [repeat constructor; auto|].
  destruct (x <=? z); [constructor; assumption|].
  inversion Hd; subst. constructor.
  - rewrite insert_z_in. intros [->|H]; [apply Hn; left; reflexivity|contradiction].
  - apply IH; [intro H; apply Hn; right; exact H|assumption].
Qed.

Lemma sort_ints_nodup l : NoDup l -> NoDup (sort_ints l).
Proof.
  induction 1 as [|x l Hn Hd IH]; cbn [sort_ints fold_right]; [constructor|].
  apply insert_z_nodup; [rewrite sort_ints_in; exact Hn|exact IH].
Qed.

Lemma dedup_first_in l : forall seen y, In y (dedup_first l seen) <-> In y l /\ ~ In y seen.
Proof.
  induction l as [|x l IH]; intros seen y; cbn [dedup_first]; [cbn; intuition|].
  destruct (existsb (Z.eqb x) seen) eqn:E.
  - rewrite IH. apply existsb_exists in E as [z [Hz Ez]]. apply Z.eqb_eq in Ez. subst z.
    cbn. split; [intuition|]. intros [[->|H] Hn]; [contradiction|auto].
  - cbn. rewrite IH. cbn.
    assert (~ In x seen) as Hx.
    { intro H. assert (existsb (Z.eqb x) seen = true) by (apply existsb_exists; exists x; split; [exact H|apply Z.eqb_refl]). congruence. }
    split.
    + intros [->|[H1 H2]]; [auto|]. split; [right; exact H1|intro H; apply H2; right; exact H].
    + intros [[->|H1] H2]; [left; reflexivity|].
      destruct (Z.eq_dec x y) as [->|Hne]; [left; reflexivity|]. right. split; [exact H1|].
      intros [H|H]; [congruence|contradiction].
Qed.

Lemma dedup_first_nodup l : forall seen, NoDup (dedup_first l seen).
Proof.
  induction l as [|x l IH]; intro seen; cbn [dedup_first]; [constructor|].
  destruct (existsb (Z.eqb x) seen); [apply IH|]. constructor; [|apply IH].
  rewrite dedup_first_in. intros [_ H]. apply H. left. reflexivity.
Qed.

(* strictly increasing lists are determined by their elements *)
Definition strictly_sorted (l : list Z) : Prop := StronglySorted Z.le l /\ NoDup l.

Lemma sorted_unique l1 : forall l2, strictly_sorted l1 -> strictly_sorted l2 ->
  (forall x, In x l1 <-> In x l2) -> l1 = l2.
Proof.
  induction l1 as [|a l1 IH]; intros l2 [S1 N1] [S2 N2] H.
  - destruct l2 as [|b l2]; [reflexivity|]. exfalso. apply (proj2 (H b)). left. reflexivity.
  - destruct l2 as [|b l2]; [exfalso; apply (proj1 (H a)); left; reflexivity|].
    inversion S1 as [|? ? S1' F1]; inversion S2 as [|? ? S2' F2]; inversion N1; inversion N2; subst.
    rewrite Forall_forall in F1, F2.
    assert (a = b) as ->.
    { destruct (proj1 (H a) (or_introl eq_refl)) as [E|Ha]; [congruence|].
      destruct (proj2 (H b) (or_introl eq_refl)) as [E|Hb]; [congruence|].
      specialize (F1 b Hb). specialize (F2 a Ha). lia. }
    f_equal. apply IH; [split; assumption|split; assumption|].
    intro x. split; intro Hx.
    + destruct (proj1 (H x) (or_intror Hx)) as [E|Hx']; [subst; contradiction|exact Hx'].
    + destruct (proj2 (H x) (or_intror Hx)) as [E|Hx']; [subst; contradiction|exact Hx'].
Qed.

(* ---------- resolvePages *)
Lemma first_bad_false sel n : first_bad sel n = false <-> Forall (fun p => 1 <= p <= n) sel.
Proof.
  induction sel as [|p sel IH]; cbn [first_bad]; [split; [constructor|reflexivity]|].
  destruct ((p <? 1) || (n <? p)) eqn:E.
  - split; [discriminate|]. intro H. inversion H; subst. lia.
  - rewrite IH. split; [intro H; constructor; [lia|exact H]|intro H; inversion H; assumption].
Qed.

(* a non-empty in-range selection resolves to the strictly increasing list of
   its (0-based) page indices: order, duplicates and spelling are irrelevant *)
Theorem resolve_is_sorted_set sel n : sel <> [] -> Forall (fun p => 1 <= p <= n) sel ->
  exists l, resolve sel n = Ok l /\ strictly_sorted l /\ forall x, In x l <-> In (x + 1) sel.
Proof.
  intros Hne Hr. unfold resolve. destruct sel as [|p0 sel0]; [contradiction|].
  set (sel := p0 :: sel0) in *. rewrite (proj2 (first_bad_false sel n) Hr).
  eexists. split; [reflexivity|]. split.
  - split; [apply sort_ints_sorted|apply sort_ints_nodup, dedup_first_nodup].
  - intro x. rewrite sort_ints_in, dedup_first_in, in_map_iff. split.
    + intros [[p [E Hp]] _]. cbn beta in E. replace (x + 1) with p by lia. exact Hp.
    + intro H. split; [exists (x + 1); split; [lia|exact H]|intros []].
Qed.

Theorem resolve_out_of_range sel n : (exists p, In p sel /\ (p < 1 \/ n < p)) -> resolve sel n = Err.
Proof.
  intros [p [Hin Hb]]. unfold resolve. destruct sel as [|p0 sel0]; [contradiction|].
  set (sel := p0 :: sel0) in *. destruct (first_bad sel n) eqn:E; [reflexivity|].
  apply first_bad_false in E. rewrite Forall_forall in E. specialize (E p Hin). lia.
Qed.

Theorem resolve_spelling sel sel' n : sel <> [] -> sel' <> [] ->
  Forall (fun p => 1 <= p <= n) sel -> Forall (fun p => 1 <= p <= n) sel' ->
  (forall p, In p sel <-> In p sel') -> resolve sel n = resolve sel' n.
Proof.
  intros N1 N2 R1 R2 H.
  destruct (resolve_is_sorted_set sel n N1 R1) as [l1 [E1 [S1 M1]]].
  destruct (resolve_is_sorted_set sel' n N2 R2) as [l2 [E2 [S2 M2]]].
  rewrite E1, E2. f_equal. apply sorted_unique; [exact S1|exact S2|].
  intro x. rewrite M1, M2. apply H.
Qed.

Lemma range_from_in s k x : In x (range_from s k) <-> s <= x < s + Z.of_nat k.
Proof.
  revert s. induction k as [|k IH]; intro s; cbn [range_from]; [cbn; lia|].
  cbn. rewrite IH. lia.
Qed.

Theorem empty_selection_is_all_pages n : 0 <= n ->
  exists l, resolve [] n = Ok l /\ forall x, In x l <-> 0 <= x < n.
Proof. intro H. eexists. split; [reflexivity|]. intro x. rewrite range_from_in. lia. Qed.

(* builders: chained calls accumulate; a range is its enumeration; a reversed range adds nothing *)
Theorem pages_chain sel a b : add_pages (add_pages sel a) b = add_pages sel (a ++ b).
Proof. unfold add_pages. apply eq_sym, app_assoc. Qed.

Theorem range_members sel s e p : In p (add_range sel s e) <-> In p sel \/ s <= p <= e.
Proof. unfold add_range. rewrite in_app_iff, range_from_in. split; (intros [H|H]; [left; exact H|right; lia]). Qed.

Theorem reversed_range_adds_nothing sel s e : e < s -> add_range sel s e = sel.
Proof. intro H. unfold add_range. replace (Z.to_nat (e - s + 1)) with O by lia. apply app_nil_r. Qed.

(* ---------- text is the join of the page texts *)
Definition nonempty_texts (l : list bytes) : list bytes := filter (fun t => match t with [] => false | _ => true end) l.

Definition jstep (acc t : bytes) : bytes :=
  match acc, t with [], _ => t | _, [] => acc | _, _ => acc ++ sep ++ t end.

Lemma fold_jstep_nonempty texts : forall acc, acc <> [] ->
  fold_left jstep texts acc = acc ++ concat (map (fun t => sep ++ t) (nonempty_texts texts)).
Proof.
  induction texts as [|t texts IH]; intros acc Hne; cbn [fold_left nonempty_texts filter map concat].
  - rewrite app_nil_r. reflexivity.
  - destruct t as [|c t].
    + replace (jstep acc []) with acc by (destruct acc; [contradiction|reflexivity]). apply IH. exact Hne.
    + replace (jstep acc (c :: t)) with (acc ++ sep ++ c :: t) by (destruct acc; [contradiction|reflexivity]).
      rewrite IH by (destruct acc; discriminate). cbn [map concat]. rewrite <- !app_assoc. reflexivity.
Qed.

(* the text of a selection: the non-empty page texts separated by one blank line *)
Theorem join_pages_char texts :
  join_pages texts = match nonempty_texts texts with
                     | [] => []
                     | t :: r => t ++ concat (map (fun t => sep ++ t) r)
                     end.
Proof.
  unfold join_pages. change (fun acc t => match acc, t with [], _ => t | _, [] => acc | _, _ => acc ++ sep ++ t end) with jstep.
  induction texts as [|t texts IH]; [reflexivity|]. cbn [fold_left nonempty_texts filter].
  destruct t as [|c t].
  - exact IH.
  - change (jstep [] (c :: t)) with (c :: t). rewrite fold_jstep_nonempty by discriminate. reflexivity.
Qed.

Lemma nonempty_texts_app a b : nonempty_texts (a ++ b) = nonempty_texts a ++ nonempty_texts b.
Proof. apply filter_app. Qed.

Lemma nonempty_texts_idem l : nonempty_texts (nonempty_texts l) = nonempty_texts l.
Proof.
  induction l as [|t l IH]; [reflexivity|]. cbn [nonempty_texts filter]. destruct t; [exact IH|].
  cbn [filter]. f_equal. exact IH.
Qed.

Theorem join_pages_ignores_empty texts : join_pages texts = join_pages (nonempty_texts texts).
Proof. rewrite !join_pages_char, nonempty_texts_idem. reflexivity. Qed.

Theorem join_pages_app a b :
  join_pages (a ++ b) =
  match join_pages a, join_pages b with
  | [], j => j
  | j, [] => j
  | ja, jb => ja ++ sep ++ jb
  end.
Proof.
  rewrite !join_pages_char, nonempty_texts_app.
  assert (forall l, (forall t, In t l -> t <> []) -> match l with [] => @nil N | t :: r => t ++ concat (map (fun t => sep ++ t) r) end = [] -> l = []) as Z.
  { intros l Hl. destruct l as [|t r]; [reflexivity|]. intro E. exfalso. apply (Hl t (or_introl eq_refl)).
    destruct t; [reflexivity|discriminate]. }
  assert (forall l t, In t (nonempty_texts l) -> t <> []) as NE.
  { intros l t Hin. apply filter_In in Hin as [_ H]. destruct t; [discriminate|discriminate]. }
  destruct (nonempty_texts a) as [|ta ra] eqn:Ea; destruct (nonempty_texts b) as [|tb rb] eqn:Eb; cbn [app].
  - reflexivity.
  - reflexivity.
  - rewrite app_nil_r. destruct (ta ++ concat (map (fun t => sep ++ t) ra)); reflexivity.
  - assert (ta <> []) as Hta by (apply (NE a); rewrite Ea; left; reflexivity).
    assert (tb <> []) as Htb by (apply (NE b); rewrite Eb; left; reflexivity).
    rewrite map_app, concat_app. cbn [map concat]. rewrite <- !app_assoc.
    destruct ta as [|x ta]; [contradiction|]. destruct tb as [|y tb]; [contradiction|]. cbn [app]. rewrite <- ?app_assoc. reflexivity.
Qed.

(* ---------- life cycle *)
(* every open handle is held by exactly one extractor, and nothing else is open *)
Definition holds (w : world) (i h : nat) : Prop := nth_error (exts w) i = Some (Some h).

Definition Inv (w : world) : Prop :=
  (forall h, In h (opened w) <-> exists i, holds w i h) /\
  (forall i j h, holds w i h -> holds w j h -> i = j) /\
  (forall i h, holds w i h -> (h < next w)%nat).

Lemma inv_w0 : Inv w0.
Proof.
  unfold Inv, holds, w0. cbn [exts opened next]. repeat split.
  - intros [].
  - intros [i H]. destruct i as [|[|i]]; cbn in H; discriminate.
  - intros i j h H. destruct i as [|[|i]]; cbn in H; discriminate.
  - intros i h H. destruct i as [|[|i]]; cbn in H; discriminate.
Qed.

Lemma nth_error_upd_cases {A} (l : list A) i j (v : A) :
  nth_error (upd_nth i (fun _ => v) l) j =
  if Nat.eqb i j then (match nth_error l j with Some _ => Some v | None => None end) else nth_error l j.
Proof.
  destruct (Nat.eqb_spec i j) as [->|Hne].
  - destruct (nth_error l j) eqn:E.
    + erewrite nth_error_upd_same; [reflexivity|exact E].
    + rewrite nth_error_upd_none by exact E. exact E.
  - apply nth_error_upd_other. exact Hne.
Qed.

Lemma inv_ensure w i ok : Inv w -> Inv (ensure w i ok).
Proof.
  intros HI. pose proof HI as (I1 & I2 & I3). unfold ensure. destruct (nth_error (exts w) i) as [[h0|]|] eqn:E; try exact HI.
  destruct ok; [|exact HI].
  unfold Inv, holds. cbn [exts opened next]. unfold set_ext.
  assert (forall j h, nth_error (upd_nth i (fun _ => Some (next w)) (exts w)) j = Some (Some h) <->
                      (j = i /\ h = next w) \/ (j <> i /\ holds w j h)) as C.
  { intros j h. rewrite nth_error_upd_cases. destruct (Nat.eqb_spec i j) as [->|Hne].
    - rewrite E. split; [intro H; inversion H; left; auto|intros [[_ ->]|[H _]]; [reflexivity|contradiction]].
    - unfold holds. split; [intro H; right; split; [congruence|exact H]|intros [[-> _]|[_ H]]; [contradiction|exact H]]. }
  repeat split.
  - intros [<-|H]; [exists i; apply C; left; auto|]. apply I1 in H as [j Hj]. exists j. apply C. right. split; [|exact Hj].
    intro Ej. subst j. unfold holds in Hj. congruence.
  - intros [j Hj]. apply C in Hj as [[_ ->]|[_ Hj]]; [left; reflexivity|right; apply I1; exists j; exact Hj].
  - intros a b h Ha Hb. apply C in Ha. apply C in Hb.
    destruct Ha as [[-> ->]|[Na Ha]]; destruct Hb as [[-> Eh]|[Nb Hb]]; try reflexivity.
    + apply I3 in Hb. lia.
    + subst h. apply I3 in Ha. lia.
    + eapply I2; eassumption.
  - intros j h Hj. apply C in Hj as [[_ ->]|[_ Hj]]; [lia|]. apply I3 in Hj. lia.
Qed.

Lemma remove_h_in h x l : In x (remove_h h l) <-> In x l /\ x <> h.
Proof.
  unfold remove_h. rewrite filter_In. split; intros [H1 H2]; (split; [exact H1|]).
  - apply negb_true_iff, Nat.eqb_neq in H2. exact H2.
  - apply negb_true_iff, Nat.eqb_neq. exact H2.
Qed.

Lemma inv_close w i : Inv w -> Inv (close w i).
Proof.
  intros HI. pose proof HI as (I1 & I2 & I3). unfold close. destruct (nth_error (exts w) i) as [[h0|]|] eqn:E; try exact HI.
  unfold Inv, holds. cbn [exts opened next]. unfold set_ext.
  assert (forall j h, nth_error (upd_nth i (fun _ => None) (exts w)) j = Some (Some h) <-> (j <> i /\ holds w j h)) as C.
  { intros j h. rewrite nth_error_upd_cases. destruct (Nat.eqb_spec i j) as [->|Hne].
    - rewrite E. split; [discriminate|intros [H _]; contradiction].
    - unfold holds. split; [intro H; split; [congruence|exact H]|intros [_ H]; exact H]. }
  repeat split.
  - intro H. apply remove_h_in in H as [H Hne]. apply I1 in H as [j Hj]. exists j. apply C. split; [|exact Hj].
    intro Ej. subst j. unfold holds in Hj. congruence.
  - intros [j Hj]. apply C in Hj as [Nj Hj]. apply remove_h_in. split; [apply I1; exists j; exact Hj|].
    intro Eh. subst h. apply Nj. eapply I2; [exact Hj|exact E].
  - intros a b h Ha Hb. apply C in Ha as [_ Ha]. apply C in Hb as [_ Hb]. eapply I2; eassumption.
  - intros j h Hj. apply C in Hj as [_ Hj]. eapply I3. exact Hj.
Qed.

Lemma inv_step w o : Inv w -> Inv (lstep w o).
Proof.
  intro H. destruct o as [i|i ok|i ok|i]; cbn [lstep].
  - destruct (nth_error (exts w) i) eqn:E; [|exact H]. destruct H as (I1 & I2 & I3).
    unfold Inv, holds. cbn [exts opened next].
    assert (forall j h, nth_error (exts w ++ [None]) j = Some (Some h) <-> holds w j h) as C.
    { intros j h. unfold holds. destruct (Nat.lt_ge_cases j (length (exts w))) as [Hl|Hl].
      - rewrite nth_error_app1 by exact Hl. reflexivity.
      - rewrite nth_error_app2 by exact Hl. rewrite (proj2 (nth_error_None (exts w) j) Hl).
        destruct (j - length (exts w))%nat as [|[|k]]; cbn; split; discriminate. }
    repeat split.
    + intro Hh. apply I1 in Hh as [j Hj]. exists j. apply C. exact Hj.
    + intros [j Hj]. apply C in Hj. apply I1. exists j. exact Hj.
    + intros a b h Ha Hb. apply C in Ha. apply C in Hb. eapply I2; eassumption.
    + intros j h Hj. apply C in Hj. eapply I3. exact Hj.
  - apply inv_ensure. exact H.
  - apply inv_close, inv_ensure. exact H.
  - apply inv_close. exact H.
Qed.

Theorem inv_run ops : Inv (lrun ops).
Proof.
  unfold lrun. assert (forall w, Inv w -> Inv (fold_left lstep ops w)) as G.
  { induction ops as [|o ops IH]; intros w H; [exact H|]. cbn [fold_left]. apply IH, inv_step, H. }
  apply G, inv_w0.
Qed.

(* no handle remains open once every extractor's last operation was terminal or
   Close, whatever the history of builders, non-terminal and failed operations *)
Theorem no_leak ops : (forall i h, ~ holds (lrun ops) i h) -> opened (lrun ops) = [].
Proof.
  intro H. destruct (inv_run ops) as (I1 & _ & _). destruct (opened (lrun ops)) as [|h l] eqn:E; [reflexivity|].
  exfalso. destruct (proj1 (I1 h)) as [i Hi]; [left; reflexivity|]. exact (H i h Hi).
Qed.

(* after Close, and after any terminal operation - successful or failed -, the
   extractor holds no handle; closing again changes nothing *)
Lemma close_releases w i : nth_error (exts w) i <> None -> nth_error (exts (close w i)) i = Some None.
Proof.
  intro H. unfold close. destruct (nth_error (exts w) i) as [[h|]|] eqn:E; [| |contradiction].
  - cbn [exts]. unfold set_ext. erewrite nth_error_upd_same; [reflexivity|exact E].
  - exact E.
Qed.

Theorem close_idempotent w i : close (close w i) i = close w i.
Proof.
  destruct (nth_error (exts w) i) as [e|] eqn:E.
  - assert (nth_error (exts (close w i)) i = Some None) as C by (apply close_releases; congruence).
    unfold close at 1. rewrite C. reflexivity.
  - assert (close w i = w) as -> by (unfold close; rewrite E; reflexivity).
    unfold close. rewrite E. reflexivity.
Qed.

Lemma ensure_keeps_slot w i ok : nth_error (exts w) i <> None -> nth_error (exts (ensure w i ok)) i <> None.
Proof.
  intro H. unfold ensure. destruct (nth_error (exts w) i) as [[h|]|] eqn:E; try (rewrite E; discriminate); try contradiction.
  destruct ok; cbn [exts]; [|rewrite E; discriminate]. unfold set_ext. erewrite nth_error_upd_same by exact E. discriminate.
Qed.

Theorem terminal_releases w i ok : nth_error (exts w) i <> None ->
  nth_error (exts (lstep w (LTerminal i ok))) i = Some None.
Proof. intro H. cbn [lstep]. apply close_releases. apply ensure_keeps_slot. exact H. Qed.

(* operations on one extractor never change what another one holds:
   deriving, and using the derived extractor, leaves the original untouched *)
Theorem frame w o j : (match o with LDerive _ => True | LNonTerminal i _ | LTerminal i _ | LClose i => i <> j end) ->
  (j < length (exts w))%nat -> nth_error (exts (lstep w o)) j = nth_error (exts w) j.
Proof.
  intros Hi Hj. destruct o as [i|i ok|i ok|i]; cbn [lstep].
  - destruct (nth_error (exts w) i); [|reflexivity]. cbn [exts]. apply nth_error_app1. exact Hj.
  - unfold ensure. destruct (nth_error (exts w) i) as [[h|]|]; try reflexivity.
    destruct ok; [|reflexivity]. cbn [exts]. unfold set_ext. apply nth_error_upd_other. exact Hi.
  - assert (nth_error (exts (ensure w i ok)) j = nth_error (exts w) j) as E.
    { unfold ensure. destruct (nth_error (exts w) i) as [[h|]|]; try reflexivity.
      destruct ok; [|reflexivity]. cbn [exts]. unfold set_ext. apply nth_error_upd_other. exact Hi. }
    unfold close. destruct (nth_error (exts (ensure w i ok)) i) as [[h|]|]; try exact E.
    cbn [exts]. unfold set_ext. rewrite nth_error_upd_other by exact Hi. exact E.
  - unfold close. destruct (nth_error (exts w) i) as [[h|]|]; try reflexivity.
    cbn [exts]. unfold set_ext. apply nth_error_upd_other. exact Hi.
Qed.

(* the derived extractor starts with no handle of its own *)
Theorem derive_holds_nothing w i : nth_error (exts w) i <> None ->
  nth_error (exts (lstep w (LDerive i))) (length (exts w)) = Some None.
Proof.
  intro H. cbn [lstep]. destruct (nth_error (exts w) i); [|contradiction]. cbn [exts].
  rewrite nth_error_app2 by lia. rewrite Nat.sub_diag. reflexivity.
Qed.
