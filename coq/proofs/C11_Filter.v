(* C11: exclusion only deletes, only marginal repeated text; body and
   non-repeating documents are untouched. *)
From Tabula Require Import base.Val model.C13_Split model.C11_HeaderFooter.
From Coq Require Import Lia Permutation.
Open Scope Z_scope.

Inductive sublist {A} : list A -> list A -> Prop :=
| SL_nil : sublist [] []
| SL_skip x l1 l2 : sublist l1 l2 -> sublist l1 (x :: l2)
| SL_keep x l1 l2 : sublist l1 l2 -> sublist (x :: l1) (x :: l2).

Lemma filter_sublist {A} (p : A -> bool) l : sublist (filter p l) l.
Proof. induction l as [|x l IH]; cbn; [constructor|]. destruct (p x); constructor; exact IH. Qed.

(* the result is the input minus some fragments, in the same order *)
Theorem filter_is_sublist r pidx fs h : sublist (filter_fragments r pidx fs h) fs.
Proof.
  unfold filter_fragments. destruct fs as [|f fs]; [constructor|].
  destruct (bounds (f :: fs)) as [mn mx]. apply filter_sublist.
Qed.

(* the decision taken for one fragment, with the geometry FilterFragments computes *)
Definition removed (r : result) (pidx : Z) (fs : list frag) (pheight : Z) (f : frag) : bool :=
  let cl := char_level fs in
  let '(minY, maxY) := bounds fs in
  let ch0 := maxY - minY in
  let ch := if ch0 <=? 0 then pheight else ch0 in
  let inverted := pheight <? maxY in
  let sn := if pheight <? ch then ch else 1 in
  let sd := if pheight <? ch then pheight else 1 in
  in_header_footer r pidx f minY maxY sn sd inverted cl.

Lemma filter_fragments_spec r pidx fs h : fs <> [] ->
  filter_fragments r pidx fs h = filter (fun f => negb (removed r pidx fs h f)) fs.
Proof.
  intro Hne. unfold filter_fragments, removed. destruct fs as [|f0 fs]; [contradiction|].
  destruct (bounds (f0 :: fs)) as [mn mx]. reflexivity.
Qed.

(* top / bottom band of the page content, as FilterFragments measures it *)
Definition in_top_band (fs : list frag) (pheight : Z) (f : frag) : bool :=
  let '(minY, maxY) := bounds fs in
  let ch0 := maxY - minY in
  let ch := if ch0 <=? 0 then pheight else ch0 in
  let sn := if pheight <? ch then ch else 1 in
  let sd := if pheight <? ch then pheight else 1 in
  lt_scaled (if pheight <? maxY then fy f - minY else maxY - (fy f + fh f)) hf_HeaderRegionHeight sn sd.
Definition in_bottom_band (fs : list frag) (pheight : Z) (f : frag) : bool :=
  let '(minY, maxY) := bounds fs in
  let ch0 := maxY - minY in
  let ch := if ch0 <=? 0 then pheight else ch0 in
  let sn := if pheight <? ch then ch else 1 in
  let sd := if pheight <? ch then pheight else 1 in
  lt_scaled (if pheight <? maxY then maxY - (fy f + fh f) else fy f - minY) hf_FooterRegionHeight sn sd.

(* a fragment is deleted only if it lies in a margin band of its page and a
   detected region of that page matches its text (or the page is character-level) *)
Theorem deleted_only_marginal_matching r pidx fs h f : removed r pidx fs h f = true ->
  (in_top_band fs h f = true /\
     exists g, In g (res_headers r) /\ In pidx (r_pages g) /\
               (char_level fs = true \/ texts_match (ftext f) (r_text g) (r_ispn g) = true)) \/
  (in_bottom_band fs h f = true /\
     exists g, In g (res_footers r) /\ In pidx (r_pages g) /\
               (char_level fs = true \/ texts_match (ftext f) (r_text g) (r_ispn g) = true)).
Proof.
  unfold removed, in_top_band, in_bottom_band. destruct (bounds fs) as [mn mx]. cbv zeta.
  unfold in_header_footer. intro H. apply orb_true_iff in H as [H|H]; [left|right];
    apply existsb_exists in H as [g [Hg Hc]];
    apply andb_true_iff in Hc as [Hc Hm]; apply andb_true_iff in Hc as [Hp Hb];
    (split; [exact Hb|]); exists g; (split; [exact Hg|]);
    (split; [apply existsb_exists in Hp as [x [Hx Ex]]; apply Z.eqb_eq in Ex; subst; exact Hx|]);
    apply orb_true_iff in Hm; exact Hm.
Qed.

(* text in the body band is never deleted *)
Theorem body_untouched r pidx fs h f :
  in_top_band fs h f = false -> in_bottom_band fs h f = false -> removed r pidx fs h f = false.
Proof.
  unfold removed, in_top_band, in_bottom_band. destruct (bounds fs) as [mn mx]. cbv zeta.
  intros Ht Hb. unfold in_header_footer. apply orb_false_iff. split.
  - apply not_true_is_false. intro H. apply existsb_exists in H as [g [_ Hc]].
    apply andb_true_iff in Hc as [Hc _]. apply andb_true_iff in Hc as [_ Hc]. congruence.
  - apply not_true_is_false. intro H. apply existsb_exists in H as [g [_ Hc]].
    apply andb_true_iff in Hc as [Hc _]. apply andb_true_iff in Hc as [_ Hc]. congruence.
Qed.

Corollary body_kept r pidx fs h f : In f fs ->
  in_top_band fs h f = false -> in_bottom_band fs h f = false -> In f (filter_fragments r pidx fs h).
Proof.
  intros Hin Ht Hb. rewrite filter_fragments_spec by (intro E; subst; contradiction).
  apply filter_In. split; [exact Hin|]. rewrite (body_untouched r pidx fs h f Ht Hb). reflexivity.
Qed.

(* without regions nothing is deleted *)
Theorem no_regions_identity pidx fs h : filter_fragments {| res_headers := []; res_footers := [] |} pidx fs h = fs.
Proof.
  unfold filter_fragments. destruct fs as [|f fs]; [reflexivity|]. destruct (bounds (f :: fs)) as [mn mx].
  unfold in_header_footer. cbn [existsb res_headers res_footers orb negb].
  induction (f :: fs) as [|x l IH]; cbn; [reflexivity|]. f_equal. exact IH.
Qed.

(* one-page documents are never changed *)
Theorem single_page_identity pages pidx fs h : (length pages < 2)%nat ->
  filter_fragments (detect pages) pidx fs h = fs.
Proof.
  intro H. unfold detect.
  replace (Z.of_nat (length pages) <? fst hf_MinPages / snd hf_MinPages) with true
    by (symmetry; apply Z.ltb_lt; change (fst hf_MinPages / snd hf_MinPages) with 2; lia).
  apply no_regions_identity.
Qed.

(* every detected region repeats: it occurs on at least two pages, at a
   consistent position, and is longer than two bytes unless a page-number pattern *)
Lemma min_occurrences_ge n : 2 <= min_occurrences n.
Proof. unfold min_occurrences. destruct (_ <? 2) eqn:E; lia. Qed.

Theorem region_repeats rt pages g : In g (regions_of rt pages) ->
  2 <= Z.of_nat (length (r_pages g)) /\
  exists k cs, In (k, cs) (group_candidates (flat_map (page_candidates rt) pages)) /\
               r_pages g = page_set cs /\ consistent_position cs = true /\
               (2 < Z.of_nat (length k) \/ is_page_number_pattern k = true).
Proof.
  unfold regions_of. intro H. apply in_flat_map in H as [[k cs] [Hin Hg]].
  destruct ((Z.of_nat (length k) <=? 2) && negb (is_page_number_pattern k)) eqn:E1; [contradiction|].
  destruct (Z.of_nat (length (page_set cs)) <? min_occurrences (length pages)) eqn:E2; [contradiction|].
  destruct (negb (consistent_position cs)) eqn:E3; [contradiction|].
  destruct Hg as [<-|[]]. cbn [r_pages].
  pose proof (min_occurrences_ge (length pages)). split; [lia|].
  exists k, cs. split; [exact Hin|]. split; [reflexivity|].
  split; [apply negb_false_iff in E3; exact E3|].
  apply andb_false_iff in E1 as [E1|E1]; [left; lia|right; apply negb_false_iff in E1; exact E1].
Qed.

(* documents without repetition: every candidate text occurs on fewer than two
   pages -> nothing is detected, nothing is deleted *)
Theorem no_repetition_no_regions rt pages :
  (forall k cs, In (k, cs) (group_candidates (flat_map (page_candidates rt) pages)) ->
                Z.of_nat (length (page_set cs)) < 2) ->
  regions_of rt pages = [].
Proof.
  intro H. unfold regions_of.
  induction (group_candidates (flat_map (page_candidates rt) pages)) as [|[k cs] l IH]; [reflexivity|].
  cbn [flat_map]. rewrite IH by (intros k' cs' Hin; apply (H k' cs'); right; exact Hin).
  specialize (H k cs (or_introl eq_refl)). pose proof (min_occurrences_ge (length pages)).
  destruct (_ && _); [reflexivity|].
  replace (Z.of_nat (length (page_set cs)) <? min_occurrences (length pages)) with true by lia. reflexivity.
Qed.

Corollary no_repetition_identity pages pidx fs h :
  (forall rt k cs, In (k, cs) (group_candidates (flat_map (page_candidates rt) pages)) ->
                   Z.of_nat (length (page_set cs)) < 2) ->
  filter_fragments (detect pages) pidx fs h = fs.
Proof.
  intro H. unfold detect. destruct (_ <? _); [apply no_regions_identity|].
  rewrite (no_repetition_no_regions Header pages) by (intros k cs Hin; apply (H Header k cs); exact Hin).
  rewrite (no_repetition_no_regions Footer pages) by (intros k cs Hin; apply (H Footer k cs); exact Hin).
  apply no_regions_identity.
Qed.

(* completeness of detection: a group that passes the three tests yields a region *)
Theorem group_yields_region rt pages k cs :
  In (k, cs) (group_candidates (flat_map (page_candidates rt) pages)) ->
  (2 < Z.of_nat (length k) \/ is_page_number_pattern k = true) ->
  min_occurrences (length pages) <= Z.of_nat (length (page_set cs)) ->
  consistent_position cs = true ->
  exists g, In g (regions_of rt pages) /\ r_pages g = page_set cs /\ r_type g = rt /\
            r_ispn g = (is_page_number_pattern k || contains_page_number_pattern cs).
Proof.
  intros Hin Hk Hm Hc. unfold regions_of. eexists. split.
  - apply in_flat_map. exists (k, cs). split; [exact Hin|].
    replace ((Z.of_nat (length k) <=? 2) && negb (is_page_number_pattern k)) with false
      by (symmetry; destruct Hk as [Hk|Hk]; [apply andb_false_iff; left; lia|rewrite Hk; apply andb_false_r]).
    replace (Z.of_nat (length (page_set cs)) <? min_occurrences (length pages)) with false by lia.
    rewrite Hc. cbn [negb]. left. reflexivity.
  - cbn. repeat split; reflexivity.
Qed.

(* ... and a region of a page removes every matching fragment in the band *)
Theorem region_removes_header r pidx fs h f g :
  In g (res_headers r) -> In pidx (r_pages g) -> in_top_band fs h f = true ->
  (char_level fs = true \/ texts_match (ftext f) (r_text g) (r_ispn g) = true) ->
  removed r pidx fs h f = true.
Proof.
  unfold removed, in_top_band. destruct (bounds fs) as [mn mx]. cbv zeta. intros Hg Hp Hb Hm.
  unfold in_header_footer. apply orb_true_iff. left. apply existsb_exists. exists g. split; [exact Hg|].
  rewrite Hb. replace (existsb (Z.eqb pidx) (r_pages g)) with true
    by (symmetry; apply existsb_exists; exists pidx; split; [exact Hp|apply Z.eqb_refl]).
  cbn [andb]. apply orb_true_iff. exact Hm.
Qed.

Theorem region_removes_footer r pidx fs h f g :
  In g (res_footers r) -> In pidx (r_pages g) -> in_bottom_band fs h f = true ->
  (char_level fs = true \/ texts_match (ftext f) (r_text g) (r_ispn g) = true) ->
  removed r pidx fs h f = true.
Proof.
  unfold removed, in_bottom_band. destruct (bounds fs) as [mn mx]. cbv zeta. intros Hg Hp Hb Hm.
  unfold in_header_footer. apply orb_true_iff. right. apply existsb_exists. exists g. split; [exact Hg|].
  rewrite Hb. replace (existsb (Z.eqb pidx) (r_pages g)) with true
    by (symmetry; apply existsb_exists; exists pidx; split; [exact Hp|apply Z.eqb_refl]).
  cbn [andb]. apply orb_true_iff. exact Hm.
Qed.

(* a region's own representative text matches itself, and every page-number
   pattern matches a page-number region: the running line / number is removed *)
Theorem own_text_matches t : texts_match t t false = true.
Proof. unfold texts_match. rewrite bytes_eqb_refl. reflexivity. Qed.

(* regions come out of a map iteration and an unstable sort: their order is irrelevant *)
Lemma existsb_perm {A} (p : A -> bool) l l' : Permutation l l' -> existsb p l = existsb p l'.
Proof.
  induction 1 as [|x l l' P IH|x y l|l l' l'' P1 IH1 P2 IH2]; cbn.
  - reflexivity.
  - rewrite IH. reflexivity.
  - destruct (p x), (p y); reflexivity.
  - congruence.
Qed.

Theorem region_order_irrelevant hs hs' fts fts' pidx fs h :
  Permutation hs hs' -> Permutation fts fts' ->
  filter_fragments {| res_headers := hs; res_footers := fts |} pidx fs h =
  filter_fragments {| res_headers := hs'; res_footers := fts' |} pidx fs h.
Proof.
  intros P1 P2. unfold filter_fragments. destruct fs as [|f fs]; [reflexivity|].
  destruct (bounds (f :: fs)) as [mn mx]. apply filter_ext. intro a. f_equal.
  unfold in_header_footer. cbn [res_headers res_footers].
  rewrite (existsb_perm _ _ _ P1), (existsb_perm _ _ _ P2). reflexivity.
Qed.

(* the candidate band (measured from the page edge) lies inside the filter band
   (measured from the content edge) when the content lies within the page *)
Theorem candidate_band_within_filter_band fs pheight f :
  fs <> [] -> let '(minY, maxY) := bounds fs in
  0 <= minY -> maxY <= pheight -> 0 < pheight ->
  (lt_scaled (pheight - (fy f + fh f)) hf_HeaderRegionHeight 1 1 = true -> in_top_band fs pheight f = true) /\
  (lt_scaled (fy f - 0) hf_FooterRegionHeight 1 1 = true -> in_bottom_band fs pheight f = true).
Proof.
  intro Hne. unfold in_top_band, in_bottom_band. destruct (bounds fs) as [mn mx]. intros H0 H1 Hp.
  replace (pheight <? mx) with false by lia.
  assert ((if mx - mn <=? 0 then pheight else mx - mn) <= pheight) as Hch by (destruct (mx - mn <=? 0); lia).
  replace (pheight <? (if mx - mn <=? 0 then pheight else mx - mn)) with false by lia.
  unfold lt_scaled. change (snd hf_HeaderRegionHeight) with 1. change (fst hf_HeaderRegionHeight) with 72.
  change (snd hf_FooterRegionHeight) with 1. change (fst hf_FooterRegionHeight) with 72.
  split; intro H; lia.
Qed.
