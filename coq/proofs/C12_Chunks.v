(* C12: the chunks cover the document once and in order; the section path is
   the chain of open headings; pages, indices and totals. *)
From Tabula Require Import model.C13_Split proofs.C13_Trim proofs.C13_Split model.C12_Chunks.
From Coq Require Import Lia.
Open Scope N_scope.

(* ---------- the section path ---------- *)

(* the headings, oldest first, that are still open at the end: a heading is
   closed by any later heading of the same or a smaller level number *)
Fixpoint open_chain (hs : list hd_entry) : list hd_entry :=
  match hs with
  | [] => []
  | h :: r => if forallb (fun k => (fst h <? fst k)%Z) r then h :: open_chain r else open_chain r
  end.

Definition push (stack : list hd_entry) (h : hd_entry) : list hd_entry := h :: pop_closed (fst h) stack.
Definition stack_after (hs : list hd_entry) : list hd_entry := fold_left push hs [].

(* innermost first: levels strictly decrease down the stack *)
Fixpoint sorted (stack : list hd_entry) : Prop :=
  match stack with
  | [] => True
  | h :: r => Forall (fun k => (fst k < fst h)%Z) r /\ sorted r
  end.

Lemma filter_all_true : forall A (f : A -> bool) l, forallb f l = true -> filter f l = l.
Proof.
  intros A f l. induction l as [|x r IH]; intros H; [reflexivity|].
  cbn in *. apply andb_true_iff in H. destruct H as [H1 H2]. rewrite H1, IH by exact H2. reflexivity.
Qed.

Lemma pop_closed_filter : forall stack lvl,
  sorted stack -> pop_closed lvl stack = filter (fun k => (fst k <? lvl)%Z) stack.
Proof.
  induction stack as [|[l t] r IH]; intros lvl Hs; [reflexivity|].
  cbn [pop_closed filter fst]. destruct Hs as [Hall Hr].
  destruct (Z.leb_spec lvl l) as [Hle|Hgt].
  - replace (l <? lvl)%Z with false by (symmetry; apply Z.ltb_ge; exact Hle). apply IH, Hr.
  - replace (l <? lvl)%Z with true by (symmetry; apply Z.ltb_lt; exact Hgt).
    f_equal. symmetry. apply filter_all_true.
    apply forallb_forall. intros k Hk. rewrite Forall_forall in Hall. specialize (Hall k Hk).
    cbn [fst] in Hall. apply Z.ltb_lt. lia.
Qed.

Lemma filter_sorted : forall stack f, sorted stack -> sorted (filter f stack).
Proof.
  induction stack as [|h r IH]; intros f Hs; [exact I|].
  destruct Hs as [Hall Hr]. cbn [filter]. destruct (f h).
  - split; [|apply IH, Hr]. rewrite Forall_forall in *. intros k Hk.
    apply filter_In in Hk. apply Hall, Hk.
  - apply IH, Hr.
Qed.

Lemma push_sorted : forall stack h, sorted stack -> sorted (push stack h).
Proof.
  intros stack h Hs. unfold push. rewrite pop_closed_filter by exact Hs.
  split; [|apply filter_sorted, Hs].
  rewrite Forall_forall. intros k Hk. apply filter_In in Hk. destruct Hk as [_ Hk].
  apply Z.ltb_lt in Hk. exact Hk.
Qed.

Lemma open_chain_snoc : forall hs h,
  open_chain (hs ++ [h]) = filter (fun k => (fst k <? fst h)%Z) (open_chain hs) ++ [h].
Proof.
  induction hs as [|x r IH]; intros h; [reflexivity|].
  cbn [app open_chain]. rewrite forallb_app. cbn [forallb]. rewrite andb_true_r.
  unfold hd_entry in *.
  destruct (forallb (fun k => (fst x <? fst k)%Z) r); cbn [andb].
  - cbn [filter]. destruct (fst x <? fst h)%Z; rewrite IH; reflexivity.
  - apply IH.
Qed.

Lemma stack_after_sorted : forall hs, sorted (stack_after hs).
Proof.
  intros hs. unfold stack_after.
  assert (H : forall st, sorted st -> sorted (fold_left push hs st)).
  { induction hs as [|h r IH]; intros st Hs; [exact Hs|]. cbn [fold_left]. apply IH, push_sorted, Hs. }
  apply H. exact I.
Qed.

Lemma stack_after_snoc : forall hs h, stack_after (hs ++ [h]) = push (stack_after hs) h.
Proof. intros hs h. unfold stack_after. rewrite fold_left_app. reflexivity. Qed.

(* the stack of open sections is, at every point of the document, exactly the
   chain of headings that enclose that point - for any order of levels *)
Theorem section_stack_is_the_enclosing_chain : forall hs,
  rev (stack_after hs) = open_chain hs.
Proof.
  intros hs. induction hs as [|h r IH] using rev_ind; [reflexivity|].
  rewrite stack_after_snoc, open_chain_snoc, <- IH. unfold push.
  rewrite pop_closed_filter by apply stack_after_sorted.
  cbn [rev]. f_equal. clear.
  induction (stack_after r) as [|x s IHs]; [reflexivity|].
  cbn [filter rev]. rewrite filter_app. cbn [filter].
  destruct (fst x <? fst h)%Z; cbn [rev]; rewrite IHs; [reflexivity|symmetry; apply app_nil_r].
Qed.

Corollary section_path_is_the_enclosing_chain : forall hs,
  path_of (stack_after hs) = map snd (open_chain hs).
Proof.
  intros hs. unfold path_of. rewrite <- map_rev, section_stack_is_the_enclosing_chain. reflexivity.
Qed.

(* H1 A, H3 B, H4 C, H3 D: D is under A, not under B *)
Example open_chain_example :
  map snd (open_chain [(1%Z, [65]); (3%Z, [66]); (4%Z, [67]); (3%Z, [68])]) = [[65]; [68]]
  /\ path_of (stack_after [(1%Z, [65]); (3%Z, [66]); (4%Z, [67]); (3%Z, [68])]) = [[65]; [68]].
Proof. split; reflexivity. Qed.

(* ---------- coverage ---------- *)

Inductive unit_ := UText (t : bytes) | UAtom (t : bytes).

Definition flush_units (b : option bytes) : list unit_ :=
  match b with Some t => [UText t] | None => [] end.

(* the document's content: headings, lists, tables and image descriptions one
   by one, and every maximal run of plain paragraphs joined by blank lines *)
Fixpoint units (toc : list toc_entry) (pnum : Z) (es : list elem) (b : option bytes) : list unit_ :=
  match es with
  | [] => flush_units b
  | e :: r =>
      match e with
      | EPara t =>
          match toc_level toc pnum t with
          | Some _ => flush_units b ++ UAtom t :: units toc pnum r None
          | None => units toc pnum r (match b with
                                      | Some bt => Some (bt ++ [10; 10] ++ t)
                                      | None => if is_nil_b t then None else Some t
                                      end)
          end
      | EHead _ t => flush_units b ++ UAtom t :: units toc pnum r None
      | EList o items => flush_units b ++ UAtom (list_text o items) :: units toc pnum r None
      | ETable md => flush_units b ++ UAtom md :: units toc pnum r None
      | EImage alt => flush_units b ++ (if is_nil_b alt then [] else [UAtom (image_text alt)]) ++ units toc pnum r None
      | EOther => units toc pnum r b
      end
  end.

Definition doc_units (toc : list toc_entry) (ps : list page) : list unit_ :=
  concat (map (fun p => units toc (pg_num p) (pg_elems p) None) ps).

(* a unit and the chunk texts made from it *)
Definition ucov (u : unit_) (ps : list bytes) : Prop :=
  match u with
  | UText t => covers t ps
  | UAtom t => ps = [t]
  end.

Lemma ws_only_app a b : ws_only a -> ws_only b -> ws_only (a ++ b).
Proof. apply tokens_only_app. Qed.

Lemma covers_map_trim : forall t ps, covers t ps -> covers t (map trim_space ps).
Proof.
  intros t ps H. induction H as [g Hg|g p rest ps Hg Hrest IH].
  - constructor. exact Hg.
  - cbn [map]. destruct (trim_space_decomp p) as (l & rr & E & Hl & Hr).
    rewrite E at 1.
    replace (g ++ (l ++ trim_space p ++ rr) ++ rest) with ((g ++ l) ++ trim_space p ++ (rr ++ rest))
      by (rewrite <- !app_assoc; reflexivity).
    constructor; [apply ws_only_app; assumption|].
    apply covers_gap_left; assumption.
Qed.

Lemma flush_covers : forall z pnum t path,
  covers t (map c_text (flush z pnum (Some (t, path)))).
Proof.
  intros z pnum t path. cbn [flush].
  destruct (above z t).
  - unfold split_cfg. destruct (z_unit z =? 0)%Z.
    + destruct (split_terminates (above_chars (z_max z)) (z_max z) (z_max z) t) as [l E].
      rewrite E, map_map. cbn [text_chunk c_text].
      rewrite <- map_map with (g := trim_space) (f := fun x => x), map_id.
      apply covers_map_trim. eapply split_conserves. exact E.
    + destruct (split_terminates (above_tokens (z_max z) (z_p z) (z_q z))
                  (limit_tokens (z_max z) (z_p z) (z_q z)) (limit_tokens (z_max z) (z_p z) (z_q z)) t) as [l E].
      rewrite E, map_map. cbn [text_chunk c_text].
      rewrite <- map_map with (g := trim_space) (f := fun x => x), map_id.
      apply covers_map_trim. eapply split_conserves. exact E.
  - cbn [map text_chunk c_text]. apply covers_trim. apply covers_single.
Qed.

Definition btext (b : block) : option bytes := option_map fst b.

Lemma flush_ucov : forall z pnum b,
  exists pss, map c_text (flush z pnum b) = concat pss /\ Forall2 ucov (flush_units (btext b)) pss.
Proof.
  intros z pnum [[t path]|].
  - exists [map c_text (flush z pnum (Some (t, path)))]. split.
    + cbn [concat]. rewrite app_nil_r. reflexivity.
    + cbn [btext option_map fst flush_units]. constructor; [apply flush_covers|constructor].
  - exists []. split; [reflexivity|constructor].
Qed.

Lemma cover_step : forall (pre : list chunk) (c : list chunk) (cs : list chunk) fu u us pss0 pss1 mid,
  map c_text pre = concat pss0 -> Forall2 ucov fu pss0 ->
  map c_text c = concat mid -> Forall2 ucov u mid ->
  map c_text cs = concat pss1 -> Forall2 ucov us pss1 ->
  exists pss, map c_text (pre ++ c ++ cs) = concat pss /\ Forall2 ucov (fu ++ u ++ us) pss.
Proof.
  intros pre c cs fu u us pss0 pss1 mid E0 F0 Em Fm E1 F1.
  exists (pss0 ++ mid ++ pss1). split.
  - rewrite !map_app, !concat_app, E0, Em, E1. reflexivity.
  - apply Forall2_app; [exact F0|]. apply Forall2_app; assumption.
Qed.

Lemma chunk_elems_cover : forall z toc pnum es stack b,
  exists pss,
    map c_text (fst (chunk_elems z toc pnum es stack b)) = concat pss
    /\ Forall2 ucov (units toc pnum es (btext b)) pss.
Proof.
  intros z toc pnum es. induction es as [|e r IH]; intros stack b.
  - cbn [chunk_elems fst units]. apply flush_ucov.
  - destruct (flush_ucov z pnum b) as (p0 & E0 & F0).
    assert (Atom : forall t stack',
      exists pss,
        map c_text (flush z pnum b ++ t :: fst (chunk_elems z toc pnum r stack' None)) = concat pss
        /\ Forall2 ucov (flush_units (btext b) ++ UAtom (c_text t) :: units toc pnum r None) pss).
    { intros t stack'. destruct (IH stack' None) as (p1 & E1 & F1).
      apply (cover_step _ [t] _ _ [UAtom (c_text t)] _ p0 p1 [[c_text t]]); auto.
      constructor; [reflexivity|constructor]. }
    destruct e as [lvl t|t|o items|md|alt|]; cbn [chunk_elems units].
    + destruct (chunk_elems z toc pnum r (enter_section stack lvl t) None) as [cs st] eqn:Ec.
      cbn [fst]. specialize (Atom (head_chunk pnum (enter_section stack lvl t) lvl t) (enter_section stack lvl t)).
      rewrite Ec in Atom. exact Atom.
    + destruct (toc_level toc pnum t) as [lvl|].
      * destruct (chunk_elems z toc pnum r (enter_section stack lvl t) None) as [cs st] eqn:Ec.
        cbn [fst]. specialize (Atom (head_chunk pnum (enter_section stack lvl t) lvl t) (enter_section stack lvl t)).
        rewrite Ec in Atom. exact Atom.
      * match goal with |- context [chunk_elems z toc pnum r stack ?b'] => specialize (IH stack b') end.
        destruct b as [[bt bp]|]; cbn [btext option_map fst] in *; [exact IH|].
        destruct (is_nil_b t); exact IH.
    + destruct (chunk_elems z toc pnum r stack None) as [cs st] eqn:Ec. cbn [fst].
      match goal with |- context [flush z pnum b ++ ?c :: cs] => specialize (Atom c stack) end.
      rewrite Ec in Atom. exact Atom.
    + destruct (chunk_elems z toc pnum r stack None) as [cs st] eqn:Ec. cbn [fst].
      match goal with |- context [flush z pnum b ++ ?c :: cs] => specialize (Atom c stack) end.
      rewrite Ec in Atom. exact Atom.
    + destruct (chunk_elems z toc pnum r stack None) as [cs st] eqn:Ec. cbn [fst].
      destruct (is_nil_b alt).
      * destruct (IH stack None) as (p1 & E1 & F1). rewrite Ec in E1. cbn [fst] in E1.
        apply (cover_step _ [] _ _ [] _ p0 p1 []); auto.
      * match goal with |- context [flush z pnum b ++ [?c] ++ cs] => specialize (Atom c stack) end.
        rewrite Ec in Atom. exact Atom.
    + apply IH.
Qed.

(* every heading, paragraph run, list, table and image description is carried
   by its own chunks, in document order, and nothing else is: the chunk texts
   are the units one after the other, an oversized paragraph run being its
   pieces separated only by whitespace *)
Theorem chunks_cover_the_document_once_in_order : forall z toc ps,
  exists pss,
    map c_text (chunk_document z toc ps) = concat pss /\ Forall2 ucov (doc_units toc ps) pss.
Proof.
  intros z toc ps. unfold chunk_document, doc_units.
  generalize (@nil hd_entry) as stack.
  induction ps as [|p r IH]; intros stack.
  - exists []. split; [reflexivity|constructor].
  - cbn [chunk_pages map concat].
    destruct (chunk_elems_cover z toc (pg_num p) (pg_elems p) stack None) as (p0 & E0 & F0).
    destruct (chunk_elems z toc (pg_num p) (pg_elems p) stack None) as [cs st]. cbn [fst] in E0.
    destruct (IH st) as (p1 & E1 & F1).
    exists (p0 ++ p1). split.
    + rewrite map_app, concat_app, E0, E1. reflexivity.
    + apply Forall2_app; assumption.
Qed.

(* ---------- pages ---------- *)

Lemma flush_page : forall z pnum b, Forall (fun c => c_page c = pnum) (flush z pnum b).
Proof.
  intros z pnum [[t path]|]; cbn [flush]; [|constructor].
  destruct (above z t).
  - destruct (split_cfg z t); try constructor.
    rewrite Forall_forall. intros c Hc. apply in_map_iff in Hc. destruct Hc as (x & <- & _). reflexivity.
  - repeat constructor.
Qed.

Lemma chunk_elems_page : forall z toc pnum es stack b,
  Forall (fun c => c_page c = pnum) (fst (chunk_elems z toc pnum es stack b)).
Proof.
  intros z toc pnum es. induction es as [|e r IH]; intros stack b.
  - apply flush_page.
  - destruct e as [lvl t|t|o items|md|alt|]; cbn [chunk_elems].
    + specialize (IH (enter_section stack lvl t) None).
      destruct (chunk_elems z toc pnum r (enter_section stack lvl t) None) as [cs st].
      cbn [fst] in *. apply Forall_app. split; [apply flush_page|]. constructor; [reflexivity|exact IH].
    + destruct (toc_level toc pnum t) as [lvl|].
      * specialize (IH (enter_section stack lvl t) None).
        destruct (chunk_elems z toc pnum r (enter_section stack lvl t) None) as [cs st].
        cbn [fst] in *. apply Forall_app. split; [apply flush_page|]. constructor; [reflexivity|exact IH].
      * apply IH.
    + specialize (IH stack None). destruct (chunk_elems z toc pnum r stack None) as [cs st].
      cbn [fst] in *. apply Forall_app. split; [apply flush_page|]. constructor; [reflexivity|exact IH].
    + specialize (IH stack None). destruct (chunk_elems z toc pnum r stack None) as [cs st].
      cbn [fst] in *. apply Forall_app. split; [apply flush_page|]. constructor; [reflexivity|exact IH].
    + specialize (IH stack None). destruct (chunk_elems z toc pnum r stack None) as [cs st].
      cbn [fst] in *. apply Forall_app. split; [apply flush_page|].
      apply Forall_app. split; [|exact IH]. destruct (is_nil_b alt); repeat constructor.
    + apply IH.
Qed.

(* the chunk list is the pages' chunk lists one after the other, and every
   chunk of a page carries that page's own number: no chunk mixes pages *)
Theorem chunks_carry_the_page_they_came_from : forall z toc ps,
  exists per_page,
    chunk_document z toc ps = concat per_page
    /\ Forall2 (fun p cs => Forall (fun c => c_page c = pg_num p) cs) ps per_page.
Proof.
  intros z toc ps. unfold chunk_document. generalize (@nil hd_entry) as stack.
  induction ps as [|p r IH]; intros stack.
  - exists []. split; [reflexivity|constructor].
  - cbn [chunk_pages].
    pose proof (chunk_elems_page z toc (pg_num p) (pg_elems p) stack None) as Hp.
    destruct (chunk_elems z toc (pg_num p) (pg_elems p) stack None) as [cs st]. cbn [fst] in Hp.
    destruct (IH st) as (pp & E & F).
    exists (cs :: pp). split; [cbn [concat]; rewrite E; reflexivity|constructor; assumption].
Qed.

(* ---------- section builder of the layout chunker ---------- *)

Definition page_items (ip : Z * lpage) (minlvl : Z) : list content :=
  let '(pidx, p) := ip in
  if negb (lp_layout p) then []
  else map (fun h => (2, snd h, pidx)) (filter (fun h => negb (fst h <=? minlvl)%Z) (lp_heads p))
       ++ map (fun t => (0, t, pidx)) (lp_paras p) ++ map (fun t => (1, t, pidx)) (lp_lists p).

(* everything a state holds, in creation order *)
Definition held (st : sstate) : list content :=
  concat (map s_content (st_done st))
  ++ match st_open st with Some s => s_content s | None => [] end ++ st_pre st.

Definition wf (st : sstate) : Prop :=
  match st_open st with Some _ => st_pre st = [] /\ st_stack st <> [] | None => st_stack st = [] end.

Lemma add_content_held : forall st c b, wf st -> held (add_content st c b) = held st ++ [c] /\ wf (add_content st c b).
Proof.
  intros st c b Hwf. unfold add_content, held, wf in *.
  destruct (st_open st) as [s|]; cbn [st_done st_open st_pre st_stack s_content].
  - destruct Hwf as [Hp Hs]. rewrite Hp, !app_nil_r. split; [rewrite app_assoc; reflexivity|auto].
  - rewrite !app_assoc. cbn [app]. split; [rewrite <- !app_assoc; reflexivity|exact Hwf].
Qed.

Lemma add_heading_held : forall minlvl pidx st h, wf st ->
  held (add_heading minlvl pidx st h)
  = held st ++ (if (fst h <=? minlvl)%Z then [] else [(2, snd h, pidx)])
  /\ wf (add_heading minlvl pidx st h).
Proof.
  intros minlvl pidx st [lvl t] Hwf. unfold add_heading. cbn [fst snd].
  match goal with |- context [if (lvl <=? minlvl)%Z then _ else add_content ?s _ _] => set (st1 := s) end.
  assert (H1 : held st1 = held st /\ wf st1 /\ (st_open st1 = None -> st_pre st1 = [])).
  { subst st1. unfold held, wf in *. destruct (st_pre st) as [|c0 pre] eqn:Ep.
    - rewrite Ep. auto.
    - destruct (st_open st) as [s|] eqn:Eo.
      + rewrite Ep, Eo. destruct Hwf as [Hp _]. discriminate.
      + cbn [st_done st_open st_pre st_stack preamble_section s_content].
        rewrite map_app, concat_app. cbn [map concat s_content preamble_section]. rewrite Ep, !app_nil_r.
        cbn [app]. auto. }
  destruct H1 as (Hh & Hw & Hpre). clearbody st1.
  destruct (lvl <=? minlvl)%Z.
  - unfold held, wf, close_open in *. cbn [st_done st_open st_pre st_stack s_content].
    destruct (st_open st1) as [s|] eqn:Eo.
    + destruct Hw as [Hp Hs]. rewrite Hp in *. rewrite map_app, concat_app. cbn [map concat].
      rewrite !app_nil_r in *. rewrite <- Hh. split; [reflexivity|split; [reflexivity|discriminate]].
    + rewrite (Hpre eq_refl) in *. rewrite !app_nil_r in *. cbn [app] in *. rewrite <- Hh.
      split; [reflexivity|split; [reflexivity|discriminate]].
  - destruct (add_content_held st1 (2, t, pidx) true Hw) as [A B]. rewrite A, Hh. auto.
Qed.

Lemma fold_content_held : forall k pidx ts st, wf st ->
  held (fold_left (fun s t => add_content s (k, t, pidx) true) ts st)
  = held st ++ map (fun t => (k, t, pidx)) ts
  /\ wf (fold_left (fun s t => add_content s (k, t, pidx) true) ts st).
Proof.
  intros k pidx ts. induction ts as [|t r IH]; intros st Hwf.
  - cbn. rewrite app_nil_r. auto.
  - cbn [fold_left map]. destruct (add_content_held st (k, t, pidx) true Hwf) as [A B].
    destruct (IH _ B) as [C D]. rewrite C, A, <- app_assoc. auto.
Qed.

Lemma fold_heading_held : forall minlvl pidx hs st, wf st ->
  held (fold_left (add_heading minlvl pidx) hs st)
  = held st ++ map (fun h => (2, snd h, pidx)) (filter (fun h => negb (fst h <=? minlvl)%Z) hs)
  /\ wf (fold_left (add_heading minlvl pidx) hs st).
Proof.
  intros minlvl pidx hs. induction hs as [|h r IH]; intros st Hwf.
  - cbn. rewrite app_nil_r. auto.
  - cbn [fold_left filter]. destruct (add_heading_held minlvl pidx st h Hwf) as [A B].
    destruct (IH _ B) as [C D]. rewrite C, A. split; [|exact D].
    destruct (fst h <=? minlvl)%Z; cbn [negb map]; rewrite <- app_assoc; reflexivity.
Qed.

Lemma add_page_held : forall minlvl st ip, wf st ->
  held (add_page minlvl st ip) = held st ++ page_items ip minlvl /\ wf (add_page minlvl st ip).
Proof.
  intros minlvl st [pidx p] Hwf. unfold add_page, page_items.
  destruct (lp_layout p); cbn [negb].
  - destruct (fold_heading_held minlvl pidx (lp_heads p) st Hwf) as [A B].
    destruct (fold_content_held 0 pidx (lp_paras p) _ B) as [C D].
    destruct (fold_content_held 1 pidx (lp_lists p) _ D) as [E F].
    rewrite E, C, A, <- !app_assoc. auto.
  - rewrite app_nil_r. auto.
Qed.

(* every minor heading, paragraph and list of every analysed page is in exactly
   one section, and the sections in walk order hold them in document order *)
Theorem sections_hold_the_content_once_in_order : forall minlvl ps,
  concat (map s_content (build_sections minlvl ps))
  = concat (map (fun ip => page_items ip minlvl) (number_from 1 ps)).
Proof.
  intros minlvl ps. unfold build_sections.
  assert (H : forall ips st, wf st ->
    held (fold_left (add_page minlvl) ips st) = held st ++ concat (map (fun ip => page_items ip minlvl) ips)
    /\ wf (fold_left (add_page minlvl) ips st)).
  { induction ips as [|ip r IH]; intros st Hwf.
    - cbn. rewrite app_nil_r. auto.
    - cbn [fold_left map concat]. destruct (add_page_held minlvl st ip Hwf) as [A B].
      destruct (IH _ B) as [C D]. rewrite C, A, <- app_assoc. auto. }
  destruct (H (number_from 1 ps) sstate0) as [A B]; [reflexivity|].
  remember (fold_left (add_page minlvl) (number_from 1 ps) sstate0) as st.
  change (held sstate0) with (@nil content) in A. cbn [app] in A. rewrite <- A.
  unfold held, wf, close_open in *.
  destruct (st_open st) as [s|].
  - destruct B as [Hp _]. rewrite Hp, map_app, concat_app. cbn [map concat]. rewrite !app_nil_r. reflexivity.
  - rewrite B. destruct (st_pre st) as [|c0 pre] eqn:Ep.
    + rewrite !app_nil_r. reflexivity.
    + rewrite map_app, concat_app. cbn [map concat preamble_section s_content]. rewrite Ep, app_nil_r. reflexivity.
Qed.

Example sections_example :
  map (fun s => (s_title s, s_path s, s_content s, s_pstart s, s_pend s))
    (build_sections 2 [ {| lp_layout := true; lp_heads := []; lp_paras := [[112]]; lp_lists := [] |};
                        {| lp_layout := true; lp_heads := [(1%Z, [65]); (3%Z, [109])]; lp_paras := [[113]]; lp_lists := [] |};
                        {| lp_layout := true; lp_heads := [(2%Z, [66])]; lp_paras := []; lp_lists := [[108]] |} ])
  = [ ([], [], [(0, [112], 1%Z)], 1%Z, 1%Z);
      ([65], [[65]], [(2, [109], 2%Z); (0, [113], 2%Z)], 2%Z, 2%Z);
      ([66], [[65]; [66]], [(1, [108], 3%Z)], 3%Z, 3%Z) ].
Proof. reflexivity. Qed.

(* ---------- the path of a section ---------- *)

Definition majors (minlvl : Z) (ips : list (Z * lpage)) : list hd_entry :=
  concat (map (fun ip => if lp_layout (snd ip) then filter (fun h => (fst h <=? minlvl)%Z) (lp_heads (snd ip)) else []) ips).

Definition path_inv (st : sstate) : Prop :=
  match st_open st with Some s => s_path s = rev (map snd (st_stack st)) | None => True end.

Lemma add_content_stack : forall st c b,
  st_stack (add_content st c b) = st_stack st /\ (path_inv st -> path_inv (add_content st c b)).
Proof.
  intros st c b. unfold add_content, path_inv. destruct (st_open st); cbn; auto.
Qed.

Lemma add_heading_stack : forall minlvl pidx st h,
  st_stack (add_heading minlvl pidx st h)
  = (if (fst h <=? minlvl)%Z then push (st_stack st) h else st_stack st)
  /\ (path_inv st -> path_inv (add_heading minlvl pidx st h)).
Proof.
  intros minlvl pidx st [lvl t]. unfold add_heading. cbn [fst].
  match goal with |- context [if (lvl <=? minlvl)%Z then _ else add_content ?s _ _] => set (st1 := s) end.
  assert (H1 : st_stack st1 = st_stack st /\ (path_inv st -> path_inv st1)).
  { subst st1. destruct (st_pre st); [auto|]. destruct (st_open st) eqn:Eo; [auto|].
    cbn [st_stack]. split; [reflexivity|]. intros _. unfold path_inv. cbn. exact I. }
  destruct H1 as [Hs Hp]. clearbody st1.
  destruct (lvl <=? minlvl)%Z.
  - cbn [st_stack]. rewrite Hs. split; [reflexivity|]. intros _. unfold path_inv. cbn. reflexivity.
  - destruct (add_content_stack st1 (2, t, pidx) true) as [A B]. rewrite A, Hs. auto.
Qed.

Lemma fold_pages_stack : forall minlvl ips st,
  path_inv st ->
  st_stack (fold_left (add_page minlvl) ips st) = fold_left push (majors minlvl ips) (st_stack st)
  /\ path_inv (fold_left (add_page minlvl) ips st).
Proof.
  intros minlvl ips. induction ips as [|[pidx p] r IH]; intros st Hp; [auto|].
  cbn [fold_left]. unfold majors. cbn [map concat snd]. fold (majors minlvl r).
  rewrite fold_left_app.
  assert (H : st_stack (add_page minlvl st (pidx, p))
              = fold_left push (if lp_layout p then filter (fun h => (fst h <=? minlvl)%Z) (lp_heads p) else []) (st_stack st)
              /\ path_inv (add_page minlvl st (pidx, p))).
  { unfold add_page. destruct (lp_layout p); cbn [negb]; [|auto].
    assert (Hh : forall hs s0, path_inv s0 ->
      st_stack (fold_left (add_heading minlvl pidx) hs s0)
      = fold_left push (filter (fun h => (fst h <=? minlvl)%Z) hs) (st_stack s0)
      /\ path_inv (fold_left (add_heading minlvl pidx) hs s0)).
    { induction hs as [|h hs IHh]; intros s0 H0; [auto|].
      cbn [fold_left filter]. destruct (add_heading_stack minlvl pidx s0 h) as [A B].
      destruct (IHh _ (B H0)) as [C D]. rewrite C, A. split; [|exact D].
      destruct (fst h <=? minlvl)%Z; reflexivity. }
    assert (Hc : forall k ts s0, path_inv s0 ->
      st_stack (fold_left (fun s t => add_content s (k, t, pidx) true) ts s0) = st_stack s0
      /\ path_inv (fold_left (fun s t => add_content s (k, t, pidx) true) ts s0)).
    { intros k ts. induction ts as [|t ts IHt]; intros s0 H0; [auto|].
      cbn [fold_left]. destruct (add_content_stack s0 (k, t, pidx) true) as [A B].
      destruct (IHt _ (B H0)) as [C D]. rewrite C, A. auto. }
    destruct (Hh (lp_heads p) st Hp) as [A B].
    destruct (Hc 0 (lp_paras p) _ B) as [C D].
    destruct (Hc 1 (lp_lists p) _ D) as [E F].
    rewrite E, C, A. auto. }
  destruct H as [A B]. destruct (IH _ B) as [C D]. rewrite C, A. auto.
Qed.

(* the section that is open after any number of pages carries as its path the
   chain of major headings enclosing that point *)
Theorem open_section_path_is_the_enclosing_chain : forall minlvl ps,
  let st := fold_left (add_page minlvl) (number_from 1 ps) sstate0 in
  match st_open st with
  | Some s => s_path s = map snd (open_chain (majors minlvl (number_from 1 ps)))
  | None => True
  end.
Proof.
  intros minlvl ps st. subst st.
  destruct (fold_pages_stack minlvl (number_from 1 ps) sstate0) as [A B]; [exact I|].
  unfold path_inv in B.
  destruct (st_open (fold_left (add_page minlvl) (number_from 1 ps) sstate0)) as [s|]; [|exact I].
  rewrite B, A. change (st_stack sstate0) with (@nil hd_entry).
  fold (stack_after (majors minlvl (number_from 1 ps))).
  rewrite <- map_rev, section_stack_is_the_enclosing_chain. reflexivity.
Qed.

(* indices and totals of the encoded result *)

Theorem chunk_indices_count_from_zero : forall A (l : list A) k,
  map fst (indexed k l) = seq k (length l) /\ NoDup (map fst (indexed k l)).
Proof.
  intros A l. induction l as [|x r IH]; intros k; cbn; [split; [reflexivity|constructor]|].
  destruct (IH (S k)) as [E N]. split; [rewrite E; reflexivity|].
  rewrite E. apply (seq_NoDup (S (length r)) k).
Qed.
