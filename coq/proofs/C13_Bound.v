(* SplitToSize: with a hard maximum in characters or tokens and a break
   opportunity in every 50-byte window, no piece exceeds the maximum. *)
From Tabula Require Import base.Val base.Utf8 model.C13_Split proofs.C13_Trim.
From Coq Require Import Lia ZifyN ZifyNat ZifyBool.
Open Scope N_scope.

Definition spaced (s : bytes) : Prop :=
  forall a, (a + 50 <= length s)%nat -> exists j, (a <= j < a + 50)%nat /\ is_brk (at_ s j) = true.

(* does not end with a blank or newline *)
Definition no_trailing_brk (s : bytes) : Prop := forall x c, s = x ++ [c] -> is_brk c = false.

Lemma at_app_mid (x y z : bytes) j : (j < length y)%nat -> at_ (x ++ y ++ z) (length x + j) = at_ y j.
Proof.
  intro H. unfold at_. rewrite app_nth2 by lia. replace (length x + j - length x)%nat with j by lia.
  apply app_nth1. exact H.
Qed.

Lemma spaced_factor x y z : spaced (x ++ y ++ z) -> spaced y.
Proof.
  intros H a Ha. destruct (H (length x + a)%nat) as [j [Hj Hb]].
  { rewrite !app_length. lia. }
  exists (j - length x)%nat. split; [lia|].
  rewrite <- (at_app_mid x y z) by lia. replace (length x + (j - length x))%nat with j by lia. exact Hb.
Qed.

(* ---------- search results are positive and near the target *)
Lemma word_back_none s k : forall i, word_back s i k = None ->
  forall j, (j <= i)%nat -> (i < j + k)%nat -> is_brk (at_ s j) = false.
Proof.
  induction k as [|k IH]; intros i H j Hj Hk; [lia|]. cbn [word_back] in H.
  destruct (is_brk (at_ s i)) eqn:E; [discriminate|].
  destruct (Nat.eq_dec j i) as [->|Hne]; [exact E|].
  destruct i as [|i']; [lia|]. apply (IH i' H); lia.
Qed.

Lemma word_back_some s k : forall i p, word_back s i k = Some p -> (1 <= p <= S i)%nat.
Proof.
  induction k as [|k IH]; intros i p H; cbn [word_back] in H; [discriminate|].
  destruct (is_brk (at_ s i)); [inversion H; lia|]. destruct i as [|i']; [discriminate|].
  apply IH in H. lia.
Qed.

Lemma sent_back_some s n k : forall i p, sent_back s n i k = Some p -> (1 <= p <= S i)%nat.
Proof.
  induction k as [|k IH]; intros i p H; cbn [sent_back] in H; [discriminate|].
  destruct (_ && _); [inversion H; lia|]. destruct i as [|i']; [discriminate|]. apply IH in H. lia.
Qed.

Lemma sent_fwd_some s n k : forall i p, sent_fwd s n i k = Some p -> (1 <= p <= n)%nat.
Proof.
  induction k as [|k IH]; intros i p H; cbn [sent_fwd] in H; [discriminate|].
  destruct (Nat.leb n i) eqn:E; [discriminate|]. apply Nat.leb_gt in E.
  destruct (_ && _); [inversion H; lia|]. apply IH in H. exact H.
Qed.

Lemma pull_back_none s : forall i, pull_back s i = None -> forall j, (1 <= j <= i)%nat -> is_brk (at_ s j) = false.
Proof.
  induction i as [|i IH]; intros H j Hj; [lia|]. cbn [pull_back] in H.
  destruct (is_brk (at_ s (S i))) eqn:E; [discriminate|].
  destruct (Nat.eq_dec j (S i)) as [->|Hne]; [exact E|]. apply IH; [exact H|lia].
Qed.

Lemma pull_back_some s : forall i p, pull_back s i = Some p ->
  exists j, p = S j /\ (1 <= j <= i)%nat /\ is_brk (at_ s j) = true.
Proof.
  induction i as [|i IH]; intros p H; cbn [pull_back] in H; [discriminate|].
  destruct (is_brk (at_ s (S i))) eqn:E.
  - inversion H; subst. exists (S i). split; [reflexivity|]. split; [lia|exact E].
  - destruct (IH p H) as [j [Ej [Hj Hb]]]. exists j. split; [exact Ej|]. split; [lia|exact Hb].
Qed.

(* with a break in every window, the target search never reaches the raw fallback *)
Lemma find_split_range s t : spaced s -> (50 <= t)%nat -> (t < length s)%nat ->
  (1 <= find_split s t <= length s)%nat.
Proof.
  intros Hs Ht Hl. unfold find_split, sentence_end_near, word_boundary_near.
  rewrite (proj2 (Nat.leb_gt _ _) Hl).
  destruct (sent_back s (length s) t 100) eqn:E1; [apply sent_back_some in E1; lia|].
  destruct (sent_fwd s (length s) t 100) eqn:E2; [apply sent_fwd_some in E2; lia|].
  destruct (word_back s t 50) eqn:E3; [apply word_back_some in E3; lia|].
  exfalso. destruct (Hs (t - 49)%nat) as [j [Hj Hb]]; [lia|].
  rewrite (word_back_none s 50 t E3 j) in Hb by lia. discriminate.
Qed.

(* ---------- trailing break is trimmed away *)
Lemma trim_with_length toks fuel s : (length (trim_with toks fuel s) <= length s)%nat.
Proof.
  destruct (trim_with_decomp toks fuel s) as [l [E _]]. rewrite E at 2. rewrite app_length. lia.
Qed.

Lemma strip_rev_brk c r : is_brk c = true -> strip_token (map (@rev N) ws_tokens) (c :: r) = Some r.
Proof.
  intro H. assert (c = 32 \/ c = 10) as [-> | ->] by (unfold is_brk in H; lia); reflexivity.
Qed.

Lemma trim_right_snoc_brk x c : is_brk c = true -> (length (trim_right (x ++ [c])) <= length x)%nat.
Proof.
  intro H. unfold trim_right. rewrite rev_length, rev_app_distr. cbn [rev app].
  rewrite app_length. cbn [length]. replace (length x + 1)%nat with (S (length x)) by lia.
  cbn [trim_with]. rewrite strip_rev_brk by exact H.
  etransitivity; [apply trim_with_length|]. rewrite rev_length. lia.
Qed.

Lemma trim_left_suffix s : exists l, s = l ++ trim_left s.
Proof. destruct (trim_left_decomp s) as [l [E _]]. exists l. exact E. Qed.

Lemma trim_space_snoc_brk x c : is_brk c = true -> (length (trim_space (x ++ [c])) <= length x)%nat.
Proof.
  intro H. unfold trim_space. destruct (trim_left_suffix (x ++ [c])) as [l E].
  destruct (trim_left (x ++ [c])) as [|b tl] eqn:Et using rev_ind.
  - cbn. lia.
  - clear IHtl. rewrite app_assoc in E. apply app_inj_tail in E as [Ex Ec]. subst b.
    etransitivity; [apply trim_right_snoc_brk; exact H|]. rewrite Ex, app_length. lia.
Qed.

(* trimmed strings do not end with a break *)
Lemma strip_token_nil toks : Forall (fun t => t <> []) toks -> strip_token toks [] = None.
Proof.
  induction 1 as [|t toks Ht Hr IH]; cbn; [reflexivity|]. destruct t; [contradiction|]. cbn. exact IH.
Qed.

Lemma trim_with_fix toks : Forall (fun t => t <> []) toks ->
  forall fuel s, (length s <= fuel)%nat -> strip_token toks (trim_with toks fuel s) = None.
Proof.
  intro Hne. induction fuel as [|f IH]; intros s H.
  - destruct s; [|cbn in H; lia]. cbn. apply strip_token_nil. exact Hne.
  - cbn [trim_with]. destruct (strip_token toks s) as [r|] eqn:E; [|exact E].
    destruct (strip_token_some _ _ _ E) as [t [Hin Es]].
    rewrite Forall_forall in Hne. specialize (Hne t Hin).
    apply IH. subst s. rewrite app_length in H. destruct t; [contradiction|]. cbn in H. lia.
Qed.

Lemma rev_tokens_nonempty : Forall (fun t => t <> []) (map (@rev N) ws_tokens).
Proof. cbn. repeat constructor; discriminate. Qed.

Lemma trim_right_no_trailing s : no_trailing_brk (trim_right s).
Proof.
  intros x c E. destruct (is_brk c) eqn:Hb; [|reflexivity]. exfalso.
  unfold trim_right in E.
  pose proof (trim_with_fix _ rev_tokens_nonempty (length s) (rev s)) as F.
  rewrite rev_length in F. specialize (F (le_n _)).
  apply (f_equal (@rev N)) in E. rewrite rev_involutive, rev_app_distr in E. cbn [rev app] in E.
  rewrite E in F. rewrite strip_rev_brk in F by exact Hb. discriminate.
Qed.

Lemma trim_space_no_trailing s : no_trailing_brk (trim_space s).
Proof. apply trim_right_no_trailing. Qed.

Lemma nth_split_at_b (s : bytes) i : (i < length s)%nat -> s = firstn i s ++ at_ s i :: skipn (S i) s.
Proof.
  revert i. induction s as [|x s IH]; intros i H; cbn in H; [lia|].
  destruct i as [|i]; cbn; [reflexivity|]. f_equal. apply IH. lia.
Qed.
Lemma firstn_S_snoc_b (s : bytes) i : (i < length s)%nat -> firstn (S i) s = firstn i s ++ [at_ s i].
Proof.
  revert i. induction s as [|x s IH]; intros i H; cbn in H; [lia|].
  destruct i as [|i]; [reflexivity|]. cbn [firstn app]. f_equal.
  change (at_ (x :: s) (S i)) with (at_ s i). apply IH. lia.
Qed.

(* ---------- one round of the loop *)
Section Bound.
  Variable above : bytes -> bool.
  Variable limit : nat.
  Hypothesis limit_ge : (50 <= limit)%nat.
  Hypothesis fits : forall s, (length s <= limit)%nat -> above s = false.

  Lemma round_ok rem : above rem = true -> spaced rem -> no_trailing_brk rem ->
    let sp := split_pos limit limit rem in
    (0 < sp < length rem)%nat /\ (length (trim_space (firstn sp rem)) <= limit)%nat.
  Proof.
    intros Ha Hs Ht. cbv zeta.
    assert (limit < length rem)%nat as Hl.
    { destruct (Nat.le_gt_cases (length rem) limit) as [H|H]; [|exact H]. rewrite (fits rem H) in Ha. discriminate. }
    pose proof (find_split_range rem limit Hs limit_ge Hl) as Hr.
    unfold split_pos. set (r := find_split rem limit) in *.
    destruct (Nat.ltb 0 limit && Nat.ltb limit r && Nat.leb r (length rem)) eqn:E.
    - (* pulled back *)
      destruct (pull_back rem limit) as [p|] eqn:Ep.
      + destruct (pull_back_some _ _ _ Ep) as [j [-> [Hj Hb]]].
        assert (S j <> length rem) as Hne.
        { intro Eq. rewrite (nth_split_at_b rem j) in Ht by lia.
          replace (skipn (S j) rem) with (@nil N) in Ht by (symmetry; apply skipn_all2; lia).
          specialize (Ht _ _ eq_refl). congruence. }
        split; [lia|].
        rewrite (firstn_S_snoc_b rem j) by lia.
        etransitivity; [apply trim_space_snoc_brk; exact Hb|]. rewrite firstn_length. lia.
      + exfalso. destruct (Hs (limit - 49)%nat) as [j [Hj Hb]]; [lia|].
        rewrite (pull_back_none rem limit Ep j) in Hb by lia. discriminate.
    - assert (r <= limit)%nat as Hrl.
      { apply andb_false_iff in E as [E|E].
        - apply andb_false_iff in E as [E|E]; [apply Nat.ltb_ge in E; lia|apply Nat.ltb_ge in E; exact E].
        - apply Nat.leb_gt in E. lia. }
      split; [lia|]. etransitivity; [apply trim_space_length|]. rewrite firstn_length. lia.
  Qed.
End Bound.

Section BoundLoop.
  Variable above : bytes -> bool.
  Variable limit : nat.
  Hypothesis limit_ge : (50 <= limit)%nat.
  Hypothesis fits : forall s, (length s <= limit)%nat -> above s = false.

  Lemma loop_bound fuel : forall rem acc l,
    split_loop above limit limit fuel rem acc = Ok l ->
    spaced rem -> (above rem = true -> no_trailing_brk rem) ->
    Forall (fun p => above p = false) acc -> Forall (fun p => above p = false) l.
  Proof.
    induction fuel as [|f IH]; intros rem acc l H Hs Ht Ha; cbn [split_loop] in H; [discriminate|].
    destruct (is_nil rem); [inversion H; subst; exact Ha|].
    destruct (above rem) eqn:Eab; cbn [negb] in H.
    2:{ inversion H; subst. apply Forall_app. split; [exact Ha|constructor; [exact Eab|constructor]]. }
    destruct (round_ok above limit limit_ge fits rem Eab Hs (Ht eq_refl)) as [[H0 H1] Hc].
    set (sp := split_pos limit limit rem) in *.
    replace (Nat.eqb sp 0 || Nat.leb (length rem) sp) with false in H
      by (symmetry; apply orb_false_iff; split; [apply Nat.eqb_neq; lia|apply Nat.leb_gt; lia]).
    eapply IH; [exact H| | |].
    - destruct (trim_space_decomp (skipn sp rem)) as [g1 [g2 [E _]]].
      apply (spaced_factor (firstn sp rem ++ g1) _ g2).
      rewrite <- app_assoc. rewrite <- E. rewrite firstn_skipn. exact Hs.
    - intros _. apply trim_space_no_trailing.
    - destruct (is_nil (trim_space (firstn sp rem))); [exact Ha|].
      apply Forall_app. split; [exact Ha|constructor; [apply fits; exact Hc|constructor]].
  Qed.

  Theorem split_bound t l : spaced t -> split_to_size above limit limit t = Ok l ->
    Forall (fun p => above p = false) l.
  Proof.
    intros Hs H. unfold split_to_size in H. eapply loop_bound; [exact H| | |constructor].
    - destruct (above t); [|exact Hs].
      destruct (trim_space_decomp t) as [g1 [g2 [E _]]]. apply (spaced_factor g1 _ g2). rewrite <- E. exact Hs.
    - destruct (above t) eqn:E; [intros _; apply trim_space_no_trailing|congruence].
  Qed.
End BoundLoop.

(* the two configurations with a hard maximum *)
Theorem split_bound_chars maxv t l : (50 <= maxv)%nat -> spaced t ->
  split_to_size (above_chars maxv) maxv maxv t = Ok l -> Forall (fun p => (length p <= maxv)%nat) l.
Proof.
  intros Hm Hs H.
  assert (forall s, (length s <= maxv)%nat -> above_chars maxv s = false) as F
    by (intros s Hl; unfold above_chars; apply Nat.ltb_ge; exact Hl).
  pose proof (split_bound (above_chars maxv) maxv Hm F t l Hs H) as B.
  eapply Forall_impl; [|exact B]. intros p Hp. unfold above_chars in Hp. apply Nat.ltb_ge in Hp. exact Hp.
Qed.

Theorem split_bound_tokens maxv p q t l : (0 < p)%nat -> (0 < q)%nat ->
  (50 <= limit_tokens maxv p q)%nat -> spaced t ->
  split_to_size (above_tokens maxv p q) (limit_tokens maxv p q) (limit_tokens maxv p q) t = Ok l ->
  Forall (fun s => (length s * p / q <= maxv)%nat) l.
Proof.
  intros Hp Hq Hm Hs H.
  assert (forall s, (length s <= limit_tokens maxv p q)%nat -> above_tokens maxv p q s = false) as F.
  { intros s Hl. unfold above_tokens, limit_tokens in *. apply Nat.ltb_ge.
    apply Nat.div_le_upper_bound; [lia|].
    assert (length s * p <= (maxv * q / p) * p)%nat by (apply Nat.mul_le_mono_r; exact Hl).
    pose proof (Nat.mul_div_le (maxv * q) p). lia. }
  pose proof (split_bound (above_tokens maxv p q) _ Hm F t l Hs H) as B.
  eapply Forall_impl; [|exact B]. intros s Hb. unfold above_tokens in Hb. apply Nat.ltb_ge in Hb. exact Hb.
Qed.
