(* C13, overlap: the text GenerateOverlap hands to the next chunk is valid UTF-8
   whenever the chunk is, its non-white-space content is the end of the chunk's
   own content, and its length respects MaxOverlap and MinOverlap - for every
   strategy, size, text and every answer of the sentence-end oracle. *)
From Tabula Require Import base.Val base.Utf8 model.C13_Split model.C13_Overlap proofs.C13_Trim.
From Coq Require Import Lia ZifyN ZifyNat ZifyBool.
From Coq Require String.
Import (notations) String.
Open Scope N_scope.

(* ---------- characters *)

Lemma uchar_len : forall c, uchar c -> exists h t, c = h :: t /\ length c = rune_len h.
Proof.
  intros c H. destruct H; eexists; eexists; (split; [reflexivity|]); unfold rune_len; cbn [length];
    repeat match goal with |- context [?a <? ?b] => destruct (N.ltb_spec a b); try lia end; reflexivity.
Qed.

Lemma uchar_prefix_unique : forall a b x y, uchar a -> uchar b -> a ++ x = b ++ y -> a = b /\ x = y.
Proof.
  intros a b x y Ha Hb E.
  destruct (uchar_len a Ha) as (h & t & -> & La). destruct (uchar_len b Hb) as (h' & t' & -> & Lb).
  cbn [app] in E. injection E as -> E. rewrite <- Lb in La.
  assert (L : length t = length t') by (cbn [length] in La; lia).
  clear La Lb Ha Hb. revert t' L E. induction t as [|u t IH]; intros [|u' t'] L E; try discriminate.
  - cbn in E. subst. split; reflexivity.
  - cbn in E, L. injection E as -> E. destruct (IH t' ltac:(lia) E) as [E1 E2].
    injection E1 as ->. split; [reflexivity|exact E2].
Qed.

Lemma ws_tokens_uchar : forall t, In t ws_tokens -> uchar t.
Proof.
  intros t H. unfold ws_tokens in H. cbn [In] in H.
  repeat (destruct H as [<-|H]; [first
    [ apply U1; lia
    | apply U2; [lia|reflexivity]
    | apply U3b; [lia|reflexivity|reflexivity] ] |]).
  contradiction.
Qed.

Lemma valid_cons_inv : forall s, valid_utf8 s -> s <> [] ->
  exists c r, s = c ++ r /\ uchar c /\ valid_utf8 r.
Proof.
  intros s H Hne. destruct H as [|c r Hc Hr]; [contradiction|]. exists c, r. auto.
Qed.

Lemma valid_one : forall c, uchar c -> valid_utf8 c.
Proof. intros c H. rewrite <- (app_nil_r c). constructor; [exact H|constructor]. Qed.

Lemma ws_only_valid : forall l, ws_only l -> valid_utf8 l.
Proof. induction 1 as [|t g Hin Hg IH]; [constructor|]. constructor; [apply ws_tokens_uchar, Hin|exact IH]. Qed.

(* where the string begins with a white-space character, and where it does not *)
Lemma strip_prefix_app : forall p r, strip_prefix p (p ++ r) = Some r.
Proof. induction p as [|x p IH]; intros r; [reflexivity|]. cbn. rewrite N.eqb_refl. apply IH. Qed.

Lemma strip_token_in : forall toks s, (exists t r, In t toks /\ s = t ++ r) -> strip_token toks s <> None.
Proof.
  induction toks as [|t0 toks IH]; intros s (t & r & Hin & ->); [destruct Hin|].
  cbn [strip_token]. destruct (strip_prefix t0 (t ++ r)) eqn:E; [discriminate|].
  destruct Hin as [->|Hin]; [rewrite strip_prefix_app in E; discriminate|].
  apply IH. exists t, r. auto.
Qed.

Lemma space_at_token : forall t r, In t ws_tokens -> space_at (t ++ r) = Some r.
Proof.
  intros t r Hin. unfold space_at.
  destruct (strip_token ws_tokens (t ++ r)) as [r'|] eqn:E.
  - destruct (strip_token_some _ _ _ E) as (t' & Hin' & E').
    destruct (uchar_prefix_unique t t' r r' (ws_tokens_uchar _ Hin) (ws_tokens_uchar _ Hin') E') as [_ ->]. reflexivity.
  - exfalso. revert E. apply strip_token_in. exists t, r. auto.
Qed.

Lemma space_at_char : forall c r, uchar c -> ~ In c ws_tokens -> space_at (c ++ r) = None.
Proof.
  intros c r Hc Hn. unfold space_at. destruct (strip_token ws_tokens (c ++ r)) as [r'|] eqn:E; [|reflexivity].
  destruct (strip_token_some _ _ _ E) as (t & Hin & E').
  destruct (uchar_prefix_unique c t r r' Hc (ws_tokens_uchar _ Hin) E') as [-> _]. contradiction.
Qed.

Lemma in_ws_dec : forall c : bytes, {In c ws_tokens} + {~ In c ws_tokens}.
Proof. intros c. apply in_dec. apply list_eq_dec. apply N.eq_dec. Qed.

(* ---------- the content of a string: its characters other than white space *)

Inductive content_of : bytes -> bytes -> Prop :=
| C_nil : content_of [] []
| C_ws t s c : In t ws_tokens -> content_of s c -> content_of (t ++ s) c
| C_ch u s c : uchar u -> ~ In u ws_tokens -> content_of s c -> content_of (u ++ s) (u ++ c).

Lemma content_total : forall s, valid_utf8 s -> exists c, content_of s c.
Proof.
  induction 1 as [|u s Hu Hs [c IH]]; [exists []; constructor|].
  destruct (in_ws_dec u); [exists c; apply C_ws; assumption|exists (u ++ c); apply C_ch; assumption].
Qed.

Lemma content_valid : forall s c, content_of s c -> valid_utf8 s /\ valid_utf8 c.
Proof.
  induction 1 as [|t s c Hin H [IH1 IH2]|u s c Hu Hn H [IH1 IH2]].
  - split; constructor.
  - split; [constructor; [apply ws_tokens_uchar, Hin|exact IH1]|exact IH2].
  - split; constructor; assumption.
Qed.

Lemma content_app : forall a ca b cb, content_of a ca -> content_of b cb -> content_of (a ++ b) (ca ++ cb).
Proof.
  induction 1 as [|t s c Hin H IH|u s c Hu Hn H IH]; intros Hb; [exact Hb| |].
  - rewrite <- app_assoc. apply C_ws; auto.
  - rewrite <- !app_assoc. apply C_ch; auto.
Qed.

Lemma content_unique : forall s c1, content_of s c1 -> forall c2, content_of s c2 -> c1 = c2.
Proof.
  induction 1 as [|t s c Hin H IH|u s c Hu Hn H IH]; intros c2 H2.
  - inversion H2 as [|t' s' c' Hin' H' E|u' s' c' Hu' Hn' H' E]; [reflexivity| |].
    + destruct (token_boundary t' Hin') as [_ Hne]. destruct t'; [contradiction|discriminate].
    + destruct (uchar_len u' Hu') as (h & tl & -> & _). discriminate.
  - inversion H2 as [E|t' s' c' Hin' H' E|u' s' c' Hu' Hn' H' E].
    + destruct (token_boundary t Hin) as [_ Hne]. destruct t; [contradiction|discriminate].
    + destruct (uchar_prefix_unique t' t s' s (ws_tokens_uchar _ Hin') (ws_tokens_uchar _ Hin) E) as [_ ->].
      apply IH. exact H'.
    + destruct (uchar_prefix_unique u' t s' s Hu' (ws_tokens_uchar _ Hin) E) as [-> _]. contradiction.
  - inversion H2 as [E|t' s' c' Hin' H' E|u' s' c' Hu' Hn' H' E].
    + destruct (uchar_len u Hu) as (h & tl & -> & _). discriminate.
    + destruct (uchar_prefix_unique t' u s' s (ws_tokens_uchar _ Hin') Hu E) as [-> _]. contradiction.
    + destruct (uchar_prefix_unique u' u s' s Hu' Hu E) as [-> ->]. f_equal. apply IH. exact H'.
Qed.

Lemma content_ws : forall l, ws_only l -> content_of l [].
Proof. induction 1 as [|t g Hin Hg IH]; [constructor|apply C_ws; assumption]. Qed.

Lemma content_trim : forall s c, content_of s c -> content_of (trim_space s) c.
Proof.
  intros s c H. destruct (content_valid _ _ H) as [Vs _].
  destruct (trim_space_decomp s) as (l & r & E & Hl & Hr).
  destruct (content_total _ (trim_space_valid s Vs)) as [ct Ht].
  pose proof (content_app _ _ _ _ (content_ws l Hl) (content_app _ _ _ _ Ht (content_ws r Hr))) as K.
  rewrite <- E in K. cbn [app] in K. rewrite app_nil_r in K.
  rewrite (content_unique _ _ H _ K). exact Ht.
Qed.

(* the overlap [o] holds the end of the content of [text] *)
Definition ends_with_content (text o : bytes) : Prop :=
  exists p c, content_of text (p ++ c) /\ content_of o c.

Lemma ewc_refl : forall s, valid_utf8 s -> ends_with_content s s.
Proof. intros s H. destruct (content_total s H) as [c Hc]. exists [], c. auto. Qed.

Lemma ewc_nil : forall s, valid_utf8 s -> ends_with_content s [].
Proof. intros s H. destruct (content_total s H) as [c Hc]. exists c, []. rewrite app_nil_r. split; [exact Hc|constructor]. Qed.

Lemma ewc_prefix : forall a b o, valid_utf8 a -> ends_with_content b o -> ends_with_content (a ++ b) o.
Proof.
  intros a b o Ha (p & c & Hb & Ho). destruct (content_total a Ha) as [ca Hca].
  exists (ca ++ p), c. split; [rewrite <- app_assoc; apply content_app; assumption|exact Ho].
Qed.

Lemma ewc_decomp : forall s a t o, s = a ++ t -> valid_utf8 a -> ends_with_content t o -> ends_with_content s o.
Proof. intros s a t o -> Ha H. apply ewc_prefix; assumption. Qed.

Lemma ewc_trim : forall s o, ends_with_content s o -> ends_with_content s (trim_space o).
Proof. intros s o (p & c & Hs & Ho). exists p, c. split; [exact Hs|apply content_trim, Ho]. Qed.

Lemma ewc_trans : forall a b c, ends_with_content a b -> ends_with_content b c -> ends_with_content a c.
Proof.
  intros a b c (p1 & c1 & Ha & Hb) (p2 & c2 & Hb' & Hc).
  rewrite (content_unique _ _ Hb _ Hb') in Ha. exists (p1 ++ p2), c2. rewrite <- app_assoc. auto.
Qed.

(* ---------- characterTail *)

Definition good (text o : bytes) : Prop := valid_utf8 o /\ ends_with_content text o.

Lemma drop_conts_decomp : forall s, exists k, s = k ++ drop_conts s /\ starts_at_boundary (drop_conts s).
Proof.
  induction s as [|b r (k & E & B)]; [exists []; split; [reflexivity|exact I]|].
  cbn [drop_conts]. destruct (is_cont_byte b) eqn:C.
  - exists (b :: k). split; [cbn; f_equal; exact E|exact B].
  - exists []. split; [reflexivity|]. cbn. exact C.
Qed.

Lemma skip_word_decomp : forall f s, valid_utf8 s ->
  exists w, s = w ++ skip_word f s /\ valid_utf8 w /\ valid_utf8 (skip_word f s).
Proof.
  induction f as [|f IH]; intros s Hs; [exists []; repeat split; [constructor|exact Hs]|].
  destruct s as [|b r]; [exists []; repeat split; constructor|].
  cbn [skip_word]. destruct (space_at (b :: r)) eqn:E; [exists []; repeat split; [constructor|exact Hs]|].
  destruct (valid_cons_inv _ Hs ltac:(discriminate)) as (c & r' & Ec & Hc & Hr').
  destruct (uchar_len c Hc) as (h & t & -> & L). cbn [app] in Ec. injection Ec as <- Er.
  assert (K : skipn (rune_len b) (b :: r) = r').
  { rewrite <- L. rewrite Er. change (b :: t ++ r') with ((b :: t) ++ r'). rewrite skipn_app, skipn_all, Nat.sub_diag. reflexivity. }
  rewrite K. destruct (IH r' Hr') as (w & Ew & Vw & Vs).
  exists ((b :: t) ++ w). split; [rewrite <- app_assoc, <- Ew; cbn; f_equal; exact Er|].
  split; [constructor; assumption|exact Vs].
Qed.

Lemma trim_left_length : forall s, (length (trim_left s) <= length s)%nat.
Proof. intros s. destruct (trim_left_decomp s) as (l & E & _). rewrite E at 2. rewrite app_length. lia. Qed.

Lemma drop_conts_length : forall s, (length (drop_conts s) <= length s)%nat.
Proof. intros s. destruct (drop_conts_decomp s) as (k & E & _). rewrite E at 2. rewrite app_length. lia. Qed.

Lemma skip_word_length : forall f s, (length (skip_word f s) <= length s)%nat.
Proof.
  induction f as [|f IH]; intros s; [cbn; lia|]. destruct s as [|b r]; [cbn; lia|].
  cbn [skip_word]. destruct (space_at (b :: r)); [lia|].
  specialize (IH (skipn (rune_len b) (b :: r))). pose proof (skipn_length (rune_len b) (b :: r)). lia.
Qed.

Lemma char_tail_good : forall pw text size, valid_utf8 text -> good text (char_tail pw text size).
Proof.
  intros pw text size Ht. unfold char_tail.
  destruct (blen text <=? size)%Z; [split; [exact Ht|apply ewc_refl, Ht]|].
  set (k := Z.to_nat (blen text - size)).
  destruct (drop_conts_decomp (skipn k text)) as (cs & E & B).
  set (b' := drop_conts (skipn k text)) in *.
  assert (Et : text = (firstn k text ++ cs) ++ b') by (rewrite <- app_assoc, <- E; symmetry; apply firstn_skipn).
  destruct (valid_split _ Ht _ _ Et B) as [Va Vb].
  assert (G : forall rest, valid_utf8 rest -> ends_with_content b' rest ->
              good text (match rest with [] => [] | _ => trim_space rest end)).
  { intros rest Vr Hr. split.
    - destruct rest; [constructor|apply trim_space_valid, Vr].
    - rewrite Et. apply ewc_prefix; [exact Va|].
      destruct rest; [apply ewc_nil, Vb|apply ewc_trim, Hr]. }
  destruct pw; cbv iota.
  - destruct (skip_word_decomp (length b') b' Vb) as (w & Ew & Vw & Vs).
    destruct (trim_left_decomp (skip_word (length b') b')) as (l & El & Hl).
    apply G.
    + eapply valid_drop_left; [exact Hl|]. rewrite <- El. exact Vs.
    + apply (ewc_decomp _ _ _ _ Ew Vw). apply (ewc_decomp _ _ _ _ El (ws_only_valid _ Hl)). apply ewc_refl.
      eapply valid_drop_left; [exact Hl|]. rewrite <- El. exact Vs.
  - apply G; [exact Vb|apply ewc_refl, Vb].
Qed.

Lemma char_tail_len : forall pw text size, (0 <= size)%Z -> (blen (char_tail pw text size) <= size)%Z.
Proof.
  intros pw text size H0. unfold char_tail, blen.
  destruct (Z.leb_spec (Z.of_nat (length text)) size) as [L|L]; [exact L|].
  set (k := Z.to_nat (Z.of_nat (length text) - size)).
  assert (A : (length (drop_conts (skipn k text)) <= Z.to_nat size)%nat).
  { pose proof (drop_conts_length (skipn k text)). pose proof (skipn_length k text). lia. }
  set (b' := drop_conts (skipn k text)) in *.
  assert (G : forall rest, (length rest <= length b')%nat ->
              (Z.of_nat (length (match rest with [] => [] | _ => trim_space rest end)) <= size)%Z).
  { intros rest Hr. destruct rest; [cbn; lia|]. pose proof (trim_space_length (n :: rest)). lia. }
  destruct pw; cbv iota; apply G; [|lia].
  pose proof (trim_left_length (skip_word (length b') b')). pose proof (skip_word_length (length b') b'). lia.
Qed.

(* ---------- lists of pieces *)

Definition contents_of (l : list bytes) (c : bytes) : Prop :=
  exists cs, Forall2 content_of l cs /\ c = concat cs.

Lemma contents_nil : contents_of [] [].
Proof. exists []. split; [constructor|reflexivity]. Qed.

Lemma contents_app : forall a ca b cb, contents_of a ca -> contents_of b cb -> contents_of (a ++ b) (ca ++ cb).
Proof.
  intros a ca b cb (xs & Ha & ->) (ys & Hb & ->). exists (xs ++ ys). split; [apply Forall2_app; assumption|].
  rewrite concat_app. reflexivity.
Qed.

Lemma contents_one : forall x cx, content_of x cx -> contents_of [x] cx.
Proof. intros x cx H. exists [cx]. split; [repeat constructor; exact H|cbn; rewrite app_nil_r; reflexivity]. Qed.

Lemma contents_snoc : forall l c x cx, contents_of l c -> content_of x cx -> contents_of (l ++ [x]) (c ++ cx).
Proof. intros. apply contents_app; [assumption|apply contents_one; assumption]. Qed.

Lemma contents_split : forall a b c, contents_of (a ++ b) c ->
  exists ca cb, c = ca ++ cb /\ contents_of a ca /\ contents_of b cb.
Proof.
  intros a b c (cs & H & ->). apply Forall2_app_inv_l in H. destruct H as (xs & ys & Ha & Hb & ->).
  exists (concat xs), (concat ys). split; [apply concat_app|]. split; [exists xs|exists ys]; auto.
Qed.

Lemma contents_one_inv : forall x c, contents_of [x] c -> content_of x c.
Proof.
  intros x c (cs & H & ->). inversion H as [|? cx ? ? Hx Hr]; subst. inversion Hr; subst.
  cbn. rewrite app_nil_r. exact Hx.
Qed.

Lemma content_nil_inv : forall c, content_of [] c -> c = [].
Proof. intros c H. apply (content_unique _ _ H _ C_nil). Qed.

Lemma is_nil_true : forall b, is_nil b = true -> b = [].
Proof. intros [|x b] H; [reflexivity|discriminate]. Qed.

(* a valid non-empty string begins with one whole character, which is what the loop takes *)
Lemma rune_split : forall b r, valid_utf8 (b :: r) ->
  exists c s', b :: r = c ++ s' /\ uchar c /\ valid_utf8 s' /\
               firstn (rune_len b) (b :: r) = c /\ skipn (rune_len b) (b :: r) = s'.
Proof.
  intros b r Hs. destruct (valid_cons_inv _ Hs ltac:(discriminate)) as (c & r' & Ec & Hc & Hr').
  destruct (uchar_len c Hc) as (h & t & -> & L). cbn [app] in Ec. injection Ec as <- Er.
  exists (b :: t), r'. split; [cbn; f_equal; exact Er|]. split; [exact Hc|]. split; [exact Hr'|].
  rewrite <- L, Er. change (b :: t ++ r') with ((b :: t) ++ r').
  split; [rewrite firstn_app, firstn_all, Nat.sub_diag; cbn [firstn]; apply app_nil_r
         |rewrite skipn_app, skipn_all, Nat.sub_diag; reflexivity].
Qed.

Lemma content_of_app_split : forall a b c, valid_utf8 a -> content_of (a ++ b) c -> valid_utf8 b ->
  exists ca cb, c = ca ++ cb /\ content_of a ca /\ content_of b cb.
Proof.
  intros a b c Va H Vb. destruct (content_total a Va) as [ca Ha]. destruct (content_total b Vb) as [cb Hb].
  exists ca, cb. split; [apply (content_unique _ _ H), content_app; assumption|auto].
Qed.

(* ---------- sentences *)

Lemma skip_ws_decomp : forall f s bits, exists l, s = l ++ fst (skip_ws_bits f s bits) /\ ws_only l.
Proof.
  induction f as [|f IH]; intros s bits; [exists []; split; [reflexivity|constructor]|].
  cbn [skip_ws_bits]. unfold space_at. destruct (strip_token ws_tokens s) as [r|] eqn:E.
  - destruct (strip_token_some _ _ _ E) as (t & Hin & ->). destruct (IH r (tl bits)) as (l & El & Hl).
    exists (t ++ l). split; [rewrite <- app_assoc, <- El; reflexivity|constructor; assumption].
  - exists []. split; [reflexivity|constructor].
Qed.

Lemma sentences_inv : forall f s bits cur acc c_acc c_cur c_s,
  contents_of (rev acc) c_acc -> content_of cur c_cur -> content_of s c_s -> (length s < f)%nat ->
  contents_of (sentences f s bits cur acc) (c_acc ++ c_cur ++ c_s).
Proof.
  induction f as [|f IH]; intros s bits cur acc c_acc c_cur c_s Ha Hc Hs Hf; [lia|].
  destruct s as [|b r].
  - cbn [sentences]. apply content_nil_inv in Hs. subst c_s. rewrite app_nil_r.
    pose proof (content_trim _ _ Hc) as Ht.
    destruct (is_nil (trim_space cur)) eqn:N.
    + apply is_nil_true in N. rewrite N in Ht. apply content_nil_inv in Ht. subst c_cur. rewrite app_nil_r. exact Ha.
    + cbn [rev]. apply contents_snoc; assumption.
  - destruct (content_valid _ _ Hs) as [Vs _].
    destruct (rune_split b r Vs) as (c & s' & Ec & Hu & Vs' & F1 & F2).
    cbn [sentences]. rewrite F1, F2.
    rewrite Ec in Hs. destruct (content_of_app_split c s' c_s (valid_one c Hu) Hs Vs') as (cc & cs' & -> & Hcc & Hs').
    assert (Hcur' : content_of (cur ++ c) (c_cur ++ cc)) by (apply content_app; assumption).
    assert (Ls : (length s' < length (b :: r))%nat).
    { rewrite Ec, app_length. destruct (uchar_len c Hu) as (h & t & -> & _). cbn [length]. lia. }
    destruct (hd false bits).
    + pose proof (content_trim _ _ Hcur') as Hsent.
      destruct (skip_ws_decomp (length s') s' (tl bits)) as (l & El & Hl).
      destruct (skip_ws_bits (length s') s' (tl bits)) as [rest' bits'] eqn:SK. cbn [fst] in El.
      assert (Vr : valid_utf8 rest') by (eapply valid_drop_left; [exact Hl|rewrite <- El; exact Vs']).
      assert (Hr : content_of rest' cs').
      { destruct (content_total rest' Vr) as [cr Hcr].
        pose proof (content_app _ _ _ _ (content_ws l Hl) Hcr) as K. rewrite <- El in K. cbn [app] in K.
        rewrite (content_unique _ _ Hs' _ K). exact Hcr. }
      assert (Ha' : contents_of (rev (if is_nil (trim_space (cur ++ c)) then acc else trim_space (cur ++ c) :: acc)) (c_acc ++ c_cur ++ cc)).
      { destruct (is_nil (trim_space (cur ++ c))) eqn:N.
        - apply is_nil_true in N. rewrite N in Hsent. apply content_nil_inv in Hsent. rewrite Hsent, app_nil_r. exact Ha.
        - cbn [rev]. apply contents_snoc; assumption. }
      pose proof (IH rest' bits' [] _ _ [] cs' Ha' C_nil Hr) as K. cbn [app] in K.
      rewrite <- !app_assoc in K. apply K.
      assert (length rest' <= length s')%nat by (rewrite El, app_length; lia). lia.
    + pose proof (IH s' (tl bits) (cur ++ c) acc c_acc (c_cur ++ cc) cs' Ha Hcur' Hs' ltac:(lia)) as K.
      rewrite <- !app_assoc in K. exact K.
Qed.

Lemma sentences_contents : forall text bits c, content_of text c -> contents_of (sentences_of text bits) c.
Proof.
  intros text bits c H. unfold sentences_of.
  pose proof (sentences_inv (S (length text)) text bits [] [] [] [] c contents_nil C_nil H ltac:(lia)) as K.
  exact K.
Qed.

(* ---------- joining and taking the last pieces *)

Lemma join_content : forall sep l c, ws_only sep -> contents_of l c -> content_of (join sep l) c.
Proof.
  intros sep l c Hsep (cs & H & ->). induction H as [|x cx l cs Hx Hl IH]; [constructor|].
  cbn [join concat]. destruct l as [|y l'].
  - inversion Hl; subst. cbn. rewrite app_nil_r. exact Hx.
  - apply content_app; [exact Hx|]. apply (content_app sep [] _ _ (content_ws _ Hsep)). exact IH.
Qed.

Lemma lastn_contents : forall n l c, contents_of l c -> exists p c', c = p ++ c' /\ contents_of (lastn n l) c'.
Proof.
  intros n l c H. unfold lastn. rewrite <- (firstn_skipn (length l - n) l) in H.
  destruct (contents_split _ _ _ H) as (ca & cb & -> & _ & Hb). exists ca, cb. auto.
Qed.

Lemma ws_sep_blank : ws_only [32].
Proof. apply tokens_only_single. unfold ws_tokens. cbn. tauto. Qed.

Lemma ws_sep_para : ws_only [10; 10].
Proof. change [10; 10] with ([10] ++ [10] ++ []). repeat constructor; unfold ws_tokens; cbn; tauto. Qed.

Lemma joined_tail_good : forall sep n l text c, ws_only sep -> content_of text c -> contents_of l c ->
  good text (trim_space (join sep (lastn n l))).
Proof.
  intros sep n l text c Hsep Ht Hl. destruct (lastn_contents n l c Hl) as (p & c' & -> & Hlast).
  pose proof (join_content sep _ _ Hsep Hlast) as J. pose proof (content_trim _ _ J) as T.
  split; [apply (content_valid _ _ T)|]. exists p, c'. auto.
Qed.

Lemma gen_sentence_good : forall E size text ov n, valid_utf8 text ->
  gen_sentence E size text = Some (ov, n) -> good text ov.
Proof.
  intros E size text ov n Vt H. unfold gen_sentence in H. destruct (E text) as [bits|]; [|discriminate].
  destruct (content_total text Vt) as [c Hc]. pose proof (sentences_contents text bits c Hc) as Hs.
  destruct (sentences_of text bits) as [|s0 ss] eqn:Es.
  - injection H as <- <-. split; [constructor|apply ewc_nil, Vt].
  - injection H as <- <-. rewrite <- Es in *. eapply joined_tail_good; [apply ws_sep_blank|exact Hc|exact Hs].
Qed.

(* ---------- paragraphs *)

Lemma in_ws_nl : In [10] ws_tokens.
Proof. unfold ws_tokens. cbn. tauto. Qed.

Lemma split_nl_inv : forall s cur c, content_of (cur ++ s) c -> contents_of (split_nl s cur) c.
Proof.
  induction s as [|b r IH]; intros cur c H.
  - cbn [split_nl]. rewrite app_nil_r in H. apply contents_one, H.
  - cbn [split_nl]. destruct (N.eqb_spec b 10) as [->|Hb].
    + destruct (content_valid _ _ H) as [V _].
      destruct (valid_after_ascii cur 10 r ltac:(lia) V) as [V1 Vr].
      pose proof (valid_before_token cur [10] in_ws_nl V1) as Vc.
      destruct (content_total cur Vc) as [cc Hcc]. destruct (content_total r Vr) as [cr Hcr].
      pose proof (content_app _ _ _ _ Hcc (C_ws [10] r cr in_ws_nl Hcr)) as K. cbn [app] in K.
      rewrite (content_unique _ _ H _ K).
      change (cur :: split_nl r []) with ([cur] ++ split_nl r []).
      apply contents_app; [apply contents_one, Hcc|apply IH; exact Hcr].
    + apply IH. rewrite <- app_assoc. exact H.
Qed.

Lemma paragraphs_inv : forall lines cur acc c_l c_cur c_acc,
  contents_of lines c_l -> content_of cur c_cur -> contents_of (rev acc) c_acc ->
  contents_of (paragraphs lines cur acc) (c_acc ++ c_cur ++ c_l).
Proof.
  induction lines as [|l r IH]; intros cur acc c_l c_cur c_acc Hl Hc Ha.
  - cbn [paragraphs]. destruct Hl as (cs & F & ->). inversion F; subst. cbn [concat]. rewrite app_nil_r.
    destruct (is_nil cur) eqn:N.
    + apply is_nil_true in N. subst cur. apply content_nil_inv in Hc. subst c_cur. rewrite app_nil_r. exact Ha.
    + cbn [rev]. apply contents_snoc; [exact Ha|apply content_trim, Hc].
  - change (l :: r) with ([l] ++ r) in Hl. destruct (contents_split _ _ _ Hl) as (cl & cr & -> & Hl1 & Hr).
    apply contents_one_inv in Hl1. pose proof (content_trim _ _ Hl1) as Ht.
    cbn [paragraphs]. destruct (is_nil (trim_space l)) eqn:N.
    + apply is_nil_true in N. rewrite N in Ht. apply content_nil_inv in Ht. subst cl. cbn [app].
      destruct (is_nil cur) eqn:N2.
      * apply IH; assumption.
      * pose proof (IH [] (trim_space cur :: acc) cr [] (c_acc ++ c_cur) Hr C_nil) as K. cbn [app rev] in K.
        rewrite <- app_assoc in K. apply K. apply contents_snoc; [exact Ha|apply content_trim, Hc].
    + destruct (is_nil cur) eqn:N2.
      * apply is_nil_true in N2. subst cur. apply content_nil_inv in Hc. subst c_cur. cbn [app].
        exact (IH (trim_space l) acc cr cl c_acc Hr Ht Ha).
      * pose proof (IH (cur ++ [32] ++ trim_space l) acc cr (c_cur ++ cl) c_acc Hr) as K.
        rewrite <- !app_assoc in K. apply K; [|exact Ha].
        apply content_app; [exact Hc|]. apply (content_app [32] [] _ _ (content_ws _ ws_sep_blank) Ht).
Qed.

Lemma gen_paragraph_good : forall size text, valid_utf8 text -> good text (fst (gen_paragraph size text)).
Proof.
  intros size text Vt. unfold gen_paragraph.
  destruct (content_total text Vt) as [c Hc].
  pose proof (split_nl_inv text [] c Hc) as Hl.
  pose proof (paragraphs_inv _ [] [] c [] [] Hl C_nil contents_nil) as Hp. cbn [app] in Hp.
  destruct (paragraphs (split_nl text []) [] []) as [|p0 ps] eqn:Ep.
  - cbn [fst]. split; [constructor|apply ewc_nil, Vt].
  - cbn [fst]. rewrite <- Ep in *. eapply joined_tail_good; [apply ws_sep_para|exact Hc|exact Hp].
Qed.

(* ---------- truncation *)

Lemma trunc_inv : forall max l_rev result c_l cr,
  contents_of (rev l_rev) c_l -> content_of result cr ->
  exists p c', c_l ++ cr = p ++ c' /\ content_of (trunc_loop max l_rev result) c'.
Proof.
  induction l_rev as [|s r IH]; intros result c_l cr Hl Hr.
  - cbn [trunc_loop]. exists c_l, cr. auto.
  - cbn [rev] in Hl. destruct (contents_split _ _ _ Hl) as (c_r & cs & -> & Hrr & Hs1).
    apply contents_one_inv in Hs1. cbn [trunc_loop].
    assert (Ht : content_of (if is_nil result then s else s ++ [32] ++ result) (cs ++ cr)).
    { destruct (is_nil result) eqn:N.
      - apply is_nil_true in N. subst result. apply content_nil_inv in Hr. subst cr. rewrite app_nil_r. exact Hs1.
      - apply content_app; [exact Hs1|]. apply (content_app [32] [] _ _ (content_ws _ ws_sep_blank) Hr). }
    destruct (Z.gtb (blen (if is_nil result then s else s ++ [32] ++ result)) max).
    + exists (c_r ++ cs), cr. auto.
    + destruct (IH _ c_r (cs ++ cr) Hrr Ht) as (p & c' & E & H). exists p, c'. rewrite <- app_assoc. auto.
Qed.

Lemma trunc_len : forall max l_rev result, (blen result <= max)%Z -> (blen (trunc_loop max l_rev result) <= max)%Z.
Proof.
  induction l_rev as [|s r IH]; intros result H; [exact H|]. cbn [trunc_loop].
  destruct (Z.gtb_spec (blen (if is_nil result then s else s ++ [32] ++ result)) max); [exact H|apply IH; lia].
Qed.

Lemma truncate_good : forall E pw max text o o', good text o -> truncate E pw max o = Some o' -> good text o'.
Proof.
  intros E pw max text o o' [Vo Ho] H. unfold truncate in H.
  destruct (blen o <=? max)%Z; [injection H as <-; split; assumption|].
  destruct (E o) as [bits|]; [|discriminate]. injection H as <-.
  destruct (content_total o Vo) as [c Hc].
  pose proof (sentences_contents o bits c Hc) as Hs. rewrite <- (rev_involutive (sentences_of o bits)) in Hs.
  destruct (trunc_inv max (rev (sentences_of o bits)) [] c [] Hs C_nil) as (p & c' & E1 & Hr).
  rewrite app_nil_r in E1. subst c.
  destruct (is_nil (trunc_loop max (rev (sentences_of o bits)) [])).
  - destruct (char_tail_good pw o max Vo) as [V2 H2]. split; [exact V2|eapply ewc_trans; eassumption].
  - split; [apply (content_valid _ _ Hr)|]. eapply ewc_trans; [exact Ho|]. exists p, c'. auto.
Qed.

Lemma truncate_len : forall E pw max o o', (0 <= max)%Z -> truncate E pw max o = Some o' -> (blen o' <= max)%Z.
Proof.
  intros E pw max o o' H0 H. unfold truncate in H.
  destruct (Z.leb_spec (blen o) max); [injection H as <-; assumption|].
  destruct (E o) as [bits|]; [|discriminate]. injection H as <-.
  destruct (is_nil (trunc_loop max (rev (sentences_of o bits)) [])).
  - apply char_tail_len, H0.
  - apply trunc_len. cbn. exact H0.
Qed.

(* ---------- GenerateOverlap *)

(* valid UTF-8, the end of the chunk's own content *)
Theorem overlap_is_the_end_of_the_chunk : forall E c text o,
  valid_utf8 text -> generate E c text = Some o -> valid_utf8 o /\ ends_with_content text o.
Proof.
  intros E c text o Vt H. unfold generate in H.
  assert (G0 : good text []) by (split; [constructor|apply ewc_nil, Vt]).
  destruct ((o_strategy c =? 0) || (o_size c <=? 0))%Z; [injection H as <-; exact G0|].
  assert (G1 : exists ov sc,
             (if (o_strategy c =? 1)%Z then Some (char_tail (o_pw c) text (o_size c), O)
              else if (o_strategy c =? 2)%Z then gen_sentence E (o_size c) text
              else if (o_strategy c =? 3)%Z then Some (gen_paragraph (o_size c) text)
              else Some ([], O)) = Some (ov, sc) /\ good text ov
           \/ (if (o_strategy c =? 1)%Z then Some (char_tail (o_pw c) text (o_size c), O)
              else if (o_strategy c =? 2)%Z then gen_sentence E (o_size c) text
              else if (o_strategy c =? 3)%Z then Some (gen_paragraph (o_size c) text)
              else Some ([], O)) = None).
  { destruct (o_strategy c =? 1)%Z; [exists (char_tail (o_pw c) text (o_size c)), O; left; split; [reflexivity|apply char_tail_good, Vt]|].
    destruct (o_strategy c =? 2)%Z.
    - destruct (gen_sentence E (o_size c) text) as [[ov sc]|] eqn:Eg.
      + exists ov, sc. left. split; [reflexivity|eapply gen_sentence_good; eassumption].
      + exists [], O. right. reflexivity.
    - destruct (o_strategy c =? 3)%Z.
      + destruct (gen_paragraph (o_size c) text) as [ov sc] eqn:Eg. exists ov, sc. left. split; [reflexivity|].
        pose proof (gen_paragraph_good (o_size c) text Vt) as K. rewrite Eg in K. exact K.
      + exists [], O. left. split; [reflexivity|exact G0]. }
  destruct G1 as (ov & sc & [[E1 Gov]|E1]); rewrite E1 in H; [|discriminate].
  destruct (negb ((1 <=? o_strategy c) && (o_strategy c <=? 3))%Z); [injection H as <-; exact G0|].
  set (ov1 := if (blen ov <? o_min c)%Z && (o_strategy c =? 2)%Z && Nat.eqb sc 0
              then char_tail (o_pw c) text (o_size c) else ov) in *.
  assert (G2 : good text ov1).
  { unfold ov1. destruct ((blen ov <? o_min c)%Z && (o_strategy c =? 2)%Z && Nat.eqb sc 0); [apply char_tail_good, Vt|exact Gov]. }
  destruct (blen ov1 >? o_max c)%Z.
  - destruct (truncate E (o_pw c) (o_max c) ov1) as [ov2|] eqn:Et; [|discriminate].
    injection H as <-. destruct (blen ov2 <? o_min c)%Z; [exact G0|eapply truncate_good; eassumption].
  - injection H as <-. destruct (blen ov1 <? o_min c)%Z; [exact G0|exact G2].
Qed.

(* never longer than MaxOverlap, and never a non-empty overlap shorter than MinOverlap *)
Theorem overlap_respects_its_bounds : forall E c text o,
  generate E c text = Some o ->
  ((0 <= o_max c)%Z -> (blen o <= o_max c)%Z) /\ (o = [] \/ (o_min c <= blen o)%Z).
Proof.
  intros E c text o H. unfold generate in H.
  destruct ((o_strategy c =? 0) || (o_size c <=? 0))%Z; [injection H as <-; split; [cbn; lia|left; reflexivity]|].
  destruct (if (o_strategy c =? 1)%Z then Some (char_tail (o_pw c) text (o_size c), O)
            else if (o_strategy c =? 2)%Z then gen_sentence E (o_size c) text
            else if (o_strategy c =? 3)%Z then Some (gen_paragraph (o_size c) text)
            else Some ([], O)) as [[ov sc]|]; [|discriminate].
  destruct (negb ((1 <=? o_strategy c) && (o_strategy c <=? 3))%Z); [injection H as <-; split; [cbn; lia|left; reflexivity]|].
  set (ov1 := if (blen ov <? o_min c)%Z && (o_strategy c =? 2)%Z && Nat.eqb sc 0
              then char_tail (o_pw c) text (o_size c) else ov) in *.
  destruct (Z.gtb_spec (blen ov1) (o_max c)).
  - destruct (truncate E (o_pw c) (o_max c) ov1) as [ov2|] eqn:Et; [|discriminate].
    injection H as <-. destruct (Z.ltb_spec (blen ov2) (o_min c)); [split; [cbn; lia|left; reflexivity]|].
    split; [intros Hmax; eapply truncate_len; eassumption|right; lia].
  - injection H as <-. destruct (Z.ltb_spec (blen ov1) (o_min c)); [split; [cbn; lia|left; reflexivity]|].
    split; [intros _; lia|right; lia].
Qed.

(* ---------- ApplyOverlapToChunks: every prefix comes from the previous chunk's own text *)

Fixpoint chain_ok (c : ocfg) (prev : option bytes) (texts : list bytes) (out : list (bytes * bytes)) : Prop :=
  match texts, out with
  | [], [] => True
  | t :: r, (ov, nt) :: r' =>
      match prev with
      | None => ov = []
      | Some p => valid_utf8 ov /\ ends_with_content p ov /\
                  ((0 <= o_max c)%Z -> (blen ov <= o_max c)%Z) /\ (ov = [] \/ (o_min c <= blen ov)%Z)
      end
      /\ nt = (if is_nil ov then t else ov ++ [10; 10] ++ t)
      /\ chain_ok c (Some t) r r'
  | _, _ => False
  end.

Theorem overlap_along_a_chunk_sequence : forall E c texts prev out,
  Forall valid_utf8 texts -> match prev with Some p => valid_utf8 p | None => True end ->
  apply_chunks E c prev texts = Some out -> chain_ok c prev texts out.
Proof.
  intros E c texts. induction texts as [|t r IH]; intros prev out Vt Vp H.
  - cbn in H. injection H as <-. exact I.
  - inversion Vt as [|? ? V1 Vr]; subst. cbn [apply_chunks] in H.
    destruct (match prev with
              | Some p => if (o_strategy c =? 0)%Z then Some [] else generate E c p
              | None => Some []
              end) as [ov|] eqn:Eo; [|discriminate].
    destruct (apply_chunks E c (Some t) r) as [rest|] eqn:Er; [|discriminate].
    injection H as <-. cbn [chain_ok]. split; [|split; [reflexivity|apply IH; assumption]].
    destruct prev as [p|]; [|injection Eo as <-; reflexivity].
    destruct (o_strategy c =? 0)%Z.
    + injection Eo as <-. split; [constructor|]. split; [apply ewc_nil, Vp|]. split; [cbn; lia|left; reflexivity].
    + destruct (overlap_is_the_end_of_the_chunk E c p ov Vp Eo) as [A B].
      destruct (overlap_respects_its_bounds E c p ov Eo) as [C D]. auto.
Qed.

(* ---------- the statements are about something *)

(* the content of "Dr. Who came.  It  rained. " is "Dr.Whocame.Itrained."; with two sentences asked for
   and the oracle of the implementation (a sentence ends after "came." and after "rained.") the overlap
   is the whole text trimmed; with MaxOverlap 12 it is the last sentence *)
Definition demo_text : bytes := bs "Dr. Who came.  It  rained. ".
Definition demo_bits : list bool :=
  map (fun i => orb (Nat.eqb i 12) (Nat.eqb i 25)) (seq 0 27).
Definition demo_E : oracle := fun s =>
  if bytes_eqb s demo_text then Some demo_bits
  else if bytes_eqb s (bs "Dr. Who came. It  rained.") then Some (map (fun i => orb (Nat.eqb i 12) (Nat.eqb i 24)) (seq 0 25))
  else None.

Example demo_overlap :
  generate demo_E {| o_strategy := 2; o_size := 2; o_min := 5; o_max := 500; o_pw := true |} demo_text
    = Some (bs "Dr. Who came. It  rained.")
  /\ generate demo_E {| o_strategy := 2; o_size := 2; o_min := 5; o_max := 12; o_pw := true |} demo_text
    = Some (bs "It  rained.")
  /\ generate demo_E {| o_strategy := 1; o_size := 9; o_min := 0; o_max := 500; o_pw := true |} (bs "caf" ++ [195; 169] ++ bs " au lait")
    = Some (bs "au lait")
  /\ generate demo_E {| o_strategy := 1; o_size := 9; o_min := 0; o_max := 500; o_pw := false |} (bs "ab" ++ [227; 129; 130; 227; 129; 130; 227; 129; 130; 227; 129; 130])
    = Some [227; 129; 130; 227; 129; 130; 227; 129; 130].
Proof. repeat split; vm_compute; reflexivity. Qed.

Example demo_content : content_of demo_text (bs "Dr.Whocame.Itrained.") /\ valid_utf8 demo_text.
Proof.
  assert (V : valid_utf8 demo_text).
  { unfold demo_text. cbn.
    repeat (match goal with |- valid_utf8 (?x :: ?r) => change (x :: r) with ([x] ++ r); constructor; [apply U1; reflexivity|] end).
    constructor. }
  split; [|exact V]. unfold demo_text. cbn.
  repeat first
    [ exact C_nil
    | match goal with |- content_of (32 :: ?r) _ => change (32 :: r) with ([32] ++ r); apply C_ws; [unfold ws_tokens; cbn; tauto|] end
    | match goal with |- content_of (?x :: ?r) (?x :: ?c) => change (x :: r) with ([x] ++ r); change (x :: c) with ([x] ++ c);
        apply C_ch; [apply U1; reflexivity|unfold ws_tokens; cbn; intuition discriminate|] end ].
Qed.
