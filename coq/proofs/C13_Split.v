(* SplitToSize: termination, conservation and UTF-8 integrity for every size
   predicate and every target / limit position. *)
From Tabula Require Import base.Val base.Utf8 model.C13_Split proofs.C13_Trim.
From Coq Require Import Lia ZifyN ZifyNat ZifyBool.
Open Scope N_scope.

Section AnyConfig.
  Variable above : bytes -> bool.
  Variable target limit : nat.

  (* ---------- termination *)
  Lemma split_loop_terminates fuel : forall rem acc, (length rem < fuel)%nat ->
    exists l, split_loop above target limit fuel rem acc = Ok l.
  Proof.
    induction fuel as [|f IH]; intros rem acc H; [lia|]. cbn [split_loop].
    destruct (is_nil rem); [eexists; reflexivity|].
    destruct (negb (above rem)); [eexists; reflexivity|].
    destruct (Nat.eqb (split_pos target limit rem) 0 || Nat.leb (length rem) (split_pos target limit rem)) eqn:E;
      [eexists; reflexivity|].
    apply IH. apply orb_false_iff in E as [E1 E2].
    apply Nat.eqb_neq in E1. apply Nat.leb_gt in E2.
    pose proof (trim_space_length (skipn (split_pos target limit rem) rem)) as L.
    rewrite skipn_length in L. lia.
  Qed.

  Theorem split_terminates t : exists l, split_to_size above target limit t = Ok l.
  Proof. unfold split_to_size. apply split_loop_terminates. lia. Qed.

  (* ---------- conservation: the text is exactly the pieces, in order, separated
     and surrounded only by whitespace *)
  Inductive covers : bytes -> list bytes -> Prop :=
  | Cov_nil g : ws_only g -> covers g []
  | Cov_cons g p rest ps : ws_only g -> covers rest ps -> covers (g ++ p ++ rest) (p :: ps).

  Lemma covers_gap_left g s ps : ws_only g -> covers s ps -> covers (g ++ s) ps.
  Proof.
    intros Hg H. destruct H as [g' Hg'|g' p rest ps Hg' Hc].
    - constructor. apply tokens_only_app; assumption.
    - rewrite app_assoc. constructor; [apply tokens_only_app; assumption|exact Hc].
  Qed.

  Lemma covers_gap_right s ps : covers s ps -> forall g, ws_only g -> covers (s ++ g) ps.
  Proof.
    induction 1 as [g' Hg'|g' p rest ps Hg' Hc IH]; intros g Hg.
    - constructor. apply tokens_only_app; assumption.
    - rewrite <- !app_assoc. constructor; [exact Hg'|]. apply IH. exact Hg.
  Qed.

  Lemma covers_single s : covers s [s].
  Proof.
    rewrite <- (app_nil_l s) at 1. rewrite <- (app_nil_r s) at 1.
    constructor; [constructor|constructor; constructor].
  Qed.

  Lemma covers_trim s ps : covers (trim_space s) ps -> covers s ps.
  Proof.
    intro H. destruct (trim_space_decomp s) as [l [r [E [Hl Hr]]]]. rewrite E.
    apply covers_gap_left; [exact Hl|]. apply covers_gap_right; assumption.
  Qed.

  Lemma split_loop_covers fuel : forall rem acc l,
    split_loop above target limit fuel rem acc = Ok l -> exists ps, l = acc ++ ps /\ covers rem ps.
  Proof.
    induction fuel as [|f IH]; intros rem acc l H; cbn [split_loop] in H; [discriminate|].
    destruct rem as [|b rem']; cbn [is_nil] in H.
    - inversion H; subst. exists []. rewrite app_nil_r. split; [reflexivity|constructor; constructor].
    - set (rem := b :: rem') in *.
      destruct (negb (above rem)).
      + inversion H; subst. exists [rem]. split; [reflexivity|apply covers_single].
      + destruct (Nat.eqb (split_pos target limit rem) 0 || Nat.leb (length rem) (split_pos target limit rem)).
        * inversion H; subst. exists [rem]. split; [reflexivity|apply covers_single].
        * set (sp := split_pos target limit rem) in *.
          apply IH in H as [ps [El Hc]].
          apply covers_trim in Hc.
          rewrite <- (firstn_skipn sp rem).
          destruct (trim_space_decomp (firstn sp rem)) as [g1 [g2 [E1 [H1 H2]]]].
          destruct (trim_space (firstn sp rem)) as [|c chunk] eqn:Et; cbn [is_nil] in El.
          -- exists ps. split; [exact El|]. rewrite E1. cbn [app]. rewrite <- app_assoc.
             apply covers_gap_left; [exact H1|]. apply covers_gap_left; assumption.
          -- exists ((c :: chunk) :: ps). split; [rewrite El, <- app_assoc; reflexivity|].
             rewrite E1. rewrite <- !app_assoc. constructor; [exact H1|].
             apply covers_gap_left; assumption.
  Qed.

  Theorem split_conserves t l : split_to_size above target limit t = Ok l -> covers t l.
  Proof.
    unfold split_to_size. intro H. apply split_loop_covers in H as [ps [E Hc]]. cbn in E. subst l.
    destruct (above t); [apply covers_trim|]; exact Hc.
  Qed.

  (* ---------- UTF-8: every cut position is a character boundary *)
  Definition good_cut (s : bytes) (p : nat) : Prop :=
    p = O \/ (length s <= p)%nat \/ (exists i, p = S i /\ (i < length s)%nat /\ at_ s i < 128) \/
    ((p < length s)%nat /\ is_cont_byte (at_ s p) = false).

  Lemma brk_ascii c : is_brk c = true -> c < 128.
  Proof. unfold is_brk. lia. Qed.
  Lemma send_ascii c : is_send c = true -> c < 128.
  Proof. unfold is_send. lia. Qed.

  Lemma sent_back_good s n k : forall i p, sent_back s n i k = Some p -> n = length s -> good_cut s p.
  Proof.
    induction k as [|k IH]; intros i p H Hn; cbn [sent_back] in H; [discriminate|].
    destruct (Nat.ltb i n && is_send (at_ s i) && Nat.ltb (S i) n && is_brk (at_ s (S i))) eqn:E.
    - inversion H; subst. right. right. left. exists i. split; [reflexivity|].
      apply andb_true_iff in E as [E _]. apply andb_true_iff in E as [E _]. apply andb_true_iff in E as [E1 E2].
      apply Nat.ltb_lt in E1. split; [exact E1|apply send_ascii; exact E2].
    - destruct i as [|i']; [discriminate|]. eapply IH; eassumption.
  Qed.

  Lemma sent_fwd_good s n k : forall i p, sent_fwd s n i k = Some p -> n = length s -> good_cut s p.
  Proof.
    induction k as [|k IH]; intros i p H Hn; cbn [sent_fwd] in H; [discriminate|].
    destruct (Nat.leb n i) eqn:El; [discriminate|]. apply Nat.leb_gt in El.
    destruct (is_send (at_ s i) && (Nat.leb n (S i) || is_brk (at_ s (S i)))) eqn:E.
    - inversion H; subst. right. right. left. exists i. split; [reflexivity|].
      apply andb_true_iff in E as [E _]. split; [exact El|apply send_ascii; exact E].
    - eapply IH; eassumption.
  Qed.

  Lemma word_back_good s k : forall i p, (i < length s)%nat -> word_back s i k = Some p -> good_cut s p.
  Proof.
    induction k as [|k IH]; intros i p Hi H; cbn [word_back] in H; [discriminate|].
    destruct (is_brk (at_ s i)) eqn:E.
    - inversion H; subst. right. right. left. exists i. split; [reflexivity|]. split; [exact Hi|apply brk_ascii; exact E].
    - destruct i as [|i']; [discriminate|]. apply (IH i'); [lia|exact H].
  Qed.

  Lemma word_fwd_good s n k : forall i p, word_fwd s n i k = Some p -> n = length s -> good_cut s p.
  Proof.
    induction k as [|k IH]; intros i p H Hn; cbn [word_fwd] in H; [discriminate|].
    destruct (Nat.leb n i) eqn:El; [discriminate|]. apply Nat.leb_gt in El.
    destruct (is_brk (at_ s i)) eqn:E.
    - inversion H; subst. right. right. left. exists i. split; [reflexivity|]. split; [exact El|apply brk_ascii; exact E].
    - eapply IH; eassumption.
  Qed.

  Lemma rune_start_back_good s : forall i, (i < length s)%nat -> good_cut s (rune_start_back s i).
  Proof.
    induction i as [|i IH]; intro Hi; cbn [rune_start_back]; [left; reflexivity|].
    destruct (is_cont_byte (at_ s (S i))) eqn:E.
    - apply IH. lia.
    - right. right. right. split; assumption.
  Qed.

  Lemma pull_back_good s : forall i p, (i < length s)%nat -> pull_back s i = Some p -> good_cut s p.
  Proof.
    induction i as [|i IH]; intros p Hi H; cbn [pull_back] in H; [discriminate|].
    destruct (is_brk (at_ s (S i))) eqn:E.
    - inversion H; subst. right. right. left. exists (S i). split; [reflexivity|]. split; [exact Hi|apply brk_ascii; exact E].
    - apply IH; [lia|exact H].
  Qed.

  Lemma find_split_good s t : good_cut s (find_split s t).
  Proof.
    unfold find_split. destruct (Nat.leb (length s) t) eqn:E; [right; left; lia|].
    apply Nat.leb_gt in E. unfold sentence_end_near. rewrite (proj2 (Nat.leb_gt _ _) E).
    destruct (sent_back s (length s) t 100) eqn:E1; [eapply sent_back_good; eauto|].
    destruct (sent_fwd s (length s) t 100) eqn:E2; [eapply sent_fwd_good; eauto|].
    unfold word_boundary_near. rewrite (proj2 (Nat.leb_gt _ _) E).
    destruct (word_back s t 50) eqn:E3; [eapply word_back_good; eauto|].
    destruct (word_fwd s (length s) t 50) eqn:E4; [eapply word_fwd_good; eauto|].
    apply rune_start_back_good. exact E.
  Qed.

  Lemma split_pos_good s : good_cut s (split_pos target limit s).
  Proof.
    unfold split_pos.
    destruct (Nat.ltb 0 limit && Nat.ltb limit (find_split s target) && Nat.leb (find_split s target) (length s)) eqn:E;
      [|apply find_split_good].
    destruct (pull_back s limit) eqn:Ep; [|apply find_split_good].
    apply andb_true_iff in E as [E E3]. apply andb_true_iff in E as [E1 E2].
    apply Nat.ltb_lt in E2. apply Nat.leb_le in E3.
    eapply pull_back_good; [|exact Ep]. lia.
  Qed.

  Lemma nth_split_at (s : bytes) i : (i < length s)%nat -> s = firstn i s ++ at_ s i :: skipn (S i) s.
  Proof.
    revert i. induction s as [|x s IH]; intros i H; cbn in H; [lia|].
    destruct i as [|i]; cbn; [reflexivity|]. f_equal. apply IH. lia.
  Qed.

  Lemma firstn_S_snoc (s : bytes) i : (i < length s)%nat -> firstn (S i) s = firstn i s ++ [at_ s i].
  Proof.
    revert i. induction s as [|x s IH]; intros i H; cbn in H; [lia|].
    destruct i as [|i]; [reflexivity|]. cbn [firstn app]. f_equal.
    change (at_ (x :: s) (S i)) with (at_ s i). apply IH. lia.
  Qed.

  Lemma good_cut_valid s p : good_cut s p -> valid_utf8 s -> valid_utf8 (firstn p s) /\ valid_utf8 (skipn p s).
  Proof.
    intros [->|[H|[[i [-> [Hi Hc]]]|[Hp Hc]]]] Hv.
    - cbn. split; [constructor|exact Hv].
    - rewrite firstn_all2, skipn_all2 by lia. split; [exact Hv|constructor].
    - rewrite (nth_split_at s i Hi) in Hv. apply valid_after_ascii in Hv; [|exact Hc].
      rewrite firstn_S_snoc by exact Hi. exact Hv.
    - apply (valid_split s Hv); [symmetry; apply firstn_skipn|].
      rewrite (nth_split_at s p Hp). rewrite skipn_app, skipn_firstn_comm.
      replace (p - p)%nat with O by lia. rewrite firstn_length, Nat.min_l by lia.
      replace (p - p)%nat with O by lia. cbn. exact Hc.
  Qed.

  Lemma split_loop_valid fuel : forall rem acc l,
    split_loop above target limit fuel rem acc = Ok l ->
    valid_utf8 rem -> Forall valid_utf8 acc -> Forall valid_utf8 l.
  Proof.
    induction fuel as [|f IH]; intros rem acc l H Hv Ha; cbn [split_loop] in H; [discriminate|].
    destruct (is_nil rem); [inversion H; subst; exact Ha|].
    destruct (negb (above rem)).
    { inversion H; subst. apply Forall_app. split; [exact Ha|constructor; [exact Hv|constructor]]. }
    destruct (Nat.eqb (split_pos target limit rem) 0 || Nat.leb (length rem) (split_pos target limit rem)).
    { inversion H; subst. apply Forall_app. split; [exact Ha|constructor; [exact Hv|constructor]]. }
    destruct (good_cut_valid rem _ (split_pos_good rem) Hv) as [V1 V2].
    eapply IH; [exact H|apply trim_space_valid; exact V2|].
    destruct (is_nil (trim_space (firstn (split_pos target limit rem) rem))); [exact Ha|].
    apply Forall_app. split; [exact Ha|constructor; [apply trim_space_valid; exact V1|constructor]].
  Qed.

  Theorem split_utf8 t l : valid_utf8 t -> split_to_size above target limit t = Ok l -> Forall valid_utf8 l.
  Proof.
    intros Hv H. unfold split_to_size in H. eapply split_loop_valid; [exact H| |constructor].
    destruct (above t); [apply trim_space_valid|]; exact Hv.
  Qed.
End AnyConfig.
