(* strings.TrimSpace model: decomposition, length and UTF-8 lemmas *)
From Tabula Require Import base.Val base.Utf8 model.C13_Split.
From Coq Require Import Lia ZifyN ZifyNat ZifyBool.
Open Scope N_scope.

(* concatenations of tokens *)
Inductive tokens_only (toks : list bytes) : bytes -> Prop :=
| TO_nil : tokens_only toks []
| TO_cons t g : In t toks -> tokens_only toks g -> tokens_only toks (t ++ g).

Definition ws_only : bytes -> Prop := tokens_only ws_tokens.

Lemma tokens_only_app toks a b : tokens_only toks a -> tokens_only toks b -> tokens_only toks (a ++ b).
Proof. induction 1; intro Hb; [exact Hb|]. rewrite <- app_assoc. constructor; auto. Qed.

Lemma tokens_only_single toks t : In t toks -> tokens_only toks t.
Proof. intro H. rewrite <- (app_nil_r t). constructor; [exact H|constructor]. Qed.

Lemma strip_prefix_some p : forall s r, strip_prefix p s = Some r -> s = p ++ r.
Proof.
  induction p as [|x p IH]; intros s r H; cbn in H.
  - inversion H. reflexivity.
  - destruct s as [|y s]; [discriminate|]. destruct (N.eqb_spec x y); [|discriminate].
    subst. cbn. f_equal. apply IH. exact H.
Qed.

Lemma strip_token_some toks : forall s r, strip_token toks s = Some r -> exists t, In t toks /\ s = t ++ r.
Proof.
  induction toks as [|t toks IH]; intros s r H; cbn in H; [discriminate|].
  destruct (strip_prefix t s) as [r'|] eqn:E.
  - inversion H; subst. exists t. split; [left; reflexivity|]. apply strip_prefix_some. exact E.
  - destruct (IH s r H) as [t' [Hin Es]]. exists t'. split; [right; exact Hin|exact Es].
Qed.

Lemma trim_with_decomp toks fuel : forall s, exists l, s = l ++ trim_with toks fuel s /\ tokens_only toks l.
Proof.
  induction fuel as [|f IH]; intro s; cbn [trim_with].
  - exists []. split; [reflexivity|constructor].
  - destruct (strip_token toks s) as [r|] eqn:E.
    + destruct (strip_token_some _ _ _ E) as [t [Hin Es]]. destruct (IH r) as [l [El Hl]].
      exists (t ++ l). split.
      * rewrite <- app_assoc. rewrite <- El. exact Es.
      * constructor; assumption.
    + exists []. split; [reflexivity|constructor].
Qed.

Lemma tokens_only_rev toks g : tokens_only (map (@rev N) toks) g -> tokens_only toks (rev g).
Proof.
  induction 1 as [|t g Hin Hg IH]; [constructor|].
  rewrite rev_app_distr. apply tokens_only_app; [exact IH|].
  apply in_map_iff in Hin as [t0 [E Hin0]]. subst t. rewrite rev_involutive.
  apply tokens_only_single. exact Hin0.
Qed.

Lemma trim_left_decomp s : exists l, s = l ++ trim_left s /\ ws_only l.
Proof. apply trim_with_decomp. Qed.

Lemma trim_right_decomp s : exists r, s = trim_right s ++ r /\ ws_only r.
Proof.
  unfold trim_right. destruct (trim_with_decomp (map (@rev N) ws_tokens) (length s) (rev s)) as [l [E H]].
  exists (rev l). split.
  - rewrite <- rev_app_distr. rewrite <- E. symmetry. apply rev_involutive.
  - apply tokens_only_rev. exact H.
Qed.

Lemma trim_space_decomp s : exists l r, s = l ++ trim_space s ++ r /\ ws_only l /\ ws_only r.
Proof.
  unfold trim_space. destruct (trim_left_decomp s) as [l [El Hl]].
  destruct (trim_right_decomp (trim_left s)) as [r [Er Hr]].
  exists l, r. split; [|split; assumption]. rewrite <- Er. exact El.
Qed.

Lemma trim_space_length s : (length (trim_space s) <= length s)%nat.
Proof.
  destruct (trim_space_decomp s) as [l [r [E _]]]. rewrite E at 2. rewrite !app_length. lia.
Qed.

(* ---------- UTF-8 *)
Definition token_head_ok (t : bytes) : bool :=
  match t with [] => false | h :: _ => negb (is_cont h) end.
Lemma ws_tokens_heads : forallb token_head_ok ws_tokens = true.
Proof. vm_compute. reflexivity. Qed.

Lemma token_boundary t : In t ws_tokens -> starts_at_boundary t /\ t <> [].
Proof.
  intro H. pose proof ws_tokens_heads as A. rewrite forallb_forall in A. specialize (A t H).
  destruct t as [|h t]; [discriminate|]. cbn in *. split; [|discriminate].
  apply negb_true_iff in A. exact A.
Qed.

(* every token is a whole character: a valid string that begins with a token continues validly after it *)
Lemma valid_after_token t r : In t ws_tokens -> valid_utf8 (t ++ r) -> valid_utf8 r.
Proof.
  intros Hin H. unfold ws_tokens in Hin. cbn [In] in Hin.
  repeat (destruct Hin as [<-|Hin]; [
    inversion H as [|c s' Hc Hs E]; destruct Hc; cbn in E; inversion E; subst;
      unfold is_cont in *; try lia; assumption |]).
  contradiction.
Qed.

Lemma valid_before_token s t : In t ws_tokens -> valid_utf8 (s ++ t) -> valid_utf8 s.
Proof.
  intros Hin H. destruct (token_boundary t Hin) as [Hb _].
  destruct (valid_split _ H s t eq_refl Hb) as [Hs _]. exact Hs.
Qed.

Lemma valid_drop_left l : ws_only l -> forall r, valid_utf8 (l ++ r) -> valid_utf8 r.
Proof.
  induction 1 as [|t g Hin Hg IH]; intros r H; [exact H|].
  rewrite <- app_assoc in H. apply IH. eapply valid_after_token; eassumption.
Qed.

Lemma ws_only_snoc_inv : forall r, ws_only r -> r = [] \/ exists r' t, r = r' ++ t /\ In t ws_tokens /\ ws_only r'.
Proof.
  induction 1 as [|t g Hin Hg IH]; [left; reflexivity|]. right.
  destruct IH as [->|[r' [t' [E [Hin' Hr']]]]].
  - exists [], t. rewrite app_nil_r. split; [reflexivity|]. split; [exact Hin|constructor].
  - exists (t ++ r'), t'. subst g. rewrite app_assoc. split; [reflexivity|]. split; [exact Hin'|].
    constructor; assumption.
Qed.

Lemma valid_drop_right : forall n r, length r = n -> ws_only r -> forall s, valid_utf8 (s ++ r) -> valid_utf8 s.
Proof.
  induction n as [n IHn] using lt_wf_ind. intros r Hl Hr s H.
  destruct (ws_only_snoc_inv r Hr) as [->|[r' [t [E [Hin Hr']]]]].
  - rewrite app_nil_r in H. exact H.
  - subst r. rewrite app_assoc in H. apply valid_before_token in H; [|exact Hin].
    destruct (token_boundary t Hin) as [_ Hne].
    apply (IHn (length r')) with (r := r'); auto.
    rewrite <- Hl, app_length. destruct t; [contradiction|]. cbn. lia.
Qed.

Lemma trim_space_valid s : valid_utf8 s -> valid_utf8 (trim_space s).
Proof.
  intro H. destruct (trim_space_decomp s) as [l [r [E [Hl Hr]]]]. rewrite E in H.
  apply valid_drop_left in H; [|exact Hl]. eapply valid_drop_right; [reflexivity|exact Hr|exact H].
Qed.
