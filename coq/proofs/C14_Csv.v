(* C14: what encoding/csv writes, an RFC 4180 reader parses back exactly. *)
From Tabula Require Import base.Val base.ListX model.C13_Split model.C14_Csv.
From Coq Require Import Lia ZifyN ZifyNat ZifyBool.
Open Scope N_scope.

Section RoundTrip.
  Variable d : N.
  Hypothesis d_ok : valid_delim d = true.

  Lemma d_facts : d <> 34 /\ d <> 10 /\ d <> 13.
  Proof. unfold valid_delim in d_ok. lia. Qed.

  (* a terminator: the delimiter or a newline *)
  Definition is_term (c : N) : Prop := c = d \/ c = 10.

  Lemma unquoted_scan f : Forall (fun c => special d c = false) f -> forall rest cur row rows,
    csv_parse_go d (f ++ rest) Unquoted cur row rows = csv_parse_go d rest Unquoted (rev f ++ cur) row rows.
  Proof.
    induction 1 as [|c f Hc Hf IH]; intros rest cur row rows; [reflexivity|].
    cbn [app csv_parse_go]. unfold special in Hc.
    replace (c =? d) with false by lia. replace (c =? 10) with false by lia.
    replace (c =? 13) with false by lia. cbn [andb]. rewrite IH. cbn [rev]. rewrite <- app_assoc. reflexivity.
  Qed.

  Lemma quoted_scan f : forall rest cur row rows,
    csv_parse_go d (flat_map (fun c => if c =? 34 then [34; 34] else [c]) f ++ rest) Quoted cur row rows =
    csv_parse_go d rest Quoted (rev f ++ cur) row rows.
  Proof.
    destruct d_facts as (D1 & D2 & D3).
    induction f as [|c f IH]; intros rest cur row rows; [reflexivity|]. cbn [flat_map].
    destruct (c =? 34) eqn:E.
    - apply N.eqb_eq in E. subst c. cbn [app csv_parse_go]. rewrite N.eqb_refl.
      replace (34 =? d) with false by lia. cbn [N.eqb Pos.eqb andb]. rewrite IH.
      cbn [rev]. rewrite <- app_assoc. reflexivity.
    - cbn [app csv_parse_go]. rewrite E. rewrite IH. cbn [rev]. rewrite <- app_assoc. reflexivity.
  Qed.

  (* ending a field at a terminator behaves the same from the three states a field can end in *)
  Lemma term_step c rest st cur row rows : is_term c -> st <> Quoted ->
    csv_parse_go d (c :: rest) st cur row rows =
    if c =? d then csv_parse_go d rest FieldStart [] (rev cur :: row) rows
    else csv_parse_go d rest FieldStart [] [] (rev (rev cur :: row) :: rows).
  Proof.
    destruct d_facts as (D1 & D2 & D3). intros [->| ->] Hst.
    - cbn [csv_parse_go]. rewrite N.eqb_refl. destruct st; try contradiction; reflexivity.
    - cbn [csv_parse_go]. replace (10 =? d) with false by lia. cbn [N.eqb Pos.eqb].
      destruct st; try contradiction; reflexivity.
  Qed.

  Lemma open_quote s row rows :
    csv_parse_go d (34 :: s) FieldStart [] row rows = csv_parse_go d s Quoted [] row rows.
  Proof.
    destruct d_facts as (D1 & D2 & D3). cbn [csv_parse_go].
    replace (34 =? d) with false by lia. reflexivity.
  Qed.

  Lemma close_quote s cur row rows :
    csv_parse_go d (34 :: s) Quoted cur row rows = csv_parse_go d s QuoteInQuoted cur row rows.
  Proof. reflexivity. Qed.

  Lemma needs_quotes_false f : needs_quotes d f = false -> Forall (fun c => special d c = false) f.
  Proof.
    unfold needs_quotes. destruct f as [|c f]; [constructor|]. intro H.
    apply orb_false_iff in H as [H _]. apply orb_false_iff in H as [_ H].
    apply Forall_forall. intros x Hx. destruct (special d x) eqn:E; [|reflexivity].
    assert (existsb (special d) (c :: f) = true) by (apply existsb_exists; exists x; split; assumption). congruence.
  Qed.

  Lemma field_roundtrip f c rest row rows : is_term c ->
    csv_parse_go d (write_field d f ++ c :: rest) FieldStart [] row rows =
    if c =? d then csv_parse_go d rest FieldStart [] (f :: row) rows
    else csv_parse_go d rest FieldStart [] [] (rev (f :: row) :: rows).
  Proof.
    destruct d_facts as (D1 & D2 & D3). intro Hc. unfold write_field.
    destruct (needs_quotes d f) eqn:E.
    - unfold quote_field. cbn [app]. rewrite open_quote.
      rewrite <- app_assoc. rewrite quoted_scan. cbn [app]. rewrite close_quote.
      rewrite term_step by (assumption || discriminate). rewrite app_nil_r, rev_involutive. reflexivity.
    - pose proof (needs_quotes_false f E) as Hf. destruct f as [|x f].
      + cbn [app]. rewrite term_step by (assumption || discriminate). reflexivity.
      + inversion Hf as [|? ? Hx Hf']; subst. cbn [app csv_parse_go]. unfold special in Hx.
        replace (x =? d) with false by lia. replace (x =? 10) with false by lia.
        replace (x =? 13) with false by lia. replace (x =? 34) with false by lia. cbn [andb].
        rewrite unquoted_scan by exact Hf'. rewrite term_step by (assumption || discriminate).
        replace (rev (rev f ++ [x])) with (x :: f) by (rewrite rev_app_distr, rev_involutive; reflexivity).
        reflexivity.
  Qed.

  Lemma row_roundtrip fields : fields <> [] -> forall rest row rows,
    csv_parse_go d (write_row d fields ++ rest) FieldStart [] row rows =
    csv_parse_go d rest FieldStart [] [] (rev (rev fields ++ row) :: rows).
  Proof.
    destruct d_facts as (D1 & D2 & D3).
    induction fields as [|f fields IH]; intros Hne rest row rows; [contradiction|].
    unfold write_row in *. destruct fields as [|g fields].
    - cbn [map join]. rewrite <- app_assoc. cbn [app].
      rewrite field_roundtrip by (right; reflexivity). replace (10 =? d) with false by lia. reflexivity.
    - change (join [d] (map (write_field d) (f :: g :: fields)))
        with (write_field d f ++ [d] ++ join [d] (map (write_field d) (g :: fields))).
      rewrite <- !app_assoc. cbn [app]. rewrite field_roundtrip by (left; reflexivity). rewrite N.eqb_refl.
      specialize (IH ltac:(discriminate) rest (f :: row) rows). rewrite <- app_assoc in IH. cbn [app] in IH. rewrite IH.
      cbn [rev]. rewrite <- !app_assoc. reflexivity.
  Qed.

  Lemma rows_roundtrip rows : Forall (fun r => r <> []) rows -> forall acc,
    csv_parse_go d (csv_write d rows) FieldStart [] [] acc = Some (rev acc ++ rows).
  Proof.
    induction 1 as [|r rows Hr Hrs IH]; intro acc; cbn [csv_write flat_map].
    - cbn. rewrite app_nil_r. reflexivity.
    - rewrite row_roundtrip by exact Hr. fold (csv_write d rows). rewrite IH.
      rewrite app_nil_r, rev_involutive. cbn [rev]. rewrite <- app_assoc. reflexivity.
  Qed.

  Theorem csv_roundtrip rows : Forall (fun r => r <> []) rows -> csv_parse d (csv_write d rows) = Some rows.
  Proof. intro H. unfold csv_parse. rewrite rows_roundtrip by exact H. reflexivity. Qed.
End RoundTrip.
