(* C14: rows, columns, batches, filters, JSON records. *)
From Tabula Require Import base.Val base.ListX model.C13_Split model.C14_Csv model.C14_Export proofs.C14_Csv.
From Coq Require Import Lia Sorted.
From Coq Require String.
Import (notations) String.
Open Scope Z_scope.

(* ---------- CSV / TSV *)
Theorem rows_rectangular cf cs : Forall (fun r => length r = length (csv_columns cf cs)) (csv_rows cf cs).
Proof.
  unfold csv_rows. apply Forall_app. split.
  - destruct (cf_header cf); repeat constructor.
  - apply Forall_map. apply Forall_forall. intros c _. apply map_length.
Qed.

Theorem one_row_per_chunk_in_order cf cs :
  csv_rows cf cs = (if cf_header cf then [csv_columns cf cs] else []) ++
                   map (fun c => map (column_value cf c) (csv_columns cf cs)) cs.
Proof. reflexivity. Qed.

Lemma csv_columns_nonempty cf cs : csv_columns cf cs <> [].
Proof. unfold csv_columns. cbn. discriminate. Qed.

(* the export parses back, with an RFC 4180 reader, to exactly the rows: header
   (if requested) then one row per chunk in order *)
Theorem export_parses_back cf cs : valid_delim (cf_delim cf) = true ->
  csv_parse (cf_delim cf) (export_csv cf cs) = Some (csv_rows cf cs).
Proof.
  intro Hd. unfold export_csv. apply csv_roundtrip; [exact Hd|].
  pose proof (rows_rectangular cf cs) as R. eapply Forall_impl; [|exact R].
  intros r Hr E. subst r. cbn in Hr. pose proof (csv_columns_nonempty cf cs).
  destruct (csv_columns cf cs); [contradiction|discriminate].
Qed.

(* the first column is the id, the second the text (when included): any bytes *)
Theorem id_column cf c : column_value cf c (cf_id_col cf) = k_id c.
Proof. unfold column_value. rewrite bytes_eqb_refl. reflexivity. Qed.

Theorem text_column cf c : cf_include_text cf = true -> bytes_eqb (cf_text_col cf) (cf_id_col cf) = false ->
  column_value cf c (cf_text_col cf) = k_text c.
Proof. intros H1 H2. unfold column_value. rewrite H2, bytes_eqb_refl, H1. reflexivity. Qed.

Theorem row_starts_with_id_and_text cf cs c : cf_include_text cf = true ->
  bytes_eqb (cf_text_col cf) (cf_id_col cf) = false ->
  exists rest, map (column_value cf c) (csv_columns cf cs) = k_id c :: k_text c :: rest.
Proof.
  intros H1 H2. unfold csv_columns. rewrite H1. cbn [app map].
  rewrite id_column, text_column by assumption. eexists. reflexivity.
Qed.

(* metadata columns: exactly the non-standard keys of the exported metadata of
   some chunk, each once *)
Lemma insert_key_in k x l : In x (insert_key k l) <-> x = k \/ In x l.
Proof.
  induction l as [|y l IH]; cbn [insert_key].
  - cbn. split; intros [H|H]; auto; contradiction.
  - destruct (bytes_eqb k y) eqn:E.
    + apply bytes_eqb_eq in E. subst y. split; [intro H; right; exact H|intros [->|H]; [left; reflexivity|exact H]].
    + destruct (bytes_ltb k y).
      * cbn. split; intros [H|H]; auto.
      * cbn. rewrite IH. split; [intros [H|[H|H]]|intros [H|[H|H]]]; auto.
Qed.

Lemma fold_insert_in (p : bytes * mval -> bool) m : forall acc x,
  In x (fold_left (fun acc kv => if p kv then acc else insert_key (fst kv) acc) m acc) <->
  In x acc \/ exists kv, In kv m /\ p kv = false /\ fst kv = x.
Proof.
  induction m as [|kv m IH]; intros acc x; cbn [fold_left].
  - split; [intro H; left; exact H|intros [H|[kv [[] _]]]; exact H].
  - rewrite IH. destruct (p kv) eqn:E.
    + split; [intros [H|[kv' [H1 H2]]]|intros [H|[kv' [[->|H1] H2]]]]; auto.
      * right. exists kv'. split; [right; exact H1|exact H2].
      * destruct H2 as [H2 _]. congruence.
      * right. exists kv'. split; assumption.
    + rewrite insert_key_in. split.
      * intros [[->|H]|[kv' [H1 H2]]]; auto.
        -- right. exists kv. split; [left; reflexivity|split; [exact E|reflexivity]].
        -- right. exists kv'. split; [right; exact H1|exact H2].
      * intros [H|[kv' [[->|H1] [H2 H3]]]]; auto.
        right. exists kv'. split; [exact H1|split; assumption].
Qed.

Theorem meta_key_columns cf cs x :
  In x (meta_keys cf cs) <->
  exists c v, In c cs /\ In (x, v) (filter_meta cf (meta_map c)) /\ mem_b x standard_cols = false.
Proof.
  unfold meta_keys.
  assert (forall acc, In x (fold_left (fun acc c =>
            fold_left (fun acc kv => if mem_b (fst kv) standard_cols then acc else insert_key (fst kv) acc)
                      (filter_meta cf (meta_map c)) acc) cs acc) <->
          In x acc \/ exists c v, In c cs /\ In (x, v) (filter_meta cf (meta_map c)) /\ mem_b x standard_cols = false) as G.
  { induction cs as [|c cs IH]; intro acc; cbn [fold_left].
    - split; [intro H; left; exact H|intros [H|[c [v [[] _]]]]; exact H].
    - rewrite IH. rewrite (fold_insert_in (fun kv => mem_b (fst kv) standard_cols)). split.
      + intros [[H|[[k v] [H1 [H2 H3]]]]|[c' [v [H1 H2]]]]; auto.
        * cbn in H3. subst k. right. exists c, v. split; [left; reflexivity|split; assumption].
        * right. exists c', v. split; [right; exact H1|exact H2].
      + intros [H|[c' [v [[->|H1] [H2 H3]]]]]; auto.
        * left. right. exists (x, v). split; [exact H2|split; [exact H3|reflexivity]].
        * right. exists c', v. split; [exact H1|split; assumption]. }
  rewrite G. split; [intros [[]|H]; exact H|intro H; right; exact H].
Qed.

(* ---------- batches *)
Lemma batches_go_concat size : (0 < size)%nat -> forall fuel cs, (length cs <= fuel)%nat ->
  concat (batches_go fuel size cs) = cs /\
  Forall (fun b => (1 <= length b <= size)%nat) (batches_go fuel size cs).
Proof.
  intro Hs. induction fuel as [|f IH]; intros cs Hl.
  - destruct cs; [|cbn in Hl; lia]. split; [reflexivity|constructor].
  - cbn [batches_go]. destruct cs as [|c cs]; [split; [reflexivity|constructor]|].
    destruct (IH (skipn size (c :: cs))) as [E F].
    { rewrite skipn_length. cbn [length] in *. lia. }
    split.
    + cbn [concat]. rewrite E. apply firstn_skipn.
    + constructor; [|exact F]. rewrite firstn_length. cbn [length]. lia.
Qed.

Theorem batches_partition size cs : (0 < size)%nat ->
  concat (batches size cs) = cs /\ Forall (fun b => (1 <= length b <= size)%nat) (batches size cs).
Proof. intro H. apply batches_go_concat; [exact H|lia]. Qed.

(* ---------- filters *)
Theorem filter_chain (p q : chunk -> bool) cs : filter q (filter p cs) = filter (fun c => p c && q c) cs.
Proof.
  induction cs as [|c cs IH]; [reflexivity|]. cbn [filter]. destruct (p c) eqn:Ep; cbn [filter andb].
  - destruct (q c); [f_equal|]; exact IH.
  - exact IH.
Qed.

Theorem filter_exact (p : chunk -> bool) cs c : In c (filter p cs) <-> In c cs /\ p c = true.
Proof. apply filter_In. Qed.

(* ---------- JSON records (the text layer of encoding/json is an oracle; this
   is the struct -> value step with omitempty) *)
Fixpoint jassoc (k : bytes) (l : list (bytes * jv)) : option jv :=
  match l with [] => None | (k', v) :: l' => if bytes_eqb k k' then Some v else jassoc k l' end.

Definition jfields (j : jv) : list (bytes * jv) := match j with JO l => l | _ => [] end.

Lemma jassoc_app k a b : jassoc k (a ++ b) = match jassoc k a with Some v => Some v | None => jassoc k b end.
Proof. induction a as [|[k' v] a IH]; [reflexivity|]. cbn. destruct (bytes_eqb k k'); [reflexivity|exact IH]. Qed.

Theorem json_record_id cf c : k_id c <> [] -> jassoc (bs "id") (jfields (exported_json cf c)) = Some (JS (k_id c)).
Proof.
  intro H. unfold exported_json, jfields. rewrite !jassoc_app.
  destruct (k_chunk_index c =? 0); destruct (nonempty (k_doc_title c)); destruct (k_has_image c);
    destruct (k_has_list c); destruct (k_has_table c); cbn;
    (destruct (k_id c); [contradiction|reflexivity]).
Qed.

Theorem json_record_count cf cs : length (export_json_records cf cs) = length cs.
Proof. apply map_length. Qed.

Theorem json_records_in_order cf cs i c : nth_error cs i = Some c ->
  nth_error (export_json_records cf cs) i = Some (exported_json cf c).
Proof. intro H. unfold export_json_records. apply map_nth_error. exact H. Qed.
