(* C15: scanning an escaped cell with the GFM reader gives the cell back. *)
From Tabula Require Import base.Val base.ListX model.C15_Markdown.
From Coq Require Import Lia ZifyN ZifyNat ZifyBool.
Open Scope N_scope.

(* no backslash directly before a pipe in the source text (the one input class
   on which all writers fail: see C15_backslash_pipe_refuted) *)
Fixpoint safe (s : bytes) : bool :=
  match s with
  | [] => true
  | c :: t => match t with
              | p :: _ => negb ((c =? 92) && (p =? 124)) && safe t
              | [] => true
              end
  end.

Lemma safe_tail c t : safe (c :: t) = true -> safe t = true.
Proof. cbn [safe]. destruct t; [reflexivity|]. intro H. apply andb_true_iff in H as [_ H]. exact H. Qed.

Definition norm_nl (s : bytes) : bytes := map (fun c => if c =? 10 then 32 else c) s.

Definition esc1 (c : N) : bytes := if c =? 10 then [32] else if c =? 124 then [92; 124] else [c].
Lemma esc_cons c t : esc_pipe_nl (c :: t) = esc1 c ++ esc_pipe_nl t.
Proof. reflexivity. Qed.

Definition starts_with_pipe (l : bytes) : bool := match l with c :: _ => c =? 124 | [] => false end.

Lemma esc_not_pipe_head t : starts_with_pipe (esc_pipe_nl t) = false.
Proof.
  destruct t as [|c t]; [reflexivity|]. rewrite esc_cons. unfold esc1.
  destruct (c =? 10); [reflexivity|]. destruct (c =? 124) eqn:E; [reflexivity|]. cbn. exact E.
Qed.

(* the scanner walks over an escaped cell without splitting, when a non-punctuation byte follows *)
Lemma scan_cell : forall n c, (length c <= n)%nat -> safe c = true ->
  forall rest cur, split_cells (esc_pipe_nl c ++ 32 :: rest) cur = split_cells (32 :: rest) (rev (esc_pipe_nl c) ++ cur).
Proof.
  induction n as [|n IH]; intros c Hl Hs rest cur.
  - destruct c; [reflexivity|cbn in Hl; lia].
  - destruct c as [|x t]; [reflexivity|]. cbn [length] in Hl.
    pose proof (safe_tail _ _ Hs) as Ht.
    rewrite esc_cons. unfold esc1.
    destruct (x =? 10) eqn:E10.
    { cbn [app split_cells N.eqb Pos.eqb]. rewrite (IH t) by (lia || assumption).
      cbn [rev]. rewrite <- app_assoc. reflexivity. }
    destruct (x =? 124) eqn:E124.
    { cbn [app split_cells N.eqb Pos.eqb]. change (is_punct 124) with true. cbn iota.
      rewrite (IH t) by (lia || assumption). cbn [rev]. rewrite <- !app_assoc. reflexivity. }
    destruct (x =? 92) eqn:E92.
    + apply N.eqb_eq in E92. subst x. cbn [app].
      destruct t as [|y t'].
      * cbn [esc_pipe_nl flat_map app split_cells]. cbn [N.eqb Pos.eqb]. change (is_punct 32) with false. cbn iota.
        reflexivity.
      * (* the byte after the backslash is not a pipe *)
        assert (y <> 124) as Hy.
        { cbn [safe] in Hs. apply andb_true_iff in Hs as [Hs _]. cbn [N.eqb Pos.eqb andb] in Hs.
          apply negb_true_iff in Hs. apply N.eqb_neq in Hs. exact Hs. }
        pose proof (safe_tail _ _ Ht) as Ht'. cbn [length] in Hl.
        rewrite esc_cons. unfold esc1.
        destruct (y =? 10) eqn:Ey10.
        { cbn [app]. cbn [split_cells N.eqb Pos.eqb]. change (is_punct 32) with false. cbn iota.
          cbn [split_cells N.eqb Pos.eqb].
          rewrite (IH t') by (lia || assumption). cbn [rev]. rewrite <- !app_assoc. reflexivity. }
        replace (y =? 124) with false by (symmetry; apply N.eqb_neq; exact Hy).
        cbn [app]. cbn [split_cells N.eqb Pos.eqb].
        destruct (is_punct y) eqn:Ep.
        { rewrite (IH t') by (lia || assumption). cbn [rev]. rewrite <- !app_assoc. reflexivity. }
        { (* y is kept as an ordinary byte; it is neither a backslash (punctuation) nor a pipe *)
          assert (y =? 92 = false) as E1 by (destruct (y =? 92) eqn:E; [apply N.eqb_eq in E; subst y; discriminate|reflexivity]).
          cbn [split_cells]. rewrite E1. replace (y =? 124) with false by (symmetry; apply N.eqb_neq; exact Hy).
          rewrite (IH t') by (lia || assumption). cbn [rev]. rewrite <- !app_assoc. reflexivity. }
    + cbn [app split_cells]. rewrite E92, E124.
      rewrite (IH t) by (lia || assumption). cbn [rev]. rewrite <- app_assoc. reflexivity.
Qed.

(* the raw form of one cell as every writer emits it: blank, escaped text, blank *)
Definition rawcell (c : bytes) : bytes := 32 :: esc_pipe_nl c ++ [32].

Definition scannable (r : bytes) : Prop :=
  forall rest cur, split_cells (r ++ 124 :: rest) cur = (rev cur ++ r) :: split_cells rest [].

Lemma rawcell_scannable c : safe c = true -> scannable (rawcell c).
Proof.
  intros Hs rest cur. unfold rawcell. cbn [app split_cells N.eqb Pos.eqb].
  rewrite <- app_assoc. cbn [app]. rewrite (scan_cell (length c) c (le_n _) Hs).
  cbn [split_cells N.eqb Pos.eqb].
  f_equal. cbn [rev]. rewrite rev_app_distr, rev_involutive. cbn [rev app].
  rewrite <- !app_assoc. reflexivity.
Qed.

Lemma blank_scannable : scannable [32].
Proof. intros rest cur. cbn [app split_cells N.eqb Pos.eqb]. cbn [rev]. reflexivity. Qed.

Lemma dashes_scannable r : Forall (fun c => c = 45 \/ c = 32) r -> scannable r.
Proof.
  intro H. induction H as [|c r Hc Hr IH]; intros rest cur.
  - cbn [app split_cells N.eqb Pos.eqb]. rewrite app_nil_r. reflexivity.
  - cbn [app split_cells]. replace (c =? 92) with false by (destruct Hc; subst; reflexivity).
    replace (c =? 124) with false by (destruct Hc; subst; reflexivity).
    rewrite IH. cbn [rev]. rewrite <- app_assoc. reflexivity.
Qed.

(* a row made of scannable raw cells, each closed by a pipe, splits into exactly those cells *)
Lemma split_row rs : Forall scannable rs ->
  split_cells (flat_map (fun r => r ++ [124]) rs) [] = rs ++ [[]].
Proof.
  induction 1 as [|r rs Hr Hrs IH]; [reflexivity|]. cbn [flat_map]. rewrite <- app_assoc. cbn [app].
  rewrite Hr. cbn [rev app]. rewrite IH. reflexivity.
Qed.

(* unescaping and trimming a raw cell gives the trimmed source text (newlines as blanks) *)
Lemma unescape_cons_plain x l : (x =? 92) = false -> unescape_pipes (x :: l) = x :: unescape_pipes l.
Proof. intro H. cbn [unescape_pipes]. destruct l as [|p l']; [reflexivity|]. rewrite H. reflexivity. Qed.

Lemma unescape_cons_bs l : starts_with_pipe l = false -> unescape_pipes (92 :: l) = 92 :: unescape_pipes l.
Proof. intro H. cbn [unescape_pipes]. destruct l as [|p l']; [reflexivity|]. cbn in H. rewrite H. reflexivity. Qed.

Lemma unescape_esc c : safe c = true -> forall tl, starts_with_pipe tl = false ->
  unescape_pipes (esc_pipe_nl c ++ tl) = norm_nl c ++ unescape_pipes tl.
Proof.
  induction c as [|x t IH]; intros Hs tl Htl; [reflexivity|].
  pose proof (safe_tail _ _ Hs) as Ht. rewrite esc_cons. unfold esc1. cbn [norm_nl map].
  destruct (x =? 10) eqn:E10.
  { cbn [app]. rewrite unescape_cons_plain by reflexivity. rewrite IH by assumption. reflexivity. }
  destruct (x =? 124) eqn:E124.
  { apply N.eqb_eq in E124. subst x. cbn [app unescape_pipes]. cbn [N.eqb Pos.eqb andb].
    rewrite IH by assumption. reflexivity. }
  cbn [app].
  destruct (x =? 92) eqn:E92.
  - apply N.eqb_eq in E92. subst x.
    assert (starts_with_pipe (esc_pipe_nl t ++ tl) = false) as Hn.
    { pose proof (esc_not_pipe_head t) as Hh. destruct (esc_pipe_nl t) as [|z zs]; [exact Htl|exact Hh]. }
    rewrite unescape_cons_bs by exact Hn. rewrite IH by assumption. reflexivity.
  - rewrite unescape_cons_plain by exact E92. rewrite IH by assumption. reflexivity.
Qed.

Lemma ltrim_blank_cons s : ltrim (32 :: s) = ltrim s.
Proof. reflexivity. Qed.

Lemma trim_blanks_pad s : trim_blanks (32 :: s ++ [32]) = trim_blanks s.
Proof.
  unfold trim_blanks. rewrite ltrim_blank_cons.
  assert (forall a, rev (ltrim (rev (ltrim (a ++ [32])))) = rev (ltrim (rev (ltrim a)))) as G.
  { induction a as [|c a IH]; [reflexivity|]. cbn [app ltrim]. destruct (is_blank c) eqn:E; [exact IH|].
    change (c :: a ++ [32]) with ((c :: a) ++ [32]). rewrite rev_app_distr. reflexivity. }
  apply G.
Qed.

Theorem read_back_cell c : safe c = true ->
  trim_blanks (unescape_pipes (rawcell c)) = trim_blanks (norm_nl c).
Proof.
  intro Hs. unfold rawcell. change (32 :: esc_pipe_nl c ++ [32]) with ([32] ++ esc_pipe_nl c ++ [32]).
  cbn [app]. rewrite unescape_cons_plain by reflexivity. rewrite unescape_esc by (exact Hs || reflexivity). cbn [unescape_pipes].
  apply trim_blanks_pad.
Qed.
