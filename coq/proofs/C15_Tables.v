(* C15: the Markdown tables of the writers read back, with a GFM reader, as the
   source grid (newlines as blanks, cells trimmed). *)
From Tabula Require Import base.Val base.ListX model.C15_Markdown proofs.C15_Cells.
From Coq Require Import Lia ZifyN ZifyNat ZifyBool.
Open Scope N_scope.

Definition no_eol (s : bytes) : Prop := Forall (fun c => c <> 10 /\ c <> 13) s.
Definition no_cr (s : bytes) : Prop := Forall (fun c => c <> 13) s.

Lemma esc_no_eol c : no_cr c -> no_eol (esc_pipe_nl c).
Proof.
  induction 1 as [|x t Hx Ht IH]; [constructor|]. rewrite esc_cons. unfold esc1. apply Forall_app. split; [|exact IH].
  destruct (x =? 10) eqn:E1; [repeat constructor; discriminate|].
  destruct (x =? 124) eqn:E2; [repeat constructor; discriminate|].
  repeat constructor; [apply N.eqb_neq; exact E1|exact Hx].
Qed.

Lemma split_lines_line l : no_eol l -> forall rest cur,
  split_lines (l ++ 10 :: rest) cur = (rev cur ++ l) :: split_lines rest [].
Proof.
  induction 1 as [|c l [H1 H2] Hl IH]; intros rest cur.
  - cbn [app split_lines N.eqb Pos.eqb orb]. rewrite app_nil_r. reflexivity.
  - cbn [app split_lines]. replace ((c =? 10) || (c =? 13)) with false by lia.
    rewrite IH. cbn [rev]. rewrite <- app_assoc. reflexivity.
Qed.

(* a row line as the simple writers emit it *)
Definition row_line (cells : list bytes) : bytes := 124 :: flat_map (fun c => rawcell c ++ [124]) cells.

Lemma simple_row_line cells : simple_row esc_pipe_nl cells = row_line cells ++ [10].
Proof.
  unfold simple_row, row_line. cbn [app]. f_equal. f_equal.
  induction cells as [|c cells IH]; [reflexivity|]. cbn [flat_map]. rewrite IH. f_equal.
  unfold cellrep, rawcell. cbn [app]. rewrite <- app_assoc. reflexivity.
Qed.

Lemma row_line_no_eol cells : Forall no_cr cells -> no_eol (row_line cells).
Proof.
  intro H. unfold row_line. constructor; [split; discriminate|].
  induction H as [|c cells Hc Hcs IH]; [constructor|]. cbn [flat_map]. apply Forall_app. split; [|exact IH].
  unfold rawcell. constructor; [split; discriminate|]. apply Forall_app. split.
  - apply Forall_app. split; [apply esc_no_eol; exact Hc|repeat constructor; discriminate].
  - repeat constructor; discriminate.
Qed.

Lemma ltrim_nonblank c s : is_blank c = false -> ltrim (c :: s) = c :: s.
Proof. intro H. cbn [ltrim]. rewrite H. reflexivity. Qed.

Lemma trim_blanks_bars s : trim_blanks (124 :: s ++ [124]) = 124 :: s ++ [124].
Proof.
  unfold trim_blanks. rewrite ltrim_nonblank by reflexivity.
  change (124 :: s ++ [124]) with ((124 :: s) ++ [124]). rewrite rev_app_distr. cbn [rev app].
  rewrite ltrim_nonblank by reflexivity. cbn [rev]. rewrite rev_app_distr, rev_involutive. reflexivity.
Qed.

Lemma flat_map_snoc_bar (f : bytes -> bytes) cells : cells <> [] ->
  exists s, flat_map (fun c => f c ++ [124]) cells = s ++ [124].
Proof.
  induction cells as [|c cells IH]; intro H; [contradiction|]. cbn [flat_map].
  destruct cells as [|d cells].
  - exists (f c). cbn. rewrite app_nil_r. reflexivity.
  - destruct IH as [s Hs]; [discriminate|]. exists ((f c ++ [124]) ++ s). rewrite Hs, app_assoc. reflexivity.
Qed.

Lemma flat_map_map_comp {A B C} (g : A -> B) (f : B -> list C) l : flat_map f (map g l) = flat_map (fun x => f (g x)) l.
Proof. induction l as [|x l IH]; [reflexivity|]. cbn. rewrite IH. reflexivity. Qed.

Theorem read_back_row cells : cells <> [] -> Forall (fun c => safe c = true) cells ->
  row_cells (row_line cells) = map (fun c => trim_blanks (norm_nl c)) cells.
Proof.
  intros Hne Hs. unfold row_cells, row_line.
  destruct (flat_map_snoc_bar rawcell cells Hne) as [s Es].
  rewrite Es, trim_blanks_bars. cbn [N.eqb Pos.eqb]. rewrite <- Es.
  rewrite <- (flat_map_map_comp rawcell (fun r => r ++ [124])).
  rewrite split_row by (apply Forall_map; eapply Forall_impl; [|exact Hs]; intros c Hc; apply rawcell_scannable; exact Hc).
  rewrite rev_app_distr. cbn [rev app all_blank forallb].
  rewrite rev_involutive, map_map. apply map_ext_in. intros c Hc.
  apply read_back_cell. rewrite Forall_forall in Hs. apply Hs. exact Hc.
Qed.

(* separator rows *)
Lemma dash_row_cells (cells : list bytes) : cells <> [] ->
  row_cells (124 :: flat_map (fun _ : bytes => [45; 45; 45; 124]) cells) = map (fun _ => [45; 45; 45]) cells.
Proof.
  intro Hne. unfold row_cells.
  assert (flat_map (fun _ : bytes => [45; 45; 45; 124]) cells = flat_map (fun c => (fun _ => [45; 45; 45]) c ++ [124]) cells) as E
    by (apply flat_map_ext; reflexivity).
  rewrite E. destruct (flat_map_snoc_bar (fun _ => [45; 45; 45]) cells Hne) as [s Es].
  rewrite Es, trim_blanks_bars. cbn [N.eqb Pos.eqb]. rewrite <- Es.
  rewrite <- (flat_map_map_comp (fun _ : bytes => [45; 45; 45]) (fun r => r ++ [124])).
  rewrite split_row by (apply Forall_map, Forall_forall; intros; apply dashes_scannable; repeat constructor; auto).
  rewrite rev_app_distr. cbn [rev app all_blank forallb]. rewrite rev_involutive, map_map.
  apply map_ext. intros _. reflexivity.
Qed.

(* ---------- whole tables *)
Definition cell_back (c : bytes) : bytes := trim_blanks (norm_nl c).

Lemma split_lines_rows rows : Forall (Forall no_cr) rows ->
  split_lines (flat_map (simple_row esc_pipe_nl) rows) [] = map row_line rows.
Proof.
  induction 1 as [|r rows Hr Hrs IH]; [reflexivity|]. cbn [flat_map map].
  rewrite simple_row_line, <- app_assoc. cbn [app].
  rewrite split_lines_line by (apply row_line_no_eol; exact Hr). rewrite IH. reflexivity.
Qed.

Lemma take_rows_all rows : take_rows (map row_line rows) = map row_line rows.
Proof. induction rows as [|r rows IH]; [reflexivity|]. cbn [map take_rows]. unfold row_line at 1. cbn [all_blank forallb is_blank N.eqb Pos.eqb orb andb]. rewrite IH. reflexivity. Qed.

Lemma fit_exact n (cells : list bytes) : length cells = n -> fit n cells = cells.
Proof. revert cells; induction n as [|n IH]; intros [|c cells] H; cbn in *; try lia; try reflexivity. f_equal. apply IH. lia. Qed.

Lemma dash_cells_ok (cells : list bytes) : forallb is_delim_cell (map (fun _ => [45; 45; 45]) cells) = true.
Proof. induction cells as [|c cells IH]; [reflexivity|]. cbn [map forallb]. rewrite IH. reflexivity. Qed.

Definition grid_ok (n : nat) (rows : list (list bytes)) : Prop :=
  Forall (fun r => length r = n /\ Forall no_cr r /\ Forall (fun c => safe c = true) r) rows.

(* header + separator + rows, cells escaped with esc_pipe_nl: the shape of the
   xlsx writer, and (for non-empty rows) of model.Table *)
Theorem simple_table_reads_back h rows : h <> [] -> grid_ok (length h) (h :: rows) ->
  gfm_table (simple_row esc_pipe_nl h ++ dash_sep h ++ flat_map (simple_row esc_pipe_nl) rows) =
  Some (map (map cell_back) (h :: rows)).
Proof.
  intros Hne G. inversion G as [|? ? (Hlh & Hch & Hsh) Grows]; subst.
  unfold gfm_table. rewrite simple_row_line, <- app_assoc. cbn [app].
  rewrite split_lines_line by (apply row_line_no_eol; exact Hch).
  unfold dash_sep. cbn [app]. rewrite <- app_assoc.
  assert (no_eol (124 :: flat_map (fun _ : bytes => [45; 45; 45; 124]) h)) as Hd.
  { constructor; [split; discriminate|]. clear. induction h as [|c h IH]; [constructor|]. cbn [flat_map app].
    repeat (constructor; [split; discriminate|]). exact IH. }
  change (124 :: flat_map (fun _ : bytes => [45; 45; 45; 124]) h ++ [10] ++ flat_map (simple_row esc_pipe_nl) rows)
    with ((124 :: flat_map (fun _ : bytes => [45; 45; 45; 124]) h) ++ 10 :: flat_map (simple_row esc_pipe_nl) rows).
  rewrite split_lines_line by exact Hd. cbn [rev app].
  rewrite split_lines_rows by (eapply Forall_impl; [|exact Grows]; intros r (_ & H & _); exact H).
  rewrite read_back_row by assumption. rewrite dash_row_cells by exact Hne.
  rewrite !map_length, Nat.eqb_refl. rewrite dash_cells_ok.
  replace (Nat.eqb (length h) 0) with false by (destruct h; [contradiction|reflexivity]).
  cbn [andb negb]. f_equal. cbn [map]. f_equal.
  rewrite take_rows_all, map_map. apply map_ext_in. intros r Hr.
  rewrite Forall_forall in Grows. destruct (Grows r Hr) as (Hl & Hc & Hs).
  rewrite read_back_row; [|destruct r; [destruct h; [contradiction|discriminate]|discriminate]|exact Hs].
  apply fit_exact. rewrite map_length. exact Hl.
Qed.

Corollary xlsx_table_reads_back h rows : h <> [] -> grid_ok (length h) (h :: rows) ->
  gfm_table (xlsx_table_md h rows) = Some (map (map cell_back) (h :: rows)).
Proof.
  intros Hne G. unfold xlsx_table_md, esc_xlsx. destruct h as [|c h]; [contradiction|].
  apply simple_table_reads_back; assumption.
Qed.

Lemma model_row_simple cells : cells <> [] -> model_row cells = simple_row esc_pipe_nl cells.
Proof.
  intro H. unfold model_row, simple_row. destruct cells as [|c cells]; [contradiction|].
  assert (forall l : list bytes, flat_map (fun c => [124; 32] ++ esc_pipe_nl c ++ [32]) l ++ [124] =
                                 124 :: flat_map (fun c => cellrep (esc_pipe_nl c)) l) as E.
  { induction l as [|x l IH]; [reflexivity|]. cbn [flat_map]. rewrite <- app_assoc, IH. unfold cellrep. cbn [app].
    rewrite <- !app_assoc. reflexivity. }
  rewrite (app_assoc _ [124] [10]). rewrite E. reflexivity.
Qed.

Lemma model_sep_dash (cells : list bytes) : cells <> [] -> model_sep cells = dash_sep cells.
Proof.
  intro H. unfold model_sep, dash_sep. destruct cells as [|c cells]; [contradiction|].
  assert (forall l : list bytes, flat_map (fun _ => [124; 45; 45; 45]) l ++ [124] = 124 :: flat_map (fun _ => [45; 45; 45; 124]) l) as E.
  { induction l as [|x l IH]; [reflexivity|]. cbn [flat_map app]. rewrite IH. reflexivity. }
  rewrite (app_assoc _ [124] [10]). rewrite E. reflexivity.
Qed.

Corollary model_table_reads_back h rows : h <> [] -> grid_ok (length h) (h :: rows) ->
  gfm_table (model_table_md (h :: rows)) = Some (map (map cell_back) (h :: rows)).
Proof.
  intros Hne G. unfold model_table_md. rewrite model_row_simple, model_sep_dash by exact Hne.
  assert (flat_map model_row rows = flat_map (simple_row esc_pipe_nl) rows) as ->.
  { inversion G as [|? ? _ Gr]; subst. clear G. induction Gr as [|r rows (Hl & _) Hr IH]; [reflexivity|]. cbn [flat_map]. rewrite IH.
    rewrite model_row_simple; [reflexivity|]. destruct r; [destruct h; [contradiction|discriminate]|discriminate]. }
  apply simple_table_reads_back; assumption.
Qed.

(* the one class of cell text on which every writer fails: a backslash directly
   before a pipe.  "a\|b" comes back as two cells. *)
Theorem backslash_pipe_refuted :
  gfm_table (xlsx_table_md [[97; 92; 124; 98]; [120]] []) <> Some [[cell_back [97; 92; 124; 98]; cell_back [120]]].
Proof. vm_compute. discriminate. Qed.

(* pptx: carriage returns become blanks too; the rest is the simple writer *)
Definition cr_space (s : bytes) : bytes := map (fun c => if c =? 13 then 32 else c) s.

Lemma esc_pptx_pre c : esc_pptx c = esc_pipe_nl (cr_space c).
Proof.
  induction c as [|x t IH]; [reflexivity|]. unfold esc_pptx, esc_pipe_nl, cr_space in *. cbn [flat_map map]. rewrite IH.
  destruct (x =? 13) eqn:E13.
  - apply N.eqb_eq in E13. subst x. reflexivity.
  - rewrite orb_false_r. reflexivity.
Qed.

Lemma cr_space_no_cr c : no_cr (cr_space c).
Proof.
  unfold no_cr, cr_space. apply Forall_map, Forall_forall. intros x _.
  destruct (x =? 13) eqn:E; [discriminate|apply N.eqb_neq; exact E].
Qed.

Lemma simple_row_pptx cells : simple_row esc_pptx cells = simple_row esc_pipe_nl (map cr_space cells).
Proof.
  unfold simple_row. f_equal. f_equal. induction cells as [|c cells IH]; [reflexivity|].
  cbn [flat_map map]. rewrite IH, esc_pptx_pre. reflexivity.
Qed.

Corollary pptx_table_reads_back h rows : h <> [] ->
  Forall (fun r => length r = length h /\ Forall (fun c => safe (cr_space c) = true) r) (h :: rows) ->
  gfm_table (pptx_table_md (h :: rows)) = Some (map (map (fun c => cell_back (cr_space c))) (h :: rows)).
Proof.
  intros Hne G. unfold pptx_table_md. rewrite simple_row_pptx.
  assert (dash_sep h = dash_sep (map cr_space h)) as ->.
  { unfold dash_sep. f_equal. f_equal. clear. induction h as [|c h IH]; [reflexivity|]. cbn [flat_map map]. f_equal. exact IH. }
  assert (flat_map (simple_row esc_pptx) rows = flat_map (simple_row esc_pipe_nl) (map (map cr_space) rows)) as ->.
  { clear. induction rows as [|r rows IH]; [reflexivity|]. cbn [flat_map map]. rewrite simple_row_pptx. f_equal. exact IH. }
  rewrite (simple_table_reads_back (map cr_space h) (map (map cr_space) rows)).
  - cbn [map]. rewrite map_map. f_equal. f_equal. rewrite map_map. apply map_ext. intro r. apply map_map.
  - destruct h; [contradiction|discriminate].
  - rewrite map_length. change (map cr_space h :: map (map cr_space) rows) with (map (map cr_space) (h :: rows)).
    apply Forall_map. eapply Forall_impl; [|exact G]. intros r (Hl & Hs). rewrite map_length. split; [exact Hl|]. split.
    + apply Forall_map, Forall_forall. intros c _. apply cr_space_no_cr.
    + apply Forall_map. exact Hs.
Qed.

Lemma esc_html_pre c : esc_html c = esc_pipe_nl (filter (fun x => negb (x =? 13)) c).
Proof.
  induction c as [|x t IH]; [reflexivity|]. unfold esc_html, esc_pipe_nl in *. cbn [flat_map filter]. rewrite IH.
  destruct (x =? 13) eqn:E13.
  - apply N.eqb_eq in E13. subst x. reflexivity.
  - cbn [negb flat_map]. reflexivity.
Qed.

(* ---------- heading levels *)
Ltac split_ifs := repeat match goal with
  | |- context [if ?c then _ else _] => destruct c eqn:?
  | H : context [if ?c then _ else _] |- _ => destruct c eqn:?
  end.

Theorem heading_level_doc_spec lvl off maxl : (1 <= maxl <= 6)%Z ->
  heading_level_doc lvl off maxl = Z.min maxl (Z.max 1 (Z.max 1 lvl + off)) /\
  (1 <= heading_level_doc lvl off maxl <= 6)%Z.
Proof. intro H. unfold heading_level_doc. cbv zeta. split_ifs; lia. Qed.

Theorem heading_level_doc_range lvl off maxl : (1 <= heading_level_doc lvl off maxl <= 6)%Z.
Proof. unfold heading_level_doc. cbv zeta. split_ifs; lia. Qed.

Theorem heading_level_chunk_spec lvl off maxl : (1 <= maxl <= 6)%Z -> (0 <= lvl)%Z ->
  heading_level_chunk lvl off maxl = Z.min maxl (Z.max 1 ((if (lvl =? 0)%Z then 2 else lvl) + off)) /\
  (1 <= heading_level_chunk lvl off maxl <= 6)%Z.
Proof. intros H Hl. unfold heading_level_chunk. cbv zeta. split_ifs; lia. Qed.
