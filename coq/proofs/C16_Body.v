(* C16: the DOCX body-order pass matches every body element to the right
   entry of the right unmarshalled slice, in document order, whatever is
   nested inside the elements. *)
From Tabula Require Import model.C16_Docs proofs.C16_Inline.
From Coq Require Import Lia.
Open Scope N_scope.

Definition tok_not_body (t : tok) : Prop :=
  match t with TS n _ => n <> n_body | TE n => n <> n_body | TT _ => True end.
Definition noise_ok (x : list tok) : Prop := balanced x /\ Forall tok_not_body x.

Inductive inner := InP (x : list tok) | InT (x : list tok).
Inductive bitem :=
| BP (x : list tok)                         (* a paragraph and whatever it holds *)
| BT (x : list tok)                         (* a table: rows, cells, nested paragraphs and tables *)
| BSdt (pr : list tok) (inn : list inner)   (* a block-level content control *)
| BOther (n : N) (x : list tok).            (* sectPr, bookmarks, ... *)

Definition elem (n : N) (x : list tok) : list tok := TS n [] :: x ++ [TE n].
Definition inner_toks (i : inner) : list tok :=
  match i with InP x => elem n_p x | InT x => elem n_tbl x end.
Definition bitem_toks (b : bitem) : list tok :=
  match b with
  | BP x => elem n_p x
  | BT x => elem n_tbl x
  | BSdt pr inn =>
      TS n_sdt [] :: elem n_sdtPr pr ++ TS n_sdtContent [] :: concat (map inner_toks inn)
        ++ [TE n_sdtContent; TE n_sdt]
  | BOther n x => elem n x
  end.
Definition ser_body (items : list bitem) : list tok :=
  TS n_body [] :: concat (map bitem_toks items) ++ [TE n_body].

Definition other_name (n : N) : bool :=
  negb (n =? n_p) && negb (n =? n_tbl) && negb (n =? n_sdt) && negb (n =? n_sdtContent)
  && negb (n =? n_body).

Definition inner_ok (i : inner) : Prop := match i with InP x | InT x => noise_ok x end.
Definition bitem_ok (b : bitem) : Prop :=
  match b with
  | BP x | BT x => noise_ok x
  | BSdt pr inn => noise_ok pr /\ Forall inner_ok inn
  | BOther n x => other_name n = true /\ noise_ok x
  end.

Definition inner_p (inn : list inner) : nat :=
  length (filter (fun i => match i with InP _ => true | _ => false end) inn).
Definition inner_t (inn : list inner) : nat :=
  length (filter (fun i => match i with InT _ => true | _ => false end) inn).

Fixpoint inner_labels (inn : list inner) (spi sti : nat) : list (N * nat) :=
  match inn with
  | [] => []
  | InP _ :: r => (k_sdt_para, spi) :: inner_labels r (S spi) sti
  | InT _ :: r => (k_sdt_table, sti) :: inner_labels r spi (S sti)
  end.

(* the authored order: the i-th paragraph is Paragraphs[i], and so on *)
Fixpoint labels (items : list bitem) (pi ti spi sti : nat) : list (N * nat) :=
  match items with
  | [] => []
  | BP _ :: r => (k_para, pi) :: labels r (S pi) ti spi sti
  | BT _ :: r => (k_table, ti) :: labels r pi (S ti) spi sti
  | BSdt _ inn :: r =>
      inner_labels inn spi sti ++ labels r pi ti (spi + inner_p inn) (sti + inner_t inn)
  | BOther _ _ :: r => labels r pi ti spi sti
  end.

Fixpoint totals (items : list bitem) (c : counts) : counts :=
  match items with
  | [] => c
  | BP _ :: r => totals r {| c_p := S (c_p c); c_t := c_t c; c_sp := c_sp c; c_st := c_st c |}
  | BT _ :: r => totals r {| c_p := c_p c; c_t := S (c_t c); c_sp := c_sp c; c_st := c_st c |}
  | BSdt _ inn :: r =>
      totals r {| c_p := c_p c; c_t := c_t c; c_sp := c_sp c + inner_p inn; c_st := c_st c + inner_t inn |}
  | BOther _ _ :: r => totals r c
  end.

(* ---------- the order pass ---------- *)

Ltac names := unfold is_sdt_name, n_p, n_tbl, n_body, n_sdt, n_sdtContent, n_sdtPr in *.

Definition mk (d : Z) (sd pi ti spi sti : nat) (o : list (N * nat)) : bst :=
  {| b_in := true; b_depth := d; b_sdt := sd; b_pi := pi; b_ti := ti; b_spi := spi; b_sti := sti; b_out := o |}.

Lemma b_noise : forall x d d' c sd pi ti spi sti o,
  bal d x = Some d' -> Forall tok_not_body x ->
  fold_left (bstep c) x (mk (Z.of_nat (S d)) sd pi ti spi sti o)
  = mk (Z.of_nat (S d')) sd pi ti spi sti o.
Proof.
  induction x as [|t r IH]; intros d d' c sd pi ti spi sti o Hb Hn; cbn [bal] in Hb.
  - injection Hb as <-. reflexivity.
  - inversion Hn as [|? ? Ht Hr]; subst.
    destruct t as [n a|n|s]; cbn [fold_left].
    + cbn in Ht. apply N.eqb_neq in Ht.
      assert (E : bstep c (mk (Z.of_nat (S d)) sd pi ti spi sti o) (TS n a)
                  = mk (Z.of_nat (S (S d))) sd pi ti spi sti o).
      { unfold bstep, mk. cbn [b_in b_depth b_sdt b_pi b_ti b_spi b_sti b_out negb].
        rewrite Ht.
        replace (Z.of_nat (S d) =? 0)%Z with false by (symmetry; apply Z.eqb_neq; lia).
        cbn [andb].
        replace (Z.of_nat (S d) + 1 =? 1)%Z with false by (symmetry; apply Z.eqb_neq; lia).
        cbn [negb]. f_equal. lia. }
      rewrite E. apply IH; assumption.
    + cbn in Ht. apply N.eqb_neq in Ht.
      destruct d as [|d0]; [discriminate|].
      assert (E : bstep c (mk (Z.of_nat (S (S d0))) sd pi ti spi sti o) (TE n)
                  = mk (Z.of_nat (S d0)) sd pi ti spi sti o).
      { unfold bstep, mk. cbn [b_in b_depth b_sdt b_pi b_ti b_spi b_sti b_out negb].
        replace (Z.of_nat (S (S d0)) =? 0)%Z with false by (symmetry; apply Z.eqb_neq; lia).
        cbn [andb]. f_equal. lia. }
      rewrite E. apply IH; assumption.
    + cbn [bstep]. apply IH; assumption.
Qed.

(* one element whose start tag leaves the state at depth 1 *)
Lemma b_elem_tail : forall n x c sd pi ti spi sti o,
  noise_ok x ->
  fold_left (bstep c) (x ++ [TE n]) (mk 1 sd pi ti spi sti o) = mk 0 sd pi ti spi sti o.
Proof.
  intros n x c sd pi ti spi sti o [Hb Hn].
  rewrite fold_left_app.
  change 1%Z with (Z.of_nat (S 0)).
  rewrite (b_noise x 0 0 c sd pi ti spi sti o Hb Hn).
  cbn [fold_left]. unfold bstep, mk.
  cbn [b_in b_depth b_sdt b_pi b_ti b_spi b_sti b_out negb Z.of_nat Pos.of_succ_nat Z.eqb andb].
  reflexivity.
Qed.

Lemma b_para : forall x c pi ti spi sti o,
  noise_ok x -> (pi < c_p c)%nat ->
  fold_left (bstep c) (elem n_p x) (mk 0 0 pi ti spi sti o)
  = mk 0 0 (S pi) ti spi sti (o ++ [(k_para, pi)]).
Proof.
  intros x c pi ti spi sti o Hx Hlt. unfold elem. cbn [fold_left].
  assert (E : bstep c (mk 0 0 pi ti spi sti o) (TS n_p [])
              = mk 1 0 (S pi) ti spi sti (o ++ [(k_para, pi)])).
  { unfold bstep, mk. cbn [b_in b_depth b_sdt b_pi b_ti b_spi b_sti b_out].
    apply Nat.ltb_lt in Hlt. rewrite Hlt. names. cbn. reflexivity. }
  rewrite E. apply b_elem_tail, Hx.
Qed.

Lemma b_table : forall x c pi ti spi sti o,
  noise_ok x -> (ti < c_t c)%nat ->
  fold_left (bstep c) (elem n_tbl x) (mk 0 0 pi ti spi sti o)
  = mk 0 0 pi (S ti) spi sti (o ++ [(k_table, ti)]).
Proof.
  intros x c pi ti spi sti o Hx Hlt. unfold elem. cbn [fold_left].
  assert (E : bstep c (mk 0 0 pi ti spi sti o) (TS n_tbl [])
              = mk 1 0 pi (S ti) spi sti (o ++ [(k_table, ti)])).
  { unfold bstep, mk. cbn [b_in b_depth b_sdt b_pi b_ti b_spi b_sti b_out].
    apply Nat.ltb_lt in Hlt. rewrite Hlt. names. cbn. reflexivity. }
  rewrite E. apply b_elem_tail, Hx.
Qed.

Lemma other_name_facts : forall n, other_name n = true ->
  (n =? n_p) = false /\ (n =? n_tbl) = false /\ (n =? n_sdt) = false
  /\ (n =? n_sdtContent) = false /\ (n =? n_body) = false.
Proof.
  intros n H. unfold other_name in H.
  repeat (apply andb_true_iff in H; destruct H as [H ?]).
  repeat match goal with H : negb _ = true |- _ => apply negb_true_iff in H end.
  repeat split; assumption.
Qed.

Lemma b_other : forall n x c sd pi ti spi sti o,
  other_name n = true -> noise_ok x ->
  fold_left (bstep c) (elem n x) (mk 0 sd pi ti spi sti o) = mk 0 sd pi ti spi sti o.
Proof.
  intros n x c sd pi ti spi sti o Hn Hx. unfold elem. cbn [fold_left].
  destruct (other_name_facts n Hn) as (H1 & H2 & H3 & H4 & H5).
  assert (E : bstep c (mk 0 sd pi ti spi sti o) (TS n []) = mk 1 sd pi ti spi sti o).
  { unfold bstep, mk, is_sdt_name. cbn [b_in b_depth b_sdt b_pi b_ti b_spi b_sti b_out].
    rewrite H1, H2, H3, H4, H5. cbn. destruct sd; reflexivity. }
  rewrite E. apply b_elem_tail, Hx.
Qed.

Lemma b_inner : forall inn c pi ti spi sti o,
  Forall inner_ok inn ->
  (spi + inner_p inn <= c_sp c)%nat -> (sti + inner_t inn <= c_st c)%nat ->
  fold_left (bstep c) (concat (map inner_toks inn)) (mk 0 2 pi ti spi sti o)
  = mk 0 2 pi ti (spi + inner_p inn) (sti + inner_t inn) (o ++ inner_labels inn spi sti).
Proof.
  induction inn as [|i r IH]; intros c pi ti spi sti o Hok Hp Ht.
  - cbn. rewrite !Nat.add_0_r, app_nil_r. reflexivity.
  - inversion Hok as [|? ? Hi Hr]; subst.
    cbn [map concat]. rewrite fold_left_app.
    destruct i as [x|x]; cbn [inner_toks inner_labels]; unfold inner_p, inner_t in *;
      cbn [filter length] in *; fold (inner_p r) in *; fold (inner_t r) in *.
    + unfold elem. cbn [fold_left].
      assert (E : bstep c (mk 0 2 pi ti spi sti o) (TS n_p [])
                  = mk 1 2 pi ti (S spi) sti (o ++ [(k_sdt_para, spi)])).
      { unfold bstep, mk. cbn [b_in b_depth b_sdt b_pi b_ti b_spi b_sti b_out].
        assert (Hlt : (spi <? c_sp c)%nat = true) by (apply Nat.ltb_lt; lia).
        rewrite Hlt. names. cbn. reflexivity. }
      rewrite E, (b_elem_tail n_p x) by exact Hi.
      rewrite IH by (try assumption; lia).
      rewrite <- app_assoc. cbn [app]. f_equal; lia.
    + unfold elem. cbn [fold_left].
      assert (E : bstep c (mk 0 2 pi ti spi sti o) (TS n_tbl [])
                  = mk 1 2 pi ti spi (S sti) (o ++ [(k_sdt_table, sti)])).
      { unfold bstep, mk. cbn [b_in b_depth b_sdt b_pi b_ti b_spi b_sti b_out].
        assert (Hlt : (sti <? c_st c)%nat = true) by (apply Nat.ltb_lt; lia).
        rewrite Hlt. names. cbn. reflexivity. }
      rewrite E, (b_elem_tail n_tbl x) by exact Hi.
      rewrite IH by (try assumption; lia).
      rewrite <- app_assoc. cbn [app]. f_equal; lia.
Qed.

Lemma b_control : forall pr inn c pi ti spi sti o,
  noise_ok pr -> Forall inner_ok inn ->
  (spi + inner_p inn <= c_sp c)%nat -> (sti + inner_t inn <= c_st c)%nat ->
  fold_left (bstep c) (bitem_toks (BSdt pr inn)) (mk 0 0 pi ti spi sti o)
  = mk 0 0 pi ti (spi + inner_p inn) (sti + inner_t inn) (o ++ inner_labels inn spi sti).
Proof.
  intros pr inn c pi ti spi sti o Hpr Hinn Hp Ht.
  cbn [bitem_toks fold_left].
  assert (E1 : bstep c (mk 0 0 pi ti spi sti o) (TS n_sdt []) = mk 0 1 pi ti spi sti o) by reflexivity.
  rewrite E1, fold_left_app.
  assert (E2 : fold_left (bstep c) (elem n_sdtPr pr) (mk 0 1 pi ti spi sti o) = mk 0 1 pi ti spi sti o)
    by (apply b_other; [reflexivity|exact Hpr]).
  rewrite E2. cbn [fold_left].
  assert (E3 : bstep c (mk 0 1 pi ti spi sti o) (TS n_sdtContent []) = mk 0 2 pi ti spi sti o) by reflexivity.
  rewrite E3, fold_left_app, b_inner by assumption.
  reflexivity.
Qed.

Lemma totals_mono : forall items c,
  (c_p c <= c_p (totals items c) /\ c_t c <= c_t (totals items c)
   /\ c_sp c <= c_sp (totals items c) /\ c_st c <= c_st (totals items c))%nat.
Proof.
  induction items as [|b r IH]; intros c; cbn [totals]; [lia|].
  destruct b as [x|x|pr inn|n x];
    match goal with |- context [totals r ?c'] => specialize (IH c') end; cbn in IH; lia.
Qed.

Lemma b_items : forall items c pi ti spi sti o,
  Forall bitem_ok items ->
  (let t := totals items {| c_p := pi; c_t := ti; c_sp := spi; c_st := sti |} in
   c_p t <= c_p c /\ c_t t <= c_t c /\ c_sp t <= c_sp c /\ c_st t <= c_st c)%nat ->
  b_out (fold_left (bstep c) (concat (map bitem_toks items)) (mk 0 0 pi ti spi sti o))
  = o ++ labels items pi ti spi sti
  /\ b_in (fold_left (bstep c) (concat (map bitem_toks items)) (mk 0 0 pi ti spi sti o)) = true
  /\ b_depth (fold_left (bstep c) (concat (map bitem_toks items)) (mk 0 0 pi ti spi sti o)) = 0%Z
  /\ b_sdt (fold_left (bstep c) (concat (map bitem_toks items)) (mk 0 0 pi ti spi sti o)) = 0%nat.
Proof.
  induction items as [|b r IH]; intros c pi ti spi sti o Hok Hc.
  - cbn. rewrite app_nil_r. auto.
  - inversion Hok as [|? ? Hb Hr]; subst.
    cbn [map concat]. rewrite fold_left_app.
    cbn [totals] in Hc. cbn zeta in Hc. cbn [c_p c_t c_sp c_st] in Hc.
    destruct b as [x|x|pr inn|n x]; cbn [labels].
    + pose proof (totals_mono r {| c_p := S pi; c_t := ti; c_sp := spi; c_st := sti |}) as M. cbn in M.
      cbn [bitem_toks]. rewrite b_para by (try exact Hb; lia).
      destruct (IH c (S pi) ti spi sti (o ++ [(k_para, pi)]) Hr Hc) as (A & B).
      rewrite A, <- app_assoc. auto.
    + pose proof (totals_mono r {| c_p := pi; c_t := S ti; c_sp := spi; c_st := sti |}) as M. cbn in M.
      cbn [bitem_toks]. rewrite b_table by (try exact Hb; lia).
      destruct (IH c pi (S ti) spi sti (o ++ [(k_table, ti)]) Hr Hc) as (A & B).
      rewrite A, <- app_assoc. auto.
    + pose proof (totals_mono r {| c_p := pi; c_t := ti; c_sp := spi + inner_p inn; c_st := sti + inner_t inn |}) as M.
      cbn in M. destruct Hb as [Hpr Hinn].
      rewrite b_control by (try assumption; lia).
      destruct (IH c pi ti (spi + inner_p inn)%nat (sti + inner_t inn)%nat (o ++ inner_labels inn spi sti) Hr Hc) as (A & B).
      rewrite A, <- app_assoc. auto.
    + destruct Hb as [Hn Hx]. cbn [bitem_toks]. rewrite b_other by assumption.
      apply IH; assumption.
Qed.

(* ---------- the unmarshalled slices ---------- *)

Definition safe_base (base : list N) : Prop :=
  base <> [] /\ forall pre n c, bump c (pre ++ base) n = c.

Lemma safe_single : forall x, (x =? n_sdt) = false -> safe_base [x].
Proof.
  intros x Hx. split; [discriminate|]. intros pre n c.
  destruct pre as [|a [|b [|d pre]]]; cbn [app bump]; try reflexivity.
  rewrite Hx, andb_false_r. reflexivity.
Qed.

Lemma safe_sdtpr : safe_base [n_sdtPr; n_sdt].
Proof.
  split; [discriminate|]. intros pre n c.
  destruct pre as [|a [|b pre]]; cbn [app bump]; try reflexivity.
  destruct pre; reflexivity.
Qed.

Lemma safe_deep : forall x, safe_base [x; n_sdtContent; n_sdt].
Proof.
  intros x. split; [discriminate|]. intros pre n c.
  destruct pre as [|a pre]; cbn [app bump]; [reflexivity|].
  destruct pre as [|a2 pre]; [reflexivity|]. cbn [app]. destruct pre; reflexivity.
Qed.

Lemma u_noise : forall x base pre d' c,
  safe_base base -> bal (length pre) x = Some d' ->
  exists pre', length pre' = d' /\
    fold_left ustep x {| u_in := true; u_stack := pre ++ base; u_c := c |}
    = {| u_in := true; u_stack := pre' ++ base; u_c := c |}.
Proof.
  induction x as [|t r IH]; intros base pre d' c Hs Hb; cbn [bal] in Hb.
  - injection Hb as <-. exists pre. auto.
  - destruct t as [n a|n|s]; cbn [fold_left ustep u_in u_stack u_c].
    + destruct Hs as [Hne Hs0]. rewrite Hs0.
      apply (IH base (n :: pre) d' c (conj Hne Hs0) Hb).
    + destruct pre as [|p0 pre0]; [discriminate|]. cbn [length] in Hb.
      cbn [app]. apply (IH base pre0 d' c Hs Hb).
    + apply (IH base pre d' c Hs Hb).
Qed.

Lemma u_elem_tail : forall x n base c,
  safe_base base -> balanced x ->
  fold_left ustep (x ++ [TE n]) {| u_in := true; u_stack := base; u_c := c |}
  = {| u_in := true; u_stack := tl base; u_c := c |}.
Proof.
  intros x n base c Hs Hb. rewrite fold_left_app.
  destruct (u_noise x base [] 0%nat c Hs Hb) as (pre' & Hl & E).
  destruct pre'; [|discriminate]. cbn [app] in E. rewrite E.
  destruct Hs as [Hne _]. destruct base as [|b0 base0]; [congruence|]. reflexivity.
Qed.

Definition um (stack : list N) (c : counts) : ust := {| u_in := true; u_stack := stack; u_c := c |}.

Lemma u_top : forall n x c,
  (n =? n_sdt) = false -> balanced x ->
  fold_left ustep (elem n x) (um [] c) = um [] (bump c [] n).
Proof.
  intros n x c Hn Hb. unfold elem, um. cbn [fold_left ustep u_in u_stack u_c].
  rewrite (u_elem_tail x n [n]) by (try apply safe_single; assumption). reflexivity.
Qed.

Lemma u_inner : forall inn c,
  Forall inner_ok inn ->
  fold_left ustep (concat (map inner_toks inn)) (um [n_sdtContent; n_sdt] c)
  = um [n_sdtContent; n_sdt]
       {| c_p := c_p c; c_t := c_t c; c_sp := c_sp c + inner_p inn; c_st := c_st c + inner_t inn |}.
Proof.
  induction inn as [|i r IH]; intros c Hok.
  - cbn. rewrite !Nat.add_0_r. destruct c; reflexivity.
  - inversion Hok as [|? ? Hi Hr]; subst.
    cbn [map concat]. rewrite fold_left_app.
    destruct i as [x|x]; cbn [inner_toks]; unfold elem, um; cbn [fold_left ustep u_in u_stack u_c];
      destruct Hi as [Hb _];
      rewrite (u_elem_tail x _ (_ :: [n_sdtContent; n_sdt])) by (try apply safe_deep; assumption);
      cbn [tl]; fold (um [n_sdtContent; n_sdt]); rewrite IH by assumption.
    + unfold inner_p, inner_t. cbn [filter length]. cbn. unfold um. f_equal. f_equal; lia.
    + unfold inner_p, inner_t. cbn [filter length]. cbn. unfold um. f_equal. f_equal; lia.
Qed.

Lemma u_items : forall items c,
  Forall bitem_ok items ->
  fold_left ustep (concat (map bitem_toks items)) (um [] c) = um [] (totals items c).
Proof.
  induction items as [|b r IH]; intros c Hok; [reflexivity|].
  inversion Hok as [|? ? Hb Hr]; subst.
  cbn [map concat totals]. rewrite fold_left_app.
  destruct b as [x|x|pr inn|n x]; cbn [bitem_toks].
  - destruct Hb as [Hb _]. rewrite u_top by (try reflexivity; assumption). apply IH, Hr.
  - destruct Hb as [Hb _]. rewrite u_top by (try reflexivity; assumption). apply IH, Hr.
  - destruct Hb as [[Hpr _] Hinn].
    cbn [fold_left]. unfold um at 1. cbn [ustep u_in u_stack u_c bump].
    rewrite fold_left_app. unfold elem at 1. cbn [fold_left ustep u_in u_stack u_c bump].
    rewrite (u_elem_tail pr n_sdtPr [n_sdtPr; n_sdt]) by (try apply safe_sdtpr; assumption).
    cbn [tl fold_left ustep u_in u_stack u_c bump N.eqb Pos.eqb n_sdtContent n_sdt andb].
    rewrite fold_left_app. fold (um [n_sdtContent; n_sdt] c). rewrite u_inner by assumption.
    unfold um. cbn [fold_left ustep u_in u_stack u_c]. fold (um [] {| c_p := c_p c; c_t := c_t c; c_sp := c_sp c + inner_p inn; c_st := c_st c + inner_t inn |}).
    apply IH, Hr.
  - destruct Hb as [Hn [Hb _]]. destruct (other_name_facts n Hn) as (H1 & H2 & H3 & H4 & H5).
    rewrite u_top by assumption.
    cbn [bump]. rewrite H1, H2. apply IH, Hr.
Qed.

Theorem body_counts_are_the_authored_counts : forall items,
  Forall bitem_ok items ->
  body_counts (ser_body items) = totals items counts0.
Proof.
  intros items Hok. unfold body_counts, ser_body. cbn [fold_left ustep u_in u_stack u_c].
  change (n_body =? n_body) with true. cbn iota.
  rewrite fold_left_app. fold (um [] counts0). rewrite u_items by assumption.
  reflexivity.
Qed.

(* every body element, whatever it contains, is matched once, in document
   order, to the entry with its own index *)
Theorem body_order_is_document_order : forall items,
  Forall bitem_ok items ->
  body_order (ser_body items) = labels items 0 0 0 0.
Proof.
  intros items Hok. unfold body_order.
  rewrite body_counts_are_the_authored_counts by assumption.
  unfold body_order_with, ser_body. cbn [fold_left].
  assert (E : bstep (totals items counts0) bst0 (TS n_body []) = mk 0 0 0 0 0 0 []) by reflexivity.
  rewrite E, fold_left_app.
  destruct (b_items items (totals items counts0) 0 0 0 0 [] Hok) as (A & B & C & D).
  { cbn zeta. fold counts0. lia. }
  remember (fold_left (bstep (totals items counts0)) (concat (map bitem_toks items)) (mk 0 0 0 0 0 0 [])) as st.
  cbn [fold_left]. unfold bstep. rewrite B, C. cbn. exact A.
Qed.

(* a paragraph nested in a table cell sits between two tables and a content control *)
Example body_order_example :
  let cellp := elem n_tr (elem n_tc (elem n_p [] ++ elem n_p [])) in
  let items := [BT cellp; BP []; BSdt [] [InP []; InT cellp]; BT []; BOther n_sectPr []] in
  Forall bitem_ok items /\
  body_order (ser_body items)
  = [(k_table, 0%nat); (k_para, 0%nat); (k_sdt_para, 0%nat); (k_sdt_table, 0%nat); (k_table, 1%nat)].
Proof.
  split; [|reflexivity].
  repeat constructor; cbn; repeat constructor; try discriminate.
Qed.
