(* C16: the inline walkers return the authored pieces in source order. *)
From Tabula Require Import model.C16_Docs.
From Coq Require Import Lia.
Open Scope N_scope.

(* well-nested event lists: [bal d l = Some d'] walks l from depth d to depth d' *)
Fixpoint bal (d : nat) (l : list tok) : option nat :=
  match l with
  | [] => Some d
  | TS _ _ :: r => bal (S d) r
  | TE _ :: r => match d with O => None | S d' => bal d' r end
  | TT _ :: r => bal d r
  end.
Definition balanced (l : list tok) : Prop := bal 0 l = Some 0%nat.

(* ---------- DOCX ---------- *)

Inductive dpiece := PText (s : bytes) | PTab | PBr (page : bool) (kind : bytes) | PCr | PSym (a : bytes).

Definition special_docx (n : N) : bool :=
  docx_skipped n || (n =? n_t) || (n =? n_tab) || (n =? n_br) || (n =? n_cr) || (n =? n_sym).

(* what an author can put into a paragraph *)
Inductive ditem :=
| DPiece (p : dpiece)                    (* text, tab, break, carriage return, symbol *)
| DOpen (n : N) (a : bytes)              (* start of a run, hyperlink, ins, smartTag, sdt ... *)
| DClose (n : N)
| DSkipped (n : N) (a : bytes) (noise : list tok)  (* properties, deleted text, field code, drawing *)
| DSpace (s : bytes).                    (* character data between runs *)

Definition piece_toks (p : dpiece) : list tok :=
  match p with
  | PText s => [TS n_t []; TT s; TE n_t]
  | PTab => [TS n_tab []; TE n_tab]
  | PBr true _ => [TS n_br page_bytes; TE n_br]
  | PBr false k => [TS n_br k; TE n_br]
  | PCr => [TS n_cr []; TE n_cr]
  | PSym a => [TS n_sym a; TE n_sym]
  end.

Definition piece_text (p : dpiece) : bytes :=
  match p with
  | PText s => s
  | PTab => [9]
  | PBr true _ => [10; 10]
  | PBr false _ => [10]
  | PCr => [10]
  | PSym a => sym_text a
  end.

Definition ditem_toks (i : ditem) : list tok :=
  match i with
  | DPiece p => piece_toks p
  | DOpen n a => [TS n a]
  | DClose n => [TE n]
  | DSkipped n a noise => TS n a :: noise ++ [TE n]
  | DSpace s => [TT s]
  end.

Definition ditem_text (i : ditem) : bytes :=
  match i with DPiece p => piece_text p | _ => [] end.

Definition ditem_ok (i : ditem) : Prop :=
  match i with
  | DPiece (PBr false k) => bytes_eqb k page_bytes = false
  | DPiece _ => True
  | DOpen n _ => special_docx n = false
  | DClose n => (n =? n_t) = false
  | DSkipped n _ noise => docx_skipped n = true /\ balanced noise
  | DSpace _ => True
  end.

Lemma docx_skip_noise : forall noise d d' k i o,
  bal d noise = Some d' ->
  fold_left docx_istep noise {| i_skip := S (k + d); i_in := i; i_out := o |}
  = {| i_skip := S (k + d'); i_in := i; i_out := o |}.
Proof.
  induction noise as [|t r IH]; intros d d' k i o Hb; cbn [bal] in Hb.
  - injection Hb as <-. reflexivity.
  - destruct t as [n a|n|s]; cbn [fold_left docx_istep i_skip i_in i_out].
    + replace (S (S (k + d))) with (S (k + S d)) by lia. apply IH, Hb.
    + destruct d as [|d0]; [discriminate|].
      replace (k + S d0)%nat with (S (k + d0)) by lia. apply IH, Hb.
    + apply IH, Hb.
Qed.

Lemma docx_item_step : forall it o,
  ditem_ok it ->
  fold_left docx_istep (ditem_toks it) {| i_skip := 0; i_in := false; i_out := o |}
  = {| i_skip := 0; i_in := false; i_out := o ++ ditem_text it |}.
Proof.
  intros it o Hok. destruct it as [p|n a|n|n a noise|s]; cbn [ditem_toks ditem_text].
  - destruct p as [s| |pg k| |a]; cbn [piece_toks piece_text].
    + reflexivity.
    + cbn. reflexivity.
    + destruct pg; cbn in *.
      * reflexivity.
      * rewrite Hok. reflexivity.
    + cbn. reflexivity.
    + cbn. reflexivity.
  - cbn in Hok. unfold special_docx in Hok.
    destruct (docx_skipped n) eqn:Hs; [discriminate|]. cbn [orb] in Hok.
    repeat (apply orb_false_iff in Hok; destruct Hok as [Hok ?]).
    cbn [fold_left docx_istep i_skip i_in i_out].
    rewrite Hs.
    repeat match goal with H : (n =? _) = false |- _ => rewrite H; clear H end.
    rewrite app_nil_r. reflexivity.
  - cbn in Hok. cbn [fold_left docx_istep i_skip i_in i_out]. rewrite Hok, app_nil_r. reflexivity.
  - destruct Hok as [Hs Hb].
    cbn [fold_left docx_istep i_skip i_in i_out]. rewrite Hs.
    rewrite fold_left_app.
    change 1%nat with (S (0 + 0))%nat.
    rewrite (docx_skip_noise noise 0 0 0 false o Hb).
    cbn. rewrite app_nil_r. reflexivity.
  - cbn. rewrite app_nil_r. reflexivity.
Qed.

Lemma docx_items_fold : forall items o,
  Forall ditem_ok items ->
  fold_left docx_istep (concat (map ditem_toks items)) {| i_skip := 0; i_in := false; i_out := o |}
  = {| i_skip := 0; i_in := false; i_out := o ++ concat (map ditem_text items) |}.
Proof.
  induction items as [|it r IH]; intros o Hok; cbn [map concat].
  - rewrite app_nil_r. reflexivity.
  - inversion Hok as [|? ? H1 H2]; subst.
    rewrite fold_left_app, docx_item_step by assumption.
    rewrite IH by assumption. rewrite app_assoc. reflexivity.
Qed.

(* the text of a DOCX paragraph is its pieces in source order: nothing inside
   hyperlinks, insertions or content controls is lost, nothing of properties,
   deleted text, field codes or drawings is added *)
Theorem docx_inline_in_source_order : forall items,
  Forall ditem_ok items ->
  docx_inline (concat (map ditem_toks items)) = concat (map ditem_text items).
Proof.
  intros items Hok. unfold docx_inline, ist0.
  rewrite docx_items_fold by assumption. reflexivity.
Qed.

Corollary docx_inline_app : forall a b,
  Forall ditem_ok a -> Forall ditem_ok b ->
  docx_inline (concat (map ditem_toks (a ++ b)))
  = docx_inline (concat (map ditem_toks a)) ++ docx_inline (concat (map ditem_toks b)).
Proof.
  intros a b Ha Hb.
  rewrite !docx_inline_in_source_order by (try apply Forall_app; auto).
  rewrite map_app, concat_app. reflexivity.
Qed.

(* ---------- ODT ---------- *)

Inductive oitem :=
| OText (s : bytes)
| OTab
| OBreak
| OSpaces (a : bytes)
| OOpen (n : N) (a : bytes)      (* span, a, bookmark ... *)
| OClose (n : N)
| OSkipped (n : N) (a : bytes) (noise : list tok).   (* note, annotation *)

Definition special_odt (n : N) : bool :=
  odt_skipped n || (n =? n_tab) || (n =? n_line_break) || (n =? n_s).

Definition oitem_toks (i : oitem) : list tok :=
  match i with
  | OText s => [TT s]
  | OTab => [TS n_tab []; TE n_tab]
  | OBreak => [TS n_line_break []; TE n_line_break]
  | OSpaces a => [TS n_s a; TE n_s]
  | OOpen n a => [TS n a]
  | OClose n => [TE n]
  | OSkipped n a noise => TS n a :: noise ++ [TE n]
  end.

Definition oitem_text (i : oitem) : bytes :=
  match i with
  | OText s => s
  | OTab => [9]
  | OBreak => [10]
  | OSpaces a => repeat 32 (N.to_nat (space_count a))
  | _ => []
  end.

Definition oitem_ok (i : oitem) : Prop :=
  match i with
  | OOpen n _ => special_odt n = false
  | OSkipped n _ noise => odt_skipped n = true /\ balanced noise
  | _ => True
  end.

Lemma odt_skip_noise : forall noise d d' k o,
  bal d noise = Some d' ->
  fold_left odt_istep noise {| o_skip := S (k + d); o_out := o |}
  = {| o_skip := S (k + d'); o_out := o |}.
Proof.
  induction noise as [|t r IH]; intros d d' k o Hb; cbn [bal] in Hb.
  - injection Hb as <-. reflexivity.
  - destruct t as [n a|n|s]; cbn [fold_left odt_istep o_skip o_out].
    + replace (S (S (k + d))) with (S (k + S d)) by lia. apply IH, Hb.
    + destruct d as [|d0]; [discriminate|].
      replace (k + S d0)%nat with (S (k + d0)) by lia. apply IH, Hb.
    + apply IH, Hb.
Qed.

Lemma odt_item_step : forall it o,
  oitem_ok it ->
  fold_left odt_istep (oitem_toks it) {| o_skip := 0; o_out := o |}
  = {| o_skip := 0; o_out := o ++ oitem_text it |}.
Proof.
  intros it o Hok. destruct it as [s| | |a|n a|n|n a noise]; cbn [oitem_toks oitem_text].
  - reflexivity.
  - cbn. reflexivity.
  - cbn. reflexivity.
  - cbn. reflexivity.
  - cbn in Hok. unfold special_odt in Hok.
    destruct (odt_skipped n) eqn:Hs; [discriminate|]. cbn [orb] in Hok.
    repeat (apply orb_false_iff in Hok; destruct Hok as [Hok ?]).
    cbn [fold_left odt_istep o_skip o_out].
    repeat match goal with H : (n =? _) = false |- _ => rewrite H; clear H end.
    rewrite Hs, app_nil_r. reflexivity.
  - cbn. rewrite app_nil_r. reflexivity.
  - destruct Hok as [Hs Hb].
    cbn [fold_left odt_istep o_skip o_out].
    assert (Hn : (n =? n_tab) = false /\ (n =? n_line_break) = false /\ (n =? n_s) = false).
    { unfold odt_skipped in Hs.
      repeat (apply orb_true_iff in Hs; destruct Hs as [Hs|Hs]);
        apply N.eqb_eq in Hs; subst n; repeat split; reflexivity. }
    destruct Hn as (H1 & H2 & H3). rewrite H1, H2, H3, Hs.
    rewrite fold_left_app.
    change 1%nat with (S (0 + 0))%nat.
    rewrite (odt_skip_noise noise 0 0 0 o Hb).
    cbn. rewrite app_nil_r. reflexivity.
Qed.

Theorem odt_inline_in_source_order : forall items,
  Forall oitem_ok items ->
  odt_inline (concat (map oitem_toks items)) = concat (map oitem_text items).
Proof.
  intros items Hok. unfold odt_inline, ost0.
  assert (H : forall its o, Forall oitem_ok its ->
    fold_left odt_istep (concat (map oitem_toks its)) {| o_skip := 0; o_out := o |}
    = {| o_skip := 0; o_out := o ++ concat (map oitem_text its) |}).
  { induction its as [|it r IH]; intros o Hk; cbn [map concat].
    - rewrite app_nil_r. reflexivity.
    - inversion Hk as [|? ? H1 H2]; subst.
      rewrite fold_left_app, odt_item_step by assumption.
      rewrite IH by assumption. rewrite app_assoc. reflexivity. }
  rewrite H by assumption. reflexivity.
Qed.

(* the statements are not vacuous: a run with a tab before its text inside a
   hyperlink, next to deleted text, and an ODT span between two texts *)
Example docx_inline_example :
  let items := [DOpen n_hyperlink []; DOpen n_r []; DSkipped n_rPr [] [TS 62 []; TE 62];
                DPiece PTab; DPiece (PText [97]); DClose n_r; DClose n_hyperlink;
                DSkipped n_del [] [TS n_r []; TS n_delText []; TT [120]; TE n_delText; TE n_r];
                DOpen n_r []; DPiece (PText [98]); DClose n_r] in
  Forall ditem_ok items /\ docx_inline (concat (map ditem_toks items)) = [9; 97; 98].
Proof. split; [repeat constructor|reflexivity]. Qed.

Example odt_inline_example :
  let items := [OText [97]; OOpen n_span []; OText [98]; OClose n_span; OText [99];
                OSkipped n_note [] [TS 64 []; TT [49]; TE 64]] in
  Forall oitem_ok items /\ odt_inline (concat (map oitem_toks items)) = [97; 98; 99].
Proof. split; [repeat constructor|reflexivity]. Qed.
