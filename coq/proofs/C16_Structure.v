(* C16: heading levels through style inheritance, the table grid, and the
   element sequence of the document model. *)
From Tabula Require Import model.C16_Docs.
From Coq Require Import Lia.
Open Scope N_scope.

(* ---------- style inheritance ---------- *)

Section Styles.
Variable styles : list style.
Variable builtin : nat -> N.
Let n := length styles.

Lemma visited_bound : forall visited : list nat,
  NoDup visited -> (forall v, In v visited -> (v < n)%nat) -> (length visited <= n)%nat.
Proof.
  intros visited Hnd Hlt.
  rewrite <- (seq_length n 0). apply NoDup_incl_length; [exact Hnd|].
  intros v Hv. apply in_seq. specialize (Hlt v Hv). lia.
Qed.

Lemma existsb_eqb_false : forall i l, existsb (Nat.eqb i) l = false -> ~ In i l.
Proof.
  intros i l H Hin.
  assert (existsb (Nat.eqb i) l = true) by (apply existsb_exists; exists i; split; [exact Hin|apply Nat.eqb_refl]).
  congruence.
Qed.

Lemma chain_fuel : forall f1 f2 visited cur,
  NoDup visited -> (forall v, In v visited -> (v < n)%nat) ->
  (n + 2 - length visited <= f1)%nat -> (n + 2 - length visited <= f2)%nat ->
  chain f1 styles visited cur = chain f2 styles visited cur.
Proof.
  induction f1 as [|f1 IH]; intros f2 visited cur Hnd Hlt H1 H2.
  - pose proof (visited_bound visited Hnd Hlt). lia.
  - destruct f2 as [|f2]; [pose proof (visited_bound visited Hnd Hlt); lia|].
    cbn [chain]. destruct cur as [i|]; [|reflexivity].
    destruct (existsb (Nat.eqb i) visited) eqn:Hv; [reflexivity|].
    destruct (nth_error styles i) as [s|] eqn:Hs; [|reflexivity].
    f_equal. apply IH.
    + constructor; [apply existsb_eqb_false, Hv|exact Hnd].
    + intros v [<-|Hin]; [|apply Hlt, Hin].
      apply nth_error_Some. congruence.
    + cbn [length]. lia.
    + cbn [length]. lia.
Qed.

(* the walk up the basedOn chain ends by itself, cyclic or not: more fuel
   than the model gives it changes nothing *)
Theorem chain_terminates : forall f i,
  (S (S n) <= f)%nat ->
  chain f styles [] (Some i) = chain (S (S n)) styles [] (Some i).
Proof.
  intros f i Hf. apply chain_fuel; cbn [length]; try lia.
  - constructor.
  - intros v [].
Qed.

(* a path of parent links *)
Fixpoint is_path (i : nat) (path : list nat) : Prop :=
  match path with
  | [] => True
  | j :: r => (exists s, nth_error styles i = Some s /\ s_parent s = Some j) /\ is_path j r
  end.

Lemma chain_along_path : forall path f visited i,
  is_path i path -> NoDup (i :: path) ->
  (forall v, In v (i :: path) -> ~ In v visited) ->
  (length path < f)%nat ->
  exists rest, chain f styles visited (Some i) = i :: path ++ rest.
Proof.
  induction path as [|j r IH]; intros f visited i Hp Hnd Hdis Hf.
  - destruct f as [|f]; [lia|]. cbn [chain].
    assert (Hv : existsb (Nat.eqb i) visited = false).
    { destruct (existsb (Nat.eqb i) visited) eqn:E; [|reflexivity].
      apply existsb_exists in E. destruct E as (x & Hx & Ex). apply Nat.eqb_eq in Ex. subst x.
      exfalso. apply (Hdis i); [left; reflexivity|exact Hx]. }
    rewrite Hv. eexists. cbn [app]. reflexivity.
  - destruct f as [|f]; [cbn [length] in Hf; lia|]. cbn [chain].
    assert (Hv : existsb (Nat.eqb i) visited = false).
    { destruct (existsb (Nat.eqb i) visited) eqn:E; [|reflexivity].
      apply existsb_exists in E. destruct E as (x & Hx & Ex). apply Nat.eqb_eq in Ex. subst x.
      exfalso. apply (Hdis i); [left; reflexivity|exact Hx]. }
    rewrite Hv. destruct Hp as [(s & Hs & Hpar) Hp]. rewrite Hs, Hpar.
    inversion Hnd as [|? ? Hni Hnd']; subst.
    destruct (IH f (i :: visited) j Hp Hnd') as (rest & E).
    + intros v Hin [<-|Hin2]; [apply Hni, Hin|].
      apply (Hdis v); [right; exact Hin|exact Hin2].
    + cbn [length] in Hf. lia.
    + rewrite E. exists rest. reflexivity.
Qed.

Lemma first_mark_skip : forall pre rest,
  Forall (fun i => own_level styles builtin i = 0) pre ->
  first_mark styles builtin (pre ++ rest) = first_mark styles builtin rest.
Proof.
  induction pre as [|i r IH]; intros rest H; [reflexivity|].
  inversion H as [|? ? H1 H2]; subst. cbn [app first_mark]. rewrite H1. cbn. apply IH, H2.
Qed.

(* the nearest ancestor that marks a heading decides the level *)
Theorem heading_level_from_nearest_marked_ancestor : forall i path j l,
  is_path i path -> NoDup (i :: path) ->
  last (i :: path) i = j ->
  Forall (fun k => own_level styles builtin k = 0) (removelast (i :: path)) ->
  (forall k, In k (removelast (i :: path)) -> (k < n)%nat) ->
  own_level styles builtin j = l -> l <> 0 ->
  resolve_level styles builtin i = l.
Proof.
  intros i path j l Hp Hnd Hlast Hun Hdef Hl Hl0.
  unfold resolve_level.
  assert (Hlen : (length path < S (S (length styles)))%nat).
  { (* all but the last element of the path are defined styles, pairwise distinct *)
    assert (Hb : (length (removelast (i :: path)) <= n)%nat).
    { apply visited_bound.
      - clear - Hnd. remember (i :: path) as p. clear Heqp.
        induction p as [|a p IH]; [constructor|].
        inversion Hnd as [|? ? Hni Hnd']; subst.
        destruct p as [|b p]; [constructor|].
        change (NoDup (a :: removelast (b :: p))). constructor.
        + intros Hin. apply Hni. clear - Hin.
          revert Hin. generalize (b :: p). intros q. induction q as [|c q IHq]; [intros []|].
          destruct q as [|d q]; [intros []|]. intros [<-|Hin]; [left; reflexivity|right; apply IHq, Hin].
        + apply IH, Hnd'.
      - exact Hdef. }
    assert (Hrl : length (removelast (i :: path)) = length path).
    { clear. revert i. induction path as [|a p IH]; intros i; [reflexivity|].
      change (S (length (removelast (a :: p))) = S (length p)). f_equal. apply IH. }
    fold n. lia. }
  destruct (chain_along_path path (S (S (length styles))) [] i Hp Hnd) as (rest & E).
  { intros v _ []. }
  { exact Hlen. }
  rewrite E.
  assert (Hsplit : i :: path = removelast (i :: path) ++ [j]).
  { rewrite <- Hlast. apply app_removelast_last. discriminate. }
  change (i :: path ++ rest) with ((i :: path) ++ rest).
  rewrite Hsplit, <- app_assoc, first_mark_skip by exact Hun.
  cbn [app first_mark]. rewrite Hl.
  destruct (l =? 0) eqn:E0; [apply N.eqb_eq in E0; contradiction|reflexivity].
Qed.

End Styles.

(* a custom style two steps above a style that carries an outline level, in a
   table with a cycle elsewhere *)
Example heading_inherit_example :
  let styles := [ {| s_parent := Some 1%nat; s_mark := 0 |};
                  {| s_parent := Some 2%nat; s_mark := 0 |};
                  {| s_parent := None; s_mark := 3 |};
                  {| s_parent := Some 4%nat; s_mark := 0 |};
                  {| s_parent := Some 3%nat; s_mark := 0 |} ] in
  resolve_level styles (fun _ => 0) 0 = 3 /\ resolve_level styles (fun _ => 0) 3 = 0.
Proof. split; reflexivity. Qed.

(* ---------- the table grid ---------- *)

Lemma set_nth_length : forall A n (x : A) l, length (set_nth n x l) = length l.
Proof. intros A n x l. revert n. induction l as [|a r IH]; intros [|n]; cbn; auto. Qed.

Lemma nth_set_nth : forall A n j (x d : A) l,
  (n < length l)%nat -> nth j (set_nth n x l) d = if Nat.eqb n j then x else nth j l d.
Proof.
  intros A n j x d l. revert n j. induction l as [|a r IH]; intros n j Hn; [cbn in Hn; lia|].
  destruct n as [|n], j as [|j]; cbn; try reflexivity.
  apply IH. cbn in Hn. lia.
Qed.

(* the cell of a row that starts at grid column j, if any: later cells win *)
Fixpoint start_at (cells : list cell) (col j : nat) : option cell :=
  match cells with
  | [] => None
  | c :: r =>
      match start_at r (col + t_span c) j with
      | Some x => Some x
      | None => if negb (t_cont c) && Nat.eqb col j then Some c else None
      end
  end.

Definition gcell_of (c : cell) : gcell := (t_text c, t_rows c, t_span c).

Lemma fill_row_spec : forall cells cols col acc j,
  length acc = cols ->
  Forall (fun c => (1 <= t_span c)%nat) cells ->
  (col + fold_left (fun a c => a + t_span c)%nat cells 0 <= cols)%nat ->
  nth j (fill_row cols col cells acc) blank
  = match start_at cells col j with
    | Some c => gcell_of c
    | None => nth j acc blank
    end.
Proof.
  induction cells as [|c r IH]; intros cols col acc j Hl Hs Hw; [reflexivity|].
  inversion Hs as [|? ? H1 Hr]; subst.
  assert (Hfold : forall l a, fold_left (fun a c => a + t_span c)%nat l a
                              = (a + fold_left (fun a c => a + t_span c)%nat l 0)%nat).
  { induction l as [|x l IHl]; intros a; cbn [fold_left]; [lia|].
    rewrite IHl, (IHl (0 + t_span x)%nat). lia. }
  cbn [fold_left] in Hw. rewrite Hfold in Hw.
  cbn [fill_row start_at].
  destruct (Nat.leb (length acc) col) eqn:El; [apply Nat.leb_le in El; lia|].
  destruct (t_cont c) eqn:Ec; cbn [negb andb].
  - rewrite IH by (try assumption; lia).
    destruct (start_at r (col + t_span c) j); reflexivity.
  - rewrite IH by (try assumption; try (rewrite set_nth_length; reflexivity); lia).
    destruct (start_at r (col + t_span c) j); [reflexivity|].
    rewrite nth_set_nth by (apply Nat.leb_gt in El; exact El).
    destruct (Nat.eqb col j); reflexivity.
Qed.

(* ToModelTable: a row of cells whose spans fit the grid puts every cell at the
   column where it starts and leaves every other position blank *)
Theorem grid_row_places_cells_at_their_start_column : forall cols cells j,
  Forall (fun c => (1 <= t_span c)%nat) cells -> (row_width cells <= cols)%nat ->
  nth j (fill_row cols 0 cells (repeat blank cols)) blank
  = match start_at cells 0 j with Some c => gcell_of c | None => blank end.
Proof.
  intros cols cells j Hs Hw.
  rewrite fill_row_spec by (try assumption; try apply repeat_length; exact Hw).
  destruct (start_at cells 0 j); [reflexivity|].
  destruct (Nat.ltb j cols) eqn:E.
  - apply nth_repeat.
  - apply nth_overflow. rewrite repeat_length. apply Nat.ltb_ge, E.
Qed.

(* vertical merges only touch the row span of a start cell *)
Definition strip_rows (c : cell) : cell :=
  {| t_text := t_text c; t_span := t_span c; t_cont := t_cont c; t_rows := 0 |}.

Lemma map_upd_nth_inv : forall A B (g : A -> B) (f : A -> A) n l,
  (forall x, g (f x) = g x) -> map g (upd_nth n f l) = map g l.
Proof.
  intros A B g f n l H. revert n. induction l as [|a r IH]; intros [|n]; cbn; try reflexivity.
  - rewrite H. reflexivity.
  - rewrite IH. reflexivity.
Qed.

Lemma bump_cell_strip : forall rows r col,
  map (map strip_rows) (bump_cell rows r col) = map (map strip_rows) rows.
Proof.
  intros rows r col. unfold bump_cell.
  destruct (nth_error rows r); [|reflexivity].
  destruct (find_cell_at l col 0 0); [|reflexivity].
  apply map_upd_nth_inv. intros x. apply map_upd_nth_inv. intros c. reflexivity.
Qed.

Lemma vm_row_strip : forall cells ridx col starts rows,
  map (map strip_rows) (snd (vm_row ridx cells col starts rows)) = map (map strip_rows) rows.
Proof.
  induction cells as [|c r IH]; intros ridx col starts rows; [reflexivity|].
  cbn [vm_row]. destruct (t_cont c).
  - destruct (nth col starts None); rewrite IH; [apply bump_cell_strip|reflexivity].
  - apply IH.
Qed.

Lemma vm_rows_strip : forall todo ridx starts rows,
  map (map strip_rows) (vm_rows todo ridx starts rows) = map (map strip_rows) rows.
Proof.
  induction todo as [|r rest IH]; intros ridx starts rows; [reflexivity|].
  cbn [vm_rows]. pose proof (vm_row_strip r ridx 0 starts rows) as H.
  destruct (vm_row ridx r 0 starts rows) as [s' r']. cbn [snd] in H.
  rewrite IH. exact H.
Qed.

Theorem vertical_merges_keep_text_spans_and_order_partial : forall rows,
  map (map strip_rows) (docx_vmerge rows) = map (map strip_rows) rows.
Proof. intros rows. apply vm_rows_strip. Qed.

(* a merged cell over three rows next to a column span *)
Example docx_grid_example :
  let c t s k := {| t_text := t; t_span := s; t_cont := k; t_rows := 1 |} in
  docx_grid [[c [97] 1%nat false; c [98] 2%nat false];
             [c [] 1%nat true; c [99] 1%nat false; c [100] 1%nat false];
             [c [] 1%nat true; c [101] 2%nat false]]
  = [[([97], 3%nat, 1%nat); ([98], 1%nat, 2%nat); blank];
     [blank; ([99], 1%nat, 1%nat); ([100], 1%nat, 1%nat)];
     [blank; ([101], 1%nat, 2%nat); blank]].
Proof. reflexivity. Qed.

Example odt_grid_example :
  let c t s r := {| t_text := t; t_span := s; t_cont := false; t_rows := r |} in
  odt_grid 3 [[c [97] 1%nat 3%nat; c [98] 2%nat 1%nat];
              [c [99] 1%nat 1%nat; c [100] 1%nat 1%nat];
              [c [101] 2%nat 1%nat]]
  = [[([97], 3%nat, 1%nat); ([98], 1%nat, 2%nat); blank];
     [blank; ([99], 1%nat, 1%nat); ([100], 1%nat, 1%nat)];
     [blank; ([101], 1%nat, 2%nat); blank]].
Proof. reflexivity. Qed.

(* ---------- the element sequence ---------- *)

Inductive atom :=
| APara (t : bytes) | AHead (l : N) (t : bytes) | AItem (l : N) (t : bytes) | ATable (g : list (list gcell)).

Definition view_block (b : block) : list atom :=
  match b with
  | BPara t => if is_empty t then [] else [APara t]
  | BHead l t => if is_empty t then [] else [AHead l t]
  | BItem _ _ l t => if is_empty t then [] else [AItem l t]
  | BTable g => match g with [] => [] | _ => [ATable g] end
  end.

Definition view_element (e : element) : list atom :=
  match e with
  | EPara t => [APara t]
  | EHead l t => [AHead l t]
  | EList _ items => map (fun it => AItem (fst it) (snd it)) items
  | ETable g => [ATable g]
  end.

Definition view_cur (cur : option (N * bool * list (N * bytes))) : list atom :=
  match cur with
  | Some (_, _, items) => map (fun it => AItem (fst it) (snd it)) items
  | None => []
  end.

Lemma elements_view : forall bs cur,
  concat (map view_element (elements cur bs)) = view_cur cur ++ concat (map view_block bs).
Proof.
  induction bs as [|b r IH]; intros cur.
  - cbn [elements map concat]. rewrite app_nil_r.
    destruct cur as [[[id o] items]|]; cbn; [rewrite app_nil_r|]; reflexivity.
  - assert (Hflush : forall tail,
      concat (map view_element ((match cur with Some (_, o, items) => [EList o items] | None => [] end) ++ tail))
      = view_cur cur ++ concat (map view_element tail)).
    { intros tail. destruct cur as [[[id o] items]|]; reflexivity. }
    cbn [elements map concat]. destruct b as [t|l t|id o l t|g]; cbn [view_block].
    + destruct (is_empty t); [apply IH|].
      rewrite Hflush. cbn [map concat view_element]. rewrite IH. reflexivity.
    + destruct (is_empty t); [apply IH|].
      rewrite Hflush. cbn [map concat view_element]. rewrite IH. reflexivity.
    + destruct (is_empty t); [apply IH|].
      destruct cur as [[[id' o'] items]|].
      * destruct (id =? id').
        -- rewrite IH. cbn [view_cur]. rewrite map_app, <- app_assoc. reflexivity.
        -- cbn [map concat view_element]. rewrite IH. cbn [view_cur map]. reflexivity.
      * rewrite IH. reflexivity.
    + destruct g as [|row g'].
      * rewrite Hflush, IH. reflexivity.
      * rewrite Hflush. cbn [map concat view_element]. rewrite IH. reflexivity.
Qed.

(* the document model lists the body in document order: paragraphs, headings
   with their level, list items with their nesting level and table grids,
   nothing added, nothing but empty paragraphs dropped *)
Theorem document_elements_keep_order_and_structure : forall bs,
  concat (map view_element (doc_elements bs)) = concat (map view_block bs).
Proof. intros bs. unfold doc_elements. rewrite elements_view. reflexivity. Qed.

Example elements_example :
  doc_elements [BHead 2 [72]; BItem 1 false 0 [97]; BPara []; BItem 1 false 1 [98];
                BItem 2 true 0 [99]; BTable [[([120], 1%nat, 1%nat)]]; BPara [122]]
  = [EHead 2 [72]; EList false [(0, [97]); (1, [98])]; EList true [(0, [99])];
     ETable [[([120], 1%nat, 1%nat)]]; EPara [122]].
Proof. reflexivity. Qed.
