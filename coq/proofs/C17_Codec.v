(* C17: the column <-> letters conversion is a bijection (unbounded). *)
From Tabula Require Import base.Val model.C17_Xlsx.
From Coq Require Import Lia ZifyN ZifyNat ZifyBool.
Ltac Zify.zify_post_hook ::= Z.div_mod_to_equations.
Open Scope Z_scope.

Definition upper_letters (s : bytes) : Prop := Forall (fun c => (65 <= c <= 90)%N) s.

Definition step (r : Z) (c : N) : Z := r * 26 + (Z.of_N c - 65) + 1.
Definition le_val (l : bytes) : Z := fold_right (fun c r => step r c) 0 l.

Lemma c2i_go_upper s : forall acc, upper_letters s -> c2i_go s acc = Some (fold_left step s acc).
Proof.
  induction s as [|c s IH]; intros acc H; cbn [c2i_go fold_left]; [reflexivity|].
  inversion H as [|? ? Hc Hs]; subst.
  unfold to_upper. replace ((97 <=? c) && (c <=? 122))%N with false by lia.
  replace ((c <? 65) || (90 <? c))%N with false by lia.
  rewrite IH by exact Hs. reflexivity.
Qed.

Lemma upper_rev l : upper_letters l -> upper_letters (rev l).
Proof. unfold upper_letters. intro H. apply Forall_rev. exact H. Qed.

Lemma column_to_index_rev l : upper_letters l -> column_to_index (rev l) = le_val l - 1.
Proof.
  intro H. unfold column_to_index. rewrite c2i_go_upper by (apply upper_rev; exact H).
  unfold le_val. rewrite <- fold_left_rev_right. rewrite rev_involutive. reflexivity.
Qed.

(* letters -> index -> letters, least significant first *)
Lemma i2c_le_val fuel : forall m, 0 <= m < 2 ^ Z.of_nat fuel ->
  le_val (i2c_le fuel m) = m /\ upper_letters (i2c_le fuel m).
Proof.
  induction fuel as [|f IH]; intros m Hm.
  - cbn in Hm. assert (m = 0) by lia. subst. cbn. split; [reflexivity|constructor].
  - cbn [i2c_le]. destruct (m <=? 0) eqn:E.
    + assert (m = 0) by lia. subst. cbn. split; [reflexivity|constructor].
    + rewrite Nat2Z.inj_succ, Z.pow_succ_r in Hm by lia.
      assert (0 <= (m - 1) / 26 < 2 ^ Z.of_nat f) as Hq by lia.
      destruct (IH _ Hq) as [IH1 IH2].
      cbn [le_val fold_right]. fold (le_val (i2c_le f ((m - 1) / 26))). rewrite IH1.
      split.
      * unfold step. rewrite Z2N.id by lia. lia.
      * constructor; [|exact IH2]. lia.
Qed.

Lemma le_val_nonneg l : upper_letters l -> 0 <= le_val l.
Proof.
  induction l as [|c l IH]; intro H; cbn; [lia|]. inversion H; subst.
  fold (le_val l). unfold step. specialize (IH H3). lia.
Qed.

Lemma val_i2c_le l : upper_letters l -> forall fuel, le_val l < 2 ^ Z.of_nat fuel ->
  i2c_le fuel (le_val l) = l.
Proof.
  induction l as [|c l IH]; intros H fuel Hf.
  - cbn. destruct fuel; reflexivity.
  - inversion H as [|? ? Hc Hl]; subst.
    pose proof (le_val_nonneg l Hl) as Hnn.
    cbn [le_val fold_right] in *. fold (le_val l) in *. unfold step in *.
    destruct fuel as [|f].
    + cbn in Hf. lia.
    + cbn [i2c_le].
      replace (le_val l * 26 + (Z.of_N c - 65) + 1 <=? 0) with false by lia.
      rewrite Nat2Z.inj_succ, Z.pow_succ_r in Hf by lia.
      replace ((le_val l * 26 + (Z.of_N c - 65) + 1 - 1) / 26) with (le_val l) by lia.
      replace ((le_val l * 26 + (Z.of_N c - 65) + 1 - 1) mod 26) with (Z.of_N c - 65) by lia.
      rewrite IH; [|exact Hl|lia].
      f_equal. lia.
Qed.

Lemma fuel_enough n : 0 <= n -> 0 <= n + 1 < 2 ^ Z.of_nat (i2c_fuel n).
Proof.
  intro H. unfold i2c_fuel. rewrite Nat2Z.inj_succ, Z2Nat.id by apply Z.log2_nonneg.
  pose proof (Z.log2_spec (n + 1)). lia.
Qed.

Theorem col_index_of_letters n : 0 <= n -> column_to_index (index_to_column n) = n.
Proof.
  intro H. unfold index_to_column. replace (n <? 0) with false by lia.
  destruct (i2c_le_val _ _ (fuel_enough n H)) as [Hv Hu].
  rewrite column_to_index_rev by exact Hu. rewrite Hv. lia.
Qed.

Theorem letters_of_col_index s : s <> [] -> upper_letters s ->
  index_to_column (column_to_index s) = s.
Proof.
  intros Hne Hu.
  assert (upper_letters (rev s)) as Hr by (apply upper_rev; exact Hu).
  rewrite <- (rev_involutive s) at 1. rewrite column_to_index_rev by exact Hr.
  assert (1 <= le_val (rev s)) as Hpos.
  { destruct (rev s) as [|c l] eqn:E.
    - apply (f_equal (@rev N)) in E. rewrite rev_involutive in E. cbn in E. contradiction.
    - inversion Hr; subst. cbn. fold (le_val l). unfold step.
      pose proof (le_val_nonneg l H2). lia. }
  unfold index_to_column. replace (le_val (rev s) - 1 <? 0) with false by lia.
  replace (le_val (rev s) - 1 + 1) with (le_val (rev s)) by lia.
  rewrite val_i2c_le.
  - apply rev_involutive.
  - exact Hr.
  - pose proof (fuel_enough (le_val (rev s) - 1)) as F.
    replace (le_val (rev s) - 1 + 1) with (le_val (rev s)) in F by lia. apply F. lia.
Qed.

(* letters produced are upper-case letters, and the index is non-negative: the
   two maps are mutually inverse bijections between Z>=0 and non-empty A..Z strings *)
Theorem index_to_column_wf n : 0 <= n -> index_to_column n <> [] /\ upper_letters (index_to_column n).
Proof.
  intro H. unfold index_to_column. replace (n <? 0) with false by lia.
  destruct (i2c_le_val _ _ (fuel_enough n H)) as [Hv Hu]. split.
  - intro E.
    assert (i2c_le (i2c_fuel n) (n + 1) = []) as E'
      by (rewrite <- (rev_involutive (i2c_le (i2c_fuel n) (n + 1))), E; reflexivity).
    rewrite E' in Hv. cbn [le_val fold_right] in Hv. lia.
  - apply upper_rev. exact Hu.
Qed.

Theorem column_to_index_nonneg s : s <> [] -> upper_letters s -> 0 <= column_to_index s.
Proof.
  intros Hne Hu. rewrite <- (rev_involutive s).
  assert (upper_letters (rev s)) as Hr by (apply upper_rev; exact Hu).
  rewrite column_to_index_rev by exact Hr.
  destruct (rev s) as [|c l] eqn:E.
  - apply (f_equal (@rev N)) in E. rewrite rev_involutive in E. cbn in E. contradiction.
  - inversion Hr; subst. cbn. fold (le_val l). unfold step. pose proof (le_val_nonneg l H2). lia.
Qed.
