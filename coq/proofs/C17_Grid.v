(* C17: every cell lands at the position its reference names; nothing else is written. *)
From Tabula Require Import base.Val base.ListX model.C17_Xlsx.
From Coq Require Import Lia.
From Coq Require String.
Import (notations) String.
Open Scope Z_scope.

Definition get (g : grid) (r c : nat) : option cell :=
  match nth_error g r with Some row => nth_error row c | None => None end.

(* does source cell x of a row with number rr address grid position (r,c)? *)
Definition addresses (rr : Z) (x : xcell) (r c : nat) : bool :=
  match parse_cell_ref (xc_ref x) with
  | Some (col, _) => (rr - 1 =? Z.of_nat r) && (col =? Z.of_nat c)
  | None => false
  end.

Lemma get_upd g ri ci f r c :
  get (upd_nth ri (upd_nth ci f) g) r c =
  match get g r c with
  | None => None
  | Some old => Some (if Nat.eqb ri r && Nat.eqb ci c then f old else old)
  end.
Proof.
  unfold get. destruct (Nat.eqb ri r) eqn:Er.
  - apply Nat.eqb_eq in Er. subst ri. destruct (nth_error g r) as [row|] eqn:Eg.
    + rewrite (nth_error_upd_same _ _ _ _ Eg). destruct (Nat.eqb ci c) eqn:Ec.
      * apply Nat.eqb_eq in Ec. subst ci. destruct (nth_error row c) as [old|] eqn:Eo.
        -- rewrite (nth_error_upd_same _ _ _ _ Eo). reflexivity.
        -- rewrite (nth_error_upd_none _ _ _ Eo). rewrite Eo. reflexivity.
      * apply Nat.eqb_neq in Ec. rewrite nth_error_upd_other by exact Ec.
        destruct (nth_error row c); reflexivity.
    + rewrite (nth_error_upd_none _ _ _ Eg). rewrite Eg. reflexivity.
  - apply Nat.eqb_neq in Er. rewrite nth_error_upd_other by exact Er.
    destruct (nth_error g r) as [row|]; [|reflexivity]. destruct (nth_error row c); reflexivity.
Qed.

Lemma parse_col_nonneg ref col rw : parse_cell_ref ref = Some (col, rw) -> 0 <= col.
Proof.
  unfold parse_cell_ref. destruct (span_letters ref) as [colp rowp].
  destruct colp; [discriminate|]. destruct rowp; [discriminate|].
  destruct (column_to_index (n :: colp) <? 0) eqn:E; [discriminate|].
  destruct (atoi (n0 :: rowp)); [|discriminate]. destruct (z <? 1); [discriminate|].
  intro H. inversion H; subst. lia.
Qed.

Lemma get_place_cell sst ri g x r c :
  get (place_cell sst ri g x) r c =
  match get g r c with
  | None => None
  | Some old => Some (if addresses (Z.of_nat ri + 1) x r c then set_content sst x old else old)
  end.
Proof.
  unfold place_cell, addresses. destruct (parse_cell_ref (xc_ref x)) as [[col rw]|] eqn:E.
  - rewrite get_upd. destruct (get g r c); [|reflexivity]. f_equal.
    pose proof (parse_col_nonneg _ _ _ E) as Hc.
    replace (Z.of_nat ri + 1 - 1 =? Z.of_nat r) with (Nat.eqb ri r) by (destruct (Nat.eqb_spec ri r); lia).
    replace (col =? Z.of_nat c) with (Nat.eqb (Z.to_nat col) c) by (destruct (Nat.eqb_spec (Z.to_nat col) c); lia).
    reflexivity.
  - destruct (get g r c); reflexivity.
Qed.

(* value of position (r,c) after a list of source cells of one row, in document order *)
Definition fold_cells (sst : list bytes) (rr : Z) (cells : list xcell) (r c : nat) (old : cell) : cell :=
  fold_left (fun acc x => if addresses rr x r c then set_content sst x acc else acc) cells old.

Lemma get_fold_place_cell sst ri cells : forall g r c,
  get (fold_left (place_cell sst ri) cells g) r c =
  option_map (fold_cells sst (Z.of_nat ri + 1) cells r c) (get g r c).
Proof.
  induction cells as [|x cells IH]; intros g r c; cbn [fold_left].
  - destruct (get g r c); reflexivity.
  - rewrite IH. rewrite get_place_cell. destruct (get g r c); reflexivity.
Qed.

Lemma place_cell_length sst ri g x : length (place_cell sst ri g x) = length g.
Proof. unfold place_cell. destruct (parse_cell_ref _) as [[? ?]|]; [apply upd_nth_length|reflexivity]. Qed.
Lemma fold_place_cell_length sst ri cells : forall g, length (fold_left (place_cell sst ri) cells g) = length g.
Proof. induction cells as [|x cells IH]; intro g; cbn; [reflexivity|]. rewrite IH. apply place_cell_length. Qed.
Lemma place_row_length sst g row : length (place_row sst g row) = length g.
Proof. unfold place_row. destruct (_ || _); [reflexivity|apply fold_place_cell_length]. Qed.

Lemma fold_cells_no_address sst rr cells r c old :
  (forall x, In x cells -> addresses rr x r c = false) -> fold_cells sst rr cells r c old = old.
Proof.
  unfold fold_cells. revert old. induction cells as [|x cells IH]; intros old H; cbn; [reflexivity|].
  rewrite (H x (or_introl eq_refl)). apply IH. intros y Hy. apply H. right. exact Hy.
Qed.

Lemma get_place_row sst g row r c :
  get (place_row sst g row) r c = option_map (fold_cells sst (xr_r row) (xr_cells row) r c) (get g r c).
Proof.
  unfold place_row.
  destruct ((xr_r row - 1 <? 0) || (Z.of_nat (length g) <=? xr_r row - 1)) eqn:E.
  - (* row skipped: no in-bounds position is addressed by it *)
    destruct (get g r c) as [old|] eqn:Eg; [|reflexivity]. cbn. f_equal. symmetry.
    apply fold_cells_no_address. intros x _. unfold addresses.
    destruct (parse_cell_ref (xc_ref x)) as [[col rw]|]; [|reflexivity].
    assert (r < length g)%nat as Hr.
    { unfold get in Eg. destruct (nth_error g r) eqn:En; [|discriminate].
      apply nth_error_Some. congruence. }
    replace (xr_r row - 1 =? Z.of_nat r) with false by lia. reflexivity.
  - rewrite get_fold_place_cell. replace (Z.of_nat (Z.to_nat (xr_r row - 1)) + 1) with (xr_r row) by lia.
    reflexivity.
Qed.

Definition fold_rows (sst : list bytes) (rows : list xrow) (r c : nat) (old : cell) : cell :=
  fold_left (fun acc row => fold_cells sst (xr_r row) (xr_cells row) r c acc) rows old.

Lemma get_fold_place_row sst rows : forall g r c,
  get (fold_left (place_row sst) rows g) r c = option_map (fold_rows sst rows r c) (get g r c).
Proof.
  induction rows as [|row rows IH]; intros g r c; cbn [fold_left].
  - destruct (get g r c); reflexivity.
  - rewrite IH, get_place_row. destruct (get g r c); reflexivity.
Qed.

Lemma get_blank nr nc r c : (r < nr)%nat -> (c < nc)%nat -> get (blank_grid nr nc) r c = Some empty_cell.
Proof.
  intros Hr Hc. unfold get, blank_grid.
  rewrite (nth_error_repeat _ Hr). apply nth_error_repeat. exact Hc.
Qed.

(* the grid before merge marking: position (r,c) holds exactly the fold of the
   source cells addressing it, in document order *)
Theorem grid_is_fold sst rows nr nc r c : (r < nr)%nat -> (c < nc)%nat ->
  get (fold_left (place_row sst) rows (blank_grid nr nc)) r c = Some (fold_rows sst rows r c empty_cell).
Proof. intros Hr Hc. rewrite get_fold_place_row, get_blank by assumption. reflexivity. Qed.

(* --- with pairwise distinct addresses: the addressed cell holds that source
   cell's content, every other position is blank *)
Definition all_cells (rows : list xrow) : list (Z * xcell) :=
  flat_map (fun row => map (fun x => (xr_r row, x)) (xr_cells row)) rows.

Lemma fold_rows_all sst rows r c : forall old,
  fold_rows sst rows r c old =
  fold_left (fun acc rx => if addresses (fst rx) (snd rx) r c then set_content sst (snd rx) acc else acc)
            (all_cells rows) old.
Proof.
  induction rows as [|row rows IH]; intro old; cbn [fold_rows fold_left all_cells flat_map]; [reflexivity|].
  rewrite fold_left_app. fold (all_cells rows). rewrite <- IH. unfold fold_rows at 1. cbn [fold_left].
  f_equal. unfold fold_cells. generalize (xr_cells row) old. clear.
  induction l as [|x l IH]; intro old; cbn; [reflexivity|]. apply IH.
Qed.

Definition unique_at (rows : list xrow) (r c : nat) : Prop :=
  forall pre rx post, all_cells rows = pre ++ rx :: post -> addresses (fst rx) (snd rx) r c = true ->
    (forall y, In y pre -> addresses (fst y) (snd y) r c = false) /\
    (forall y, In y post -> addresses (fst y) (snd y) r c = false).

Lemma fold_none sst r c l old :
  (forall y, In y l -> addresses (fst y) (snd y) r c = false) ->
  fold_left (fun acc rx => if addresses (fst rx) (snd rx) r c then set_content sst (snd rx) acc else acc) l old = old.
Proof.
  revert old; induction l as [|y l IH]; intros old H; cbn; [reflexivity|].
  rewrite (H y (or_introl eq_refl)). apply IH. intros z Hz. apply H. right. exact Hz.
Qed.

Theorem cell_at_its_address sst rows nr nc r c pre rr x post :
  (r < nr)%nat -> (c < nc)%nat ->
  all_cells rows = pre ++ (rr, x) :: post -> addresses rr x r c = true ->
  (forall y, In y pre -> addresses (fst y) (snd y) r c = false) ->
  (forall y, In y post -> addresses (fst y) (snd y) r c = false) ->
  get (fold_left (place_row sst) rows (blank_grid nr nc)) r c = Some (set_content sst x empty_cell).
Proof.
  intros Hr Hc Hall Ha Hpre Hpost. rewrite grid_is_fold by assumption. f_equal.
  rewrite fold_rows_all, Hall, fold_left_app. cbn [fold_left fst snd].
  rewrite (fold_none _ _ _ pre) by exact Hpre. rewrite Ha. apply fold_none. exact Hpost.
Qed.

Theorem blank_elsewhere sst rows nr nc r c :
  (r < nr)%nat -> (c < nc)%nat ->
  (forall y, In y (all_cells rows) -> addresses (fst y) (snd y) r c = false) ->
  get (fold_left (place_row sst) rows (blank_grid nr nc)) r c = Some empty_cell.
Proof.
  intros Hr Hc H. rewrite grid_is_fold by assumption. f_equal.
  rewrite fold_rows_all. apply fold_none. exact H.
Qed.

(* displayed value per cell type *)
Theorem display_value sst x :
  let v := c_value (set_content sst x empty_cell) in
  (xc_t x = 1 -> v = if bytes_eqb (xc_v x) [49%N] then bs "TRUE" else bs "FALSE") /\
  (xc_t x = 2 -> v = xc_v x) /\ (xc_t x = 3 -> v = xc_v x) /\
  (xc_t x = 4 -> forall t, xc_is x = Some t -> v = t) /\
  (xc_t x = 0 -> forall idx, atoi (xc_v x) = Some idx -> 0 <= idx < Z.of_nat (length sst) ->
                 v = nth (Z.to_nat idx) sst []) /\
  (xc_t x = 5 -> xc_v x <> [] -> v = xc_v x).
Proof.
  cbv zeta. unfold set_content, cell_content. repeat split.
  - intro H; rewrite H. reflexivity.
  - intro H; rewrite H. reflexivity.
  - intro H; rewrite H. reflexivity.
  - intros H t Ht; rewrite H, Ht. reflexivity.
  - intros H idx Hi Hb; rewrite H, Hi.
    replace ((0 <=? idx) && (idx <? Z.of_nat (length sst))) with true by lia. reflexivity.
  - intros H Hv; rewrite H. destruct (xc_v x); [contradiction|]. reflexivity.
Qed.

(* merge marking never changes a value, only flags *)
Lemma mapi_from_nth {A B} (f : Z -> A -> B) l : forall i n,
  nth_error (mapi_from f i l) n = option_map (f (i + Z.of_nat n)) (nth_error l n).
Proof.
  induction l as [|x l IH]; intros i n; destruct n; cbn; try reflexivity.
  - f_equal. f_equal. lia.
  - rewrite IH. destruct (nth_error l n); cbn; [|reflexivity]. f_equal. f_equal. lia.
Qed.

Theorem merge_keeps_values g rg r c :
  option_map c_value (get (apply_region g rg) r c) = option_map c_value (get g r c).
Proof.
  destruct rg as [[[sc sr] ec] er]. unfold get, apply_region. rewrite mapi_from_nth.
  destruct (nth_error g r) as [row|]; [|reflexivity]. cbn [option_map].
  destruct ((sr <=? 0 + Z.of_nat r) && (0 + Z.of_nat r <=? er)); [|reflexivity].
  rewrite mapi_from_nth. destruct (nth_error row c) as [cl|]; [|reflexivity]. cbn [option_map].
  destruct ((sc <=? 0 + Z.of_nat c) && (0 + Z.of_nat c <=? ec)); [|reflexivity].
  unfold mark_cell. destruct (_ && _); reflexivity.
Qed.

(* a covered, non-root position of a region prints as blank in the text *)
Theorem merge_blanks_covered g sc sr ec er r c cl :
  get g r c = Some cl -> c_root cl = false ->
  sr <= Z.of_nat r <= er -> sc <= Z.of_nat c <= ec -> (Z.of_nat r <> sr \/ Z.of_nat c <> sc) ->
  option_map shown (get (apply_region g (sc, sr, ec, er)) r c) = Some [].
Proof.
  intros Hg Hroot Hr Hc Hne. unfold get in *. unfold apply_region. rewrite mapi_from_nth.
  destruct (nth_error g r) as [row|]; [|discriminate]. cbn [option_map].
  replace ((sr <=? 0 + Z.of_nat r) && (0 + Z.of_nat r <=? er)) with true by lia.
  rewrite mapi_from_nth. rewrite Hg. cbn [option_map].
  replace ((sc <=? 0 + Z.of_nat c) && (0 + Z.of_nat c <=? ec)) with true by lia.
  unfold mark_cell. replace ((0 + Z.of_nat r =? sr) && (0 + Z.of_nat c =? sc)) with false by lia.
  unfold shown. cbn. rewrite Hroot. reflexivity.
Qed.

(* shared strings with rich-text runs *)
Theorem shared_rich_text runs : shared_string [] runs = concat runs.
Proof. reflexivity. Qed.
