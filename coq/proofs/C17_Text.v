(* C17: tab-separated text: line r, field c is the shown value of grid cell (r,c). *)
From Tabula Require Import base.Val base.ListX model.C17_Xlsx.
From Coq Require Import Lia.
Open Scope N_scope.

Lemma split_on_nosep sep f : ~ In sep f -> forall s cur,
  split_on sep (f ++ s) cur = split_on sep s (rev f ++ cur).
Proof.
  induction f as [|c f IH]; intros H s cur; cbn [app split_on rev]; [reflexivity|].
  destruct (N.eqb_spec c sep) as [E|E]; [exfalso; apply H; left; exact E|].
  rewrite IH by (intro Hin; apply H; right; exact Hin).
  rewrite <- app_assoc. reflexivity.
Qed.

Lemma split_on_join sep fields : fields <> [] -> Forall (fun f => ~ In sep f) fields ->
  split_on sep (join [sep] fields) [] = fields.
Proof.
  induction fields as [|x l IH]; intros Hne H; [contradiction|].
  inversion H as [|? ? Hx Hl]; subst. destruct l as [|y l].
  - cbn [join]. rewrite <- (app_nil_r x) at 1. rewrite split_on_nosep by exact Hx.
    cbn [split_on]. rewrite app_nil_r, rev_involutive. reflexivity.
  - change (join [sep] (x :: y :: l)) with (x ++ [sep] ++ join [sep] (y :: l)).
    rewrite split_on_nosep by exact Hx. cbn [app split_on]. rewrite N.eqb_refl.
    rewrite app_nil_r, rev_involutive. f_equal. apply IH; [discriminate|exact Hl].
Qed.

Definition clean_cell (c : cell) : Prop := ~ In 9 (shown c) /\ ~ In 10 (shown c).

Lemma join_no_sep sep d fields : sep <> d ->
  Forall (fun f => ~ In sep f) fields -> ~ In sep (join [d] fields).
Proof.
  intros Hd H. induction fields as [|x l IH]; [cbn; auto|].
  inversion H as [|? ? Hx Hl]; subst. destruct l as [|y l]; [exact Hx|].
  change (join [d] (x :: y :: l)) with (x ++ [d] ++ join [d] (y :: l)).
  intro Hin. apply in_app_or in Hin as [Hin|Hin]; [exact (Hx Hin)|].
  apply in_app_or in Hin as [Hin|Hin].
  - destruct Hin as [E|[]]. apply Hd. symmetry. exact E.
  - exact (IH Hl Hin).
Qed.

Theorem text_lines_and_fields (g : grid) :
  g <> [] -> Forall (fun row => row <> [] /\ Forall clean_cell row) g ->
  let lines := split_on 10 (sheet_text [9] g) [] in
  lines = map (fun row => join [9] (map shown row)) g /\
  map (fun ln => split_on 9 ln []) lines = map (map shown) g.
Proof.
  intros Hne H. cbv zeta. assert (split_on 10 (sheet_text [9] g) [] = map (fun row => join [9] (map shown row)) g) as E.
  { unfold sheet_text. apply split_on_join.
    - destruct g; [contradiction|discriminate].
    - apply Forall_map. eapply Forall_impl; [|exact H]. intros row [_ Hc].
      apply join_no_sep; [discriminate|]. apply Forall_map. eapply Forall_impl; [|exact Hc].
      intros c [_ H10]. exact H10. }
  split; [exact E|]. rewrite E, map_map. clear E Hne.
  induction H as [|row g [Hr Hc] Hg IH]; cbn [map]; [reflexivity|]. f_equal; [|exact IH].
  apply split_on_join.
  - destruct row; [contradiction|discriminate].
  - apply Forall_map. eapply Forall_impl; [|exact Hc]. intros c [H9 _]. exact H9.
Qed.
