(* C18: parts are read in declared order; archive order, decoys and escaping do not matter. *)
From Tabula Require Import base.Val base.ListX model.C18_Parts.
From Coq Require Import Lia Permutation ZifyN ZifyNat ZifyBool.
From Coq Require String.
Import (notations) String.
Open Scope N_scope.

(* ---------- member lookup does not depend on the archive order *)
Lemma find_member_some n ms c : find_member n ms = Some c -> In (n, c) ms.
Proof.
  induction ms as [|[k v] ms IH]; cbn [find_member]; [discriminate|].
  destruct (bytes_eqb k n) eqn:E.
  - apply bytes_eqb_eq in E. subst. intro H. inversion H. left. reflexivity.
  - intro H. right. apply IH. exact H.
Qed.

Lemma find_member_none n ms : find_member n ms = None -> forall c, ~ In (n, c) ms.
Proof.
  induction ms as [|[k v] ms IH]; cbn [find_member]; intros H c Hin; [contradiction|].
  destruct (bytes_eqb k n) eqn:E; [discriminate|]. destruct Hin as [Heq|Hin].
  - inversion Heq; subst. rewrite bytes_eqb_refl in E. discriminate.
  - exact (IH H c Hin).
Qed.

Definition unique_names (ms : list member) : Prop := forall n c c', In (n, c) ms -> In (n, c') ms -> c = c'.

Theorem find_member_perm ms ms' n : Permutation ms ms' -> unique_names ms -> find_member n ms = find_member n ms'.
Proof.
  intros P U. destruct (find_member n ms) as [c|] eqn:E; destruct (find_member n ms') as [c'|] eqn:E'; try reflexivity.
  - apply find_member_some in E. apply find_member_some in E'. f_equal. apply (U n); [exact E|].
    eapply Permutation_in; [apply Permutation_sym; exact P|exact E'].
  - apply find_member_some in E. exfalso. eapply find_member_none; [exact E'|]. eapply Permutation_in; eassumption.
  - apply find_member_some in E'. exfalso. eapply find_member_none; [exact E|].
    eapply Permutation_in; [apply Permutation_sym; exact P|exact E'].
Qed.

(* ---------- ZIP member order is irrelevant for all three readers *)
Theorem pptx_zip_order ms ms' rels rids : Permutation ms ms' -> unique_names ms ->
  pptx_read ms rels rids = pptx_read ms' rels rids.
Proof.
  intros P U. unfold pptx_read. apply flat_map_ext. intro n. rewrite (find_member_perm ms ms' n P U). reflexivity.
Qed.

Theorem epub_zip_order ms ms' opf manifest spine : Permutation ms ms' -> unique_names ms ->
  epub_read ms opf manifest spine = epub_read ms' opf manifest spine.
Proof.
  intros P U. unfold epub_read. apply flat_map_ext. intro id. destruct (assoc_b id manifest); [|reflexivity].
  rewrite (find_member_perm ms ms' _ P U). reflexivity.
Qed.

Theorem xlsx_zip_order ms ms' rels sheets : Permutation ms ms' -> unique_names ms ->
  xlsx_read ms rels sheets = xlsx_read ms' rels sheets.
Proof.
  intros P U. unfold xlsx_read. generalize 0%nat. induction sheets as [|s sheets IH]; intro i; cbn [xlsx_read_go]; [reflexivity|].
  unfold xlsx_sheet_content. rewrite !(find_member_perm ms ms' _ P U). rewrite IH. reflexivity.
Qed.

(* ---------- the result follows the declared list, part by part *)
Theorem pptx_declared_order ms rels a b : pptx_read ms rels (a ++ b) = pptx_read ms rels a ++ pptx_read ms rels b.
Proof. unfold pptx_read, pptx_declared. rewrite !flat_map_app. reflexivity. Qed.

Theorem epub_spine_order ms opf manifest a b :
  epub_read ms opf manifest (a ++ b) = epub_read ms opf manifest a ++ epub_read ms opf manifest b.
Proof. unfold epub_read. apply flat_map_app. Qed.

Theorem xlsx_workbook_order ms rels a b :
  xlsx_read ms rels (a ++ b) = xlsx_read ms rels a ++ xlsx_read_go ms rels (length a) b.
Proof.
  unfold xlsx_read. change (length a) with (0 + length a)%nat. generalize 0%nat.
  induction a as [|s a IH]; intro i; cbn [app xlsx_read_go length].
  - rewrite Nat.add_0_r. reflexivity.
  - rewrite IH. replace (S i + length a)%nat with (i + S (length a))%nat by lia.
    destruct (xlsx_sheet_content ms (xlsx_target rels i s)); reflexivity.
Qed.

(* the number of pages is the number of declared, readable parts *)
Theorem pptx_count ms rels rids :
  length (pptx_read ms rels rids) =
  length (filter (fun n => match find_member n ms with Some _ => true | None => false end) (pptx_declared rels rids)).
Proof.
  unfold pptx_read. induction (pptx_declared rels rids) as [|n l IH]; [reflexivity|].
  cbn [flat_map filter]. destruct (find_member n ms); cbn [app length]; rewrite IH; reflexivity.
Qed.

Theorem epub_count ms opf manifest spine : (length (epub_read ms opf manifest spine) <= length spine)%nat.
Proof.
  unfold epub_read. induction spine as [|id spine IH]; [cbn; lia|]. cbn [flat_map length]. rewrite app_length.
  destruct (assoc_b id manifest); [destruct (find_member _ ms)|]; cbn [length]; lia.
Qed.

(* an unreferenced part (a decoy) never shows up: a member whose name no declared
   entry resolves to can be added anywhere without changing the result *)
Lemma find_member_decoy n d c ms1 ms2 : n <> d -> find_member n (ms1 ++ (d, c) :: ms2) = find_member n (ms1 ++ ms2).
Proof.
  intro H. induction ms1 as [|[k v] ms1 IH]; cbn [app find_member].
  - destruct (bytes_eqb d n) eqn:E; [apply bytes_eqb_eq in E; congruence|reflexivity].
  - destruct (bytes_eqb k n); [reflexivity|exact IH].
Qed.

Theorem pptx_decoy ms1 ms2 d c rels rids : ~ In d (pptx_declared rels rids) ->
  pptx_read (ms1 ++ (d, c) :: ms2) rels rids = pptx_read (ms1 ++ ms2) rels rids.
Proof.
  intro H. unfold pptx_read. induction (pptx_declared rels rids) as [|n l IH]; [reflexivity|].
  cbn [flat_map]. rewrite find_member_decoy by (intro E; apply H; left; exact E).
  rewrite IH by (intro Hin; apply H; right; exact Hin). reflexivity.
Qed.

(* ---------- hrefs: percent-decoding inverts percent-encoding, for any choice of
   which bytes are escaped as long as '%' itself is *)
Definition hexc (d : N) : N := if d <? 10 then d + 48 else d + 55.
Definition enc_byte (c : N) : bytes := [37; hexc (c / 16); hexc (c mod 16)].
Definition pct_encode (esc : N -> bool) (s : bytes) : bytes := flat_map (fun c => if esc c then enc_byte c else [c]) s.

Lemma hexv_hexc d : d < 16 -> hexv (hexc d) = Some d.
Proof.
  intro H. unfold hexv, hexc. destruct (d <? 10) eqn:E.
  - replace ((48 <=? d + 48) && (d + 48 <=? 57)) with true by lia. f_equal. lia.
  - replace ((48 <=? d + 55) && (d + 55 <=? 57)) with false by lia.
    replace ((65 <=? d + 55) && (d + 55 <=? 70)) with true by lia. f_equal. lia.
Qed.

Theorem pct_roundtrip esc s : esc 37 = true -> bytes_ok s -> pct_decode (pct_encode esc s) = Some s.
Proof.
  intros H37 Hok. induction Hok as [|c s Hc Hs IH]; [reflexivity|]. unfold pct_encode in *. cbn [flat_map].
  destruct (esc c) eqn:E.
  - unfold enc_byte in *. cbn [app pct_decode N.eqb Pos.eqb]. unfold byte_ok in Hc.
    rewrite !hexv_hexc by (try apply N.mod_lt; try apply N.div_lt_upper_bound; lia). rewrite IH.
    f_equal. f_equal. pose proof (N.div_mod c 16). lia.
  - cbn [app pct_decode]. replace (c =? 37) with false by (symmetry; apply N.eqb_neq; intro; subst; congruence).
    rewrite IH. reflexivity.
Qed.

Theorem href_resolves base esc s : esc 37 = true -> bytes_ok s -> base <> [] ->
  resolve_href base (pct_encode esc s) = path_clean (base ++ [47] ++ s).
Proof.
  intros H37 Hok Hb. unfold resolve_href. rewrite pct_roundtrip by assumption. destruct base; [contradiction|reflexivity].
Qed.

(* a '+' is an ordinary byte of a path *)
Theorem plus_is_kept : pct_decode (bs "a+b%20c.xhtml") = Some (bs "a+b c.xhtml").
Proof. vm_compute. reflexivity. Qed.
