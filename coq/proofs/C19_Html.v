(* C19: the flattened output of the HTML walk is a pure function of the tree in
   document order; navigation exclusion only narrows it. *)
From Tabula Require Import model.C13_Split model.C19_Html.
From Coq Require Import Lia.
Open Scope N_scope.

(* ---------- induction over DOM trees ---------- *)
Section NodeInd.
  Variable P : node -> Prop.
  Hypothesis HT : forall s, P (Tx s).
  Hypothesis HO : P Other.
  Hypothesis HE : forall t a kids, Forall P kids -> P (El t a kids).
  Fixpoint node_ind2 (n : node) : P n :=
    match n with
    | Tx s => HT s
    | Other => HO
    | El t a kids =>
        HE t a kids ((fix go (l : list node) : Forall P l :=
                        match l with
                        | [] => Forall_nil P
                        | k :: r => Forall_cons k (node_ind2 k) (go r)
                        end) kids)
    end.
End NodeInd.

(* ---------- exclusion modes form a chain ---------- *)

Theorem stricter_mode_excludes_more : forall m m' top n,
  (m <= m')%nat -> excluded m top n = true -> excluded m' top n = true.
Proof.
  intros m m' top n Hle H. destruct n as [t a kids| |]; cbn [excluded] in *; try discriminate.
  apply andb_true_iff in H. destruct H as [H1 H2]. apply Nat.leb_le in H1.
  apply andb_true_iff. split; [apply Nat.leb_le; lia|].
  apply orb_true_iff in H2. destruct H2 as [H2|H2].
  - apply orb_true_iff in H2. destruct H2 as [H2|H2].
    + rewrite H2. reflexivity.
    + apply andb_true_iff in H2. destruct H2 as [H3 H4]. apply Nat.leb_le in H3.
      assert (E : Nat.leb 2 m' = true) by (apply Nat.leb_le; lia).
      rewrite E, H4. cbn. rewrite orb_true_r. reflexivity.
  - apply andb_true_iff in H2. destruct H2 as [H3 H4]. apply Nat.leb_le in H3.
    assert (E : Nat.leb 3 m' = true) by (apply Nat.leb_le; lia).
    rewrite E, H4. cbn. rewrite !orb_true_r. reflexivity.
Qed.

Theorem mode_none_excludes_nothing : forall top n, excluded 0 top n = false.
Proof. intros top [t a kids| |]; reflexivity. Qed.

(* ---------- the pure item function ---------- *)

Definition is_list_el (k : node) : bool := is_el k && ((tag_of k =? t_ul) || (tag_of k =? t_ol)).

Fixpoint W (mode : nat) (top ktop : bool) (n : node) (inl : bool) (lvl : nat) : list item :=
  match n with
  | Tx _ | Other => []
  | El t a kids =>
      let go := (fix go (l : list node) (i : bool) (v : nat) : list item :=
                   match l with [] => [] | k :: r => W mode ktop false k i v ++ go r i v end) in
      if skipped t then []
      else if excluded mode top n then []
      else if is_heading t then
        (if is_nil_b (trim_space (text_of n)) then [] else [IHeading t (trim_space (text_of n))])
      else if (t =? t_p) || (t =? t_div) then
        if negb (is_nil_b (trim_space (text_of n))) && negb (is_block_container kids)
        then [IPara (trim_space (text_of n))] else go kids inl lvl
      else if (t =? t_ul) || (t =? t_ol) then go kids true (if inl then lvl else 0%nat)
      else if t =? t_li then
        if inl then
          (if is_nil_b (direct_text kids) then [] else [IItem lvl (direct_text kids)])
          ++ (fix gl (l : list node) : list item :=
                match l with
                | [] => []
                | k :: r => (if is_list_el k then W mode ktop false k true (S lvl) else []) ++ gl r
                end) kids
        else if negb (is_nil_b (trim_space (text_of n))) && negb (is_block_container kids)
             then [IPara (trim_space (text_of n))] else go kids inl lvl
      else if t =? t_table then
        match parse_table kids with [] => [] | rows => [ITable rows] end
      else if (t =? t_pre) || (t =? t_code) then
        (if is_nil_b (text_of n) then [] else [ICode (text_of n)])
      else if t =? t_blockquote then
        (if is_nil_b (trim_space (text_of n)) then [] else [IQuote (trim_space (text_of n))])
      else if (t =? t_br) || (t =? t_hr) then []
      else go kids inl lvl
  end.

Definition fl (s : st) : list item := flat (s_els s) ++ map (fun it => IItem (fst it) (snd it)) (s_pend s).
Definition inv (s : st) : Prop := s_in s = false -> s_pend s = [].

Lemma flat_app a b : flat (a ++ b) = flat a ++ flat b.
Proof. unfold flat. rewrite map_app, concat_app. reflexivity. Qed.

Lemma flush_fl s : fl (flush s) = fl s /\ s_in (flush s) = s_in s /\ s_lvl (flush s) = s_lvl s
                   /\ s_ord (flush s) = s_ord s /\ (s_in s = true -> s_pend (flush s) = []) /\ (inv s -> inv (flush s)).
Proof.
  unfold flush, fl, inv. destruct (s_in s) eqn:Ei; cbn [andb].
  - destruct (s_pend s) as [|p r] eqn:Ep; cbn [negb]; rewrite ?Ei, ?Ep; cbn [s_els s_pend s_in s_lvl s_ord].
    + repeat split; auto.
    + rewrite flat_app. cbn [flat map concat items_of]. rewrite !app_nil_r.
      repeat split; auto.
  - rewrite Ei. repeat split; auto. discriminate.
Qed.

Lemma emit_flush_fl s e : inv s ->
  fl (emit (flush s) e) = fl s ++ items_of e
  /\ s_in (emit (flush s) e) = s_in s /\ s_lvl (emit (flush s) e) = s_lvl s /\ inv (emit (flush s) e).
Proof.
  intros Hi. destruct (flush_fl s) as (F & I & L & O & P & V).
  unfold emit, fl in *. cbn [s_els s_pend s_in s_lvl].
  assert (Hp : s_pend (flush s) = []).
  { destruct (s_in s) eqn:Ei; [apply P; reflexivity|].
    unfold flush. rewrite Ei. cbn [andb]. apply Hi, Ei. }
  rewrite Hp in *. cbn [map] in *. rewrite app_nil_r in *.
  split; [rewrite flat_app, F; unfold flat; cbn [map concat]; rewrite app_nil_r; reflexivity|].
  split; [exact I|]. split; [exact L|]. unfold inv. cbn. auto.
Qed.

(* what a walk does to a state *)
Definition step_ok (mode : nat) (top ktop : bool) (n : node) : Prop :=
  forall s, inv s ->
    let s' := walk mode top ktop n s in
    fl s' = fl s ++ W mode top ktop n (s_in s) (s_lvl s)
    /\ s_in s' = s_in s /\ s_lvl s' = s_lvl s /\ inv s'.

Lemma kids_ok : forall mode ktop kids,
  Forall (fun k => forall top kt, step_ok mode top kt k) kids ->
  forall s, inv s ->
    let s' := fold_left (fun s0 k => walk mode ktop false k s0) kids s in
    fl s' = fl s ++ concat (map (fun k => W mode ktop false k (s_in s) (s_lvl s)) kids)
    /\ s_in s' = s_in s /\ s_lvl s' = s_lvl s /\ inv s'.
Proof.
  intros mode ktop kids H. induction H as [|k r Hk Hr IH]; intros s Hi.
  - cbn. rewrite app_nil_r. auto.
  - cbn [fold_left map concat]. destruct (Hk ktop false s Hi) as (A & B & C & D).
    destruct (IH _ D) as (A' & B' & C' & D'). cbn zeta in *.
    rewrite A', A, B, C, <- app_assoc. rewrite B', C', B, C. auto.
Qed.

Lemma walk_kids_fold : forall mode ktop kids s,
  (fix go (l : list node) (s0 : st) : st :=
     match l with [] => s0 | k :: r => go r (walk mode ktop false k s0) end) kids s
  = fold_left (fun s0 k => walk mode ktop false k s0) kids s.
Proof. intros mode ktop kids. induction kids as [|k r IH]; intros s; [reflexivity|]. cbn [fold_left]. apply IH. Qed.

Lemma W_kids_concat : forall mode ktop kids i v,
  (fix go (l : list node) (i0 : bool) (v0 : nat) : list item :=
     match l with [] => [] | k :: r => W mode ktop false k i0 v0 ++ go r i0 v0 end) kids i v
  = concat (map (fun k => W mode ktop false k i v) kids).
Proof. intros mode ktop kids i v. induction kids as [|k r IH]; [reflexivity|]. cbn [map concat]. rewrite <- IH. reflexivity. Qed.

Lemma set_lvl_fl : forall s v,
  fl {| s_els := s_els s; s_pend := s_pend s; s_in := s_in s; s_ord := s_ord s; s_lvl := v |} = fl s.
Proof. reflexivity. Qed.

Lemma li_lists_ok : forall mode ktop lv l,
  Forall (fun k => forall top kt, step_ok mode top kt k) l ->
  forall s0, inv s0 -> s_in s0 = true -> s_lvl s0 = lv ->
    let s' := (fix go (l : list node) (s0 : st) : st :=
                 match l with
                 | [] => s0
                 | k :: r => go r (if is_el k && ((tag_of k =? t_ul) || (tag_of k =? t_ol))
                                   then walk mode ktop false k s0 else s0)
                 end) l s0 in
    fl s' = fl s0 ++ (fix gl (l : list node) : list item :=
                         match l with
                         | [] => []
                         | k :: r => (if is_list_el k then W mode ktop false k true lv else []) ++ gl r
                         end) l
    /\ s_in s' = true /\ s_lvl s' = lv /\ inv s'.
Proof.
  intros mode ktop lv l H. induction H as [|k r Hk Hr IHl]; intros s0 V0 I0 L0.
  - cbn. rewrite app_nil_r. auto.
  - unfold is_list_el. cbn zeta.
    destruct (is_el k && ((tag_of k =? t_ul) || (tag_of k =? t_ol))).
    + destruct (Hk ktop false s0 V0) as (A & B & C & D). cbn zeta in *.
      rewrite I0, L0 in A.
      destruct (IHl _ D (eq_trans B I0) (eq_trans C L0)) as (A' & B' & C' & D').
      cbn zeta in *. rewrite A', A, <- app_assoc. auto.
    + destruct (IHl _ V0 I0 L0) as (A' & B' & C' & D'). cbn zeta in *.
      rewrite A'. cbn [app]. auto.
Qed.

Theorem walk_appends_items : forall n mode top ktop, step_ok mode top ktop n.
Proof.
  induction n as [s0| |t a kids IH] using node_ind2; intros mode top ktop s Hi; cbn zeta.
  - cbn. rewrite app_nil_r. auto.
  - cbn. rewrite app_nil_r. auto.
  - assert (IH' : Forall (fun k => forall top kt, step_ok mode top kt k) kids).
    { rewrite Forall_forall in *. intros k Hk top0 kt. apply IH, Hk. }
    clear IH.
    assert (K := kids_ok mode ktop kids IH').
    cbn [walk W]. rewrite !walk_kids_fold, !W_kids_concat.
    destruct (skipped t); [rewrite app_nil_r; auto|].
    destruct (excluded mode top (El t a kids)); [rewrite app_nil_r; auto|].
    destruct (is_heading t).
    { destruct (is_nil_b (trim_space (text_of (El t a kids)))).
      - destruct (flush_fl s) as (F & I & L & O & P & V). rewrite F, I, L, app_nil_r. auto.
      - apply emit_flush_fl, Hi. }
    destruct ((t =? t_p) || (t =? t_div)).
    { set (s1 := if t =? t_p then flush s else s).
      assert (H1 : fl s1 = fl s /\ s_in s1 = s_in s /\ s_lvl s1 = s_lvl s /\ inv s1).
      { subst s1. destruct (t =? t_p); [|auto]. destruct (flush_fl s) as (F & I & L & O & P & V). auto. }
      destruct H1 as (F1 & I1 & L1 & V1).
      destruct (negb (is_nil_b (trim_space (text_of (El t a kids)))) && negb (is_block_container kids)).
      - destruct (emit_flush_fl s1 (EPara (trim_space (text_of (El t a kids)))) V1) as (A & B & C & D).
        rewrite A, B, C, F1, I1, L1. auto.
      - destruct (K s1 V1) as (A & B & C & D). cbn zeta in *.
        rewrite A, B, C, F1, I1, L1. auto. }
    destruct ((t =? t_ul) || (t =? t_ol)).
    { set (s1 := if s_in s && Nat.eqb (s_lvl s) 0 then flush s else s).
      assert (H1 : fl s1 = fl s /\ s_in s1 = s_in s /\ s_lvl s1 = s_lvl s /\ inv s1).
      { subst s1. destruct (s_in s && Nat.eqb (s_lvl s) 0); [|auto].
        destruct (flush_fl s) as (F & I & L & O & P & V). auto. }
      destruct H1 as (F1 & I1 & L1 & V1).
      match goal with |- context [fold_left _ kids ?x] => set (s2 := x) end.
      assert (H2 : fl s2 = fl s /\ s_in s2 = true /\ s_lvl s2 = (if s_in s then s_lvl s else 0%nat) /\ inv s2).
      { subst s2. unfold fl, inv. cbn [s_els s_pend s_in s_lvl].
        destruct (s_in s) eqn:Ei.
        - fold (fl s1). rewrite F1. repeat split; auto. discriminate.
        - assert (Hp : s_pend s1 = []) by (apply V1; exact I1).
          unfold fl in F1. rewrite Hp in F1. cbn [map] in *. rewrite app_nil_r in *.
          split; [exact F1|]. repeat split; auto. }
      destruct H2 as (F2 & I2 & L2 & V2).
      destruct (K s2 V2) as (A & B & C & D). cbn zeta in *. rewrite I2, L2 in A.
      destruct (s_in s) eqn:Ei.
      - unfold fl, inv in *. cbn [s_els s_pend s_in s_lvl].
        rewrite A, F2. rewrite B. repeat split; auto. discriminate.
      - destruct (flush_fl (fold_left (fun s0 k => walk mode ktop false k s0) kids s2)) as (F & I & L & O & P & V).
        unfold fl at 1. cbn [s_els s_pend s_in s_lvl map]. rewrite app_nil_r.
        assert (Hp : s_pend (flush (fold_left (fun s0 k => walk mode ktop false k s0) kids s2)) = [])
          by (apply P; rewrite B; exact I2).
        unfold fl in F at 1. rewrite Hp in F. cbn [map] in F. rewrite app_nil_r in F.
        split; [rewrite F, A, F2; reflexivity|]. split; [reflexivity|]. split; [reflexivity|].
        unfold inv. cbn. auto. }
    destruct (t =? t_li).
    { destruct (s_in s) eqn:Ei.
      - set (tx := direct_text kids).
        set (s1' := if is_nil_b tx then s
                    else {| s_els := s_els s; s_pend := s_pend s ++ [(s_lvl s, tx)]; s_in := true;
                            s_ord := s_ord s; s_lvl := s_lvl s |}).
        set (s2 := {| s_els := s_els s1'; s_pend := s_pend s1'; s_in := s_in s1'; s_ord := s_ord s1'; s_lvl := S (s_lvl s1') |}).
        assert (H2 : fl s2 = fl s ++ (if is_nil_b tx then [] else [IItem (s_lvl s) tx])
                     /\ s_in s2 = true /\ s_lvl s2 = S (s_lvl s) /\ inv s2).
        { subst s2 s1'. destruct (is_nil_b tx); unfold fl, inv; cbn [s_els s_pend s_in s_lvl].
          - rewrite app_nil_r. rewrite Ei. repeat split; auto. discriminate.
          - rewrite map_app, app_assoc. cbn [map fst snd]. repeat split; auto. discriminate. }
        destruct H2 as (F2 & I2 & L2 & V2).
        destruct (li_lists_ok mode ktop (S (s_lvl s)) kids IH' s2 V2 I2 L2) as (A & B & C & D).
        cbn zeta in *. unfold fl at 1, inv. cbn [s_els s_pend s_in s_lvl].
        fold (fl ((fix go (l : list node) (s0 : st) : st :=
                 match l with
                 | [] => s0
                 | k :: r => go r (if is_el k && ((tag_of k =? t_ul) || (tag_of k =? t_ol))
                                   then walk mode ktop false k s0 else s0)
                 end) kids s2)).
        rewrite A, F2, C, B, <- app_assoc. cbn [pred].
        repeat split; auto. discriminate.
      - destruct (negb (is_nil_b (trim_space (text_of (El t a kids)))) && negb (is_block_container kids)).
        + assert (Hp : s_pend s = []) by (apply Hi, Ei).
          unfold emit, fl, inv. cbn [s_els s_pend s_in s_lvl]. rewrite Hp, flat_app. cbn [map].
          rewrite !app_nil_r. unfold flat at 2. cbn [map concat items_of]. rewrite app_nil_r.
          repeat split; auto.
        + destruct (K s Hi) as (A & B & C & D). cbn zeta in *. rewrite Ei in *. auto. }
    destruct (t =? t_table).
    { destruct (parse_table kids) as [|r0 rows].
      - destruct (flush_fl s) as (F & I & L & O & P & V). rewrite F, I, L, app_nil_r. auto.
      - apply emit_flush_fl, Hi. }
    destruct ((t =? t_pre) || (t =? t_code)).
    { destruct (is_nil_b (text_of (El t a kids))); [rewrite app_nil_r; auto|apply emit_flush_fl, Hi]. }
    destruct (t =? t_blockquote).
    { destruct (is_nil_b (trim_space (text_of (El t a kids)))); [rewrite app_nil_r; auto|apply emit_flush_fl, Hi]. }
    destruct ((t =? t_br) || (t =? t_hr)); [rewrite app_nil_r; auto|].
    destruct (K s Hi) as (A & B & C & D). cbn zeta in *. auto.
Qed.

(* ---------- the items of a document ---------- *)

Definition body_items (mode : nat) (body : node) : list item :=
  match body with
  | El t a kids =>
      if skipped t then []
      else if excluded mode false body then []
      else concat (map (fun k => W mode true (has_wrapper kids && is_el k && structural (tag_of k)) k false 0%nat) kids)
  | _ => []
  end.

(* the flattened result of an extraction is the pure item function of the
   tree, children in document order: the list state machine only groups *)
Theorem extraction_is_the_items_in_document_order : forall mode body,
  flat (extract mode body) = body_items mode body.
Proof.
  intros mode [t a kids| |]; try reflexivity. unfold extract, body_items.
  destruct (skipped t); [reflexivity|].
  destruct (excluded mode false (El t a kids)); [reflexivity|].
  set (w := has_wrapper kids).
  assert (H : forall l s, inv s -> s_in s = false -> s_lvl s = 0%nat ->
    let s' := (fix go (l : list node) (s0 : st) : st :=
                 match l with
                 | [] => s0
                 | k :: r => go r (walk mode true (w && is_el k && structural (tag_of k)) k s0)
                 end) l s in
    fl s' = fl s ++ concat (map (fun k => W mode true (w && is_el k && structural (tag_of k)) k false 0%nat) l)
    /\ s_in s' = false /\ inv s').
  { induction l as [|k r IH]; intros s V I L.
    - cbn. rewrite app_nil_r. auto.
    - cbn [map concat]. destruct (walk_appends_items k mode true (w && is_el k && structural (tag_of k)) s V) as (A & B & C & D).
      cbn zeta in *. rewrite I, L in A.
      destruct (IH _ D (eq_trans B I) (eq_trans C L)) as (A' & B' & C'). cbn zeta in *.
      rewrite A', A, <- app_assoc. auto. }
  destruct (H kids st0) as (A & B & C); [unfold inv; auto|reflexivity|reflexivity|].
  cbn zeta in *. change (fl st0) with (@nil item) in A. cbn [app] in A.
  destruct (flush_fl ((fix go (l : list node) (s0 : st) : st :=
                 match l with
                 | [] => s0
                 | k :: r => go r (walk mode true (w && is_el k && structural (tag_of k)) k s0)
                 end) kids st0)) as (F & I & L & O & P & V).
  rewrite <- A, <- F. unfold fl.
  assert (Hp : s_pend (flush ((fix go (l : list node) (s0 : st) : st :=
                 match l with
                 | [] => s0
                 | k :: r => go r (walk mode true (w && is_el k && structural (tag_of k)) k s0)
                 end) kids st0)) = []).
  { apply (V C). rewrite I. exact B. }
  rewrite Hp. cbn [map]. rewrite app_nil_r. reflexivity.
Qed.

(* ---------- subsequences ---------- *)

Inductive sub {A} : list A -> list A -> Prop :=
| sub_nil : sub [] []
| sub_skip x a b : sub a b -> sub a (x :: b)
| sub_take x a b : sub a b -> sub (x :: a) (x :: b).

Lemma sub_refl {A} (l : list A) : sub l l.
Proof. induction l as [|x r IH]; [apply sub_nil|apply sub_take, IH]. Qed.

Lemma sub_nil_l {A} (l : list A) : sub [] l.
Proof. induction l as [|x r IH]; [apply sub_nil|apply sub_skip, IH]. Qed.

Lemma sub_app {A} (a b c d : list A) : sub a b -> sub c d -> sub (a ++ c) (b ++ d).
Proof.
  intros H. induction H as [|x a0 b0 H0 IH|x a0 b0 H0 IH]; intros Hc; cbn [app];
    [exact Hc|apply sub_skip, IH, Hc|apply sub_take, IH, Hc].
Qed.

Lemma sub_concat_map {A B} (f g : A -> list B) (l : list A) :
  Forall (fun x => sub (f x) (g x)) l -> sub (concat (map f l)) (concat (map g l)).
Proof. induction 1; cbn [map concat]; [apply sub_nil|apply sub_app; assumption]. Qed.

Lemma W_monotone : forall n m m' top ktop inl lvl,
  (m <= m')%nat -> sub (W m' top ktop n inl lvl) (W m top ktop n inl lvl).
Proof.
  induction n as [s0| |t a kids IH] using node_ind2; intros m m' top ktop inl lvl Hle;
    try (cbn; constructor).
  cbn [W]. rewrite !W_kids_concat.
  assert (Kids : forall kt i v, sub (concat (map (fun k => W m' kt false k i v) kids))
                                    (concat (map (fun k => W m kt false k i v) kids))).
  { intros kt i v. apply sub_concat_map. rewrite Forall_forall in *. intros k Hk. apply IH; assumption. }
  assert (Lists : sub ((fix gl (l : list node) : list item :=
                          match l with
                          | [] => []
                          | k :: r => (if is_list_el k then W m' ktop false k true (S lvl) else []) ++ gl r
                          end) kids)
                      ((fix gl (l : list node) : list item :=
                          match l with
                          | [] => []
                          | k :: r => (if is_list_el k then W m ktop false k true (S lvl) else []) ++ gl r
                          end) kids)).
  { clear Kids. induction IH as [|k r Hk Hr IHr]; [apply sub_nil|].
    apply sub_app; [|exact IHr].
    destruct (is_list_el k); [apply Hk, Hle|apply sub_nil]. }
  destruct (skipped t); [constructor|].
  destruct (excluded m top (El t a kids)) eqn:Em.
  - rewrite (stricter_mode_excludes_more m m' top _ Hle Em). constructor.
  - destruct (excluded m' top (El t a kids)); [apply sub_nil_l|].
    destruct (is_heading t); [apply sub_refl|].
    destruct ((t =? t_p) || (t =? t_div)).
    { destruct (negb (is_nil_b (trim_space (text_of (El t a kids)))) && negb (is_block_container kids));
        [apply sub_refl|apply Kids]. }
    destruct ((t =? t_ul) || (t =? t_ol)); [apply Kids|].
    destruct (t =? t_li).
    { destruct inl.
      - apply sub_app; [apply sub_refl|exact Lists].
      - destruct (negb (is_nil_b (trim_space (text_of (El t a kids)))) && negb (is_block_container kids));
          [apply sub_refl|apply Kids]. }
    destruct (t =? t_table); [apply sub_refl|].
    destruct ((t =? t_pre) || (t =? t_code)); [apply sub_refl|].
    destruct (t =? t_blockquote); [apply sub_refl|].
    destruct ((t =? t_br) || (t =? t_hr)); [constructor|].
    apply Kids.
Qed.

(* navigation exclusion only narrows: a stricter mode returns a subsequence of
   the items of a weaker one, for every tree *)
Theorem stricter_mode_returns_a_subsequence : forall m m' body,
  (m <= m')%nat -> sub (flat (extract m' body)) (flat (extract m body)).
Proof.
  intros m m' body Hle. rewrite !extraction_is_the_items_in_document_order.
  destruct body as [t a kids| |]; try constructor. unfold body_items.
  destruct (skipped t); [constructor|].
  destruct (excluded m false (El t a kids)) eqn:Em.
  - rewrite (stricter_mode_excludes_more m m' false _ Hle Em). constructor.
  - destruct (excluded m' false (El t a kids)); [apply sub_nil_l|].
    apply sub_concat_map. rewrite Forall_forall. intros k _. apply W_monotone, Hle.
Qed.

(* content outside the excluded subtrees is returned unchanged: a subtree in
   which the stricter mode excludes nothing more gives the same items *)
Fixpoint same_exclusions (m m' : nat) (top ktop : bool) (n : node) : Prop :=
  match n with
  | El t a kids =>
      excluded m top n = excluded m' top n
      /\ (fix go (l : list node) : Prop :=
            match l with [] => True | k :: r => same_exclusions m m' ktop false k /\ go r end) kids
  | _ => True
  end.

Theorem unexcluded_content_is_unchanged : forall n m m' top ktop inl lvl,
  same_exclusions m m' top ktop n -> W m' top ktop n inl lvl = W m top ktop n inl lvl.
Proof.
  induction n as [s0| |t a kids IH] using node_ind2; intros m m' top ktop inl lvl H; try reflexivity.
  cbn [same_exclusions] in H. destruct H as [He Hk].
  assert (Kall : Forall (fun k => same_exclusions m m' ktop false k) kids).
  { clear - Hk. induction kids as [|k r IHr]; [constructor|]. destruct Hk as [H1 H2]. constructor; auto. }
  cbn [W]. rewrite !W_kids_concat, He.
  assert (Kids : forall i v, concat (map (fun k => W m' ktop false k i v) kids)
                             = concat (map (fun k => W m ktop false k i v) kids)).
  { intros i v. f_equal. apply map_ext_in. intros k Hin.
    rewrite Forall_forall in IH, Kall. apply IH; [exact Hin|apply Kall, Hin]. }
  rewrite !Kids.
  assert (Lists : (fix gl (l : list node) : list item :=
                     match l with
                     | [] => []
                     | k :: r => (if is_list_el k then W m' ktop false k true (S lvl) else []) ++ gl r
                     end) kids
                  = (fix gl (l : list node) : list item :=
                     match l with
                     | [] => []
                     | k :: r => (if is_list_el k then W m ktop false k true (S lvl) else []) ++ gl r
                     end) kids).
  { clear Kids Hk He. induction kids as [|k r IHr]; [reflexivity|].
    inversion IH as [|? ? Hk Hr]; subst. inversion Kall as [|? ? Ka Kr]; subst.
    rewrite IHr by assumption. destruct (is_list_el k); [rewrite (Hk m m' ktop false true (S lvl) Ka)|]; reflexivity. }
  rewrite Lists. reflexivity.
Qed.

(* ---------- every content element is returned once ---------- *)

Section Once.
  Variables (mode : nat) (top ktop : bool) (a : attrs) (kids : list node) (inl : bool) (lvl : nat).

  Theorem heading_is_returned_once : forall t,
    is_heading t = true -> excluded mode top (El t a kids) = false ->
    trim_space (text_of (El t a kids)) <> [] ->
    W mode top ktop (El t a kids) inl lvl = [IHeading t (trim_space (text_of (El t a kids)))].
  Proof.
    intros t Hh He Ht. cbn [W].
    assert (Hs : skipped t = false).
    { unfold is_heading in Hh. apply andb_true_iff in Hh. destruct Hh as [H1 H2].
      apply N.leb_le in H1. apply N.leb_le in H2. unfold skipped.
      repeat (apply orb_false_iff; split); apply N.eqb_neq; unfold t_script, t_style, t_noscript, t_template, t_svg, t_math, t_iframe, t_object, t_embed; lia. }
    rewrite Hs, He, Hh.
    destruct (trim_space (text_of (El t a kids))) eqn:E; [contradiction|reflexivity].
  Qed.

  Theorem paragraph_is_returned_once :
    excluded mode top (El t_p a kids) = false ->
    trim_space (text_of (El t_p a kids)) <> [] -> is_block_container kids = false ->
    W mode top ktop (El t_p a kids) inl lvl = [IPara (trim_space (text_of (El t_p a kids)))].
  Proof.
    intros He Ht Hc. cbn [W]. rewrite He, Hc.
    change (skipped t_p) with false. change (is_heading t_p) with false.
    change ((t_p =? t_p) || (t_p =? t_div)) with true. cbn iota.
    destruct (trim_space (text_of (El t_p a kids))) eqn:E; [contradiction|reflexivity].
  Qed.

  Theorem list_item_is_returned_once :
    excluded mode top (El t_li a kids) = false -> direct_text kids <> [] ->
    Forall (fun k => is_list_el k = false) kids ->
    W mode top ktop (El t_li a kids) true lvl = [IItem lvl (direct_text kids)].
  Proof.
    intros He Ht Hn. cbn [W]. rewrite He.
    change (skipped t_li) with false. change (is_heading t_li) with false.
    change ((t_li =? t_p) || (t_li =? t_div)) with false.
    change ((t_li =? t_ul) || (t_li =? t_ol)) with false. change (t_li =? t_li) with true. cbn iota.
    destruct (direct_text kids) eqn:E; [contradiction|]. cbn [is_nil_b app].
    f_equal. clear - Hn. induction Hn as [|k r Hk Hr IH]; [reflexivity|]. rewrite Hk, IH. reflexivity.
  Qed.

  Theorem table_is_returned_once :
    excluded mode top (El t_table a kids) = false -> parse_table kids <> [] ->
    W mode top ktop (El t_table a kids) inl lvl = [ITable (parse_table kids)].
  Proof.
    intros He Ht. cbn [W]. rewrite He.
    change (skipped t_table) with false. change (is_heading t_table) with false.
    change ((t_table =? t_p) || (t_table =? t_div)) with false.
    change ((t_table =? t_ul) || (t_table =? t_ol)) with false. change (t_table =? t_li) with false.
    change (t_table =? t_table) with true. cbn iota.
    destruct (parse_table kids); [contradiction|reflexivity].
  Qed.

  Theorem code_and_quote_are_returned_once :
    (excluded mode top (El t_pre a kids) = false -> text_of (El t_pre a kids) <> [] ->
     W mode top ktop (El t_pre a kids) inl lvl = [ICode (text_of (El t_pre a kids))])
    /\ (excluded mode top (El t_blockquote a kids) = false -> trim_space (text_of (El t_blockquote a kids)) <> [] ->
        W mode top ktop (El t_blockquote a kids) inl lvl = [IQuote (trim_space (text_of (El t_blockquote a kids)))]).
  Proof.
    split; intros He Ht; cbn [W]; rewrite He.
    - change (skipped t_pre) with false. change (is_heading t_pre) with false.
      change ((t_pre =? t_p) || (t_pre =? t_div)) with false.
      change ((t_pre =? t_ul) || (t_pre =? t_ol)) with false. change (t_pre =? t_li) with false.
      change (t_pre =? t_table) with false. change ((t_pre =? t_pre) || (t_pre =? t_code)) with true. cbn iota.
      destruct (text_of (El t_pre a kids)); [contradiction|reflexivity].
    - change (skipped t_blockquote) with false. change (is_heading t_blockquote) with false.
      change ((t_blockquote =? t_p) || (t_blockquote =? t_div)) with false.
      change ((t_blockquote =? t_ul) || (t_blockquote =? t_ol)) with false. change (t_blockquote =? t_li) with false.
      change (t_blockquote =? t_table) with false. change ((t_blockquote =? t_pre) || (t_blockquote =? t_code)) with false.
      change (t_blockquote =? t_blockquote) with true. cbn iota.
      destruct (trim_space (text_of (El t_blockquote a kids))); [contradiction|reflexivity].
  Qed.
End Once.

(* every cell of every row of thead, tbody, tfoot or the table itself is in the
   parsed table, in order *)
Theorem table_rows_are_the_sections_rows_in_order : forall kids,
  parse_table kids = concat (map (fun k =>
    match k with
    | El t _ ks =>
        if t =? t_thead then parse_rows true ks
        else if (t =? t_tbody) || (t =? t_tfoot) then parse_rows false ks
        else if t =? t_tr then (match parse_row false ks with [] => [] | r => [r] end)
        else []
    | _ => []
    end) kids).
Proof. reflexivity. Qed.

Definition no_attrs : attrs := {| a_role := []; a_class := []; a_id := []; a_rowspan := []; a_colspan := [] |}.

(* <ul><li>a</li><nav><h2>h</h2></nav><div>y</div></ul>: the stricter mode drops h and keeps the order *)
Example monotone_example :
  let body := El 0 no_attrs [El t_ul no_attrs [El t_li no_attrs [Tx [97]];
                                              El t_nav no_attrs [El 2 no_attrs [Tx [104]]];
                                              El t_div no_attrs [Tx [121]]]] in
  flat (extract 0 body) = [IItem 0 [97]; IHeading 2 [104]; IPara [121]]
  /\ flat (extract 1 body) = [IItem 0 [97]; IPara [121]].
Proof. split; vm_compute; reflexivity. Qed.
