(* C20: detection is by content and order-independent; acceptance; DRM. *)
From Tabula Require Import base.Val model.C13_Split model.C20_Format.
From Coq Require Import Lia Permutation.
From Coq Require String.
Import (notations) String.
Open Scope N_scope.

(* ---------- membership tests are order independent *)
Lemma has_member_in n ms : has_member n ms = true <-> exists c, In (n, c) ms.
Proof.
  unfold has_member. rewrite existsb_exists. split.
  - intros [[n' c] [Hin E]]. cbn in E. apply bytes_eqb_eq in E. subst. exists c. exact Hin.
  - intros [c Hin]. exists (n, c). split; [exact Hin|]. cbn. apply bytes_eqb_refl.
Qed.

Lemma has_member_perm n ms ms' : Permutation ms ms' -> has_member n ms = has_member n ms'.
Proof.
  intro P. destruct (has_member n ms) eqn:E; symmetry.
  - apply has_member_in in E as [c Hc]. apply has_member_in. exists c. eapply Permutation_in; eassumption.
  - destruct (has_member n ms') eqn:E'; [|reflexivity].
    apply has_member_in in E' as [c Hc]. assert (has_member n ms = true) as T.
    { apply has_member_in. exists c. eapply Permutation_in; [apply Permutation_sym; exact P|exact Hc]. }
    congruence.
Qed.

(* ---------- the mimetype pass *)
Definition classify_mimetype (c : bytes) : option fmt :=
  let mt := trim_space (firstn 256 c) in
  if contains (bs "application/vnd.oasis.opendocument.text") mt then Some FODT
  else if bytes_eqb mt (bs "application/epub+zip") then Some FEPUB else None.

Lemma mimetype_pass_some ms f : mimetype_pass ms = Some f ->
  exists c, In (bs "mimetype", c) ms /\ classify_mimetype c = Some f.
Proof.
  induction ms as [|[n c] ms IH]; cbn [mimetype_pass]; [discriminate|].
  destruct (bytes_eqb n (bs "mimetype")) eqn:En.
  - apply bytes_eqb_eq in En. subst n. fold (classify_mimetype c).
    unfold classify_mimetype at 1.
    destruct (contains _ _) eqn:E1.
    + intro H. inversion H; subst. exists c. split; [left; reflexivity|]. unfold classify_mimetype. rewrite E1. reflexivity.
    + destruct (bytes_eqb _ _) eqn:E2.
      * intro H. inversion H; subst. exists c. split; [left; reflexivity|]. unfold classify_mimetype. rewrite E1, E2. reflexivity.
      * intro H. destruct (IH H) as [c' [Hin Hc]]. exists c'. split; [right; exact Hin|exact Hc].
  - intro H. destruct (IH H) as [c' [Hin Hc]]. exists c'. split; [right; exact Hin|exact Hc].
Qed.

Lemma mimetype_pass_none ms : mimetype_pass ms = None ->
  forall c, In (bs "mimetype", c) ms -> classify_mimetype c = None.
Proof.
  induction ms as [|[n c0] ms IH]; cbn [mimetype_pass]; intros H c Hin; [contradiction|].
  destruct (bytes_eqb n (bs "mimetype")) eqn:En.
  - apply bytes_eqb_eq in En. subst n.
    destruct (contains _ _) eqn:E1; [discriminate|]. destruct (bytes_eqb _ _) eqn:E2; [discriminate|].
    destruct Hin as [E|Hin].
    + inversion E; subst. unfold classify_mimetype. rewrite E1, E2. reflexivity.
    + apply IH; assumption.
  - destruct Hin as [E|Hin].
    + inversion E; subst. rewrite bytes_eqb_refl in En. discriminate.
    + apply IH; assumption.
Qed.

Definition unique_names (ms : list member) : Prop :=
  forall n c c', In (n, c) ms -> In (n, c') ms -> c = c'.

Lemma mimetype_pass_perm ms ms' : Permutation ms ms' -> unique_names ms ->
  mimetype_pass ms = mimetype_pass ms'.
Proof.
  intros P U.
  assert (unique_names ms') as U'.
  { intros n c c' H1 H2. apply (U n); eapply Permutation_in; try apply Permutation_sym; eassumption. }
  destruct (mimetype_pass ms) as [f|] eqn:E; destruct (mimetype_pass ms') as [f'|] eqn:E'; try reflexivity.
  - apply mimetype_pass_some in E as [c [Hin Hc]]. apply mimetype_pass_some in E' as [c' [Hin' Hc']].
    assert (c = c') by (apply (U' (bs "mimetype")); [eapply Permutation_in; eassumption|exact Hin']).
    subst. congruence.
  - apply mimetype_pass_some in E as [c [Hin Hc]].
    rewrite (mimetype_pass_none ms' E' c) in Hc by (eapply Permutation_in; eassumption). discriminate.
  - apply mimetype_pass_some in E' as [c [Hin Hc]].
    rewrite (mimetype_pass_none ms E c) in Hc by (eapply Permutation_in; [apply Permutation_sym|]; eassumption). discriminate.
Qed.

(* a decisive marker: everything except the directory-prefix fallback *)
Definition strong_marker (ms : list member) : bool :=
  match mimetype_pass ms with Some _ => true | None => false end ||
  has_member (bs "META-INF/container.xml") ms || has_member (bs "word/document.xml") ms ||
  has_member (bs "xl/workbook.xml") ms || has_member (bs "ppt/presentation.xml") ms.

Theorem detect_zip_member_order ms ms' : Permutation ms ms' -> unique_names ms -> strong_marker ms = true ->
  detect_zip ms = detect_zip ms'.
Proof.
  intros P U S. unfold detect_zip, strong_marker in *.
  rewrite <- (mimetype_pass_perm ms ms' P U).
  rewrite <- !(has_member_perm _ ms ms' P).
  destruct (mimetype_pass ms); [reflexivity|].
  destruct (has_member (bs "META-INF/container.xml") ms); [reflexivity|].
  destruct (has_member (bs "word/document.xml") ms); [reflexivity|].
  destruct (has_member (bs "xl/workbook.xml") ms); [reflexivity|].
  destruct (has_member (bs "ppt/presentation.xml") ms); [reflexivity|]. discriminate.
Qed.

(* ---------- every valid document is recognised as its own format, whatever
   else the archive holds and in whatever order *)
Definition no_member (n : bytes) (ms : list member) : Prop := has_member n ms = false.

Lemma no_mimetype_pass ms : no_member (bs "mimetype") ms -> mimetype_pass ms = None.
Proof.
  intro H. destruct (mimetype_pass ms) eqn:E; [|reflexivity].
  apply mimetype_pass_some in E as [c [Hin _]].
  assert (has_member (bs "mimetype") ms = true) by (apply has_member_in; exists c; exact Hin). congruence.
Qed.

Theorem own_format_docx ms : has_member (bs "word/document.xml") ms = true ->
  no_member (bs "mimetype") ms -> no_member (bs "META-INF/container.xml") ms -> detect_zip ms = FDOCX.
Proof. intros H M C. unfold detect_zip. rewrite (no_mimetype_pass ms M), C, H. reflexivity. Qed.

Theorem own_format_xlsx ms : has_member (bs "xl/workbook.xml") ms = true ->
  no_member (bs "word/document.xml") ms ->
  no_member (bs "mimetype") ms -> no_member (bs "META-INF/container.xml") ms -> detect_zip ms = FXLSX.
Proof. intros H W M C. unfold detect_zip. rewrite (no_mimetype_pass ms M), C, W, H. reflexivity. Qed.

Theorem own_format_pptx ms : has_member (bs "ppt/presentation.xml") ms = true ->
  no_member (bs "word/document.xml") ms -> no_member (bs "xl/workbook.xml") ms ->
  no_member (bs "mimetype") ms -> no_member (bs "META-INF/container.xml") ms -> detect_zip ms = FPPTX.
Proof. intros H W X M C. unfold detect_zip. rewrite (no_mimetype_pass ms M), C, W, X, H. reflexivity. Qed.

Theorem own_format_by_mimetype ms c f : unique_names ms -> In (bs "mimetype", c) ms ->
  classify_mimetype c = Some f -> detect_zip ms = f.
Proof.
  intros U Hin Hc. unfold detect_zip. destruct (mimetype_pass ms) as [f'|] eqn:E.
  - apply mimetype_pass_some in E as [c' [Hin' Hc']].
    assert (c = c') by (eapply U; eassumption). subst. congruence.
  - rewrite (mimetype_pass_none ms E c Hin) in Hc. discriminate.
Qed.

Theorem own_format_epub_container ms : no_member (bs "mimetype") ms ->
  has_member (bs "META-INF/container.xml") ms = true -> detect_zip ms = FEPUB.
Proof. intros M C. unfold detect_zip. rewrite (no_mimetype_pass ms M), C. reflexivity. Qed.

Theorem mimetype_values :
  classify_mimetype (bs "application/vnd.oasis.opendocument.text") = Some FODT /\
  classify_mimetype (bs "application/epub+zip") = Some FEPUB /\
  classify_mimetype (bs "application/epub+zip
") = Some FEPUB.
Proof. vm_compute. repeat split; reflexivity. Qed.

Theorem own_format_pdf d : has_prefix [37; 80; 68; 70] d = true -> detect_reader (CBytes d) = Ok FPDF.
Proof. intro H. cbn [detect_reader]. rewrite H. reflexivity. Qed.

Theorem own_format_html d : has_prefix [37; 80; 68; 70] d = false -> has_prefix [80; 75; 3; 4] d = false ->
  html_magic d = true -> detect_reader (CBytes d) = Ok FHTML.
Proof. intros H1 H2 H3. cbn [detect_reader]. rewrite H1, H2, H3. reflexivity. Qed.

(* ---------- acceptance *)
Lemma fmt_eqb_eq a b : fmt_eqb a b = true <-> a = b.
Proof. destruct a, b; cbn; split; intro H; try reflexivity; try discriminate. Qed.

Theorem accept_iff name c : accepts name c = true <->
  detect_reader c = Ok FUnknown \/ (exists f, detect_reader c = Ok f /\ f <> FUnknown /\ f = detect_ext name).
Proof.
  unfold accepts. destruct (detect_reader c) as [f| | |].
  2,3,4: (split; [discriminate|intros [H|[f' [H _]]]; discriminate]).
  assert (forall g, g <> FUnknown ->
    (fmt_eqb g (detect_ext name) = true <->
     Ok g = Ok FUnknown \/ (exists f0, Ok g = Ok f0 /\ f0 <> FUnknown /\ f0 = detect_ext name))) as G.
  { intros g Hg. split.
    - intro H. right. exists g. split; [reflexivity|]. split; [exact Hg|]. apply fmt_eqb_eq. exact H.
    - intros [H|[f0 [H [_ He]]]]; [inversion H; contradiction|]. injection H as E. rewrite E. apply fmt_eqb_eq. exact He. }
  destruct f; try (apply G; discriminate).
  split; [intro; left; reflexivity|reflexivity].
Qed.

Theorem cross_refused name c f : detect_reader c = Ok f -> f <> FUnknown -> detect_ext name <> f ->
  accepts name c = false.
Proof.
  intros H Hn He. unfold accepts. rewrite H. destruct f; try contradiction;
    destruct (detect_ext name); cbn; try reflexivity; contradiction.
Qed.

Theorem own_extension_accepted name c f : detect_reader c = Ok f -> detect_ext name = f -> accepts name c = true.
Proof. intros H He. unfold accepts. rewrite H, He. destruct f; reflexivity. Qed.

(* the extension table regenerated from format.Detect, case-insensitively *)
Theorem extension_table :
  detect_ext (bs "a.pdf") = FPDF /\ detect_ext (bs "a.DOCX") = FDOCX /\ detect_ext (bs "x.y/a.Odt") = FODT /\
  detect_ext (bs "a.xlsx") = FXLSX /\ detect_ext (bs "a.pptx") = FPPTX /\ detect_ext (bs "a.html") = FHTML /\
  detect_ext (bs "a.HTM") = FHTML /\ detect_ext (bs "a.b.epub") = FEPUB /\ detect_ext (bs "noext") = FUnknown /\
  detect_ext (bs "dir.pdf/file") = FUnknown.
Proof. vm_compute. repeat split; reflexivity. Qed.

Lemma detect_ext_case name name' : map lower (file_ext name) = map lower (file_ext name') ->
  detect_ext name = detect_ext name'.
Proof. intro H. unfold detect_ext. rewrite H. reflexivity. Qed.

(* ---------- DRM *)
Theorem drm_iff ms : drm_check ms = true <->
  In MRights ms \/ In (MEnc None) ms \/ exists l e, In (MEnc (Some l)) ms /\ In e l /\ entry_is_drm e = true.
Proof.
  induction ms as [|m ms IH]; cbn [drm_check].
  - split; [discriminate|]. intros [[]|[[]|[l [e [[] _]]]]].
  - destruct m as [|[l|]|].
    + split; [intro; left; left; reflexivity|reflexivity].
    + destruct (existsb entry_is_drm l) eqn:E.
      * split; [|reflexivity]. intros _. right. right. apply existsb_exists in E as [e [He Hd]].
        exists l, e. split; [left; reflexivity|split; assumption].
      * rewrite IH. split.
        -- intros [H|[H|[l' [e [H1 H2]]]]]; [left; right; exact H|right; left; right; exact H|].
           right. right. exists l', e. split; [right; exact H1|exact H2].
        -- intros [[H|H]|[[H|H]|[l' [e [[H|H] [H2 H3]]]]]]; try discriminate.
           ++ left. exact H.
           ++ right. left. exact H.
           ++ inversion H; subst l'. exfalso.
              assert (existsb entry_is_drm l = true) by (apply existsb_exists; exists e; split; assumption). congruence.
           ++ right. right. exists l', e. split; [exact H|split; assumption].
    + split; [intro; right; left; left; reflexivity|reflexivity].
    + rewrite IH. split.
      * intros [H|[H|[l' [e [H1 H2]]]]]; [left; right; exact H|right; left; right; exact H|].
        right. right. exists l', e. split; [right; exact H1|exact H2].
      * intros [[H|H]|[[H|H]|[l' [e [[H|H] H2]]]]]; try discriminate.
        -- left. exact H.
        -- right. left. exact H.
        -- right. right. exists l', e. split; [exact H|exact H2].
Qed.

Theorem drm_member_order ms ms' : Permutation ms ms' -> drm_check ms = drm_check ms'.
Proof.
  intro P. destruct (drm_check ms) eqn:E; symmetry.
  - apply drm_iff. apply drm_iff in E. destruct E as [H|[H|[l [e [H1 H2]]]]].
    + left. eapply Permutation_in; eassumption.
    + right. left. eapply Permutation_in; eassumption.
    + right. right. exists l, e. split; [eapply Permutation_in; eassumption|exact H2].
  - destruct (drm_check ms') eqn:E'; [|reflexivity]. exfalso.
    assert (drm_check ms = true) as T; [|congruence].
    apply drm_iff. apply drm_iff in E'. apply Permutation_sym in P. destruct E' as [H|[H|[l [e [H1 H2]]]]].
    + left. eapply Permutation_in; eassumption.
    + right. left. eapply Permutation_in; eassumption.
    + right. right. exists l, e. split; [eapply Permutation_in; eassumption|exact H2].
Qed.

Theorem obfuscation_is_not_drm e : is_font_obfuscation (e_alg e) = true -> entry_is_drm e = false.
Proof. intro H. unfold entry_is_drm. rewrite H. reflexivity. Qed.

Theorem obfuscation_uris :
  is_font_obfuscation (bs "http://www.idpf.org/2008/embedding") = true /\
  is_font_obfuscation (bs "http://ns.adobe.com/pdf/enc#RC") = true /\
  is_font_obfuscation (bs "http://www.w3.org/2001/04/xmlenc#aes128-cbc") = false.
Proof. vm_compute. repeat split; reflexivity. Qed.

Theorem content_documents_covered :
  is_content_file (bs "OEBPS/ch1.xhtml") = true /\ is_content_file (bs "a/B.HTML") = true /\
  is_content_file (bs "x.htm") = true /\ is_content_file (bs "fonts/f.otf") = false /\
  is_content_file (bs "img/c.jpg") = false.
Proof. vm_compute. repeat split; reflexivity. Qed.

(* obfuscation-only EPUBs open: no rights file, a parsable encryption file whose entries all use font obfuscation *)
Theorem obfuscation_only_opens ms :
  ~ In MRights ms -> ~ In (MEnc None) ms ->
  (forall l e, In (MEnc (Some l)) ms -> In e l -> is_font_obfuscation (e_alg e) = true) ->
  drm_check ms = false.
Proof.
  intros H1 H2 H3. destruct (drm_check ms) eqn:E; [|reflexivity]. exfalso.
  apply drm_iff in E as [H|[H|[l [e [Hl [He Hd]]]]]]; [contradiction|contradiction|].
  rewrite (obfuscation_is_not_drm e (H3 l e Hl He)) in Hd. discriminate.
Qed.
