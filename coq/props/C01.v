(* C01 - PDF text survives every physical file layout
   Property theorems only: explicit statements, each closed by [exact <lemma>]. *)
From Coq Require String.
Import (notations) String.
From Coq Require Import Permutation.
From Tabula Require Import model.C01_Pdf model.C06_Syntax proofs.C01_Pdf.



Theorem C01_page_count_is_the_number_of_leaves : forall (t : ptree) (inh : attrs), length (flatten inh t) = leaves t.
Proof. exact page_count_is_the_number_of_leaves. Qed.
Print Assumptions C01_page_count_is_the_number_of_leaves.

Theorem C01_a_document_that_reads_has_one_entry_per_leaf : forall (fonts : list fontdec) (t : ptree) (pages : list (list Z * Z * list (list Z))), read_document fonts t = Some pages -> length pages = leaves t.
Proof. exact a_document_that_reads_has_one_entry_per_leaf. Qed.
Print Assumptions C01_a_document_that_reads_has_one_entry_per_leaf.

Theorem C01_attributes_come_from_the_nearest_ancestor_that_states_them : forall (chain : list attrs) (a : attrs) (cs : list bytes), exists eff : attrs, flatten no_attrs (below chain (Leaf a cs)) = [(eff, cs)] /\ a_box eff = over (a_box a) (nearest a_box chain None) /\ a_rot eff = over (a_rot a) (nearest a_rot chain None) /\ a_res eff = over (a_res a) (nearest a_res chain None).
Proof. exact attributes_come_from_the_nearest_ancestor_that_states_them. Qed.
Print Assumptions C01_attributes_come_from_the_nearest_ancestor_that_states_them.

Theorem C01_attributes_may_live_at_any_ancestor : forall (t : ptree) (inh : attrs), flatten inh t = flatten no_attrs (push inh t).
Proof. exact attributes_may_live_at_any_ancestor. Qed.
Print Assumptions C01_attributes_may_live_at_any_ancestor.

Theorem C01_tree_shape_does_not_matter : forall (fonts : list fontdec) (t : ptree), read_document fonts t = read_document fonts (flat_tree (flatten no_attrs t)).
Proof. exact tree_shape_does_not_matter. Qed.
Print Assumptions C01_tree_shape_does_not_matter.

Theorem C01_intermediate_nodes_are_transparent : forall (inh a : attrs) (before group after : list ptree), flatten inh (Node a (before ++ Node no_attrs group :: after)) = flatten inh (Node a (before ++ group ++ after)).
Proof. exact intermediate_nodes_are_transparent. Qed.
Print Assumptions C01_intermediate_nodes_are_transparent.

Theorem C01_a_shared_mediabox_may_move_to_the_parent : forall (inh a : attrs) (kids : list ptree) (b : list Z), a_box a = None -> Forall (fun k : ptree => a_box (node_attrs k) = Some b) kids -> flatten inh (Node a kids) = flatten inh (Node (with_box (Some b) a) (map (set_attrs (with_box None)) kids)).
Proof. exact a_shared_mediabox_may_move_to_the_parent. Qed.
Print Assumptions C01_a_shared_mediabox_may_move_to_the_parent.

Theorem C01_shared_resources_may_move_to_the_parent : forall (inh a : attrs) (kids : list ptree) (s : list (bytes * nat)), a_res a = None -> Forall (fun k : ptree => a_res (node_attrs k) = Some s) kids -> flatten inh (Node a kids) = flatten inh (Node (with_res (Some s) a) (map (set_attrs (with_res None)) kids)).
Proof. exact shared_resources_may_move_to_the_parent. Qed.
Print Assumptions C01_shared_resources_may_move_to_the_parent.

Theorem C01_a_shared_rotation_may_move_to_the_parent : forall (inh a : attrs) (kids : list ptree) (r0 : Z), a_rot a = None -> Forall (fun k : ptree => a_rot (node_attrs k) = Some r0) kids -> flatten inh (Node a kids) = flatten inh (Node (with_rot (Some r0) a) (map (set_attrs (with_rot None)) kids)).
Proof. exact a_shared_rotation_may_move_to_the_parent. Qed.
Print Assumptions C01_a_shared_rotation_may_move_to_the_parent.

Theorem C01_content_streams_read_as_one : forall (fonts : list fontdec) (a : attrs) (c1 c2 : bytes) (r : list bytes), read_page fonts (a, c1 :: c2 :: r) = read_page fonts (a, (c1 ++ 10%N :: c2) :: r).
Proof. exact content_streams_read_as_one. Qed.
Print Assumptions C01_content_streams_read_as_one.

Theorem C01_text_state_carries_over_the_parts_of_the_content : forall (fonts : list fontdec) (a : attrs) (o1 o2 : list (bytes * list obj)), page_strings fonts a (o1 ++ o2) = page_strings fonts a o1 ++ map (fun fs : bytes * bytes => shown fonts (a_res a) (fst fs) (snd fs)) (snd (run_ops (fst (run_ops [] o1)) o2)).
Proof. exact text_state_carries_over_the_parts_of_the_content. Qed.
Print Assumptions C01_text_state_carries_over_the_parts_of_the_content.

Theorem C01_each_string_is_decoded_with_the_font_in_force : forall (fonts : list fontdec) (a : attrs) (ops : list (bytes * list obj)) (op : bytes * list obj), page_strings fonts a (ops ++ [op]) = page_strings fonts a ops ++ map (fun s : bytes => shown fonts (a_res a) (fst (step_op (fst (run_ops [] ops)) op)) s) (snd (step_op (fst (run_ops [] ops)) op)).
Proof. exact each_string_is_decoded_with_the_font_in_force. Qed.
Print Assumptions C01_each_string_is_decoded_with_the_font_in_force.

Theorem C01_following_references_reads_the_tree : forall (t : ntree) (st : N -> option gobj) (inh : attrs) (fuel : nat), stored st t -> (ndepth t <= fuel)%nat -> gflatten fuel st inh (nid t) = Some (flatten inh (erase t)).
Proof. exact following_references_reads_the_tree. Qed.
Print Assumptions C01_following_references_reads_the_tree.

Theorem C01_object_numbers_do_not_matter : forall (t1 t2 : ntree) (st1 st2 : N -> option gobj) (inh : attrs) (f1 f2 : nat), stored st1 t1 -> stored st2 t2 -> erase t1 = erase t2 -> (ndepth t1 <= f1)%nat -> (ndepth t2 <= f2)%nat -> gflatten f1 st1 inh (nid t1) = gflatten f2 st2 inh (nid t2).
Proof. exact object_numbers_do_not_matter. Qed.
Print Assumptions C01_object_numbers_do_not_matter.

Theorem C01_reading_depends_on_what_the_lookups_answer : forall st1 st2 : N -> option gobj, (forall n : N, st1 n = st2 n) -> forall (fuel : nat) (inh : attrs) (n : N), gflatten fuel st1 inh n = gflatten fuel st2 inh n.
Proof. exact reading_depends_on_what_the_lookups_answer. Qed.
Print Assumptions C01_reading_depends_on_what_the_lookups_answer.

Theorem C01_a_page_shows_what_its_content_says : forall (fonts : list fontdec) (a : attrs) (items : list item), page_strings fonts a (flat_map item_ops items) = flat_map (fun it : item => map (shown fonts (a_res a) (item_font it)) (item_shows it)) items.
Proof. exact a_page_shows_what_its_content_says. Qed.
Print Assumptions C01_a_page_shows_what_its_content_says.

Theorem C01_operators_that_are_not_text_showing_show_nothing : forall (f o : bytes) (args : list obj), op_is o "Tf" = false -> op_is o "Tj" = false -> op_is o "'" = false -> op_is o """" = false -> op_is o "TJ" = false -> step_op f (o, args) = (f, []).
Proof. exact operators_that_are_not_text_showing_show_nothing. Qed.
Print Assumptions C01_operators_that_are_not_text_showing_show_nothing.

