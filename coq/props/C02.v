(* C02 - no input can crash, hang or exhaust the process
   Property theorems only: explicit statements, each closed by [exact <lemma>]. *)
From Coq Require String.
Import (notations) String.
From Coq Require Import Permutation.
From Tabula Require Import model.C02_Walks model.C02_Deep proofs.C02_Walks proofs.C02_Deep.



Theorem C02_the_prev_chain_always_ends : forall (s : sections) (main : N), chain_all s main <> COutOfFuel.
Proof. exact the_prev_chain_always_ends. Qed.
Print Assumptions C02_the_prev_chain_always_ends.

Theorem C02_no_section_is_read_twice : forall (s : sections) (main : N) (read : list N), chain_all s main = COkN read -> NoDup read.
Proof. exact no_section_is_read_twice. Qed.
Print Assumptions C02_no_section_is_read_twice.

Theorem C02_flattening_the_page_tree_always_ends : forall (st : pstore) (root : N), walk_root st root <> WOutOfFuel.
Proof. exact flattening_the_page_tree_always_ends. Qed.
Print Assumptions C02_flattening_the_page_tree_always_ends.

Theorem C02_pages_found_are_bounded_by_the_kids_entries_read : forall (st : pstore) (root : N) (v : list N) (pages : nat), walk_root st root = WOk v pages -> NoDup v /\ (pages <= S (length (kids_of st root)) + kidsum st v)%nat.
Proof. exact pages_found_are_bounded_by_the_kids_entries_read. Qed.
Print Assumptions C02_pages_found_are_bounded_by_the_kids_entries_read.

Theorem C02_accepted_field_widths_are_small_and_not_all_zero : forall w0 w1 w2 : Z, widths_ok w0 w1 w2 = true -> (0 <= w0 <= 8)%Z /\ (0 <= w1 <= 8)%Z /\ (0 <= w2 <= 8)%Z /\ (1 <= w0 + w1 + w2 <= 24)%Z.
Proof. exact accepted_field_widths_are_small_and_not_all_zero. Qed.
Print Assumptions C02_accepted_field_widths_are_small_and_not_all_zero.

Theorem C02_accepted_subsections_fit_in_the_data : forall (idx : list Z) (left row : Z), (0 < row)%Z -> (0 <= left)%Z -> index_ok idx left row = true -> (0 <= entries idx)%Z /\ (entries idx * row <= left)%Z.
Proof. exact accepted_subsections_fit_in_the_data. Qed.
Print Assumptions C02_accepted_subsections_fit_in_the_data.

Theorem C02_accepted_object_stream_headers_have_room_for_their_pairs : forall n first decoded : Z, objstm_ok n first decoded = true -> (0 <= n)%Z /\ (4 * (n - 1) <= first <= decoded)%Z.
Proof. exact accepted_object_stream_headers_have_room_for_their_pairs. Qed.
Print Assumptions C02_accepted_object_stream_headers_have_room_for_their_pairs.

Theorem C02_accepted_worksheet_grids_are_bounded_by_the_cells_present : forall r c p : Z, (0 <= r)%Z -> (0 <= c)%Z -> grid_ok r c p = true -> (r * (c + 1) <= Z.max 1048576 (256 * p))%Z.
Proof. exact accepted_worksheet_grids_are_bounded_by_the_cells_present. Qed.
Print Assumptions C02_accepted_worksheet_grids_are_bounded_by_the_cells_present.

Theorem C02_clamped_counts_stay_below_the_limit : forall limit v : Z, (clamp limit v <= limit)%Z /\ ((v <= limit)%Z -> clamp limit v = v).
Proof. exact clamped_counts_stay_below_the_limit. Qed.
Print Assumptions C02_clamped_counts_stay_below_the_limit.

Theorem C02_resolve_deep_always_ends : forall (st : dstore) (budget : nat) (o : dobj), resolve_deep st budget o <> DOutOfFuel.
Proof. exact resolve_deep_always_ends. Qed.
Print Assumptions C02_resolve_deep_always_ends.

Theorem C02_expanded_values_within_budget : forall (st : dstore) (budget : nat) (o r : dobj), resolve_deep st budget o = DOk r -> (dsize r <= budget)%nat.
Proof. exact expanded_values_within_budget. Qed.
Print Assumptions C02_expanded_values_within_budget.

Theorem C02_a_result_is_the_expansion_of_the_object : forall (st : dstore) (budget : nat) (o r : dobj), resolve_deep st budget o = DOk r -> expands st o r.
Proof. exact a_result_is_the_expansion_of_the_object. Qed.
Print Assumptions C02_a_result_is_the_expansion_of_the_object.

Check deep_examples.
