(* C02 - no input can crash, hang or exhaust the process
   Property theorems only: explicit statements, each closed by [exact <lemma>]. *)
From Coq Require String.
Import (notations) String.
From Coq Require Import Permutation.
From Tabula Require Import model.C02_Walks proofs.C02_Walks.



Theorem C02_the_prev_chain_always_ends : forall (s : sections) (main : N), chain_all s main <> COutOfFuel.
Proof. exact the_prev_chain_always_ends. Qed.
Print Assumptions C02_the_prev_chain_always_ends.

Theorem C02_no_section_is_read_twice : forall (s : sections) (main : N) (read : list N), chain_all s main = COkN read -> NoDup read.
Proof. exact no_section_is_read_twice. Qed.
Print Assumptions C02_no_section_is_read_twice.

Theorem C02_flattening_the_page_tree_always_ends : forall (st : pstore) (root : N), walk_root st root <> WOutOfFuel.
Proof. exact flattening_the_page_tree_always_ends. Qed.
Print Assumptions C02_flattening_the_page_tree_always_ends.

Theorem C02_pages_found_are_bounded_by_the_kids_entries_read : forall (st : pstore) (root : N) (v : list N) (pages : nat), walk_root st root = WOk v pages -> NoDup v /\ (pages <= S (length (kids_of st root)) + kidsum st v)%nat.
Proof. exact pages_found_are_bounded_by_the_kids_entries_read. Qed.
Print Assumptions C02_pages_found_are_bounded_by_the_kids_entries_read.

Theorem C02_accepted_field_widths_are_small_and_not_all_zero : forall w0 w1 w2 : Z, widths_ok w0 w1 w2 = true -> 0 <= w0 <= 8 /\ 0 <= w1 <= 8 /\ 0 <= w2 <= 8 /\ 1 <= w0 + w1 + w2 <= 24.
Proof. exact accepted_field_widths_are_small_and_not_all_zero. Qed.
Print Assumptions C02_accepted_field_widths_are_small_and_not_all_zero.

Theorem C02_accepted_subsections_fit_in_the_data : forall (idx : list Z) (left row : Z), 0 < row -> 0 <= left -> index_ok idx left row = true -> 0 <= entries idx /\ entries idx * row <= left.
Proof. exact accepted_subsections_fit_in_the_data. Qed.
Print Assumptions C02_accepted_subsections_fit_in_the_data.

Theorem C02_accepted_object_stream_headers_have_room_for_their_pairs : forall n first decoded : Z, objstm_ok n first decoded = true -> 0 <= n /\ 4 * (n - 1) <= first <= decoded.
Proof. exact accepted_object_stream_headers_have_room_for_their_pairs. Qed.
Print Assumptions C02_accepted_object_stream_headers_have_room_for_their_pairs.

Theorem C02_accepted_worksheet_grids_are_bounded_by_the_cells_present : forall r c p : Z, 0 <= r -> 0 <= c -> grid_ok r c p = true -> r * (c + 1) <= Z.max 1048576 (256 * p).
Proof. exact accepted_worksheet_grids_are_bounded_by_the_cells_present. Qed.
Print Assumptions C02_accepted_worksheet_grids_are_bounded_by_the_cells_present.

Theorem C02_clamped_counts_stay_below_the_limit : forall limit v : Z, clamp limit v <= limit /\ (v <= limit -> clamp limit v = v).
Proof. exact clamped_counts_stay_below_the_limit. Qed.
Print Assumptions C02_clamped_counts_stay_below_the_limit.

