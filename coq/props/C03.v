(* C03 - extraction is deterministic and free of cross-call interference
   Property theorems only: explicit statements, each closed by [exact <lemma>]. *)
From Coq Require String.
Import (notations) String.
From Coq Require Import Permutation.
From Tabula Require Import model.C03_Interference gen.GenGlobals gen.GenMapOrder proofs.C03_Interference.



Theorem C03_no_package_level_variable_is_written_outside_init : mutable_globals = [].
Proof. exact no_package_level_variable_is_written_outside_init. Qed.
Print Assumptions C03_no_package_level_variable_is_written_outside_init.

Theorem C03_only_the_detector_registry_has_methods_called : globals_with_method_calls = ["tables.globalRegistry"%string].
Proof. exact only_the_detector_registry_has_methods_called. Qed.
Print Assumptions C03_only_the_detector_registry_has_methods_called.

Theorem C03_shared_tables_that_leave_their_package_variable : aliased_globals = ["font.MacRomanEncoding (returned)"%string; "font.PDFDocEncoding (returned)"%string; "font.StandardEncodingTable (returned)"%string; "font.SymbolEncoding (returned)"%string; "font.WinAnsiEncoding (returned)"%string; "font.ZapfDingbatsEncoding (returned)"%string].
Proof. exact shared_tables_that_leave_their_package_variable. Qed.
Print Assumptions C03_shared_tables_that_leave_their_package_variable.

Theorem C03_places_where_map_order_can_show : map_order_sinks = ["core.Dict.Keys: append keys"%string; "core.Dict.String: append parts"%string; "epubdoc.Reader.findNCX: early return"%string; "epubdoc.Reader.findNavDocument: early return"%string; "reader.Reader.ExtractPageImages: append images"%string; "reader.Reader.resolveDeep: early return"%string; "resolver.ObjectResolver.resolve: early return"%string; "tables.DetectorRegistry.List: append names"%string].
Proof. exact places_where_map_order_can_show. Qed.
Print Assumptions C03_places_where_map_order_can_show.

Theorem C03_interleaving_cannot_be_observed : forall (St : Type) (step : nat -> St -> St) (sched : list nat) (s : list St) (i : nat) (d : St), i < length s -> nth i (run St step sched s) d = iter St (count i sched) (step i) (nth i s d).
Proof. exact interleaving_cannot_be_observed. Qed.
Print Assumptions C03_interleaving_cannot_be_observed.

Theorem C03_alone_or_among_others : forall (St : Type) (step : nat -> St -> St) (sched : list nat) (s : list St) (i : nat) (d : St), i < length s -> nth i (run St step sched s) d = nth i (run St step (filter (Nat.eqb i) sched) s) d.
Proof. exact alone_or_among_others. Qed.
Print Assumptions C03_alone_or_among_others.

Theorem C03_history_cannot_be_observed : forall (G In Out : Type) (call : G -> In -> Out * G), (forall (g : G) (x : In), snd (call g x) = g) -> forall (g0 : G) (history : list In) (x : In), fst (call (fold_left (fun (g : G) (y : In) => snd (call g y)) history g0) x) = fst (call g0 x).
Proof. exact history_cannot_be_observed. Qed.
Print Assumptions C03_history_cannot_be_observed.

Theorem C03_repeated_calls_agree : forall (G In Out : Type) (call : G -> In -> Out * G), (forall (g : G) (x : In), snd (call g x) = g) -> forall (g0 : G) (x : In), fst (call (snd (call g0 x)) x) = fst (call g0 x).
Proof. exact repeated_calls_agree. Qed.
Print Assumptions C03_repeated_calls_agree.

Theorem C03_map_iteration_order_cannot_be_observed : forall (A : Type) (entries entries' : list (nat * A)) (k : nat), Permutation entries entries' -> NoDup (map fst entries) -> lookup_key k (insert_all entries) = lookup_key k (insert_all entries').
Proof. exact map_iteration_order_cannot_be_observed. Qed.
Print Assumptions C03_map_iteration_order_cannot_be_observed.

