(* C04 - object lookup returns the newest revision, in any access order
   Property theorems only: explicit statements, each closed by [exact <lemma>]. *)
From Coq Require String.
Import (notations) String.
From Coq Require Import Permutation.
From Tabula Require Import model.C04_Xref proofs.C04_Xref.



Theorem C04_merged_table_answers_with_the_newest_revision : forall (secs : list section) (n : Z), lookup n (merged secs) = newest_entry n (rev secs).
Proof. exact merged_table_answers_with_the_newest_revision. Qed.
Print Assumptions C04_merged_table_answers_with_the_newest_revision.

Theorem C04_a_later_revision_overrides : forall (older : list section) (s : section) (n : Z) (e : entry), in_section n s = Some e -> lookup n (merged (older ++ [s])) = Some e.
Proof. exact a_later_revision_overrides. Qed.
Print Assumptions C04_a_later_revision_overrides.

Theorem C04_an_untouched_object_keeps_its_entry : forall (older : list section) (s : section) (n : Z), in_section n s = None -> lookup n (merged (older ++ [s])) = lookup n (merged older).
Proof. exact an_untouched_object_keeps_its_entry. Qed.
Print Assumptions C04_an_untouched_object_keeps_its_entry.

Theorem C04_free_or_missing_is_an_error : forall (T : list (Z * entry)) (F : file) (n : Z), lookup n T = None \/ lookup n T = Some EFree -> fresh T F n = RErr.
Proof. exact free_or_missing_is_an_error. Qed.
Print Assumptions C04_free_or_missing_is_an_error.

Theorem C04_plain_object_is_found : forall (T : list (Z * entry)) (F : list (Z * (Z * content))) (n off tok : Z) (i : bool), lookup n T = Some (EAt off) -> lookup off F = Some (n, CVal tok i) -> fresh T F n = ROk tok i.
Proof. exact plain_object_is_found. Qed.
Print Assumptions C04_plain_object_is_found.

Theorem C04_packed_object_is_found : forall (T : list (Z * entry)) (F : list (Z * (Z * content))) (n stm : Z) (idx : nat) (off : Z) (ms : list (Z * Z * bool)) (tok : Z) (i : bool), lookup n T = Some (EIn stm idx) -> lookup stm T = Some (EAt off) -> lookup off F = Some (stm, CStm ms) -> nth_error ms idx = Some (n, tok, i) -> fresh T F n = ROk tok i.
Proof. exact packed_object_is_found. Qed.
Print Assumptions C04_packed_object_is_found.

Theorem C04_number_mismatch_is_an_error : forall (T : list (Z * entry)) (F : list (Z * (Z * content))) (n stm : Z) (idx : nat) (off : Z) (ms : list (Z * Z * bool)) (m tok : Z) (i : bool), lookup n T = Some (EIn stm idx) -> lookup stm T = Some (EAt off) -> lookup off F = Some (stm, CStm ms) -> nth_error ms idx = Some (m, tok, i) -> m <> n -> fresh T F n = RErr.
Proof. exact number_mismatch_is_an_error. Qed.
Print Assumptions C04_number_mismatch_is_an_error.

Theorem C04_lookups_do_not_depend_on_history : forall (T : list (Z * entry)) (F : file) (ops : list op) (c : cache), lengths_ok T F -> sound T F c -> run T F c ops = concat (map (fun o : op => match o with | Get n => [fresh T F n] | Clear => [] end) ops).
Proof. exact lookups_do_not_depend_on_history. Qed.
Print Assumptions C04_lookups_do_not_depend_on_history.

Theorem C04_a_new_reader_answers_with_fresh_lookups : forall (T : list (Z * entry)) (F : file) (ops : list op), lengths_ok T F -> run T F [] ops = concat (map (fun o : op => match o with | Get n => [fresh T F n] | Clear => [] end) ops).
Proof. exact a_new_reader_answers_with_fresh_lookups. Qed.
Print Assumptions C04_a_new_reader_answers_with_fresh_lookups.

Theorem C04_field_round_trip : forall (w : nat) (v : Z), 0 <= v < 256 ^ Z.of_nat w -> be_int (be_bytes w v) 0 = v.
Proof. exact field_round_trip. Qed.
Print Assumptions C04_field_round_trip.

Theorem C04_stream_entry_round_trip : forall (w0 w1 w2 : nat) (ty f1 f2 : Z) (rest : list N), (0 < w0)%nat -> 0 <= ty < 256 ^ Z.of_nat w0 -> 0 <= f1 < 256 ^ Z.of_nat w1 -> 0 <= f2 < 256 ^ Z.of_nat w2 -> stream_entry w0 w1 w2 (be_bytes w0 ty ++ be_bytes w1 f1 ++ be_bytes w2 f2 ++ rest) = (if ty =? 0 then Some EFree else if ty =? 1 then Some (EAt f1) else if ty =? 2 then Some (EIn f1 (Z.to_nat f2)) else None).
Proof. exact stream_entry_round_trip. Qed.
Print Assumptions C04_stream_entry_round_trip.

Theorem C04_stream_entry_default_type : forall (w1 w2 : nat) (f1 f2 : Z) (rest : list N), 0 <= f1 < 256 ^ Z.of_nat w1 -> stream_entry 0 w1 w2 (be_bytes w1 f1 ++ be_bytes w2 f2 ++ rest) = Some (EAt f1).
Proof. exact stream_entry_default_type. Qed.
Print Assumptions C04_stream_entry_default_type.

(* non-vacuity *)
Check history_example.
