(* C05 - Stream decoding exactly inverts every supported encoding.
   Property theorems only; each is closed by [exact <lemma>]. *)
From Coq Require String.
Import (notations) String.
From Tabula Require Import base.Val base.ByteFacts model.C05_Filters
  proofs.C05_Hex proofs.C05_A85 proofs.C05_Pred proofs.C05_Chain.
Open Scope N_scope.

(* ASCIIHex: every spelling (whitespace anywhere, either digit case, odd final
   digit, optional '>' followed by anything) of every byte string decodes to it *)
Theorem C05_hex_roundtrip : forall x s, bytes_ok s -> hex_spelled x s -> hex_decode s = Ok x.
Proof. exact hex_roundtrip. Qed.
Print Assumptions C05_hex_roundtrip.

Theorem C05_hex_encoder_is_a_spelling : forall x, bytes_ok x -> hex_spelled x (hex_encode x).
Proof. exact hex_encode_spelled. Qed.
Print Assumptions C05_hex_encoder_is_a_spelling.

Theorem C05_hex_error_not_garbage : forall p c rest, hex_clean p ->
  flt_is_ws c = false -> (c =? 62) = false -> flt_hex_digit c = None ->
  hex_decode (p ++ c :: rest) = Err.
Proof. exact hex_bad_char. Qed.
Print Assumptions C05_hex_error_not_garbage.

(* ASCII85: 4-byte groups as 5 digits or 'z', a final partial group of n bytes
   as n+1 digits, whitespace anywhere, optional '~>' followed by anything *)
Theorem C05_a85_roundtrip : forall x s, bytes_ok x -> a85_spelled x s -> a85_decode s = Ok x.
Proof. exact a85_roundtrip. Qed.
Print Assumptions C05_a85_roundtrip.

Theorem C05_a85_overflow_is_error : forall ds s1 s, digits_spelled ds s1 ->
  Forall (fun d => d < 85) ds -> length ds = 5%nat -> 4294967295 < a85_value ds ->
  a85_decode (s1 ++ s) = Err.
Proof. exact a85_overflow_decode. Qed.
Print Assumptions C05_a85_overflow_is_error.

Theorem C05_a85_lone_digit_is_error : forall d t, d < 85 -> a85_tail t -> a85_decode ((d + 33) :: t) = Err.
Proof. exact a85_lone_digit_decode. Qed.
Print Assumptions C05_a85_lone_digit_is_error.

Theorem C05_a85_foreign_char_is_error : forall c t ds acc, a85_foreign c ds -> a85_go (c :: t) ds acc = Err.
Proof. exact a85_foreign_err. Qed.
Print Assumptions C05_a85_foreign_char_is_error.

(* predictors: any geometry, any per-row filter-type vector *)
Theorem C05_png_roundtrip : forall columns colors rows enc,
  (0 < columns <= 2147483647)%Z -> (0 < colors <= 2147483647)%Z ->
  rows_ok (Z.to_nat (columns * colors)) rows ->
  png_encode (Z.to_nat colors) [] rows = Some enc ->
  png_unpredict columns colors 8 enc = Ok (concat (map snd rows)).
Proof. exact png_roundtrip. Qed.
Print Assumptions C05_png_roundtrip.

Theorem C05_png_encoder_total : forall bpp rows, Forall (fun tr => fst tr <= 4) rows ->
  forall prev, exists enc, png_encode bpp prev rows = Some enc.
Proof. exact png_encode_some. Qed.
Print Assumptions C05_png_encoder_total.

Theorem C05_tiff_roundtrip : forall columns colors rows,
  (0 < columns <= 2147483647)%Z -> (0 < colors <= 2147483647)%Z ->
  trows_ok (Z.to_nat (columns * colors)) rows ->
  tiff_unpredict columns colors 8 (tiff_encode (Z.to_nat colors) rows) = Ok (concat rows).
Proof. exact tiff_roundtrip. Qed.
Print Assumptions C05_tiff_roundtrip.

Theorem C05_bad_geometry_is_error : forall columns colors bpc data,
  (columns <= 0 \/ colors <= 0)%Z ->
  png_unpredict columns colors bpc data = Err /\ tiff_unpredict columns colors bpc data = Err.
Proof. intros. split; [apply pred_bad_geometry_png | apply pred_bad_geometry_tiff]; assumption. Qed.
Print Assumptions C05_bad_geometry_is_error.

Theorem C05_bad_bpc_is_error : forall columns colors bpc data, bpc <> 8%Z ->
  png_unpredict columns colors bpc data = Err /\ tiff_unpredict columns colors bpc data = Err.
Proof. exact pred_bad_bpc. Qed.
Print Assumptions C05_bad_bpc_is_error.

Theorem C05_png_bad_length_is_error : forall columns colors data,
  geometry_ok columns colors = true ->
  (length data mod S (Z.to_nat (columns * colors)) <> 0)%nat ->
  png_unpredict columns colors 8 data = Err.
Proof. exact png_bad_length. Qed.
Print Assumptions C05_png_bad_length_is_error.

Theorem C05_png_bad_rowtype_is_error : forall bpp rowlen prev t row rest n,
  4 < t -> row <> [] -> length row = rowlen ->
  png_dec_rows bpp rowlen prev (t :: row ++ rest) (S n) = Err.
Proof. exact png_bad_rowtype. Qed.
Print Assumptions C05_png_bad_rowtype_is_error.

(* chains through Stream.Decode; zlib enters only through the section
   hypothesis inflate (deflate x) = Ok x, visible here as a premise *)
Theorem C05_chain_roundtrip : forall inflate deflate,
  (forall x, inflate (deflate x) = Ok x) ->
  forall l ps fs x y, zip_filters l ps 0 = Some fs -> chain_encodes deflate fs x y ->
  stream_decode inflate (FSArray l) ps y = Ok x.
Proof. exact stream_roundtrip_array. Qed.
Print Assumptions C05_chain_roundtrip.

Theorem C05_single_filter_roundtrip : forall inflate deflate,
  (forall x, inflate (deflate x) = Ok x) ->
  forall n ps x y,
  stage_encodes deflate n (match ps with PSDict p => Some p | _ => None end) x y ->
  stream_decode inflate (FSName n) ps y = Ok x.
Proof. exact stream_roundtrip_name. Qed.
Print Assumptions C05_single_filter_roundtrip.

Theorem C05_non_name_filter_is_error : forall inflate deflate,
  (forall x, inflate (deflate x) = Ok x) ->
  forall l1 l2 ps fs x y, zip_filters l1 ps 0 = Some fs -> chain_encodes deflate fs x y ->
  stream_decode inflate (FSArray (l1 ++ None :: l2)) ps y = Err.
Proof. exact stream_non_name_error. Qed.
Print Assumptions C05_non_name_filter_is_error.

Theorem C05_dispatch_names :
  filter_kind (bs "FlateDecode") = KFlate /\ filter_kind (bs "Fl") = KFlate /\
  filter_kind (bs "ASCIIHexDecode") = KHex /\ filter_kind (bs "AHx") = KHex /\
  filter_kind (bs "ASCII85Decode") = KA85 /\ filter_kind (bs "A85") = KA85.
Proof. exact dispatch_names. Qed.
Print Assumptions C05_dispatch_names.

(* non-vacuity: concrete spellings satisfy the premises and decode *)
Example C05_ex_hex : hex_decode (bs "48 65
6c6C 6f7>junk") = Ok (bs "Hellop").
Proof. vm_compute. reflexivity. Qed.
Example C05_ex_a85 : a85_decode (bs "87cURD]i,""Ebo80~>") = Ok (bs "Hello World!").
Proof. vm_compute. reflexivity. Qed.
Example C05_ex_a85_spelled : a85_spelled [72; 105] (bs "8 8/~>x").
Proof.
  apply (AS_part [72; 105] (bs "8 8/") (bs "~>x")).
  - cbn; auto.
  - vm_compute.
    exact (DS_cons 23 [23; 14] [] [32; 56; 47] (Forall_nil _)
            (DS_cons 23 [14] [32] [47] (Forall_cons 32 (eq_refl : flt_is_ws 32 = true) (Forall_nil _))
              (DS_cons 14 [] [] [] (Forall_nil _) DS_nil))).
  - apply (AT_eod [] (bs "x")). constructor.
Qed.
