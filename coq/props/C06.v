(* C06 - PDF object syntax has one meaning for both parsers
   Property theorems only: explicit statements, each closed by [exact <lemma>]. *)
From Coq Require String.
Import (notations) String.
From Coq Require Import Permutation.
From Tabula Require Import model.C17_Xlsx model.C06_Syntax proofs.C06_Lexical proofs.C06_Structure.

Open Scope N_scope.

Theorem C06_literal_string_reads_back : forall (items : list sitem) (tail : list N), Forall sitem_ok items -> sbal 0 items = Some 0%nat -> read_string (S (length (concat (map sitem_text items) ++ 41 :: tail))) (concat (map sitem_text items) ++ 41 :: tail) 0 [] = Some (concat (map sitem_bytes items), tail).
Proof. exact literal_string_reads_back. Qed.
Print Assumptions C06_literal_string_reads_back.

Theorem C06_every_byte_string_can_be_written : forall (s : bytes) (tail : list N), read_string (S (length (concat (map (fun c : N => sitem_text (spell c)) s) ++ 41 :: tail))) (concat (map (fun c : N => sitem_text (spell c)) s) ++ 41 :: tail) 0 [] = Some (s, tail).
Proof. exact every_byte_string_can_be_written. Qed.
Print Assumptions C06_every_byte_string_can_be_written.

Theorem C06_name_reads_back_in_both_parsers : forall (items : list nitem) (tail : bytes), Forall nitem_ok items -> ends_name tail -> let text := concat (map nitem_text items) ++ tail in read_name_core (S (length text)) text [] = Some (map nitem_byte items, tail) /\ read_name_cs (S (length text)) text [] = (map nitem_byte items, tail).
Proof. exact name_reads_back_in_both_parsers. Qed.
Print Assumptions C06_name_reads_back_in_both_parsers.

Theorem C06_hex_string_reads_back : forall (items : list hitem) (tail : list N), Forall hitem_ok items -> exists ds : bytes, read_hex_digits (concat (map hitem_text items) ++ 62 :: tail) [] = Some (ds, tail) /\ hex_pairs ds = map hitem_byte items.
Proof. exact hex_string_reads_back. Qed.
Print Assumptions C06_hex_string_reads_back.

Theorem C06_object_tree_reads_back : forall (w : wobj) (fuel : nat), wf w -> (depth w <= fuel)%nat -> elem_ok fuel w.
Proof. exact object_tree_reads_back. Qed.
Print Assumptions C06_object_tree_reads_back.

Theorem C06_integers_and_references_in_an_array : forall (a b c n g : bytes) (rest : list tok), atoi a <> None -> atoi b <> None -> atoi c <> None -> atoi n <> None -> atoi g <> None -> follow_ok rest -> parse_obj 2 (wtoks (WArr [WInt a; WInt b; WRef n g; WInt c]) ++ rest) = POk (wvalue (WArr [WInt a; WInt b; WRef n g; WInt c])) rest.
Proof. exact integers_and_references_in_an_array. Qed.
Print Assumptions C06_integers_and_references_in_an_array.

(* non-vacuity *)
Check lexical_examples.
Check tree_example.
