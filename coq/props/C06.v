(* C06 - PDF object syntax has one meaning for both parsers
   Property theorems only: explicit statements, each closed by [exact <lemma>]. *)
From Coq Require String.
Import (notations) String.
From Coq Require Import Permutation.
From Tabula Require Import model.C17_Xlsx model.C06_Syntax proofs.C06_Lexical proofs.C06_Structure proofs.C06_Stream proofs.C06_Agree.

Open Scope N_scope.

Theorem C06_literal_string_reads_back : forall (items : list sitem) (tail : list N), Forall sitem_ok items -> sbal 0 items = Some 0%nat -> read_string (S (length (concat (map sitem_text items) ++ 41 :: tail))) (concat (map sitem_text items) ++ 41 :: tail) 0 [] = Some (concat (map sitem_bytes items), tail).
Proof. exact literal_string_reads_back. Qed.
Print Assumptions C06_literal_string_reads_back.

Theorem C06_every_byte_string_can_be_written : forall (s : bytes) (tail : list N), read_string (S (length (concat (map (fun c : N => sitem_text (spell c)) s) ++ 41 :: tail))) (concat (map (fun c : N => sitem_text (spell c)) s) ++ 41 :: tail) 0 [] = Some (s, tail).
Proof. exact every_byte_string_can_be_written. Qed.
Print Assumptions C06_every_byte_string_can_be_written.

Theorem C06_name_reads_back_in_both_parsers : forall (items : list nitem) (tail : bytes), Forall nitem_ok items -> ends_name tail -> let text := concat (map nitem_text items) ++ tail in read_name_core (S (length text)) text [] = Some (map nitem_byte items, tail) /\ read_name_cs (S (length text)) text [] = (map nitem_byte items, tail).
Proof. exact name_reads_back_in_both_parsers. Qed.
Print Assumptions C06_name_reads_back_in_both_parsers.

Theorem C06_hex_string_reads_back : forall (items : list hitem) (tail : list N), Forall hitem_ok items -> exists ds : bytes, read_hex_digits (concat (map hitem_text items) ++ 62 :: tail) [] = Some (ds, tail) /\ hex_pairs ds = map hitem_byte items.
Proof. exact hex_string_reads_back. Qed.
Print Assumptions C06_hex_string_reads_back.

Theorem C06_object_tree_reads_back : forall (w : wobj) (fuel : nat), wf w -> (depth w <= fuel)%nat -> elem_ok fuel w.
Proof. exact object_tree_reads_back. Qed.
Print Assumptions C06_object_tree_reads_back.

Theorem C06_integers_and_references_in_an_array : forall (a b c n g : bytes) (rest : list tok), atoi a <> None -> atoi b <> None -> atoi c <> None -> atoi n <> None -> atoi g <> None -> follow_ok rest -> parse_obj 2 (wtoks (WArr [WInt a; WInt b; WRef n g; WInt c]) ++ rest) = POk (wvalue (WArr [WInt a; WInt b; WRef n g; WInt c])) rest.
Proof. exact integers_and_references_in_an_array. Qed.
Print Assumptions C06_integers_and_references_in_an_array.

Theorem C06_operand_reads_back : forall (w : cw) (fuel : nat), (cdepth w <= fuel)%nat -> operand_ok fuel w.
Proof. exact operand_reads_back. Qed.
Print Assumptions C06_operand_reads_back.

Theorem C06_content_stream_reads_back : forall (g0 : list gitem) (p : list (item * gap)), Forall gitem_ok g0 -> prog_ok p -> cs_parse_all (gap_text g0 ++ ptext p) = Some (group p []).
Proof. exact content_stream_reads_back. Qed.
Print Assumptions C06_content_stream_reads_back.

Theorem C06_statements_read_back : forall stmts : list (list cw * bytes), Forall stmt_ok stmts -> cs_parse_all (ptext (concat (map stmt_items stmts))) = Some (map (fun s : list cw * bytes => (snd s, map cvalue (fst s))) stmts).
Proof. exact statements_read_back. Qed.
Print Assumptions C06_statements_read_back.

Theorem C06_both_parsers_read_the_same_value : forall (w : cw) (g : list gitem), Forall gitem_ok g -> cok w (hd_error (gap_text g)) -> core_parse (ctext w ++ gap_text g) = POk (cvalue w) [TEOF] /\ cs_operand (S (length (ctext w ++ gap_text g))) (ctext w ++ gap_text g) = COk (cvalue w) (gap_text g).
Proof. exact both_parsers_read_the_same_value. Qed.
Print Assumptions C06_both_parsers_read_the_same_value.

Theorem C06_both_parsers_agree_at_the_end_of_the_data : forall w : cw, cok w None -> core_parse (ctext w) = POk (cvalue w) [TEOF] /\ cs_operand (S (length (ctext w))) (ctext w) = COk (cvalue w) [].
Proof. exact both_parsers_agree_at_the_end_of_the_data. Qed.
Print Assumptions C06_both_parsers_agree_at_the_end_of_the_data.

(* non-vacuity *)
Check lexical_examples.
Check tree_example.
Check demo_prog_meets_the_hypotheses.
Check demo_prog_parses.
Check demo_operand_ok.
Check demo_operand_value.
