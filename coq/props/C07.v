(* C07 - character codes decode to the Unicode the font specifies
   Property theorems only: explicit statements, each closed by [exact <lemma>]. *)
From Coq Require String.
Import (notations) String.
From Coq Require Import Permutation.
From Tabula Require Import base.Utf8 model.C16_Docs model.C07_Font model.C07_RefEncodings gen.GenEncodings proofs.C07_Font.



Theorem C07_encodings_follow_the_annex : forall b : nat, (b < 256)%nat -> In (nth b (table_named (bs "StandardEncoding")) 0) (nth b ref_standard []) /\ In (nth b (table_named (bs "WinAnsiEncoding")) 0) (nth b ref_winansi []) /\ In (nth b (table_named (bs "MacRomanEncoding")) 0) (nth b ref_macroman []) /\ In (nth b (table_named (bs "PDFDocEncoding")) 0) (nth b ref_pdfdoc []) /\ In (nth b (table_named (bs "SymbolEncoding")) 0) (nth b ref_symbol []) /\ In (nth b (table_named (bs "ZapfDingbatsEncoding")) 0) (nth b ref_zapfdingbats []).
Proof. exact encodings_follow_the_annex. Qed.
Print Assumptions C07_encodings_follow_the_annex.

Theorem C07_unknown_encoding_is_winansi : table_named (bs "NoSuchEncoding") = table_named (bs "WinAnsiEncoding").
Proof. exact unknown_encoding_is_winansi. Qed.
Print Assumptions C07_unknown_encoding_is_winansi.

Theorem C07_utf16_round_trip : forall (be : bool) (rs : list Z), Forall scalar rs -> decode_utf16 be (concat (map (unit_bytes be) (concat (map utf16_units rs)))) = rs.
Proof. exact utf16_round_trip. Qed.
Print Assumptions C07_utf16_round_trip.

Theorem C07_decoded_text_is_valid_utf8 : forall rs : list Z, valid_utf8 (runes_bytes rs).
Proof. exact decoded_text_is_valid_utf8. Qed.
Print Assumptions C07_decoded_text_is_valid_utf8.

Theorem C07_every_path_returns_valid_utf8 : forall (t : list Z) (c : cmap) (be : bool) (data : bytes), valid_utf8 (runes_bytes (table_decode t data)) /\ valid_utf8 (runes_bytes (decode_utf16 be data)) /\ valid_utf8 (runes_bytes (lookup_string c data)).
Proof. exact every_path_returns_valid_utf8. Qed.
Print Assumptions C07_every_path_returns_valid_utf8.

Theorem C07_tokens_of_any_layout : forall (ps : list (bytes * token)) (trail : bytes) (fuel : nat), Forall (fun p : bytes * token => sep_ok (fst p) /\ tok_ok (snd p)) ps -> sep_ok trail -> (length (render ps trail) < fuel)%nat -> tokens fuel (render ps trail) = map snd ps.
Proof. exact tokens_of_any_layout. Qed.
Print Assumptions C07_tokens_of_any_layout.

Theorem C07_lookup_of_a_mapped_code : forall (c : cmap) (before after : list (Z * list Z)) (code : Z) (text : list Z), cm_chars c = before ++ (code, text) :: after -> Forall (fun p : Z * list Z => fst p <> code) after -> text <> [] -> lookup c code = Some text.
Proof. exact lookup_of_a_mapped_code. Qed.
Print Assumptions C07_lookup_of_a_mapped_code.

Theorem C07_lookup_in_a_range : forall (c : cmap) (s e d code : Z) (rest : list (Z * Z * Z)), Forall (fun p : Z * list Z => fst p <> code) (cm_chars c) -> cm_ranges c = (s, e, d) :: rest -> s <= code <= e -> 0 <= d -> d + (code - s) < 2147483648 -> lookup c code = Some [d + (code - s)].
Proof. exact lookup_in_a_range. Qed.
Print Assumptions C07_lookup_in_a_range.

Theorem C07_expanded_range_counts_up_in_the_last_unit : forall (n : nat) (code last : Z) (prefix : list Z) (c : cmap), cm_chars (expand_range n code last prefix c) = cm_chars c ++ map (fun k : nat => (code + Z.of_nat k, cmap_utf16 (prefix ++ [(last + Z.of_nat k) mod 65536]))) (seq 0 n).
Proof. exact expanded_range_counts_up_in_the_last_unit. Qed.
Print Assumptions C07_expanded_range_counts_up_in_the_last_unit.

Theorem C07_lookup_width_decodes_code_by_code : forall (c : cmap) (w : nat) (chunks : list (list N)) (texts : list (list Z)) (fuel : nat), (0 < w)%nat -> Forall (fun ch : list N => length ch = w) chunks -> Forall2 (fun (ch : bytes) (t : list Z) => lookup c (code_of ch 0) = Some t) chunks texts -> (length (concat chunks) < fuel)%nat -> lookup_width c w fuel (concat chunks) = concat texts.
Proof. exact lookup_width_decodes_code_by_code. Qed.
Print Assumptions C07_lookup_width_decodes_code_by_code.

(* non-vacuity *)
Check utf16_example.
Check cmap_example.
