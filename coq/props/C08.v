(* C08 - Fragment positions follow the PDF imaging model. *)
From Tabula Require Import base.Val model.C08_Gfx proofs.C08_Iso proofs.C08_Cor.
Open Scope Z_scope.

(* For every operator program (any length, any q/Q depth, forms with /Matrix
   nested to any depth, unbalanced programs included) the fragments the
   implementation's matrix bookkeeping reports equal those of the ISO 32000
   semantics written as successive point transformations: origin -> text matrix
   -> each cm in force, most recent first. *)
Theorem C08_refines_iso : forall prog, impl_run prog = iso_run prog.
Proof. exact impl_refines_iso. Qed.
Print Assumptions C08_refines_iso.

Theorem C08_cm_premultiplies : forall g m p,
  transform (g_ctm (upd_ctm g (mmul m (g_ctm g)))) p = transform (g_ctm g) (transform m p).
Proof. exact cm_premultiplies. Qed.
Print Assumptions C08_cm_premultiplies.

Theorem C08_Td_premultiplies : forall g tx ty p,
  transform (g_tlm (translate_text g tx ty)) p = transform (g_tlm g) (transform (translate tx ty) p) /\
  g_tm (translate_text g tx ty) = g_tlm (translate_text g tx ty).
Proof. exact Td_premultiplies. Qed.
Print Assumptions C08_Td_premultiplies.

Theorem C08_q_Q_restores_exactly : forall l s, balanced l ->
  exists s', run_ops (Oq :: l ++ [OQ]) s = Ok s' /\ x_g s' = x_g s /\ x_stack s' = x_stack s.
Proof. exact q_Q_restores_exactly. Qed.
Print Assumptions C08_q_Q_restores_exactly.

Theorem C08_BT_resets : forall s s', step true s OBT = Ok s' ->
  g_tm (x_g s') = ident /\ g_tlm (x_g s') = ident /\ g_ctm (x_g s') = g_ctm (x_g s).
Proof. exact BT_resets. Qed.
Print Assumptions C08_BT_resets.

Theorem C08_Tstar_relative_to_line_matrix : forall s s', step true s OTstar = Ok s' ->
  g_tlm (x_g s') = mmul (translate 0 (- g_lead (x_g s))) (g_tlm (x_g s)).
Proof. exact Tstar_relative_to_line_matrix. Qed.
Print Assumptions C08_Tstar_relative_to_line_matrix.

Theorem C08_quotes_are_Tstar_then_show : forall s,
  step true s OQuote = res_bind (step true s OTstar) (fun s1 => step true s1 OTj) /\
  forall a b, step true s (ODQuote a b) = res_bind (step true s OTstar) (fun s1 => step true s1 OTj).
Proof. exact quote_is_Tstar_then_show. Qed.
Print Assumptions C08_quotes_are_Tstar_then_show.

Theorem C08_TD_sets_leading : forall s tx ty s', step true s (OTD tx ty) = Ok s' ->
  g_lead (x_g s') = - ty /\ g_tlm (x_g s') = mmul (translate tx ty) (g_tlm (x_g s)).
Proof. exact TD_sets_leading. Qed.
Print Assumptions C08_TD_sets_leading.

(* font size: font size x text-matrix scale x CTM scale; for similarity CTMs the
   squared CTM scale is the product of the squared factors *)
Theorem C08_font_size_scale : forall g ks, Forall2 similarity (i_cms g) ks ->
  let '(_, _, sq) := iso_shown g in sq = fold_right Z.mul 1 ks.
Proof. exact font_size_scale. Qed.
Print Assumptions C08_font_size_scale.

(* non-vacuity: the program of the property text *)
Example C08_ex : impl_run [Ocm (1,0,0,1,100,100); Ocm (2,0,0,2,0,0); OBT; OTf 12; OTd 10 10; OTj; OET]
  = Ok [(Some (120, 120), 12, 4)].
Proof. vm_compute. reflexivity. Qed.
Example C08_ex_balanced : balanced [Ocm (2,0,0,2,0,0); Oq; OBT; OTj; OQ; OTstar].
Proof. apply B_op; [exact I|]. apply (B_q [OBT; OTj] [OTstar]); repeat (apply B_op; [exact I|]); apply B_nil. Qed.
