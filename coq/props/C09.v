(* C09 - layout analysis never loses, invents or duplicates text
   Property theorems only: explicit statements, each closed by [exact <lemma>]. *)
From Coq Require String.
Import (notations) String.
From Coq Require Import Permutation.
From Tabula Require Import model.C09_Regroup proofs.C09_Regroup.

Open Scope nat_scope.

Theorem C09_regrouping_conserves_fragments : forall (key pos : nat -> nat) (k : nat) (frags : list nat), Permutation (concat (regroup key pos k frags) ++ dropped key k frags) frags.
Proof. exact regrouping_conserves_fragments. Qed.
Print Assumptions C09_regrouping_conserves_fragments.

Theorem C09_nothing_dropped_when_every_fragment_has_a_group : forall (key pos : nat -> nat) (k : nat) (frags : list nat), (forall x : nat, In x frags -> key x < k) -> dropped key k frags = [] /\ Permutation (concat (regroup key pos k frags)) frags.
Proof. exact nothing_dropped_when_every_fragment_has_a_group. Qed.
Print Assumptions C09_nothing_dropped_when_every_fragment_has_a_group.

Theorem C09_each_fragment_in_exactly_one_group : forall (key pos : nat -> nat) (k : nat) (frags : list nat) (x g : nat), NoDup frags -> In x frags -> g < k -> In x (nth g (regroup key pos k frags) []) <-> key x = g.
Proof. exact each_fragment_in_exactly_one_group. Qed.
Print Assumptions C09_each_fragment_in_exactly_one_group.

Theorem C09_no_fragment_is_duplicated : forall (key pos : nat -> nat) (k : nat) (frags : list nat), NoDup frags -> NoDup (concat (regroup key pos k frags) ++ dropped key k frags).
Proof. exact no_fragment_is_duplicated. Qed.
Print Assumptions C09_no_fragment_is_duplicated.

Theorem C09_two_level_regrouping_conserves_fragments : forall (key1 key2 pos : nat -> nat) (k1 k2 : nat) (frags : list nat), (forall x : nat, In x frags -> key1 x < k1 /\ key2 x < k2) -> Permutation (concat (map (concat (A:=nat)) (regroup2 key1 key2 pos k1 k2 frags))) frags.
Proof. exact two_level_regrouping_conserves_fragments. Qed.
Print Assumptions C09_two_level_regrouping_conserves_fragments.

Theorem C09_assembling_text_keeps_the_characters : forall (text sep : nat -> bytes) (l : list nat), (forall x : nat, nonws (sep x) = []) -> nonws (assemble text sep l) = concat (map (fun x : nat => nonws (text x)) l).
Proof. exact assembling_text_keeps_the_characters. Qed.
Print Assumptions C09_assembling_text_keeps_the_characters.

Theorem C09_rendered_text_is_the_input_as_a_multiset : forall (key pos : nat -> nat) (k : nat) (frags : list nat) (text sep : nat -> bytes), (forall x : nat, In x frags -> key x < k) -> (forall x : nat, nonws (sep x) = []) -> Permutation (concat (map (fun g : list nat => nonws (assemble text sep g)) (regroup key pos k frags))) (concat (map (fun x : nat => nonws (text x)) frags)).
Proof. exact rendered_text_is_the_input_as_a_multiset. Qed.
Print Assumptions C09_rendered_text_is_the_input_as_a_multiset.

(* non-vacuity: three fragments, two groups, one dropped *)
Example C09_ex : regroup (fun x => match x with 0 => 1 | 1 => 0 | _ => 5 end) (fun x => x) 2 [0; 1; 2] = [[1]; [0]]
  /\ dropped (fun x => match x with 0 => 1 | 1 => 0 | _ => 5 end) 2 [0; 1; 2] = [2].
Proof. split; reflexivity. Qed.
