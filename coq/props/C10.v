(* C10 - Page selection and option chaining are algebraic; handles are released.
   Property theorems only: explicit statements, each closed by [exact <lemma>]. *)
From Coq Require String.
Import (notations) String.
From Coq Require Import Permutation.
From Tabula Require Import base.Val base.ListX model.C10_Pages proofs.C10_Pages.



Theorem C10_resolve_is_sorted_set : forall (sel : list Z) (n : Z), sel <> [] -> Forall (fun p : Z => 1 <= p <= n) sel -> exists l : list Z, resolve sel n = Ok l /\ strictly_sorted l /\ (forall x : Z, In x l <-> In (x + 1) sel).
Proof. exact resolve_is_sorted_set. Qed.
Print Assumptions C10_resolve_is_sorted_set.

Theorem C10_resolve_out_of_range : forall (sel : list Z) (n : Z), (exists p : Z, In p sel /\ (p < 1 \/ n < p)) -> resolve sel n = Err.
Proof. exact resolve_out_of_range. Qed.
Print Assumptions C10_resolve_out_of_range.

Theorem C10_resolve_spelling : forall (sel sel' : list Z) (n : Z), sel <> [] -> sel' <> [] -> Forall (fun p : Z => 1 <= p <= n) sel -> Forall (fun p : Z => 1 <= p <= n) sel' -> (forall p : Z, In p sel <-> In p sel') -> resolve sel n = resolve sel' n.
Proof. exact resolve_spelling. Qed.
Print Assumptions C10_resolve_spelling.

Theorem C10_empty_selection_is_all_pages : forall n : Z, 0 <= n -> exists l : list Z, resolve [] n = Ok l /\ (forall x : Z, In x l <-> 0 <= x < n).
Proof. exact empty_selection_is_all_pages. Qed.
Print Assumptions C10_empty_selection_is_all_pages.

Theorem C10_pages_chain : forall sel a b : list Z, add_pages (add_pages sel a) b = add_pages sel (a ++ b).
Proof. exact pages_chain. Qed.
Print Assumptions C10_pages_chain.

Theorem C10_range_members : forall (sel : list Z) (s e p : Z), In p (add_range sel s e) <-> In p sel \/ s <= p <= e.
Proof. exact range_members. Qed.
Print Assumptions C10_range_members.

Theorem C10_reversed_range_adds_nothing : forall (sel : list Z) (s e : Z), e < s -> add_range sel s e = sel.
Proof. exact reversed_range_adds_nothing. Qed.
Print Assumptions C10_reversed_range_adds_nothing.

Theorem C10_join_pages_char : forall texts : list bytes, join_pages texts = match nonempty_texts texts with | [] => [] | t :: r => t ++ concat (map (fun t0 : list N => sep ++ t0) r) end.
Proof. exact join_pages_char. Qed.
Print Assumptions C10_join_pages_char.

Theorem C10_join_pages_ignores_empty : forall texts : list bytes, join_pages texts = join_pages (nonempty_texts texts).
Proof. exact join_pages_ignores_empty. Qed.
Print Assumptions C10_join_pages_ignores_empty.

Theorem C10_join_pages_app : forall a b : list bytes, join_pages (a ++ b) = match join_pages a with | [] => join_pages b | n :: l => let ja := n :: l in match join_pages b with | [] => ja | n0 :: l0 => ja ++ sep ++ n0 :: l0 end end.
Proof. exact join_pages_app. Qed.
Print Assumptions C10_join_pages_app.

Theorem C10_inv_run : forall ops : list lop, Inv (lrun ops).
Proof. exact inv_run. Qed.
Print Assumptions C10_inv_run.

Theorem C10_no_leak : forall ops : list lop, (forall i h : nat, ~ holds (lrun ops) i h) -> opened (lrun ops) = [].
Proof. exact no_leak. Qed.
Print Assumptions C10_no_leak.

Theorem C10_close_idempotent : forall (w : world) (i : nat), close (close w i) i = close w i.
Proof. exact close_idempotent. Qed.
Print Assumptions C10_close_idempotent.

Theorem C10_terminal_releases : forall (w : world) (i : nat) (ok : bool), nth_error (exts w) i <> None -> nth_error (exts (lstep w (LTerminal i ok))) i = Some None.
Proof. exact terminal_releases. Qed.
Print Assumptions C10_terminal_releases.

Theorem C10_frame : forall (w : world) (o : lop) (j : nat), match o with | LDerive _ => True | LNonTerminal i _ | LTerminal i _ | LClose i => i <> j end -> (j < length (exts w))%nat -> nth_error (exts (lstep w o)) j = nth_error (exts w) j.
Proof. exact frame. Qed.
Print Assumptions C10_frame.

Theorem C10_derive_holds_nothing : forall (w : world) (i : nat), nth_error (exts w) i <> None -> nth_error (exts (lstep w (LDerive i))) (length (exts w)) = Some None.
Proof. exact derive_holds_nothing. Qed.
Print Assumptions C10_derive_holds_nothing.

(* non-vacuity *)
Example C10_ex_resolve : resolve (add_range (add_pages (add_pages [] [5; 2]%Z) [2; 3]%Z) 3 4) 6 = Ok [1; 2; 3; 4]%Z.
Proof. vm_compute. reflexivity. Qed.
Example C10_ex_lifecycle :
  map (fun w => length (opened w))
      [lrun [LNonTerminal 0 true; LDerive 0; LTerminal 1 true];
       lrun [LNonTerminal 0 true; LDerive 0; LTerminal 1 true; LTerminal 0 true; LClose 0; LClose 1]] = [1%nat; 0%nat].
Proof. vm_compute. reflexivity. Qed.
