(* C11 - Header/footer exclusion removes only repeated marginal text.
   Property theorems only: explicit statements, each closed by [exact <lemma>]. *)
From Coq Require String.
Import (notations) String.
From Coq Require Import Permutation.
From Tabula Require Import base.Val model.C13_Split model.C11_HeaderFooter proofs.C11_Filter.



Theorem C11_filter_is_sublist : forall (r : result) (pidx : Z) (fs : list frag) (h : Z), sublist (filter_fragments r pidx fs h) fs.
Proof. exact filter_is_sublist. Qed.
Print Assumptions C11_filter_is_sublist.

Theorem C11_deleted_only_marginal_matching : forall (r : result) (pidx : Z) (fs : list frag) (h : Z) (f : frag), removed r pidx fs h f = true -> in_top_band fs h f = true /\ (exists g : region, In g (res_headers r) /\ In pidx (r_pages g) /\ (char_level fs = true \/ texts_match (ftext f) (r_text g) (r_ispn g) = true)) \/ in_bottom_band fs h f = true /\ (exists g : region, In g (res_footers r) /\ In pidx (r_pages g) /\ (char_level fs = true \/ texts_match (ftext f) (r_text g) (r_ispn g) = true)).
Proof. exact deleted_only_marginal_matching. Qed.
Print Assumptions C11_deleted_only_marginal_matching.

Theorem C11_body_untouched : forall (r : result) (pidx : Z) (fs : list frag) (h : Z) (f : frag), in_top_band fs h f = false -> in_bottom_band fs h f = false -> removed r pidx fs h f = false.
Proof. exact body_untouched. Qed.
Print Assumptions C11_body_untouched.

Theorem C11_no_regions_identity : forall (pidx : Z) (fs : list frag) (h : Z), filter_fragments {| res_headers := []; res_footers := [] |} pidx fs h = fs.
Proof. exact no_regions_identity. Qed.
Print Assumptions C11_no_regions_identity.

Theorem C11_single_page_identity : forall (pages : list page) (pidx : Z) (fs : list frag) (h : Z), (length pages < 2)%nat -> filter_fragments (detect pages) pidx fs h = fs.
Proof. exact single_page_identity. Qed.
Print Assumptions C11_single_page_identity.

Theorem C11_region_repeats : forall (rt : rtype) (pages : list page) (g : region), In g (regions_of rt pages) -> 2 <= Z.of_nat (length (r_pages g)) /\ (exists (k : bytes) (cs : list cand), In (k, cs) (group_candidates (flat_map (page_candidates rt) pages)) /\ r_pages g = page_set cs /\ consistent_position cs = true /\ (2 < Z.of_nat (length k) \/ is_page_number_pattern k = true)).
Proof. exact region_repeats. Qed.
Print Assumptions C11_region_repeats.

Theorem C11_no_repetition_no_regions : forall (rt : rtype) (pages : list page), (forall (k : bytes) (cs : list cand), In (k, cs) (group_candidates (flat_map (page_candidates rt) pages)) -> Z.of_nat (length (page_set cs)) < 2) -> regions_of rt pages = [].
Proof. exact no_repetition_no_regions. Qed.
Print Assumptions C11_no_repetition_no_regions.

Theorem C11_group_yields_region : forall (rt : rtype) (pages : list page) (k : bytes) (cs : list cand), In (k, cs) (group_candidates (flat_map (page_candidates rt) pages)) -> 2 < Z.of_nat (length k) \/ is_page_number_pattern k = true -> min_occurrences (length pages) <= Z.of_nat (length (page_set cs)) -> consistent_position cs = true -> exists g : region, In g (regions_of rt pages) /\ r_pages g = page_set cs /\ r_type g = rt /\ r_ispn g = is_page_number_pattern k || contains_page_number_pattern cs.
Proof. exact group_yields_region. Qed.
Print Assumptions C11_group_yields_region.

Theorem C11_region_removes_header : forall (r : result) (pidx : Z) (fs : list frag) (h : Z) (f : frag) (g : region), In g (res_headers r) -> In pidx (r_pages g) -> in_top_band fs h f = true -> char_level fs = true \/ texts_match (ftext f) (r_text g) (r_ispn g) = true -> removed r pidx fs h f = true.
Proof. exact region_removes_header. Qed.
Print Assumptions C11_region_removes_header.

Theorem C11_region_removes_footer : forall (r : result) (pidx : Z) (fs : list frag) (h : Z) (f : frag) (g : region), In g (res_footers r) -> In pidx (r_pages g) -> in_bottom_band fs h f = true -> char_level fs = true \/ texts_match (ftext f) (r_text g) (r_ispn g) = true -> removed r pidx fs h f = true.
Proof. exact region_removes_footer. Qed.
Print Assumptions C11_region_removes_footer.

Theorem C11_own_text_matches : forall t : bytes, texts_match t t false = true.
Proof. exact own_text_matches. Qed.
Print Assumptions C11_own_text_matches.

Theorem C11_region_order_irrelevant : forall (hs hs' fts fts' : list region) (pidx : Z) (fs : list frag) (h : Z), Permutation hs hs' -> Permutation fts fts' -> filter_fragments {| res_headers := hs; res_footers := fts |} pidx fs h = filter_fragments {| res_headers := hs'; res_footers := fts' |} pidx fs h.
Proof. exact region_order_irrelevant. Qed.
Print Assumptions C11_region_order_irrelevant.

Theorem C11_candidate_band_within_filter_band : forall (fs : list frag) (pheight : Z) (f : frag), fs <> [] -> let '(minY, maxY) := bounds fs in 0 <= minY -> maxY <= pheight -> 0 < pheight -> (lt_scaled (pheight - (fy f + fh f)) hf_HeaderRegionHeight 1 1 = true -> in_top_band fs pheight f = true) /\ (lt_scaled (fy f - 0) hf_FooterRegionHeight 1 1 = true -> in_bottom_band fs pheight f = true).
Proof. exact candidate_band_within_filter_band. Qed.
Print Assumptions C11_candidate_band_within_filter_band.

(* non-vacuity: a three-page document with a running header and page numbers *)
(* non-vacuity: a three-page document with a running header and page numbers *)
Definition C11_ex_pages : list page :=
  map (fun i => {| p_index := i; p_height := 792;
                   p_frags := [ {| fx := 72; fy := 760; fw := 180; fh := 12; ftext := bs "Annual Report 2024" |};
                                {| fx := 72; fy := 400; fw := 200; fh := 12; ftext := bs "Body text of a page" |};
                                {| fx := 300; fy := 30; fw := 40; fh := 10; ftext := bs "Page 7" |} ] |}) [0; 1; 2]%Z.
Example C11_ex : map (fun p => map ftext (filter_fragments (detect C11_ex_pages) (p_index p) (p_frags p) (p_height p))) C11_ex_pages
  = [[bs "Body text of a page"]; [bs "Body text of a page"]; [bs "Body text of a page"]].
Proof. vm_compute. reflexivity. Qed.
