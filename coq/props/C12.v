(* C12 - RAG chunks cover the document once, in order, with true metadata
   Property theorems only: explicit statements, each closed by [exact <lemma>]. *)
From Coq Require String.
Import (notations) String.
From Coq Require Import Permutation.
From Tabula Require Import model.C13_Split proofs.C13_Trim proofs.C13_Split model.C12_Chunks proofs.C12_Chunks.

Open Scope N_scope.

Theorem C12_section_stack_is_the_enclosing_chain : forall hs : list hd_entry, rev (stack_after hs) = open_chain hs.
Proof. exact section_stack_is_the_enclosing_chain. Qed.
Print Assumptions C12_section_stack_is_the_enclosing_chain.

Theorem C12_section_path_is_the_enclosing_chain : forall hs : list hd_entry, path_of (stack_after hs) = map snd (open_chain hs).
Proof. exact section_path_is_the_enclosing_chain. Qed.
Print Assumptions C12_section_path_is_the_enclosing_chain.

Theorem C12_chunks_cover_the_document_once_in_order : forall (z : size_cfg) (toc : list toc_entry) (ps : list page), exists pss : list (list bytes), map c_text (chunk_document z toc ps) = concat pss /\ Forall2 ucov (doc_units toc ps) pss.
Proof. exact chunks_cover_the_document_once_in_order. Qed.
Print Assumptions C12_chunks_cover_the_document_once_in_order.

Theorem C12_chunks_carry_the_page_they_came_from : forall (z : size_cfg) (toc : list toc_entry) (ps : list page), exists per_page : list (list chunk), chunk_document z toc ps = concat per_page /\ Forall2 (fun (p : page) (cs : list chunk) => Forall (fun c : chunk => c_page c = pg_num p) cs) ps per_page.
Proof. exact chunks_carry_the_page_they_came_from. Qed.
Print Assumptions C12_chunks_carry_the_page_they_came_from.

Theorem C12_sections_hold_the_content_once_in_order : forall (minlvl : Z) (ps : list lpage), concat (map s_content (build_sections minlvl ps)) = concat (map (fun ip : Z * lpage => page_items ip minlvl) (number_from 1 ps)).
Proof. exact sections_hold_the_content_once_in_order. Qed.
Print Assumptions C12_sections_hold_the_content_once_in_order.

Theorem C12_open_section_path_is_the_enclosing_chain : forall (minlvl : Z) (ps : list lpage), let st := fold_left (add_page minlvl) (number_from 1 ps) sstate0 in match st_open st with | Some s => s_path s = map snd (open_chain (majors minlvl (number_from 1 ps))) | None => True end.
Proof. exact open_section_path_is_the_enclosing_chain. Qed.
Print Assumptions C12_open_section_path_is_the_enclosing_chain.

Theorem C12_chunk_indices_count_from_zero : forall (A : Type) (l : list A) (k : nat), map fst (indexed k l) = seq k (length l) /\ NoDup (map fst (indexed k l)).
Proof. exact chunk_indices_count_from_zero. Qed.
Print Assumptions C12_chunk_indices_count_from_zero.

(* non-vacuity: concrete documents (proved in the proofs module) *)
Check open_chain_example.
Check sections_example.
