(* C13 - Splitting respects the size limit and never corrupts text. *)
From Coq Require String.
Import (notations) String.
From Tabula Require Import base.Val base.Utf8 model.C13_Split model.C13_Overlap proofs.C13_Trim proofs.C13_Split proofs.C13_Bound proofs.C13_Overlap.
Open Scope N_scope.

(* for EVERY size predicate (any unit: characters, tokens, words, sentences,
   paragraphs), target position and hard-limit position, and every byte string: *)
Theorem C13_terminates : forall above target limit t, exists l, split_to_size above target limit t = Ok l.
Proof. exact split_terminates. Qed.
Print Assumptions C13_terminates.

(* the text is exactly the pieces in order, separated and surrounded only by
   (Unicode) whitespace: nothing lost, nothing invented, nothing reordered *)
Theorem C13_conserves : forall above target limit t l,
  split_to_size above target limit t = Ok l -> covers t l.
Proof. exact split_conserves. Qed.
Print Assumptions C13_conserves.

(* multi-byte characters are never cut *)
Theorem C13_utf8 : forall above target limit t l, valid_utf8 t ->
  split_to_size above target limit t = Ok l -> Forall valid_utf8 l.
Proof. exact split_utf8. Qed.
Print Assumptions C13_utf8.

(* hard maximum in characters (bytes), a break in every 50-byte window *)
Theorem C13_bound_chars : forall maxv t l, (50 <= maxv)%nat -> spaced t ->
  split_to_size (above_chars maxv) maxv maxv t = Ok l -> Forall (fun p => (length p <= maxv)%nat) l.
Proof. exact split_bound_chars. Qed.
Print Assumptions C13_bound_chars.

(* hard maximum in estimated tokens with TokensPerChar = p/q *)
Theorem C13_bound_tokens : forall maxv p q t l, (0 < p)%nat -> (0 < q)%nat ->
  (50 <= limit_tokens maxv p q)%nat -> spaced t ->
  split_to_size (above_tokens maxv p q) (limit_tokens maxv p q) (limit_tokens maxv p q) t = Ok l ->
  Forall (fun s => (length s * p / q <= maxv)%nat) l.
Proof. exact split_bound_tokens. Qed.
Print Assumptions C13_bound_tokens.

Theorem C13_trim_only_removes_whitespace : forall s, exists l r,
  s = l ++ trim_space s ++ r /\ ws_only l /\ ws_only r.
Proof. exact trim_space_decomp. Qed.
Print Assumptions C13_trim_only_removes_whitespace.

Theorem C13_trim_keeps_utf8 : forall s, valid_utf8 s -> valid_utf8 (trim_space s).
Proof. exact trim_space_valid. Qed.
Print Assumptions C13_trim_keeps_utf8.

(* ---- overlap (rag.OverlapGenerator.GenerateOverlap, rag.ApplyOverlapToChunks): for EVERY strategy, size,
   MinOverlap / MaxOverlap, word preservation, chunk text and EVERY answer E of the sentence-end oracle.
   content_of s c: c is s without its (Unicode) white space; ends_with_content text o: the content of o is
   the end of the content of text *)

(* the overlap is valid UTF-8 whenever the chunk is, and it is the end of the chunk's own content *)
Theorem C13_overlap_is_the_end_of_the_chunk : forall E c text o,
  valid_utf8 text -> generate E c text = Some o -> valid_utf8 o /\ ends_with_content text o.
Proof. exact overlap_is_the_end_of_the_chunk. Qed.
Print Assumptions C13_overlap_is_the_end_of_the_chunk.

(* the content of a string is unique: the statement above says what it seems to say *)
Theorem C13_content_is_a_function : forall s c1, content_of s c1 -> forall c2, content_of s c2 -> c1 = c2.
Proof. exact content_unique. Qed.
Print Assumptions C13_content_is_a_function.

Theorem C13_every_valid_string_has_a_content : forall s, valid_utf8 s -> exists c, content_of s c.
Proof. exact content_total. Qed.
Print Assumptions C13_every_valid_string_has_a_content.

(* never longer than MaxOverlap; never a non-empty overlap below MinOverlap *)
Theorem C13_overlap_respects_its_bounds : forall E c text o,
  generate E c text = Some o ->
  ((0 <= o_max c)%Z -> (blen o <= o_max c)%Z) /\ (o = [] \/ (o_min c <= blen o)%Z).
Proof. exact overlap_respects_its_bounds. Qed.
Print Assumptions C13_overlap_respects_its_bounds.

(* along a sequence of chunks every overlap prefix is taken from the previous chunk's own text, never from
   a text that already carries a prefix; it is valid, within the bounds, and the new chunk text is the
   prefix, a blank line, and the chunk's own text *)
Theorem C13_overlap_along_a_chunk_sequence : forall E c texts prev out,
  Forall valid_utf8 texts -> match prev with Some p => valid_utf8 p | None => True end ->
  apply_chunks E c prev texts = Some out -> chain_ok c prev texts out.
Proof. exact overlap_along_a_chunk_sequence. Qed.
Print Assumptions C13_overlap_along_a_chunk_sequence.

(* non-vacuity *)
Example C13_ex : split_to_size (above_chars 5) 5 5 (bs "ab cd. efgh ij") = Ok [bs "ab"; bs "cd."; bs "efgh"; bs "ij"].
Proof. vm_compute. reflexivity. Qed.
Example C13_ex_cjk : split_to_size (above_chars 4) 4 4 [227; 129; 130; 227; 129; 130; 227; 129; 130]
  = Ok [[227; 129; 130]; [227; 129; 130]; [227; 129; 130]].
Proof. vm_compute. reflexivity. Qed.
Check demo_overlap.
Check demo_content.
