(* C14 - Chunk exports parse back to the same chunks.
   Property theorems only: explicit statements, each closed by [exact <lemma>]. *)
From Coq Require String.
Import (notations) String.
From Coq Require Import Permutation.
From Tabula Require Import base.Val base.ListX model.C13_Split model.C14_Csv model.C14_Export proofs.C14_Csv proofs.C14_Export.



Theorem C14_csv_roundtrip : forall d : N, valid_delim d = true -> forall rows : list (list bytes), Forall (fun r : list bytes => r <> []) rows -> csv_parse d (csv_write d rows) = Some rows.
Proof. exact csv_roundtrip. Qed.
Print Assumptions C14_csv_roundtrip.

Theorem C14_rows_rectangular : forall (cf : config) (cs : list chunk), Forall (fun r : list bytes => length r = length (csv_columns cf cs)) (csv_rows cf cs).
Proof. exact rows_rectangular. Qed.
Print Assumptions C14_rows_rectangular.

Theorem C14_one_row_per_chunk_in_order : forall (cf : config) (cs : list chunk), csv_rows cf cs = (if cf_header cf then [csv_columns cf cs] else []) ++ map (fun c : chunk => map (column_value cf c) (csv_columns cf cs)) cs.
Proof. exact one_row_per_chunk_in_order. Qed.
Print Assumptions C14_one_row_per_chunk_in_order.

Theorem C14_export_parses_back : forall (cf : config) (cs : list chunk), valid_delim (cf_delim cf) = true -> csv_parse (cf_delim cf) (export_csv cf cs) = Some (csv_rows cf cs).
Proof. exact export_parses_back. Qed.
Print Assumptions C14_export_parses_back.

Theorem C14_id_column : forall (cf : config) (c : chunk), column_value cf c (cf_id_col cf) = k_id c.
Proof. exact id_column. Qed.
Print Assumptions C14_id_column.

Theorem C14_text_column : forall (cf : config) (c : chunk), cf_include_text cf = true -> bytes_eqb (cf_text_col cf) (cf_id_col cf) = false -> column_value cf c (cf_text_col cf) = k_text c.
Proof. exact text_column. Qed.
Print Assumptions C14_text_column.

Theorem C14_row_starts_with_id_and_text : forall (cf : config) (cs : list chunk) (c : chunk), cf_include_text cf = true -> bytes_eqb (cf_text_col cf) (cf_id_col cf) = false -> exists rest : list bytes, map (column_value cf c) (csv_columns cf cs) = k_id c :: k_text c :: rest.
Proof. exact row_starts_with_id_and_text. Qed.
Print Assumptions C14_row_starts_with_id_and_text.

Theorem C14_meta_key_columns : forall (cf : config) (cs : list chunk) (x : bytes), In x (meta_keys cf cs) <-> (exists (c : chunk) (v : mval), In c cs /\ In (x, v) (filter_meta cf (meta_map c)) /\ mem_b x standard_cols = false).
Proof. exact meta_key_columns. Qed.
Print Assumptions C14_meta_key_columns.

Theorem C14_batches_partition : forall (size : nat) (cs : list chunk), (0 < size)%nat -> concat (batches size cs) = cs /\ Forall (fun b : list chunk => (1 <= length b <= size)%nat) (batches size cs).
Proof. exact batches_partition. Qed.
Print Assumptions C14_batches_partition.

Theorem C14_filter_chain : forall (p q : chunk -> bool) (cs : list chunk), filter q (filter p cs) = filter (fun c : chunk => p c && q c) cs.
Proof. exact filter_chain. Qed.
Print Assumptions C14_filter_chain.

Theorem C14_filter_exact : forall (p : chunk -> bool) (cs : list chunk) (c : chunk), In c (filter p cs) <-> In c cs /\ p c = true.
Proof. exact filter_exact. Qed.
Print Assumptions C14_filter_exact.

Theorem C14_json_record_id : forall (cf : config) (c : chunk), k_id c <> [] -> jassoc (bs "id") (jfields (exported_json cf c)) = Some (JS (k_id c)).
Proof. exact json_record_id. Qed.
Print Assumptions C14_json_record_id.

Theorem C14_json_record_count : forall (cf : config) (cs : list chunk), length (export_json_records cf cs) = length cs.
Proof. exact json_record_count. Qed.
Print Assumptions C14_json_record_count.

Theorem C14_json_records_in_order : forall (cf : config) (cs : list chunk) (i : nat) (c : chunk), nth_error cs i = Some c -> nth_error (export_json_records cf cs) i = Some (exported_json cf c).
Proof. exact json_records_in_order. Qed.
Print Assumptions C14_json_records_in_order.

(* non-vacuity: adversarial fields survive the CSV round trip *)
Example C14_ex : csv_parse 44 (csv_write 44 [[bs "a,b"; bs "say ""hi"""; bs "line1
line2"; []]; [bs " lead"; bs "\."; bs "x"; bs "y"]]) = Some [[bs "a,b"; bs "say ""hi"""; bs "line1
line2"; []]; [bs " lead"; bs "\."; bs "x"; bs "y"]].
Proof. vm_compute. reflexivity. Qed.
