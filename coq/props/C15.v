(* C15 - Markdown output keeps table, heading and list structure intact.
   Property theorems only: explicit statements, each closed by [exact <lemma>]. *)
From Coq Require String.
Import (notations) String.
From Coq Require Import Permutation.
From Tabula Require Import base.Val base.ListX model.C15_Markdown proofs.C15_Cells proofs.C15_Tables.



Theorem C15_read_back_cell : forall c : bytes, safe c = true -> trim_blanks (unescape_pipes (rawcell c)) = trim_blanks (norm_nl c).
Proof. exact read_back_cell. Qed.
Print Assumptions C15_read_back_cell.

Theorem C15_read_back_row : forall cells : list bytes, cells <> [] -> Forall (fun c : bytes => safe c = true) cells -> row_cells (row_line cells) = map (fun c : bytes => trim_blanks (norm_nl c)) cells.
Proof. exact read_back_row. Qed.
Print Assumptions C15_read_back_row.

Theorem C15_simple_table_reads_back : forall (h : list bytes) (rows : list (list bytes)), h <> [] -> grid_ok (length h) (h :: rows) -> gfm_table (simple_row esc_pipe_nl h ++ dash_sep h ++ flat_map (simple_row esc_pipe_nl) rows) = Some (map (map cell_back) (h :: rows)).
Proof. exact simple_table_reads_back. Qed.
Print Assumptions C15_simple_table_reads_back.

Theorem C15_xlsx_table_reads_back : forall (h : list bytes) (rows : list (list bytes)), h <> [] -> grid_ok (length h) (h :: rows) -> gfm_table (xlsx_table_md h rows) = Some (map (map cell_back) (h :: rows)).
Proof. exact xlsx_table_reads_back. Qed.
Print Assumptions C15_xlsx_table_reads_back.

Theorem C15_model_table_reads_back : forall (h : list bytes) (rows : list (list bytes)), h <> [] -> grid_ok (length h) (h :: rows) -> gfm_table (model_table_md (h :: rows)) = Some (map (map cell_back) (h :: rows)).
Proof. exact model_table_reads_back. Qed.
Print Assumptions C15_model_table_reads_back.

Theorem C15_backslash_pipe_refuted : gfm_table (xlsx_table_md [[97; 92; 124; 98]; [120]] []) <> Some [[cell_back [97; 92; 124; 98]; cell_back [120]]].
Proof. exact backslash_pipe_refuted. Qed.
Print Assumptions C15_backslash_pipe_refuted.

Theorem C15_pptx_table_reads_back : forall (h : list bytes) (rows : list (list bytes)), h <> [] -> Forall (fun r : list bytes => length r = length h /\ Forall (fun c : bytes => safe (cr_space c) = true) r) (h :: rows) -> gfm_table (pptx_table_md (h :: rows)) = Some (map (map (fun c : bytes => cell_back (cr_space c))) (h :: rows)).
Proof. exact pptx_table_reads_back. Qed.
Print Assumptions C15_pptx_table_reads_back.

Theorem C15_heading_level_doc_spec : forall lvl off maxl : Z, (1 <= maxl <= 6)%Z -> heading_level_doc lvl off maxl = Z.min maxl (Z.max 1 (Z.max 1 lvl + off)) /\ (1 <= heading_level_doc lvl off maxl <= 6)%Z.
Proof. exact heading_level_doc_spec. Qed.
Print Assumptions C15_heading_level_doc_spec.

Theorem C15_heading_level_doc_range : forall lvl off maxl : Z, (1 <= heading_level_doc lvl off maxl <= 6)%Z.
Proof. exact heading_level_doc_range. Qed.
Print Assumptions C15_heading_level_doc_range.

Theorem C15_heading_level_chunk_spec : forall lvl off maxl : Z, (1 <= maxl <= 6)%Z -> (0 <= lvl)%Z -> heading_level_chunk lvl off maxl = Z.min maxl (Z.max 1 ((if (lvl =? 0)%Z then 2%Z else lvl) + off)) /\ (1 <= heading_level_chunk lvl off maxl <= 6)%Z.
Proof. exact heading_level_chunk_spec. Qed.
Print Assumptions C15_heading_level_chunk_spec.

(* non-vacuity: a grid with pipes, newlines, empty and padded cells satisfies the premises and reads back *)
Example C15_ex : gfm_table (model_table_md [[bs "a|b"; bs "two
lines"]; [[]; bs " padded "]]) = Some [[bs "a|b"; bs "two lines"]; [[]; bs "padded"]].
Proof. vm_compute. reflexivity. Qed.
Example C15_ex_safe : safe (bs "a|b\c") = true /\ safe (bs "a\|b") = false.
Proof. vm_compute. split; reflexivity. Qed.
