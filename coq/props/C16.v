(* C16 - word-processor documents keep their order and structure
   Property theorems only: explicit statements, each closed by [exact <lemma>]. *)
From Coq Require String.
Import (notations) String.
From Coq Require Import Permutation.
From Tabula Require Import model.C16_Docs proofs.C16_Inline proofs.C16_Body proofs.C16_Structure.

Open Scope N_scope.

Theorem C16_docx_inline_in_source_order : forall items : list ditem, Forall ditem_ok items -> docx_inline (concat (map ditem_toks items)) = concat (map ditem_text items).
Proof. exact docx_inline_in_source_order. Qed.
Print Assumptions C16_docx_inline_in_source_order.

Theorem C16_docx_inline_app : forall a b : list ditem, Forall ditem_ok a -> Forall ditem_ok b -> docx_inline (concat (map ditem_toks (a ++ b))) = docx_inline (concat (map ditem_toks a)) ++ docx_inline (concat (map ditem_toks b)).
Proof. exact docx_inline_app. Qed.
Print Assumptions C16_docx_inline_app.

Theorem C16_odt_inline_in_source_order : forall items : list oitem, Forall oitem_ok items -> odt_inline (concat (map oitem_toks items)) = concat (map oitem_text items).
Proof. exact odt_inline_in_source_order. Qed.
Print Assumptions C16_odt_inline_in_source_order.

Theorem C16_body_counts_are_the_authored_counts : forall items : list bitem, Forall bitem_ok items -> body_counts (ser_body items) = totals items counts0.
Proof. exact body_counts_are_the_authored_counts. Qed.
Print Assumptions C16_body_counts_are_the_authored_counts.

Theorem C16_body_order_is_document_order : forall items : list bitem, Forall bitem_ok items -> body_order (ser_body items) = labels items 0 0 0 0.
Proof. exact body_order_is_document_order. Qed.
Print Assumptions C16_body_order_is_document_order.

Theorem C16_chain_terminates : forall (styles : list style) (f i : nat), (S (S (length styles)) <= f)%nat -> chain f styles [] (Some i) = chain (S (S (length styles))) styles [] (Some i).
Proof. exact chain_terminates. Qed.
Print Assumptions C16_chain_terminates.

Theorem C16_heading_level_from_nearest_marked_ancestor : forall (styles : list style) (builtin : nat -> N) (i : nat) (path : list nat) (j : nat) (l : N), is_path styles i path -> NoDup (i :: path) -> last (i :: path) i = j -> Forall (fun k : nat => own_level styles builtin k = 0) (removelast (i :: path)) -> (forall k : nat, In k (removelast (i :: path)) -> (k < length styles)%nat) -> own_level styles builtin j = l -> l <> 0 -> resolve_level styles builtin i = l.
Proof. exact heading_level_from_nearest_marked_ancestor. Qed.
Print Assumptions C16_heading_level_from_nearest_marked_ancestor.

Theorem C16_grid_row_places_cells_at_their_start_column : forall (cols : nat) (cells : list cell) (j : nat), Forall (fun c : cell => (1 <= t_span c)%nat) cells -> (row_width cells <= cols)%nat -> nth j (fill_row cols 0 cells (repeat blank cols)) blank = match start_at cells 0 j with | Some c => gcell_of c | None => blank end.
Proof. exact grid_row_places_cells_at_their_start_column. Qed.
Print Assumptions C16_grid_row_places_cells_at_their_start_column.

Theorem C16_vertical_merges_keep_text_spans_and_order_partial : forall rows : list (list cell), map (map strip_rows) (docx_vmerge rows) = map (map strip_rows) rows.
Proof. exact vertical_merges_keep_text_spans_and_order_partial. Qed.
Print Assumptions C16_vertical_merges_keep_text_spans_and_order_partial.

Theorem C16_document_elements_keep_order_and_structure : forall bs : list block, concat (map view_element (doc_elements bs)) = concat (map view_block bs).
Proof. exact document_elements_keep_order_and_structure. Qed.
Print Assumptions C16_document_elements_keep_order_and_structure.

(* non-vacuity: concrete documents that meet the hypotheses (proved in the proofs modules) *)
Check docx_inline_example.
Check odt_inline_example.
Check body_order_example.
Check heading_inherit_example.
Check docx_grid_example.
Check odt_grid_example.
Check elements_example.
