(* C17 - Spreadsheet cells land at their addressed grid position. *)
From Coq Require String.
Import (notations) String.
From Tabula Require Import base.Val base.ListX model.C17_Xlsx proofs.C17_Codec proofs.C17_Grid proofs.C17_Text.
Open Scope Z_scope.

(* the reference codec is a bijection between column indices >= 0 and
   non-empty strings over A..Z, for every index (no bound) *)
Theorem C17_col_letters_roundtrip : forall n, 0 <= n -> column_to_index (index_to_column n) = n.
Proof. exact col_index_of_letters. Qed.
Print Assumptions C17_col_letters_roundtrip.

Theorem C17_letters_col_roundtrip : forall s, s <> [] -> upper_letters s ->
  index_to_column (column_to_index s) = s.
Proof. exact letters_of_col_index. Qed.
Print Assumptions C17_letters_col_roundtrip.

Theorem C17_codec_ranges : forall n, 0 <= n ->
  index_to_column n <> [] /\ upper_letters (index_to_column n).
Proof. exact index_to_column_wf. Qed.
Print Assumptions C17_codec_ranges.

Theorem C17_codec_index_nonneg : forall s, s <> [] -> upper_letters s -> 0 <= column_to_index s.
Proof. exact column_to_index_nonneg. Qed.
Print Assumptions C17_codec_index_nonneg.

(* the dense grid holds at (r,c) exactly the fold, in document order, of the
   source cells whose row number and reference column address (r,c) - for any
   sheet, rows and cells in any order, sparse or not *)
Theorem C17_grid_is_fold : forall sst rows nr nc r c, (r < nr)%nat -> (c < nc)%nat ->
  get (fold_left (place_row sst) rows (blank_grid nr nc)) r c = Some (fold_rows sst rows r c empty_cell).
Proof. exact grid_is_fold. Qed.
Print Assumptions C17_grid_is_fold.

(* with a unique source cell for an address, that position holds the cell's content ... *)
Theorem C17_cell_at_its_address : forall sst rows nr nc r c pre rr x post,
  (r < nr)%nat -> (c < nc)%nat ->
  all_cells rows = pre ++ (rr, x) :: post -> addresses rr x r c = true ->
  (forall y, In y pre -> addresses (fst y) (snd y) r c = false) ->
  (forall y, In y post -> addresses (fst y) (snd y) r c = false) ->
  get (fold_left (place_row sst) rows (blank_grid nr nc)) r c = Some (set_content sst x empty_cell).
Proof. exact cell_at_its_address. Qed.
Print Assumptions C17_cell_at_its_address.

(* ... and every position no source cell addresses is blank *)
Theorem C17_blank_elsewhere : forall sst rows nr nc r c, (r < nr)%nat -> (c < nc)%nat ->
  (forall y, In y (all_cells rows) -> addresses (fst y) (snd y) r c = false) ->
  get (fold_left (place_row sst) rows (blank_grid nr nc)) r c = Some empty_cell.
Proof. exact blank_elsewhere. Qed.
Print Assumptions C17_blank_elsewhere.

Theorem C17_display_value : forall sst x,
  let v := c_value (set_content sst x empty_cell) in
  (xc_t x = 1 -> v = if bytes_eqb (xc_v x) [49%N] then bs "TRUE" else bs "FALSE") /\
  (xc_t x = 2 -> v = xc_v x) /\ (xc_t x = 3 -> v = xc_v x) /\
  (xc_t x = 4 -> forall t, xc_is x = Some t -> v = t) /\
  (xc_t x = 0 -> forall idx, atoi (xc_v x) = Some idx -> 0 <= idx < Z.of_nat (length sst) ->
                 v = nth (Z.to_nat idx) sst []) /\
  (xc_t x = 5 -> xc_v x <> [] -> v = xc_v x).
Proof. exact display_value. Qed.
Print Assumptions C17_display_value.

Theorem C17_merge_keeps_values : forall g rg r c,
  option_map c_value (get (apply_region g rg) r c) = option_map c_value (get g r c).
Proof. exact merge_keeps_values. Qed.
Print Assumptions C17_merge_keeps_values.

Theorem C17_merge_blanks_covered : forall g sc sr ec er r c cl,
  get g r c = Some cl -> c_root cl = false ->
  sr <= Z.of_nat r <= er -> sc <= Z.of_nat c <= ec -> (Z.of_nat r <> sr \/ Z.of_nat c <> sc) ->
  option_map shown (get (apply_region g (sc, sr, ec, er)) r c) = Some [].
Proof. exact merge_blanks_covered. Qed.
Print Assumptions C17_merge_blanks_covered.

Theorem C17_shared_rich_text : forall runs, shared_string [] runs = concat runs.
Proof. exact shared_rich_text. Qed.
Print Assumptions C17_shared_rich_text.

(* tab-separated text: splitting at newlines gives one line per grid row, and
   splitting line r at tabs gives the shown values of row r (values free of tab/newline) *)
Theorem C17_tsv : forall g : grid, g <> [] -> Forall (fun row => row <> [] /\ Forall clean_cell row) g ->
  let lines := split_on 10 (sheet_text [9%N] g) [] in
  lines = map (fun row => join [9%N] (map shown row)) g /\
  map (fun ln => split_on 9 ln []) lines = map (map shown) g.
Proof. exact text_lines_and_fields. Qed.
Print Assumptions C17_tsv.

(* non-vacuity *)
Example C17_ex_codec : column_to_index (bs "ZZ") = 701 /\ index_to_column 702 = bs "AAA" /\
  parse_cell_ref (bs "ab12") = Some (27, 11).
Proof. vm_compute. repeat split; reflexivity. Qed.
Example C17_ex_grid :
  let rows := [ {| xr_r := 2; xr_cells := [ {| xc_ref := bs "C2"; xc_t := 5; xc_v := bs "7"; xc_f := []; xc_is := None |} ] |};
                {| xr_r := 1; xr_cells := [ {| xc_ref := bs "A1"; xc_t := 1; xc_v := bs "1"; xc_f := []; xc_is := None |} ] |} ] in
  map (map c_value) (build_grid [] rows [bs "A1:B1"]) = [[bs "TRUE"; []; []]; [[]; []; bs "7"]].
Proof. vm_compute. reflexivity. Qed.
