(* C18 - Multi-part documents are read in their declared order.
   Property theorems only: explicit statements, each closed by [exact <lemma>]. *)
From Coq Require String.
Import (notations) String.
From Coq Require Import Permutation.
From Tabula Require Import base.Val base.ListX model.C18_Parts proofs.C18_Parts.



Theorem C18_find_member_perm : forall (ms ms' : list member) (n : bytes), Permutation ms ms' -> unique_names ms -> find_member n ms = find_member n ms'.
Proof. exact find_member_perm. Qed.
Print Assumptions C18_find_member_perm.

Theorem C18_pptx_zip_order : forall (ms ms' : list member) (rels : list (bytes * bytes)) (rids : list bytes), Permutation ms ms' -> unique_names ms -> pptx_read ms rels rids = pptx_read ms' rels rids.
Proof. exact pptx_zip_order. Qed.
Print Assumptions C18_pptx_zip_order.

Theorem C18_epub_zip_order : forall (ms ms' : list member) (opf : bytes) (manifest : list (bytes * bytes)) (spine : list bytes), Permutation ms ms' -> unique_names ms -> epub_read ms opf manifest spine = epub_read ms' opf manifest spine.
Proof. exact epub_zip_order. Qed.
Print Assumptions C18_epub_zip_order.

Theorem C18_xlsx_zip_order : forall (ms ms' : list member) (rels : list (bytes * bytes)) (sheets : list xsheet), Permutation ms ms' -> unique_names ms -> xlsx_read ms rels sheets = xlsx_read ms' rels sheets.
Proof. exact xlsx_zip_order. Qed.
Print Assumptions C18_xlsx_zip_order.

Theorem C18_pptx_declared_order : forall (ms : list member) (rels : list (bytes * bytes)) (a b : list bytes), pptx_read ms rels (a ++ b) = pptx_read ms rels a ++ pptx_read ms rels b.
Proof. exact pptx_declared_order. Qed.
Print Assumptions C18_pptx_declared_order.

Theorem C18_epub_spine_order : forall (ms : list member) (opf : bytes) (manifest : list (bytes * bytes)) (a b : list bytes), epub_read ms opf manifest (a ++ b) = epub_read ms opf manifest a ++ epub_read ms opf manifest b.
Proof. exact epub_spine_order. Qed.
Print Assumptions C18_epub_spine_order.

Theorem C18_xlsx_workbook_order : forall (ms : list member) (rels : list (bytes * bytes)) (a b : list xsheet), xlsx_read ms rels (a ++ b) = xlsx_read ms rels a ++ xlsx_read_go ms rels (length a) b.
Proof. exact xlsx_workbook_order. Qed.
Print Assumptions C18_xlsx_workbook_order.

Theorem C18_pptx_count : forall (ms : list member) (rels : list (bytes * bytes)) (rids : list bytes), length (pptx_read ms rels rids) = length (filter (fun n : bytes => match find_member n ms with | Some _ => true | None => false end) (pptx_declared rels rids)).
Proof. exact pptx_count. Qed.
Print Assumptions C18_pptx_count.

Theorem C18_epub_count : forall (ms : list member) (opf : bytes) (manifest : list (bytes * bytes)) (spine : list bytes), (length (epub_read ms opf manifest spine) <= length spine)%nat.
Proof. exact epub_count. Qed.
Print Assumptions C18_epub_count.

Theorem C18_pptx_decoy : forall (ms1 ms2 : list (bytes * bytes)) (d c : bytes) (rels : list (bytes * bytes)) (rids : list bytes), ~ In d (pptx_declared rels rids) -> pptx_read (ms1 ++ (d, c) :: ms2) rels rids = pptx_read (ms1 ++ ms2) rels rids.
Proof. exact pptx_decoy. Qed.
Print Assumptions C18_pptx_decoy.

Theorem C18_pct_roundtrip : forall (esc : N -> bool) (s : bytes), esc 37 = true -> bytes_ok s -> pct_decode (pct_encode esc s) = Some s.
Proof. exact pct_roundtrip. Qed.
Print Assumptions C18_pct_roundtrip.

Theorem C18_href_resolves : forall (base : list N) (esc : N -> bool) (s : bytes), esc 37 = true -> bytes_ok s -> base <> [] -> resolve_href base (pct_encode esc s) = path_clean (base ++ [47] ++ s).
Proof. exact href_resolves. Qed.
Print Assumptions C18_href_resolves.

Theorem C18_plus_is_kept : pct_decode (bs "a+b%20c.xhtml") = Some (bs "a+b c.xhtml").
Proof. exact plus_is_kept. Qed.
Print Assumptions C18_plus_is_kept.

(* non-vacuity: declared order B, A over files slide1 (A) and slide2 (B), archive order A, B, plus a decoy *)
Example C18_ex : pptx_read [(bs "ppt/slides/slide1.xml", bs "A"); (bs "ppt/slides/slide2.xml", bs "B"); (bs "ppt/slides/slide9.xml", bs "decoy")]
    [(bs "r1", bs "slides/slide1.xml"); (bs "r2", bs "slides/./slide2.xml")] [bs "r2"; bs "r1"] = [bs "B"; bs "A"].
Proof. vm_compute. reflexivity. Qed.
Example C18_ex_epub : epub_read [(bs "OEBPS/a b.xhtml", bs "one"); (bs "OEBPS/x+y.xhtml", bs "two")] (bs "OEBPS/content.opf")
    [(bs "i1", bs "a%20b.xhtml"); (bs "i2", bs "../OEBPS/x+y.xhtml")] [bs "i2"; bs "i1"] = [bs "two"; bs "one"].
Proof. vm_compute. reflexivity. Qed.
