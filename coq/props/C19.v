(* C19 - HTML extraction keeps content; navigation filtering only narrows
   Property theorems only: explicit statements, each closed by [exact <lemma>]. *)
From Coq Require String.
Import (notations) String.
From Coq Require Import Permutation.
From Tabula Require Import model.C13_Split model.C19_Html proofs.C19_Html.

Open Scope N_scope.

Theorem C19_stricter_mode_excludes_more : forall (m m' : nat) (top : bool) (n : node), (m <= m')%nat -> excluded m top n = true -> excluded m' top n = true.
Proof. exact stricter_mode_excludes_more. Qed.
Print Assumptions C19_stricter_mode_excludes_more.

Theorem C19_mode_none_excludes_nothing : forall (top : bool) (n : node), excluded 0 top n = false.
Proof. exact mode_none_excludes_nothing. Qed.
Print Assumptions C19_mode_none_excludes_nothing.

Theorem C19_walk_appends_items : forall (n : node) (mode : nat) (top ktop : bool), step_ok mode top ktop n.
Proof. exact walk_appends_items. Qed.
Print Assumptions C19_walk_appends_items.

Theorem C19_extraction_is_the_items_in_document_order : forall (mode : nat) (body : node), flat (extract mode body) = body_items mode body.
Proof. exact extraction_is_the_items_in_document_order. Qed.
Print Assumptions C19_extraction_is_the_items_in_document_order.

Theorem C19_stricter_mode_returns_a_subsequence : forall (m m' : nat) (body : node), (m <= m')%nat -> sub (flat (extract m' body)) (flat (extract m body)).
Proof. exact stricter_mode_returns_a_subsequence. Qed.
Print Assumptions C19_stricter_mode_returns_a_subsequence.

Theorem C19_unexcluded_content_is_unchanged : forall (n : node) (m m' : nat) (top ktop inl : bool) (lvl : nat), same_exclusions m m' top ktop n -> W m' top ktop n inl lvl = W m top ktop n inl lvl.
Proof. exact unexcluded_content_is_unchanged. Qed.
Print Assumptions C19_unexcluded_content_is_unchanged.

Theorem C19_heading_is_returned_once : forall (mode : nat) (top ktop : bool) (a : attrs) (kids : list node) (inl : bool) (lvl : nat) (t : N), is_heading t = true -> excluded mode top (El t a kids) = false -> trim_space (text_of (El t a kids)) <> [] -> W mode top ktop (El t a kids) inl lvl = [IHeading t (trim_space (text_of (El t a kids)))].
Proof. exact heading_is_returned_once. Qed.
Print Assumptions C19_heading_is_returned_once.

Theorem C19_paragraph_is_returned_once : forall (mode : nat) (top ktop : bool) (a : attrs) (kids : list node) (inl : bool) (lvl : nat), excluded mode top (El t_p a kids) = false -> trim_space (text_of (El t_p a kids)) <> [] -> is_block_container kids = false -> W mode top ktop (El t_p a kids) inl lvl = [IPara (trim_space (text_of (El t_p a kids)))].
Proof. exact paragraph_is_returned_once. Qed.
Print Assumptions C19_paragraph_is_returned_once.

Theorem C19_list_item_is_returned_once : forall (mode : nat) (top ktop : bool) (a : attrs) (kids : list node) (lvl : nat), excluded mode top (El t_li a kids) = false -> direct_text kids <> [] -> Forall (fun k : node => is_list_el k = false) kids -> W mode top ktop (El t_li a kids) true lvl = [IItem lvl (direct_text kids)].
Proof. exact list_item_is_returned_once. Qed.
Print Assumptions C19_list_item_is_returned_once.

Theorem C19_table_is_returned_once : forall (mode : nat) (top ktop : bool) (a : attrs) (kids : list node) (inl : bool) (lvl : nat), excluded mode top (El t_table a kids) = false -> parse_table kids <> [] -> W mode top ktop (El t_table a kids) inl lvl = [ITable (parse_table kids)].
Proof. exact table_is_returned_once. Qed.
Print Assumptions C19_table_is_returned_once.

Theorem C19_code_and_quote_are_returned_once : forall (mode : nat) (top ktop : bool) (a : attrs) (kids : list node) (inl : bool) (lvl : nat), (excluded mode top (El t_pre a kids) = false -> text_of (El t_pre a kids) <> [] -> W mode top ktop (El t_pre a kids) inl lvl = [ICode (text_of (El t_pre a kids))]) /\ (excluded mode top (El t_blockquote a kids) = false -> trim_space (text_of (El t_blockquote a kids)) <> [] -> W mode top ktop (El t_blockquote a kids) inl lvl = [IQuote (trim_space (text_of (El t_blockquote a kids)))]).
Proof. exact code_and_quote_are_returned_once. Qed.
Print Assumptions C19_code_and_quote_are_returned_once.

Theorem C19_table_rows_are_the_sections_rows_in_order : forall kids : list node, parse_table kids = concat (map (fun k : node => match k with | El t _ ks => if t =? t_thead then parse_rows true ks else if (t =? t_tbody) || (t =? t_tfoot) then parse_rows false ks else if t =? t_tr then match parse_row false ks with | [] => [] | t0 :: l => [t0 :: l] end else [] | _ => [] end) kids).
Proof. exact table_rows_are_the_sections_rows_in_order. Qed.
Print Assumptions C19_table_rows_are_the_sections_rows_in_order.

(* non-vacuity: a concrete tree on which the stricter mode drops an item and keeps the order *)
Check monotone_example.
