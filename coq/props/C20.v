(* C20 - Files are accepted by content; mismatches and DRM are refused.
   Property theorems only: explicit statements, each closed by [exact <lemma>]. *)
From Coq Require String.
Import (notations) String.
From Coq Require Import Permutation.
From Tabula Require Import base.Val model.C13_Split model.C20_Format proofs.C20_Format.

Open Scope N_scope.

Theorem C20_detect_zip_member_order : forall ms ms' : list member, Permutation ms ms' -> unique_names ms -> strong_marker ms = true -> detect_zip ms = detect_zip ms'.
Proof. exact detect_zip_member_order. Qed.
Print Assumptions C20_detect_zip_member_order.

Theorem C20_own_format_docx : forall ms : list member, has_member (bs "word/document.xml") ms = true -> no_member (bs "mimetype") ms -> no_member (bs "META-INF/container.xml") ms -> detect_zip ms = FDOCX.
Proof. exact own_format_docx. Qed.
Print Assumptions C20_own_format_docx.

Theorem C20_own_format_xlsx : forall ms : list member, has_member (bs "xl/workbook.xml") ms = true -> no_member (bs "word/document.xml") ms -> no_member (bs "mimetype") ms -> no_member (bs "META-INF/container.xml") ms -> detect_zip ms = FXLSX.
Proof. exact own_format_xlsx. Qed.
Print Assumptions C20_own_format_xlsx.

Theorem C20_own_format_pptx : forall ms : list member, has_member (bs "ppt/presentation.xml") ms = true -> no_member (bs "word/document.xml") ms -> no_member (bs "xl/workbook.xml") ms -> no_member (bs "mimetype") ms -> no_member (bs "META-INF/container.xml") ms -> detect_zip ms = FPPTX.
Proof. exact own_format_pptx. Qed.
Print Assumptions C20_own_format_pptx.

Theorem C20_own_format_by_mimetype : forall (ms : list member) (c : bytes) (f : fmt), unique_names ms -> In (bs "mimetype", c) ms -> classify_mimetype c = Some f -> detect_zip ms = f.
Proof. exact own_format_by_mimetype. Qed.
Print Assumptions C20_own_format_by_mimetype.

Theorem C20_own_format_epub_container : forall ms : list member, no_member (bs "mimetype") ms -> has_member (bs "META-INF/container.xml") ms = true -> detect_zip ms = FEPUB.
Proof. exact own_format_epub_container. Qed.
Print Assumptions C20_own_format_epub_container.

Theorem C20_mimetype_values : classify_mimetype (bs "application/vnd.oasis.opendocument.text") = Some FODT /\ classify_mimetype (bs "application/epub+zip") = Some FEPUB /\ classify_mimetype (bs "application/epub+zip ") = Some FEPUB.
Proof. exact mimetype_values. Qed.
Print Assumptions C20_mimetype_values.

Theorem C20_own_format_pdf : forall d : bytes, has_prefix [37; 80; 68; 70] d = true -> detect_reader (CBytes d) = Ok FPDF.
Proof. exact own_format_pdf. Qed.
Print Assumptions C20_own_format_pdf.

Theorem C20_own_format_html : forall d : bytes, has_prefix [37; 80; 68; 70] d = false -> has_prefix [80; 75; 3; 4] d = false -> html_magic d = true -> detect_reader (CBytes d) = Ok FHTML.
Proof. exact own_format_html. Qed.
Print Assumptions C20_own_format_html.

Theorem C20_accept_iff : forall (name : bytes) (c : content), accepts name c = true <-> detect_reader c = Ok FUnknown \/ (exists f : fmt, detect_reader c = Ok f /\ f <> FUnknown /\ f = detect_ext name).
Proof. exact accept_iff. Qed.
Print Assumptions C20_accept_iff.

Theorem C20_cross_refused : forall (name : bytes) (c : content) (f : fmt), detect_reader c = Ok f -> f <> FUnknown -> detect_ext name <> f -> accepts name c = false.
Proof. exact cross_refused. Qed.
Print Assumptions C20_cross_refused.

Theorem C20_own_extension_accepted : forall (name : bytes) (c : content) (f : fmt), detect_reader c = Ok f -> detect_ext name = f -> accepts name c = true.
Proof. exact own_extension_accepted. Qed.
Print Assumptions C20_own_extension_accepted.

Theorem C20_extension_table : detect_ext (bs "a.pdf") = FPDF /\ detect_ext (bs "a.DOCX") = FDOCX /\ detect_ext (bs "x.y/a.Odt") = FODT /\ detect_ext (bs "a.xlsx") = FXLSX /\ detect_ext (bs "a.pptx") = FPPTX /\ detect_ext (bs "a.html") = FHTML /\ detect_ext (bs "a.HTM") = FHTML /\ detect_ext (bs "a.b.epub") = FEPUB /\ detect_ext (bs "noext") = FUnknown /\ detect_ext (bs "dir.pdf/file") = FUnknown.
Proof. exact extension_table. Qed.
Print Assumptions C20_extension_table.

Theorem C20_drm_iff : forall ms : list drm_member, drm_check ms = true <-> In MRights ms \/ In (MEnc None) ms \/ (exists (l : list enc_entry) (e : enc_entry), In (MEnc (Some l)) ms /\ In e l /\ entry_is_drm e = true).
Proof. exact drm_iff. Qed.
Print Assumptions C20_drm_iff.

Theorem C20_drm_member_order : forall ms ms' : list drm_member, Permutation ms ms' -> drm_check ms = drm_check ms'.
Proof. exact drm_member_order. Qed.
Print Assumptions C20_drm_member_order.

Theorem C20_obfuscation_is_not_drm : forall e : enc_entry, is_font_obfuscation (e_alg e) = true -> entry_is_drm e = false.
Proof. exact obfuscation_is_not_drm. Qed.
Print Assumptions C20_obfuscation_is_not_drm.

Theorem C20_obfuscation_uris : is_font_obfuscation (bs "http://www.idpf.org/2008/embedding") = true /\ is_font_obfuscation (bs "http://ns.adobe.com/pdf/enc#RC") = true /\ is_font_obfuscation (bs "http://www.w3.org/2001/04/xmlenc#aes128-cbc") = false.
Proof. exact obfuscation_uris. Qed.
Print Assumptions C20_obfuscation_uris.

Theorem C20_content_documents_covered : is_content_file (bs "OEBPS/ch1.xhtml") = true /\ is_content_file (bs "a/B.HTML") = true /\ is_content_file (bs "x.htm") = true /\ is_content_file (bs "fonts/f.otf") = false /\ is_content_file (bs "img/c.jpg") = false.
Proof. exact content_documents_covered. Qed.
Print Assumptions C20_content_documents_covered.

Theorem C20_obfuscation_only_opens : forall ms : list drm_member, ~ In MRights ms -> ~ In (MEnc None) ms -> (forall (l : list enc_entry) (e : enc_entry), In (MEnc (Some l)) ms -> In e l -> is_font_obfuscation (e_alg e) = true) -> drm_check ms = false.
Proof. exact obfuscation_only_opens. Qed.
Print Assumptions C20_obfuscation_only_opens.

(* non-vacuity: a DOCX with decoys in a hostile order, and an obfuscation-only EPUB *)
Example C20_ex_docx : detect_zip [(bs "xl/decoy.bin", []); (bs "ppt/x", []); (bs "word/document.xml", []); (bs "[Content_Types].xml", [])] = FDOCX.
Proof. vm_compute. reflexivity. Qed.
Example C20_ex_drm : drm_check [MOther; MEnc (Some [{| e_alg := bs "http://www.idpf.org/2008/embedding"; e_uri := bs "OEBPS/ch1.xhtml" |}]); MOther] = false
  /\ drm_check [MEnc (Some [{| e_alg := bs "http://www.w3.org/2001/04/xmlenc#aes128-cbc"; e_uri := bs "OEBPS/ch1.xhtml" |}])] = true.
Proof. vm_compute. split; reflexivity. Qed.
