package main

import (
	"bytes"
	"fmt"
	"sort"
	"strings"
	"time"
	"unicode/utf8"

	"github.com/tsawler/tabula"
	"github.com/tsawler/tabula/reader"
)

// ---------- the logical document

type c01Font struct {
	kind int            // 0 WinAnsi (Type1), 1 MacRoman (TrueType), 2 simple font + ToUnicode, 3 Type0 Identity-H + ToUnicode
	tu   map[int]string // kinds 2, 3: code -> text
	cmap []byte         // kinds 2, 3: the ToUnicode program
}

type c01Item struct {
	font int // index into the page's font list
	size int
	x, y int
	strs [][]byte // the strings shown by this item (several: a TJ array)
	op   int      // 0 Tj, 1 TJ, 2 ' (after TL), 3 " (after TL)
}

type c01Page struct {
	box    [4]int
	rot    int
	res    int // resource set
	items  []c01Item
	expect []string
	pad    int // bytes of comment padding in the content
}

type c01Doc struct {
	fonts   []c01Font
	resSets [][]int // resource set -> font per resource name F1, F2, ...
	pages   []c01Page
}

var c01Sample = []string{"A", "b", "é", "Ω", "ß", "—", "fi", "€", "ж", "中", "𝔸", "x", "7", "%", "(", ")", "\\"}

func c01GenFont(rng *RNG, kind int) c01Font {
	f := c01Font{kind: kind}
	if kind < 2 {
		return f
	}
	f.tu = map[int]string{}
	n := rng.Range(4, 12)
	width := 2
	if kind == 3 {
		width = 4
	}
	var bf strings.Builder
	bf.WriteString("/CIDInit /ProcSet findresource begin\n12 dict begin\nbegincmap\n/CMapName /Adobe-Identity-UCS def\n/CMapType 2 def\n")
	if kind == 2 {
		bf.WriteString("1 begincodespacerange\n<00> <FF>\nendcodespacerange\n")
	} else {
		bf.WriteString("1 begincodespacerange\n<0000> <FFFF>\nendcodespacerange\n")
	}
	var codes []int
	for len(codes) < n {
		c := rng.Range(33, 250)
		if kind == 3 {
			c = rng.Range(1, 2000)
		}
		if _, ok := f.tu[c]; ok {
			continue
		}
		f.tu[c] = c01Sample[rng.Intn(len(c01Sample)-4)]
		codes = append(codes, c)
	}
	sort.Ints(codes)
	fmt.Fprintf(&bf, "%d beginbfchar\n", len(codes))
	for _, c := range codes {
		fmt.Fprintf(&bf, "<%0*X> <%s>\n", width, c, c07TextHex(f.tu[c]))
	}
	bf.WriteString("endbfchar\nendcmap\nCMapName currentdict /CMap defineresource pop\nend\nend\n")
	f.cmap = []byte(bf.String())
	return f
}

// c01Codes: a string of codes for a font and the text it stands for
func c01Codes(rng *RNG, f c01Font) ([]byte, string) {
	var code []byte
	var text strings.Builder
	n := rng.Range(1, 8)
	switch f.kind {
	case 0, 1:
		name := []string{"WinAnsiEncoding", "MacRomanEncoding"}[f.kind]
		tab := c07Ref[name]
		for i := 0; i < n; i++ {
			c := rng.Range(33, 126)
			if rng.Chance(1, 4) {
				c = rng.Range(128, 255)
			}
			if len(tab[c]) != 1 || tab[c][0] == 0 || tab[c][0] == 0xFFFD || tab[c][0] == ' ' || tab[c][0] == 0xA0 {
				c = 'A' + i
			}
			code = append(code, byte(c))
			text.WriteRune(tab[c][0])
		}
	default:
		var keys []int
		for k := range f.tu {
			keys = append(keys, k)
		}
		sort.Ints(keys)
		for i := 0; i < n; i++ {
			c := keys[rng.Intn(len(keys))]
			if f.kind == 3 {
				code = append(code, byte(c>>8))
			}
			code = append(code, byte(c))
			text.WriteString(f.tu[c])
		}
	}
	return code, text.String()
}

func c01GenDoc(rng *RNG) c01Doc {
	var d c01Doc
	nf := rng.Range(1, 4)
	for i := 0; i < nf; i++ {
		d.fonts = append(d.fonts, c01GenFont(rng, rng.Intn(4)))
	}
	nr := rng.Range(1, 3)
	for i := 0; i < nr; i++ {
		var set []int
		for k := rng.Range(1, 3); k > 0; k-- {
			set = append(set, rng.Intn(nf))
		}
		d.resSets = append(d.resSets, set)
	}
	np := rng.Range(1, 9)
	if rng.Chance(1, 10) {
		np = rng.Range(10, 24)
	}
	boxes := [][4]int{{0, 0, 612, 792}, {0, 0, 595, 842}, {10, 20, 410, 620}, {-50, -50, 450, 650}}
	b0 := boxes[rng.Intn(len(boxes))]
	r0 := []int{0, 0, 90, 180, 270}[rng.Intn(5)]
	for p := 0; p < np; p++ {
		pg := c01Page{box: b0, rot: r0, res: rng.Intn(nr)}
		if rng.Chance(1, 3) {
			pg.box = boxes[rng.Intn(len(boxes))]
		}
		if rng.Chance(1, 3) {
			pg.rot = []int{0, 90, 180, 270}[rng.Intn(4)]
		}
		ni := rng.Range(0, 6)
		if rng.Chance(1, 8) {
			ni = 0
		}
		y := pg.box[3] - 60
		for i := 0; i < ni; i++ {
			it := c01Item{font: rng.Intn(len(d.resSets[pg.res])), size: rng.Range(6, 20), x: pg.box[0] + 40 + rng.Intn(60), y: y, op: rng.Intn(4)}
			if rng.Chance(1, 2) {
				it.op = 0
			}
			ns := 1
			if it.op == 1 {
				ns = rng.Range(1, 4)
			}
			f := d.fonts[d.resSets[pg.res][it.font]]
			for k := 0; k < ns; k++ {
				code, text := c01Codes(rng, f)
				it.strs = append(it.strs, code)
				pg.expect = append(pg.expect, text)
			}
			pg.items = append(pg.items, it)
			y -= 30
		}
		if rng.Chance(1, 6) {
			pg.pad = rng.Range(3000, 9000)
		}
		d.pages = append(d.pages, pg)
	}
	return d
}

// ---------- content streams

func c01Str(rng *RNG, s []byte) string {
	if rng.Chance(1, 3) {
		var b strings.Builder
		b.WriteByte('<')
		for _, c := range s {
			fmt.Fprintf(&b, "%02X", c)
			if rng.Chance(1, 6) {
				b.WriteByte(' ')
			}
		}
		b.WriteByte('>')
		return b.String()
	}
	var b strings.Builder
	b.WriteByte('(')
	for _, c := range s {
		switch {
		case c == '(' || c == ')' || c == '\\':
			b.WriteByte('\\')
			b.WriteByte(c)
		case c == '\r' || c == '\n':
			fmt.Fprintf(&b, "\\%03o", c)
		case (c < 32 || c > 126) && rng.Bool():
			fmt.Fprintf(&b, "\\%03o", c)
		default:
			b.WriteByte(c)
		}
	}
	b.WriteByte(')')
	return b.String()
}

// c01Tokens: the content of a page as lexical tokens
func c01Tokens(rng *RNG, pg c01Page) []string {
	var t []string
	if len(pg.items) == 0 && rng.Bool() {
		return t
	}
	if rng.Bool() {
		t = append(t, "q", "0.5", "g")
	}
	t = append(t, "BT")
	for _, it := range pg.items {
		t = append(t, fmt.Sprintf("/F%d", it.font+1), fmt.Sprint(it.size), "Tf")
		switch it.op {
		case 0:
			t = append(t, "1", "0", "0", "1", fmt.Sprint(it.x), fmt.Sprint(it.y), "Tm", c01Str(rng, it.strs[0]), "Tj")
		case 1:
			t = append(t, "1", "0", "0", "1", fmt.Sprint(it.x), fmt.Sprint(it.y), "Tm", "[")
			for k, s := range it.strs {
				if k > 0 {
					t = append(t, fmt.Sprint(-rng.Range(5, 40)))
				}
				t = append(t, c01Str(rng, s))
			}
			t = append(t, "]", "TJ")
		case 2:
			t = append(t, "1", "0", "0", "1", fmt.Sprint(it.x), fmt.Sprint(it.y+14), "Tm", "14", "TL", c01Str(rng, it.strs[0]), "'")
		case 3:
			t = append(t, "1", "0", "0", "1", fmt.Sprint(it.x), fmt.Sprint(it.y+14), "Tm", "14", "TL", "0", "0", c01Str(rng, it.strs[0]), "\"")
		}
	}
	t = append(t, "ET")
	if t[0] == "q" {
		t = append(t, "Q")
	}
	return t
}

// c01Join: tokens joined by white space; a comment line of padding may follow any token
func c01Join(rng *RNG, toks []string, eol string, pad int) []byte {
	var b bytes.Buffer
	padAt := -1
	if pad > 0 && len(toks) > 0 {
		padAt = rng.Intn(len(toks))
	}
	for i, tk := range toks {
		b.WriteString(tk)
		if i == padAt {
			b.WriteString(" %" + strings.Repeat("padding ", pad/8) + eol)
			continue
		}
		if i == len(toks)-1 {
			break
		}
		switch rng.Intn(4) {
		case 0:
			b.WriteString(eol)
		case 1:
			b.WriteString("  ")
		default:
			b.WriteString(" ")
		}
	}
	return b.Bytes()
}

// ---------- the object graph

type c01Obj struct {
	body     string // non-stream: the object; stream: the dictionary entries besides Length, Filter, DecodeParms
	isStream bool
	data     []byte   // stream: decoded data
	lenObj   int      // stream: logical id of the Length object, -1 = direct
	filters  []string // stream: filter chain as named in the file
	enc      []byte   // stream: encoded data
	parms    string   // stream: DecodeParms entry text ("" = none)
	single   bool     // stream: one filter given as a name instead of an array
}

type c01Node struct {
	leaf bool
	page int
	kids []*c01Node
	box  *[4]int
	rot  *int
	res  int // -1 = absent
	id   int
	// model side
	chunks [][]byte
}

type c01Builder struct {
	rng  *RNG
	objs []*c01Obj
	eol  string
	tags map[string]bool
}

func (b *c01Builder) add(o *c01Obj) int {
	if !o.isStream {
		o.lenObj = -1
	}
	b.objs = append(b.objs, o)
	return len(b.objs) - 1
}

func c01Ref(id int) string { return fmt.Sprintf("\x00%d\x00", id) }

// stream: data behind a random supported filter chain, length direct or by reference
func (b *c01Builder) stream(dict string, data []byte, allowPad bool) (int, []byte) {
	rng := b.rng
	o := &c01Obj{body: dict, isStream: true, lenObj: -1}
	chain := [][]string{{}, {}, {"FlateDecode"}, {"FlateDecode"}, {"ASCIIHexDecode"}, {"ASCII85Decode"}, {"ASCII85Decode", "FlateDecode"},
		{"ASCIIHexDecode", "FlateDecode"}, {"FlateDecode", "FlateDecode"}, {"ASCIIHexDecode", "ASCII85Decode"}, {"FlateDecode", "PNG"}}[rng.Intn(11)]
	if len(chain) == 0 && allowPad && len(data)%3 == 0 {
		// unfiltered data that begins with a line feed of its own, right after the end-of-line that follows
		// the keyword stream (white space is harmless where padding is)
		data = append([]byte("\n"), data...)
	}
	enc := data
	if len(chain) == 2 && chain[1] == "PNG" {
		if !allowPad {
			chain = []string{"FlateDecode"}
		} else {
			// Flate with a PNG predictor: the data is padded with spaces to whole rows
			cols := rng.Range(3, 40)
			for len(data)%cols != 0 {
				data = append(data, ' ')
			}
			rows := len(data) / cols
			types := make([]byte, rows)
			for i := range types {
				types[i] = byte(rng.Intn(5))
			}
			enc = deflate(pngPredict(1, cols, types, data))
			o.filters = []string{"FlateDecode"}
			o.parms = fmt.Sprintf("<< /Predictor %d /Columns %d >>", 10+rng.Intn(6), cols)
			// the filter as a name or a one-element array, its parameters as a dictionary or a one-element array
			switch rng.Intn(3) {
			case 0:
				o.single = true // /Filter /FlateDecode /DecodeParms << >>
			case 1:
				o.parms = "[" + o.parms + "]" // /Filter [/FlateDecode] /DecodeParms [<< >>]
			}
			// case 2: /Filter [/FlateDecode] /DecodeParms << >> (a one-element filter array with a plain dictionary)
			b.tags["filter:flate+png"] = true
			chain = nil
		}
	}
	if chain != nil {
		for i := len(chain) - 1; i >= 0; i-- {
			switch chain[i] {
			case "FlateDecode":
				enc = deflate(enc)
			case "ASCIIHexDecode":
				enc = hexEncode(enc, []int{0, 1, 2}[rng.Intn(3)], rng)
			case "ASCII85Decode":
				enc = a85Encode(enc, []int{0, 2}[rng.Intn(2)], rng)
			}
		}
		o.filters = chain
		o.single = len(chain) == 1 && rng.Bool()
		if len(chain) == 2 && rng.Chance(1, 3) {
			o.parms = "[null null]"
		}
		b.tags["filter:"+strings.Join(chain, "+")] = true
	}
	o.data = data
	o.enc = enc
	id := b.add(o)
	if rng.Chance(2, 5) {
		o.lenObj = b.add(&c01Obj{body: fmt.Sprint(len(enc))})
		b.tags["length:indirect"] = true
		if len(enc) > 4096 {
			b.tags["length:indirect+long"] = true
		}
	}
	return id, data
}

func (b *c01Builder) fontObj(f c01Font, n int) int {
	switch f.kind {
	case 0:
		return b.add(&c01Obj{body: fmt.Sprintf("<< /Type /Font /Subtype /Type1 /BaseFont /Helvetica /Encoding /WinAnsiEncoding >>")})
	case 1:
		return b.add(&c01Obj{body: fmt.Sprintf("<< /Type /Font /Subtype /TrueType /BaseFont /ABCDEF+Font%d /Encoding /MacRomanEncoding /FirstChar 32 /LastChar 32 /Widths [250] >>", n)})
	case 2:
		tu, _ := b.stream("", f.cmap, false)
		return b.add(&c01Obj{body: fmt.Sprintf("<< /Type /Font /Subtype /TrueType /BaseFont /GHIJKL+Font%d /FirstChar 32 /LastChar 32 /Widths [250] /ToUnicode %s >>", n, c01Ref(tu))})
	default:
		tu, _ := b.stream("", f.cmap, false)
		desc := b.add(&c01Obj{body: fmt.Sprintf("<< /Type /Font /Subtype /CIDFontType2 /BaseFont /MNOPQR+Font%d /CIDSystemInfo << /Registry (Adobe) /Ordering (Identity) /Supplement 0 >> /DW 1000 /CIDToGIDMap /Identity >>", n)})
		d := c01Ref(desc)
		return b.add(&c01Obj{body: fmt.Sprintf("<< /Type /Font /Subtype /Type0 /BaseFont /MNOPQR+Font%d /Encoding /Identity-H /DescendantFonts [%s] /ToUnicode %s >>", n, d, c01Ref(tu))})
	}
}

// tree: the pages lo..hi-1 below a Pages node of random shape
func (b *c01Builder) tree(pages []int, depth int) *c01Node {
	rng := b.rng
	n := &c01Node{res: -1}
	for i := 0; i < len(pages); {
		if depth < 4 && rng.Chance(2, 5) {
			k := rng.Range(1, len(pages)-i)
			n.kids = append(n.kids, b.tree(pages[i:i+k], depth+1))
			i += k
		} else {
			n.kids = append(n.kids, &c01Node{leaf: true, page: pages[i], res: -1})
			i++
		}
	}
	return n
}

func (n *c01Node) leaves() []*c01Node {
	if n.leaf {
		return []*c01Node{n}
	}
	var out []*c01Node
	for _, k := range n.kids {
		out = append(out, k.leaves()...)
	}
	return out
}

func (n *c01Node) depth() int {
	d := 0
	for _, k := range n.kids {
		if kd := k.depth() + 1; kd > d {
			d = kd
		}
	}
	return d
}

// place: decide where the inheritable attributes live
func (b *c01Builder) place(d *c01Doc, n *c01Node, box *[4]int, rot *int, res int, level int) {
	rng := b.rng
	if n.leaf {
		pg := d.pages[n.page]
		if box == nil || *box != pg.box || rng.Chance(1, 3) {
			v := pg.box
			n.box = &v
		} else {
			b.tags[fmt.Sprintf("inherit:MediaBox:%d", level)] = true
		}
		if (rot == nil && pg.rot != 0) || (rot != nil && *rot != pg.rot) || rng.Chance(1, 4) {
			v := pg.rot
			n.rot = &v
		} else if rot != nil {
			b.tags[fmt.Sprintf("inherit:Rotate:%d", level)] = true
		}
		if res != pg.res || rng.Chance(1, 3) {
			n.res = pg.res
		} else {
			b.tags[fmt.Sprintf("inherit:Resources:%d", level)] = true
		}
		return
	}
	ls := n.leaves()
	if rng.Chance(1, 2) {
		v := d.pages[ls[rng.Intn(len(ls))].page].box
		n.box = &v
	}
	if rng.Chance(1, 3) {
		v := d.pages[ls[rng.Intn(len(ls))].page].rot
		n.rot = &v
	}
	if rng.Chance(1, 2) {
		n.res = d.pages[ls[rng.Intn(len(ls))].page].res
	}
	for _, k := range n.kids {
		kb, kr, ks, kl := box, rot, res, level+1
		if n.box != nil {
			kb = n.box
		}
		if n.rot != nil {
			kr = n.rot
		}
		if n.res >= 0 {
			ks = n.res
		}
		// level: how many nodes up the nearest provider is (reported for the last attribute set)
		if n.box != nil || n.rot != nil || n.res >= 0 {
			kl = 1
		}
		b.place(d, k, kb, kr, ks, kl)
	}
}

// emit: the objects of the subtree; returns the logical id
func (b *c01Builder) emit(d *c01Doc, n *c01Node, parent int, resIDs []string) int {
	rng := b.rng
	id := b.add(&c01Obj{})
	n.id = id
	var e []string
	attrs := func() {
		if n.box != nil {
			v := fmt.Sprintf("[%d %d %d %d]", n.box[0], n.box[1], n.box[2], n.box[3])
			if rng.Chance(1, 8) {
				v = c01Ref(b.add(&c01Obj{body: v}))
				b.tags["mediabox:by-reference"] = true
			}
			e = append(e, "/MediaBox "+v)
		}
		if n.rot != nil {
			v := fmt.Sprint(*n.rot)
			if rng.Chance(1, 8) {
				v = c01Ref(b.add(&c01Obj{body: v}))
				b.tags["rotate:by-reference"] = true
			}
			e = append(e, "/Rotate "+v)
		}
		if n.res >= 0 {
			e = append(e, "/Resources "+resIDs[n.res])
		}
	}
	if n.leaf {
		pg := d.pages[n.page]
		e = append(e, "/Type /Page")
		if parent >= 0 {
			e = append(e, "/Parent "+c01Ref(parent))
		}
		attrs()
		toks := c01Tokens(rng, pg)
		// split between tokens
		var cuts []int
		if len(toks) > 1 && rng.Chance(1, 2) {
			for k := rng.Range(1, 4); k > 0; k-- {
				cuts = append(cuts, rng.Range(1, len(toks)-1))
			}
			sort.Ints(cuts)
			b.tags["contents:split"] = true
		}
		var refs []string
		prev := 0
		for _, c := range append(cuts, len(toks)) {
			if c == prev && len(toks) > 0 && prev != 0 {
				continue
			}
			pad := 0
			if prev == 0 {
				pad = pg.pad
			}
			sid, data := b.stream("", c01Join(rng, toks[prev:c], b.eol, pad), true)
			n.chunks = append(n.chunks, data)
			refs = append(refs, c01Ref(sid))
			prev = c
		}
		switch {
		case len(toks) == 0 && rng.Bool():
			// no Contents entry at all
			n.chunks = nil
			b.tags["contents:none"] = true
			// the stream objects made above stay in the file unreferenced
		case len(refs) == 1 && rng.Chance(2, 3):
			e = append(e, "/Contents "+refs[0])
		case rng.Bool():
			e = append(e, "/Contents ["+strings.Join(refs, " ")+"]")
			b.tags["contents:array"] = true
		default:
			arr := b.add(&c01Obj{body: "[" + strings.Join(refs, b.eol) + "]"})
			e = append(e, "/Contents "+c01Ref(arr))
			b.tags["contents:array-by-reference"] = true
		}
	} else {
		e = append(e, "/Type /Pages")
		if parent >= 0 {
			e = append(e, "/Parent "+c01Ref(parent))
		}
		attrs()
		var kids []string
		for _, k := range n.kids {
			kids = append(kids, c01Ref(b.emit(d, k, id, resIDs)))
		}
		if rng.Chance(1, 6) {
			ka := b.add(&c01Obj{body: "[" + strings.Join(kids, " ") + "]"})
			e = append(e, "/Kids "+c01Ref(ka))
			b.tags["kids:by-reference"] = true
		} else {
			e = append(e, "/Kids ["+strings.Join(kids, " ")+"]")
		}
		cnt := fmt.Sprint(len(n.leaves()))
		if rng.Chance(1, 6) {
			cnt = c01Ref(b.add(&c01Obj{body: cnt}))
			b.tags["count:by-reference"] = true
		}
		e = append(e, "/Count "+cnt)
	}
	// dictionary entries in any order
	for i := len(e) - 1; i > 0; i-- {
		j := rng.Intn(i + 1)
		e[i], e[j] = e[j], e[i]
	}
	sep := " "
	if rng.Bool() {
		sep = b.eol
	}
	b.objs[id].body = "<<" + sep + strings.Join(e, sep) + sep + ">>"
	return id
}

// ---------- the physical file

// c01Hybrid: also write hybrid-reference revisions
var c01Hybrid = true

type c01Phys struct {
	data []byte
	desc string
}

func (b *c01Builder) write(root int, stale bool) c01Phys {
	rng := b.rng
	n := len(b.objs)
	// object numbers: a permutation with gaps
	nums := make([]int, 0, n+4)
	for i := 1; i <= n+rng.Intn(4); i++ {
		nums = append(nums, i)
	}
	if rng.Chance(2, 3) {
		for i := len(nums) - 1; i > 0; i-- {
			j := rng.Intn(i + 1)
			nums[i], nums[j] = nums[j], nums[i]
		}
		b.tags["numbering:shuffled"] = true
	}
	num := nums[:n]
	maxNum := 0
	for _, v := range nums {
		if v > maxNum {
			maxNum = v
		}
	}
	next := maxNum + 1
	subst := func(s string) string {
		var o strings.Builder
		for {
			i := strings.IndexByte(s, 0)
			if i < 0 {
				o.WriteString(s)
				return o.String()
			}
			j := i + 1 + strings.IndexByte(s[i+1:], 0)
			var id int
			fmt.Sscanf(s[i+1:j], "%d", &id)
			o.WriteString(s[:i])
			fmt.Fprintf(&o, "%d 0 R", num[id])
			s = s[j+1:]
		}
	}
	render := func(id int) string {
		o := b.objs[id]
		if !o.isStream {
			return subst(o.body)
		}
		var d []string
		if o.body != "" {
			d = append(d, o.body)
		}
		if len(o.filters) > 0 {
			if o.single && len(o.filters) == 1 {
				d = append(d, "/Filter /"+o.filters[0])
			} else {
				d = append(d, "/Filter [/"+strings.Join(o.filters, " /")+"]")
			}
		}
		if o.parms != "" {
			d = append(d, "/DecodeParms "+o.parms)
		}
		ln := fmt.Sprint(len(o.enc))
		if o.lenObj >= 0 {
			ln = fmt.Sprintf("%d 0 R", num[o.lenObj])
		}
		if rng.Bool() {
			d = append(d, "/Length "+ln)
		} else {
			d = append([]string{"/Length " + ln}, d...)
		}
		end := b.eol
		if len(o.enc) > 0 && o.enc[0] == '\n' {
			// the end-of-line before endstream is recommended, not required: these streams (whose data begins with
			// a line feed) are followed by the keyword at once, so every byte of /Length counts
			end = ""
		}
		return fmt.Sprintf("<< %s >>%sstream%s%s%sendstream", subst(strings.Join(d, " ")), b.eol, pdfStreamEOL(), o.enc, end)
	}
	nrev := 1
	if rng.Chance(1, 2) {
		nrev = rng.Range(2, 4)
	}
	b.tags[fmt.Sprintf("revisions:%d", nrev)] = true
	revs := make([]pdfRevision, nrev)
	for r := range revs {
		revs[r].xrefStm = rng.Chance(1, 2)
		revs[r].flate = rng.Bool()
		revs[r].widths = [][3]int{{1, 4, 2}, {1, 3, 1}, {2, 4, 2}, {1, 4, 1}}[rng.Intn(4)]
		revs[r].packed = map[int][]pdfObj{}
		if revs[r].xrefStm {
			revs[r].xrefNum = next
			next++
			b.tags["xref:stream"] = true
		} else if c01Hybrid && rng.Chance(1, 3) {
			revs[r].hybrid = true
			revs[r].xrefNum = next
			next++
			b.tags["xref:hybrid"] = true
		} else {
			b.tags["xref:table"] = true
		}
	}
	final := make([]int, n)
	for id := 0; id < n; id++ {
		final[id] = rng.Intn(nrev)
	}
	packNum := map[int]int{}
	place := func(r int, po pdfObj, canPack bool) {
		if canPack && (revs[r].xrefStm || revs[r].hybrid) && rng.Chance(1, 2) {
			sn, ok := packNum[r]
			if !ok || rng.Chance(1, 5) {
				sn = next
				next++
				packNum[r] = sn
			}
			revs[r].packed[sn] = append(revs[r].packed[sn], po)
			b.tags["objects:packed"] = true
			return
		}
		revs[r].plain = append(revs[r].plain, po)
	}
	for id := 0; id < n; id++ {
		o := b.objs[id]
		r := final[id]
		if stale && r > 0 && rng.Chance(1, 2) {
			// an older version of the object in an earlier revision
			old := "<< /Stale true >>"
			if o.isStream {
				old = fmt.Sprintf("<< /Length 27 >>%sstream%sBT /F1 9 Tf (STALE) Tj ET  %sendstream", b.eol, pdfStreamEOL(), b.eol)
			} else if !strings.HasPrefix(o.body, "<<") && !strings.HasPrefix(o.body, "[") {
				old = "7"
			}
			place(rng.Intn(r), pdfObj{num[id], old}, !o.isStream)
			b.tags["revisions:stale-version"] = true
		}
		place(r, pdfObj{num[id], render(id)}, !o.isStream)
	}
	// objects of an earlier revision freed later
	if nrev > 1 && rng.Bool() {
		g := next
		next++
		revs[0].plain = append(revs[0].plain, pdfObj{g, "<< /Garbage true >>"})
		revs[nrev-1].deleted = append(revs[nrev-1].deleted, g)
		b.tags["revisions:freed-object"] = true
	}
	for r := range revs {
		p := revs[r].plain
		for i := len(p) - 1; i > 0; i-- {
			j := rng.Intn(i + 1)
			p[i], p[j] = p[j], p[i]
		}
		revs[r].extra = fmt.Sprintf(" /Root %d 0 R", num[root])
	}
	pdfEOL = b.eol
	pdfHeader = []string{"%PDF-1.4", "%PDF-1.5", "%PDF-1.7", "%PDF-2.0"}[rng.Intn(4)]
	pdfTight = rng.Chance(1, 4)
	pdfComments = rng.Chance(1, 4)
	if pdfTight {
		b.tags["syntax:tight"] = true
	}
	if pdfComments {
		b.tags["syntax:comments"] = true
	}
	w := pdfWrite(revs)
	pdfTight, pdfComments = false, false
	pdfEOL = "\n"
	pdfHeader = "%PDF-1.7"
	return c01Phys{data: w.data}
}

// ---------- model side

func c01AttrV(d *c01Doc, n *c01Node) V {
	box, rot, res := L(), L(), L()
	if n.box != nil {
		box = L(L(I(n.box[0]), I(n.box[1]), I(n.box[2]), I(n.box[3])))
	}
	if n.rot != nil {
		rot = L(I(*n.rot))
	}
	if n.res >= 0 {
		var fs []V
		for k, f := range d.resSets[n.res] {
			fs = append(fs, L(Bs(fmt.Sprintf("F%d", k+1)), I(f)))
		}
		res = L(L(fs...))
	}
	return L(box, rot, res)
}

func c01TreeV(d *c01Doc, n *c01Node) V {
	if n.leaf {
		var cs []V
		for _, c := range n.chunks {
			cs = append(cs, VB(c))
		}
		return L(I(0), c01AttrV(d, n), L(cs...))
	}
	var ks []V
	for _, k := range n.kids {
		ks = append(ks, c01TreeV(d, k))
	}
	return L(I(1), c01AttrV(d, n), L(ks...))
}

func c01FontsV(d *c01Doc) V {
	var fs []V
	for _, f := range d.fonts {
		switch f.kind {
		case 0:
			fs = append(fs, L(I(0), Bs("WinAnsiEncoding")))
		case 1:
			fs = append(fs, L(I(0), Bs("MacRomanEncoding")))
		default:
			fs = append(fs, L(I(1), VB(f.cmap)))
		}
	}
	return L(fs...)
}

// ---------- implementation side

func c01PageV(box []float64, rot int, texts []string) V {
	var bs, ts []V
	for _, x := range box {
		bs = append(bs, I(int(x)))
	}
	for _, t := range texts {
		ts = append(ts, Bs(t))
	}
	return L(L(bs...), I(rot), L(ts...))
}

type c01Read struct {
	v     V
	err   string
	pages [][]string
	boxes [][]float64
	rots  []int
	count int
}

func c01ReadImpl(path string) (res c01Read) {
	done := make(chan c01Read, 1)
	go func() {
		var out c01Read
		defer func() {
			if p := recover(); p != nil {
				out.v, out.err = RPanic(), fmt.Sprintf("panic: %v", p)
			}
			done <- out
		}()
		rd, err := reader.Open(path)
		if err != nil {
			out.v, out.err = RErr(), "open: "+err.Error()
			return
		}
		defer rd.Close()
		n, err := rd.PageCount()
		if err != nil {
			out.v, out.err = RErr(), "page count: "+err.Error()
			return
		}
		out.count = n
		var pv []V
		for i := 0; i < n; i++ {
			pg, err := rd.GetPage(i)
			if err != nil {
				out.v, out.err = RErr(), fmt.Sprintf("page %d: %v", i+1, err)
				return
			}
			box, err := pg.MediaBox()
			if err != nil {
				out.v, out.err = RErr(), fmt.Sprintf("page %d MediaBox: %v", i+1, err)
				return
			}
			frs, err := rd.ExtractTextFragments(pg)
			if err != nil {
				out.v, out.err = RErr(), fmt.Sprintf("page %d text: %v", i+1, err)
				return
			}
			var ts []string
			for _, f := range frs {
				ts = append(ts, f.Text)
			}
			out.pages = append(out.pages, ts)
			out.boxes = append(out.boxes, box)
			out.rots = append(out.rots, pg.Rotate())
			pv = append(pv, c01PageV(box, pg.Rotate(), ts))
		}
		out.v = L(I(0), I(n), L(pv...))
	}()
	select {
	case res = <-done:
	case <-time.After(20 * time.Second):
		res = c01Read{v: RDiverge(), err: "no answer within 20 s"}
	}
	return
}

// c01Build: the document written in a random physical layout
func c01Build(rng *RNG, d *c01Doc) (c01Phys, *c01Node, *c01Builder) {
	b := &c01Builder{rng: rng, eol: []string{"\n", "\n", "\r\n", "\r"}[rng.Intn(4)], tags: map[string]bool{}}
	b.tags["eol:"+map[string]string{"\n": "LF", "\r\n": "CRLF", "\r": "CR"}[b.eol]] = true
	// fonts and resource sets
	fontIDs := make([]int, len(d.fonts))
	for i, f := range d.fonts {
		fontIDs[i] = b.fontObj(f, i)
	}
	resIDs := make([]string, len(d.resSets))
	for i, set := range d.resSets {
		var fs []string
		for k, f := range set {
			fs = append(fs, fmt.Sprintf("/F%d %s", k+1, c01Ref(fontIDs[f])))
		}
		fd := "<< " + strings.Join(fs, " ") + " >>"
		if rng.Chance(1, 3) {
			fd = c01Ref(b.add(&c01Obj{body: fd}))
			b.tags["resources:font-dict-by-reference"] = true
		}
		body := "<< /Font " + fd + " /ProcSet [/PDF /Text] >>"
		if rng.Bool() {
			resIDs[i] = c01Ref(b.add(&c01Obj{body: body}))
		} else {
			resIDs[i] = body
		}
	}
	idx := make([]int, len(d.pages))
	for i := range idx {
		idx[i] = i
	}
	root := b.tree(idx, 0)
	b.place(d, root, nil, nil, -1, 0)
	b.tags[fmt.Sprintf("tree-depth:%d", root.depth())] = true
	rootID := b.emit(d, root, -1, resIDs)
	cat := b.add(&c01Obj{body: "<< /Type /Catalog /Pages " + c01Ref(rootID) + " >>"})
	ph := b.write(cat, true)
	return ph, root, b
}

// c01Physical: just the bytes
func c01Physical(rng *RNG, d *c01Doc) []byte {
	ph, _, _ := c01Build(rng, d)
	return ph.data
}

func init() {
	props["C01"] = func(r *Run, rng *RNG) {
		thorough := r.Tier == "thorough"
		r.Rule = "random logical documents (1-24 pages, fonts: WinAnsi Type1, MacRoman TrueType, simple and Type0 fonts with ToUnicode; Tj, TJ, ' and \" with literal and hex strings) written by the harness's own PDF writer in random physical layouts: page tree of depth 1-5 with MediaBox / Rotate / Resources at any ancestor, Kids and Count direct or by reference, contents as one stream, an array or a referenced array split between any two tokens, every stream behind a random chain of Flate (also with PNG predictors) / ASCIIHex / ASCII85, Length direct or by reference (also beyond the 4 KiB read-ahead), objects numbered and ordered at random, plain or packed in object streams, 1-4 revisions with stale versions and freed objects, cross-reference tables or streams with varying field widths, LF / CRLF / CR line ends, header versions 1.4-2.0; the model reads the same page tree and contents. non-trivial = documents with at least one shown string"
		docs := 120
		if thorough {
			docs = 1500
		}
		dist := map[string]int{}
		for di := 0; di < docs; di++ {
			d := c01GenDoc(rng)
			layouts := 2
			for li := 0; li < layouts; li++ {
				ph, root, b := c01Build(rng, &d)
				path := tmpFile(r, ".pdf", ph.data)
				var tags []string
				for t := range b.tags {
					tags = append(tags, t)
					dist[t]++
				}
				sort.Strings(tags)
				desc := strings.Join(tags, " ")
				nontrivial := false
				for _, pg := range d.pages {
					if len(pg.expect) > 0 {
						nontrivial = true
					}
				}
				got := c01ReadImpl(path)
				in := L(c01TreeV(&d, root), c01FontsV(&d))
				r.Case(in, got.v, fmt.Sprintf("pages:%d", len(d.pages)), nontrivial)
				replay := Bs(path)
				// the property, stated on the logical document
				ok := got.err == ""
				r.Check(ok, "read-fails", fmt.Sprintf("a well-formed file is not read (%s); layout: %s", got.err, desc), replay)
				if ok {
					r.Check(got.count == len(d.pages), "page-count", fmt.Sprintf("page count %d, the tree has %d page leaves; layout: %s", got.count, len(d.pages), desc), replay)
					for i := 0; i < len(d.pages) && i < len(got.pages); i++ {
						wb := d.pages[i].box
						gb := got.boxes[i]
						r.Check(len(gb) == 4 && int(gb[0]) == wb[0] && int(gb[1]) == wb[1] && int(gb[2]) == wb[2] && int(gb[3]) == wb[3], "page-box",
							fmt.Sprintf("page %d has MediaBox %v, read as %v; layout: %s", i+1, wb, gb, desc), replay)
						r.Check(got.rots[i] == d.pages[i].rot, "page-rotate", fmt.Sprintf("page %d has Rotate %d, read as %d; layout: %s", i+1, d.pages[i].rot, got.rots[i], desc), replay)
						want := d.pages[i].expect
						same := len(want) == len(got.pages[i])
						for k := 0; same && k < len(want); k++ {
							same = want[k] == got.pages[i][k]
						}
						r.Check(same, "page-text", fmt.Sprintf("page %d shows %q, read as %q; layout: %s", i+1, want, got.pages[i], desc), replay)
						if !same {
							break
						}
					}
				}
				// the public API on the same file
				if ok {
					func() {
						defer func() {
							if p := recover(); p != nil {
								r.Check(false, "api-panic", fmt.Sprintf("tabula.Open(...).Fragments panics: %v; layout: %s", p, desc), replay)
							}
						}()
						ext := tabula.Open(path)
						n, err := ext.PageCount()
						r.Check(err == nil && n == len(d.pages), "api-page-count", fmt.Sprintf("PageCount = %d, %v; %d page leaves; layout: %s", n, err, len(d.pages), desc), replay)
						frs, _, err := ext.Fragments()
						var all, want []string
						for _, f := range frs {
							all = append(all, f.Text)
						}
						for _, pg := range d.pages {
							want = append(want, pg.expect...)
						}
						r.Check(err == nil && strings.Join(all, "\x00") == strings.Join(want, "\x00"), "api-fragments",
							fmt.Sprintf("Fragments() gives %q (%v), the pages show %q; layout: %s", all, err, want, desc), replay)
						txt, _, err := tabula.Open(path).Text()
						r.Check(err == nil && utf8.ValidString(txt) && c09CharDiff(txt, strings.Join(want, " ")) == "", "api-text",
							fmt.Sprintf("Text() (%v) does not carry the characters shown: %s; layout: %s", err, c09CharDiff(txt, strings.Join(want, " ")), desc), replay)
					}()
				}
			}
		}
		var ks []string
		for k := range dist {
			ks = append(ks, k)
		}
		sort.Strings(ks)
		for _, k := range ks {
			r.Notes = append(r.Notes, fmt.Sprintf("layout %s: %d files", k, dist[k]))
		}
	}
}
