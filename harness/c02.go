package main

import (
	"bufio"
	"bytes"
	"fmt"
	"io"
	"os"
	"os/exec"
	"regexp"
	"runtime"
	"runtime/debug"
	"sort"
	"strconv"
	"strings"
	"sync"
	"time"

	"github.com/tsawler/tabula"
	"github.com/tsawler/tabula/contentstream"
	"github.com/tsawler/tabula/core"
	"github.com/tsawler/tabula/font"
)

// ---------- the isolated worker

// c02Entries: every public entry point that takes a file
var c02Entries = []string{"Text", "ToMarkdown", "Chunks", "Document", "Fragments", "Analyze", "PageCount", "Lines", "Text+options"}

func c02Call(entry, path string) {
	switch entry {
	case "Text":
		tabula.Open(path).Text()
	case "ToMarkdown":
		tabula.Open(path).ToMarkdown()
	case "Chunks":
		if cc, _, err := tabula.Open(path).Chunks(); err == nil && cc != nil {
			cc.ToJSONL()
			cc.ToCSV()
		}
	case "Document":
		tabula.Open(path).Document()
	case "Fragments":
		tabula.Open(path).Fragments()
	case "Analyze":
		tabula.Open(path).Analyze()
	case "PageCount":
		e := tabula.Open(path)
		e.PageCount()
		e.Close()
	case "Lines":
		tabula.Open(path).Lines()
		tabula.Open(path).Paragraphs()
		tabula.Open(path).IsCharacterLevel()
	case "Text+options":
		tabula.Open(path).ExcludeHeadersAndFooters().JoinParagraphs().Text()
		tabula.Open(path).ByColumn().Text()
		tabula.Open(path).PreserveLayout().Text()
		tabula.Open(path).Pages(1, 2).Text()
	case "raw":
		// the parsers that take bytes
		data, err := os.ReadFile(path)
		if err != nil {
			return
		}
		p := core.NewParser(bytes.NewReader(data))
		for i := 0; i < 64; i++ {
			if _, err := p.ParseObject(); err != nil {
				break
			}
		}
		core.NewParser(bytes.NewReader(data)).ParseIndirectObject()
		contentstream.NewParser(data).Parse()
		if cm, err := font.ParseToUnicodeCMap(&core.Stream{Dict: core.Dict{}, Data: data}); err == nil && cm != nil {
			cm.LookupString(data)
		}
		tabula.FromHTMLString(string(data)).Text()
	}
}

// c02Site: the first frame of the library in a panic's stack
var c02Frame = regexp.MustCompile(`(?m)^\s+/repo/([^\s:]+):(\d+)`)
var c02Func = regexp.MustCompile(`(?m)^github\.com/tsawler/tabula[/.]?(\S+)`)

func c02Site(stack string) string {
	// skip the frames of the panic itself
	if m := c02Func.FindStringSubmatch(stack); m != nil {
		f := m[1]
		if i := strings.LastIndex(f, "("); i > 0 {
			f = f[:i]
		}
		return f
	}
	if m := c02Frame.FindStringSubmatch(stack); m != nil {
		return m[1]
	}
	return "?"
}

func c02Worker() {
	debug.SetMaxStack(256 << 20)
	debug.SetGCPercent(50)
	out := bufio.NewWriter(os.Stdout)
	say := func(format string, a ...interface{}) {
		fmt.Fprintf(out, format+"\n", a...)
		out.Flush()
	}
	// memory watchdog: an allocation sized from the input shows as a heap far beyond the input
	limit := uint64(768 << 20)
	go func() {
		var ms runtime.MemStats
		for {
			time.Sleep(20 * time.Millisecond)
			runtime.ReadMemStats(&ms)
			if ms.HeapAlloc > limit || ms.StackInuse > 200<<20 {
				say("MEMORY heap=%d stack=%d", ms.HeapAlloc, ms.StackInuse)
				os.Exit(3)
			}
		}
	}()
	in := bufio.NewScanner(os.Stdin)
	in.Buffer(make([]byte, 1<<20), 1<<20)
	for in.Scan() {
		parts := strings.SplitN(in.Text(), "\t", 3)
		if len(parts) != 3 {
			continue
		}
		id, entry, path := parts[0], parts[1], parts[2]
		say("BEGIN %s", id)
		func() {
			defer func() {
				if p := recover(); p != nil {
					msg := fmt.Sprint(p)
					if len(msg) > 120 {
						msg = msg[:120]
					}
					say("PANIC %s\t%s\t%s", id, c02Site(string(debug.Stack())), strings.ReplaceAll(msg, "\n", " "))
				}
			}()
			c02Call(entry, path)
		}()
		say("END %s", id)
	}
}

// ---------- the parent side

type c02Job struct {
	id    int
	entry string
	path  string
	desc  string
	kind  string // format:fault
}

type c02Result struct {
	job     c02Job
	outcome string // ok, panic, hang, memory, abort
	site    string
	detail  string
}

type c02Proc struct {
	cmd   *exec.Cmd
	in    io.WriteCloser
	lines chan string
}

func c02Start() *c02Proc {
	cmd := exec.Command(os.Args[0], "c02worker")
	cmd.Env = append(os.Environ(), "GOMEMLIMIT=1GiB", "GOTRACEBACK=single")
	in, _ := cmd.StdinPipe()
	outp, _ := cmd.StdoutPipe()
	var errb bytes.Buffer
	cmd.Stderr = &limitedWriter{b: &errb, n: 1 << 16}
	if err := cmd.Start(); err != nil {
		panic(err)
	}
	p := &c02Proc{cmd: cmd, in: in, lines: make(chan string, 64)}
	go func() {
		sc := bufio.NewScanner(outp)
		sc.Buffer(make([]byte, 1<<20), 1<<20)
		for sc.Scan() {
			p.lines <- sc.Text()
		}
		cmd.Wait()
		// what the runtime said when it died (fatal errors go to stderr)
		s := errb.String()
		first := ""
		for _, l := range strings.Split(s, "\n") {
			if strings.HasPrefix(l, "fatal error:") || strings.HasPrefix(l, "runtime:") || strings.HasPrefix(l, "panic:") {
				first = l
				break
			}
		}
		site := c02Site(s)
		p.lines <- "DEAD " + site + "\t" + first
		close(p.lines)
	}()
	return p
}

type limitedWriter struct {
	b *bytes.Buffer
	n int
}

func (w *limitedWriter) Write(p []byte) (int, error) {
	if w.b.Len() < w.n {
		k := w.n - w.b.Len()
		if k > len(p) {
			k = len(p)
		}
		w.b.Write(p[:k])
	}
	return len(p), nil
}

// c02RunJobs: every job in an isolated worker process under a deadline; a worker that dies or hangs is replaced
func c02RunJobs(jobs []c02Job, workers int, deadline time.Duration) []c02Result {
	results := make([]c02Result, len(jobs))
	var mu sync.Mutex
	next := 0
	take := func() int {
		mu.Lock()
		defer mu.Unlock()
		if next >= len(jobs) {
			return -1
		}
		next++
		return next - 1
	}
	var wg sync.WaitGroup
	for w := 0; w < workers; w++ {
		wg.Add(1)
		go func() {
			defer wg.Done()
			var p *c02Proc
			for {
				i := take()
				if i < 0 {
					break
				}
				if p == nil {
					p = c02Start()
				}
				j := jobs[i]
				res := c02Result{job: j, outcome: "ok"}
				fmt.Fprintf(p.in, "%d\t%s\t%s\n", j.id, j.entry, j.path)
				timer := time.NewTimer(deadline)
				done := false
				for !done {
					select {
					case l, ok := <-p.lines:
						if !ok {
							if res.outcome == "ok" {
								res.outcome = "abort"
							}
							p = nil
							done = true
							break
						}
						switch {
						case strings.HasPrefix(l, "END "):
							done = true
						case strings.HasPrefix(l, "PANIC "):
							f := strings.SplitN(l, "\t", 3)
							res.outcome = "panic"
							if len(f) == 3 {
								res.site, res.detail = f[1], f[2]
							}
						case strings.HasPrefix(l, "MEMORY"):
							res.outcome, res.detail = "memory", l
						case strings.HasPrefix(l, "DEAD "):
							f := strings.SplitN(l[5:], "\t", 2)
							if res.outcome == "ok" {
								res.outcome = "abort"
							}
							res.site = f[0]
							if len(f) == 2 && res.detail == "" {
								res.detail = f[1]
							}
						}
					case <-timer.C:
						res.outcome = "hang"
						p.cmd.Process.Kill()
						for range p.lines {
						}
						p = nil
						done = true
					}
				}
				timer.Stop()
				results[i] = res
			}
			if p != nil {
				p.in.Close()
				for range p.lines {
				}
			}
		}()
	}
	wg.Wait()
	return results
}

// ---------- faults

var c02Int = regexp.MustCompile(`-?\b\d+\b`)
var c02RefRe = regexp.MustCompile(`\b(\d+) 0 R\b`)
var c02ObjRe = regexp.MustCompile(`(?s)\b\d+ 0 obj\b.*?\bendobj\b`)

type c02Fault struct {
	name string
	data []byte
}

var c02Numbers = []string{"0", "-1", "2147483648", "9223372036854775807", "4294967295", "65536"}

// faults on the text of a PDF file
func c02PDFFaults(rng *RNG, pdf []byte, n int) []c02Fault {
	var out []c02Fault
	s := string(pdf)
	add := func(name string, d string) { out = append(out, c02Fault{name, []byte(d)}) }
	for k := 0; k < n; k++ {
		switch rng.Intn(9) {
		case 0: // truncate at a token boundary
			idx := regexp.MustCompile(`\s+`).FindAllStringIndex(s, -1)
			if len(idx) > 0 {
				add("truncate", s[:idx[rng.Intn(len(idx))][0]])
			}
		case 1: // a numeric field
			idx := c02Int.FindAllStringIndex(s, -1)
			if len(idx) > 0 {
				m := idx[rng.Intn(len(idx))]
				add("number", s[:m[0]]+c02Numbers[rng.Intn(len(c02Numbers))]+s[m[1]:])
			}
		case 2: // retarget a reference: to another object, to the object that holds it, to object 0
			idx := c02RefRe.FindAllStringSubmatchIndex(s, -1)
			objs := regexp.MustCompile(`\b(\d+) 0 obj\b`).FindAllStringSubmatchIndex(s, -1)
			if len(idx) > 0 && len(objs) > 0 {
				m := idx[rng.Intn(len(idx))]
				target := "0"
				switch rng.Intn(3) {
				case 0:
					o := objs[rng.Intn(len(objs))]
					target = s[o[2]:o[3]]
				case 1:
					// the object that holds the reference
					for _, o := range objs {
						if o[0] < m[0] {
							target = s[o[2]:o[3]]
						}
					}
				}
				add("retarget", s[:m[2]]+target+s[m[3]:])
			}
		case 3: // drop or duplicate an object
			idx := c02ObjRe.FindAllStringIndex(s, -1)
			if len(idx) > 0 {
				m := idx[rng.Intn(len(idx))]
				if rng.Bool() {
					add("drop-object", s[:m[0]]+s[m[1]:])
				} else {
					add("duplicate-object", s[:m[1]]+"\n"+s[m[0]:m[1]]+s[m[1]:])
				}
			}
		case 4: // unbalance a delimiter
			idx := regexp.MustCompile(`<<|>>|\[|\]|\(|\)|<|>`).FindAllStringIndex(s, -1)
			if len(idx) > 0 {
				m := idx[rng.Intn(len(idx))]
				if rng.Bool() {
					add("delete-delimiter", s[:m[0]]+s[m[1]:])
				} else {
					add("double-delimiter", s[:m[1]]+s[m[0]:m[1]]+s[m[1]:])
				}
			}
		case 5: // corrupt stream data
			idx := regexp.MustCompile(`(?s)stream\r?\n.*?endstream`).FindAllStringIndex(s, -1)
			if len(idx) > 0 {
				m := idx[rng.Intn(len(idx))]
				b := []byte(s)
				for c := rng.Range(1, 4); c > 0 && m[1]-m[0] > 20; c-- {
					b[m[0]+8+rng.Intn(m[1]-m[0]-18)] ^= byte(1 << uint(rng.Intn(8)))
				}
				out = append(out, c02Fault{"corrupt-stream", b})
			}
		case 6: // byte noise
			b := append([]byte{}, pdf...)
			for c := rng.Range(1, 6); c > 0; c-- {
				switch rng.Intn(3) {
				case 0:
					b[rng.Intn(len(b))] = byte(rng.Intn(256))
				case 1:
					i := rng.Intn(len(b))
					b = append(b[:i], b[i+1:]...)
				case 2:
					i := rng.Intn(len(b))
					b = append(b[:i], append([]byte{byte(rng.Intn(256))}, b[i:]...)...)
				}
			}
			out = append(out, c02Fault{"bytes", b})
		case 7: // a keyword replaced
			kws := []string{"/Kids", "/Count", "/Prev", "/Length", "/Parent", "/Contents", "/Filter", "/W", "/Index", "/First", "/N", "/Size", "/Root", "/Type", "/Columns", "/Predictor", "/Font", "/Resources", "/ToUnicode", "/DescendantFonts"}
			kw := kws[rng.Intn(len(kws))]
			if i := strings.Index(s, kw); i >= 0 {
				all := regexp.MustCompile(regexp.QuoteMeta(kw)+`\b`).FindAllStringIndex(s, -1)
				if len(all) > 0 {
					m := all[rng.Intn(len(all))]
					repl := kws[rng.Intn(len(kws))]
					add("swap-key", s[:m[0]]+repl+s[m[1]:])
				}
			}
		case 8: // a value replaced by another kind of value
			idx := regexp.MustCompile(`/(Kids|Count|Prev|Length|Contents|W|Index|First|N|Size|Columns|MediaBox|Font|Resources|Filter|DecodeParms|Parent)\s+(\[[^\]]*\]|\d+ 0 R|-?\d+|/\w+)`).FindAllStringSubmatchIndex(s, -1)
			if len(idx) > 0 {
				m := idx[rng.Intn(len(idx))]
				vals := []string{"null", "[]", "<< >>", "(x)", "/Name", "true", "1.5", "[1 0 R 1 0 R]", "-7", "[[[[]]]]", "<< /Kids [1 0 R] /Type /Pages /Count 1 >>"}
				add("wrong-type", s[:m[4]]+vals[rng.Intn(len(vals))]+s[m[5]:])
			}
		}
	}
	return out
}

// faults on a ZIP container: members dropped, duplicated, truncated, numbers and tags damaged, raw zip bytes damaged
func c02ZipFaults(rng *RNG, members []zipMember, n int) []c02Fault {
	var out []c02Fault
	clone := func() []zipMember {
		c := make([]zipMember, len(members))
		for i, m := range members {
			c[i] = zipMember{Name: m.Name, Data: append([]byte{}, m.Data...)}
		}
		return c
	}
	attrNum := regexp.MustCompile(`="(-?\d+)"|>(-?\d+)<`)
	tag := regexp.MustCompile(`<[^>]+>`)
	for k := 0; k < n; k++ {
		ms := clone()
		i := rng.Intn(len(ms))
		switch rng.Intn(8) {
		case 0:
			out = append(out, c02Fault{"drop-member", writeZip(append(ms[:i], ms[i+1:]...))})
		case 1:
			out = append(out, c02Fault{"duplicate-member", writeZip(append(ms, ms[i]))})
		case 2:
			if len(ms[i].Data) > 2 {
				ms[i].Data = ms[i].Data[:rng.Intn(len(ms[i].Data))]
				out = append(out, c02Fault{"truncate-member", writeZip(ms)})
			}
		case 3:
			idx := attrNum.FindAllSubmatchIndex(ms[i].Data, -1)
			if len(idx) > 0 {
				m := idx[rng.Intn(len(idx))]
				a, b := m[2], m[3]
				if a < 0 {
					a, b = m[4], m[5]
				}
				ms[i].Data = []byte(string(ms[i].Data[:a]) + c02Numbers[rng.Intn(len(c02Numbers))] + string(ms[i].Data[b:]))
				out = append(out, c02Fault{"number", writeZip(ms)})
			}
		case 4:
			idx := tag.FindAllIndex(ms[i].Data, -1)
			if len(idx) > 0 {
				m := idx[rng.Intn(len(idx))]
				if rng.Bool() {
					ms[i].Data = append(append([]byte{}, ms[i].Data[:m[0]]...), ms[i].Data[m[1]:]...)
				} else {
					d := append([]byte{}, ms[i].Data[:m[1]]...)
					d = append(d, ms[i].Data[m[0]:m[1]]...)
					ms[i].Data = append(d, ms[i].Data[m[1]:]...)
				}
				out = append(out, c02Fault{"unbalance-tag", writeZip(ms)})
			}
		case 5:
			z := writeZip(ms)
			for c := rng.Range(1, 6); c > 0; c-- {
				z[rng.Intn(len(z))] ^= byte(1 << uint(rng.Intn(8)))
			}
			out = append(out, c02Fault{"zip-bytes", z})
		case 6:
			z := writeZip(ms)
			out = append(out, c02Fault{"truncate-zip", z[:rng.Intn(len(z))]})
		case 7:
			// a repeat / span attribute with a hostile count
			s := string(ms[i].Data)
			repl := []string{
				`table:number-columns-repeated="2147483647"`, `table:number-rows-repeated="2147483647"`, `text:c="2147483647"`,
				`<w:gridSpan w:val="2147483647"/>`, `r="XFD1048576"`, `r="ZZZZZZZZ99999999999"`, `spans="1:2147483647"`,
			}[rng.Intn(7)]
			if j := strings.Index(s, "<"); j >= 0 {
				idx := tag.FindAllStringIndex(s, -1)
				m := idx[rng.Intn(len(idx))]
				t := s[m[0]:m[1]]
				if !strings.HasPrefix(t, "</") && !strings.HasPrefix(t, "<?") && strings.HasSuffix(t, ">") {
					var nt string
					if strings.HasPrefix(repl, "<") {
						nt = t + repl
					} else if strings.HasSuffix(t, "/>") {
						nt = t[:len(t)-2] + " " + repl + "/>"
					} else {
						nt = t[:len(t)-1] + " " + repl + ">"
					}
					ms[i].Data = []byte(s[:m[0]] + nt + s[m[1]:])
					out = append(out, c02Fault{"hostile-count", writeZip(ms)})
				}
			}
		}
	}
	return out
}

func c02HTMLFaults(rng *RNG, html []byte, n int) []c02Fault {
	var out []c02Fault
	s := string(html)
	tag := regexp.MustCompile(`<[^>]+>`)
	for k := 0; k < n; k++ {
		switch rng.Intn(6) {
		case 0:
			out = append(out, c02Fault{"truncate", []byte(s[:rng.Intn(len(s)+1)])})
		case 1:
			idx := tag.FindAllStringIndex(s, -1)
			if len(idx) > 0 {
				m := idx[rng.Intn(len(idx))]
				out = append(out, c02Fault{"unbalance-tag", []byte(s[:m[0]] + s[m[1]:])})
			}
		case 2:
			depth := []int{1000, 20000, 200000}[rng.Intn(3)]
			el := []string{"div", "ul><li", "blockquote", "table><tr><td", "span", "nav", "section"}[rng.Intn(7)]
			out = append(out, c02Fault{"deep-nesting", []byte("<html><body>" + strings.Repeat("<"+el+">", depth) + "x</body></html>")})
		case 3:
			num := c02Numbers[rng.Intn(len(c02Numbers))]
			out = append(out, c02Fault{"hostile-count", []byte("<html><body><table><tr><td colspan=\"" + num + "\" rowspan=\"" + num + "\">a</td><td>b</td></tr><tr><td>c</td></tr></table><ol start=\"" + num + "\"><li>x</li></ol></body></html>")})
		case 4:
			b := []byte(s)
			for c := rng.Range(1, 6); c > 0 && len(b) > 0; c-- {
				b[rng.Intn(len(b))] = byte(rng.Intn(256))
			}
			out = append(out, c02Fault{"bytes", b})
		case 5:
			out = append(out, c02Fault{"many-entities", []byte("<html><body><p>" + strings.Repeat("&amp;&#x10FFFF;&#99999999999;&bogus;", 2000) + "</p></body></html>")})
		}
	}
	return out
}

func init() {
	props["C02"] = func(r *Run, rng *RNG) {
		thorough := r.Tier == "thorough"
		r.Rule = "valid generated documents of every format (PDF in the physical layouts of C01; DOCX, ODT, XLSX, PPTX, EPUB, HTML) damaged by one or two faults of a fixed catalogue (truncate at a token boundary; a numeric field replaced by 0, -1, 2^31, 2^32-1, 2^63-1, 65536; a reference retargeted to another object, to its holder or to object 0; an object or ZIP member dropped or duplicated; a delimiter or tag deleted or doubled; stream or ZIP bytes flipped; a dictionary key swapped; a value replaced by another kind of value; hostile repeat / span counts; deep nesting) and by random byte noise; every entry point (Text, ToMarkdown, Chunks + exports, Document, Fragments, Analyze, PageCount, Lines / Paragraphs / IsCharacterLevel, Text with options; the raw-byte parsers core.Parser, contentstream.Parser, font.ParseToUnicodeCMap, FromHTMLString) runs in an isolated worker process with a 15 s deadline, a 768 MiB heap watchdog and a 256 MiB stack limit. non-trivial = damaged inputs"
		ndocs := 12
		per := 10
		if thorough {
			ndocs = 60
			per = 30
		}
		var jobs []c02Job
		id := 0
		dist := map[string]int{}
		addInput := func(format, fault, ext string, data []byte) {
			path := tmpFile(r, ext, data)
			entries := c02Entries
			for _, e := range entries {
				jobs = append(jobs, c02Job{id: id, entry: e, path: path, kind: format + ":" + fault})
				id++
			}
			jobs = append(jobs, c02Job{id: id, entry: "raw", path: path, kind: format + ":" + fault})
			id++
			dist[format+":"+fault]++
		}
		words := func(n int, tag string) []string {
			var out []string
			for i := 0; i < n; i++ {
				out = append(out, fmt.Sprintf("%s paragraph %d with some words %d.", tag, i, rng.Intn(1000)))
			}
			return out
		}
		for di := 0; di < ndocs; di++ {
			// PDF: a random logical document in a random physical layout
			d := c01GenDoc(rng)
			pdf := c01Physical(rng, &d)
			addInput("pdf", "none", ".pdf", pdf)
			for _, f := range c02PDFFaults(rng, pdf, per) {
				addInput("pdf", f.name, ".pdf", f.data)
				if rng.Chance(1, 3) {
					// a second fault on top
					for _, g := range c02PDFFaults(rng, f.data, 1) {
						addInput("pdf", f.name+"+"+g.name, ".pdf", g.data)
					}
				}
			}
			if di%2 == 0 {
				zips := []struct {
					format, ext string
					ms          []zipMember
				}{
					{"docx", ".docx", mkDOCXSimple(words(rng.Range(2, 6), "D"))},
					{"odt", ".odt", mkODTSimple(words(rng.Range(2, 6), "O"))},
					{"xlsx", ".xlsx", mkXLSXSimple(words(rng.Range(2, 6), "X"))},
					{"pptx", ".pptx", mkPPTXSimple(words(rng.Range(2, 4), "P"))},
					{"epub", ".epub", mkEPUBSimple(words(rng.Range(2, 4), "E"))},
				}
				for _, z := range zips {
					addInput(z.format, "none", z.ext, writeZip(z.ms))
					for _, f := range c02ZipFaults(rng, z.ms, per/2) {
						addInput(z.format, f.name, z.ext, f.data)
					}
				}
				html := mkHTMLSimple(words(rng.Range(2, 6), "H"))
				addInput("html", "none", ".html", html)
				for _, f := range c02HTMLFaults(rng, html, per/2) {
					addInput("html", f.name, ".html", f.data)
				}
			}
		}
		results := c02RunJobs(jobs, 12, 15*time.Second)
		// the property on the implementation
		outcomes := map[string]int{}
		for _, res := range results {
			outcomes[res.outcome]++
			nontrivial := !strings.HasSuffix(res.job.kind, ":none")
			_ = nontrivial
			if res.outcome == "ok" {
				r.Check(true, "", "", nil)
				continue
			}
			format := strings.SplitN(res.job.kind, ":", 2)[0]
			class := fmt.Sprintf("%s:%s:%s", format, res.outcome, res.site)
			r.Check(false, class, fmt.Sprintf("%s on a %s file (%s) does not return: %s %s %s", res.job.entry, format, res.job.kind, res.outcome, res.site, res.detail), Bs(res.job.path))
		}
		var ks []string
		for k := range dist {
			ks = append(ks, k)
		}
		sort.Strings(ks)
		for _, k := range ks {
			r.Notes = append(r.Notes, fmt.Sprintf("inputs %s: %d", k, dist[k]))
		}
		r.Notes = append(r.Notes, fmt.Sprintf("outcomes: %v", outcomes))
		_ = strconv.Itoa
	}
}
